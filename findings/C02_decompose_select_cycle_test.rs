//! Side observation on the UNMODIFIED tree (goes in `circuit/tests/`).
//!
//! `connect(a, b)` copies the select provenance (`ext_select_sources`) of one side to the other.
//! Connecting a select result to one of its own branches, `connect(select(c, t, s), t)`
//! (satisfiable: `c = 1`, or `t = s`), therefore records `t -> (c, t, s)`: `t` is "a select whose
//! `t` branch is `t`". When the other branch `s` carries coefficient provenance (it was
//! decomposed or recomposed before), `decompose_ext_to_base_coeffs(t)` (or of the select result)
//! takes the select path, finds no cached coefficients for `t`, and calls itself on `t` again:
//! unbounded recursion, the process dies with a stack overflow (SIGABRT) in every build profile.
//!
//! The test asserts the property (the program compiles, runs on satisfying inputs, assigns the
//! native coefficients, rejects a violating input). On the unmodified tree the test process
//! aborts ("thread ... has overflowed its stack"), which nextest reports as SIGABRT / failed.

use p3_baby_bear::BabyBear;
use p3_circuit::CircuitBuilder;
use p3_field::extension::BinomialExtensionField;
use p3_field::{BasedVectorSpace, PrimeCharacteristicRing};

type BF = BabyBear;
type EF = BinomialExtensionField<BabyBear, 4>;

#[test]
fn decompose_after_connecting_a_select_to_its_own_branch() {
    let build = || {
        let mut b = CircuitBuilder::<EF>::new();
        let c = b.public_input();
        let t = b.public_input();
        let s = b.public_input();

        // `s` gets coefficient provenance.
        let s_coeffs = b.decompose_ext_to_base_coeffs::<BF>(s).unwrap();

        let r = b.select(c, t, s);
        // Asserts `select(c, t, s) == t`.
        b.connect(r, t);

        // Unbounded recursion on the unmodified tree.
        let t_coeffs = b.decompose_ext_to_base_coeffs::<BF>(t).unwrap();

        for (i, (&sc, &tc)) in s_coeffs.iter().zip(&t_coeffs).enumerate() {
            b.tag(sc, format!("s{i}")).unwrap();
            b.tag(tc, format!("t{i}")).unwrap();
        }
        b.build().unwrap()
    };

    let ext = |v: [u64; 4]| EF::from_basis_coefficients_slice(&v.map(BF::from_u64)).unwrap();
    let t_val = ext([5, 6, 7, 8]);
    let s_val = ext([1, 2, 3, 4]);

    // c = 1: select(c, t, s) = t, the asserted relation holds.
    let circuit = build();
    let mut runner = circuit.runner();
    runner.set_public_inputs(&[EF::ONE, t_val, s_val]).unwrap();
    let traces = runner.run().expect("satisfied program must run");
    for i in 0..4 {
        assert_eq!(
            traces.probe(&format!("t{i}")),
            Some(&EF::from(BF::from_u64(5 + i as u64)))
        );
        assert_eq!(
            traces.probe(&format!("s{i}")),
            Some(&EF::from(BF::from_u64(1 + i as u64)))
        );
    }

    // c = 0: select(c, t, s) = s != t, the run must fail.
    let circuit = build();
    let mut runner = circuit.runner();
    runner.set_public_inputs(&[EF::ZERO, t_val, s_val]).unwrap();
    assert!(runner.run().is_err());
}
