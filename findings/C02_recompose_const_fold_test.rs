//! Side observation (unmodified tree): the constant fold of `recompose_base_coeffs_to_ext*`
//! keeps only basis component 0 of every coefficient, while the ALU chain it replaces computes
//! `sum(c_i * basis_i)` with the full coefficient. The two agree only on base-embedded
//! coefficients; the builder does not check that, and the same program gives two different
//! values for the recomposition depending on whether the coefficients are constants or inputs.
//!
//! Goes in `circuit/tests/`.

use p3_baby_bear::BabyBear;
use p3_circuit::CircuitBuilder;
use p3_field::extension::BinomialExtensionField;
use p3_field::{BasedVectorSpace, PrimeCharacteristicRing};

type BF = BabyBear;
type EF = BinomialExtensionField<BF, 4>;

fn ef(c: [u64; 4]) -> EF {
    EF::from_basis_coefficients_slice(&c.map(BF::from_u64)).unwrap()
}

fn basis(i: usize) -> EF {
    let mut c = [0u64; 4];
    c[i] = 1;
    ef(c)
}

#[test]
fn recompose_of_constants_equals_recompose_of_inputs() {
    // c_0 is not base-embedded.
    let vals = [ef([1, 2, 0, 0]), ef([3, 0, 0, 0]), ef([0, 0, 0, 0]), ef([0, 0, 0, 0])];
    let expected: EF = vals.iter().enumerate().map(|(i, v)| *v * basis(i)).sum();

    // Coefficients as public inputs: ALU chain.
    let mut builder = CircuitBuilder::<EF>::new();
    let coeffs = builder.alloc_public_inputs(4, "coeffs");
    let r = builder
        .recompose_base_coeffs_to_ext_via_alu::<BF>(&coeffs)
        .unwrap();
    builder.tag(r, "r").unwrap();
    let circuit = builder.build().unwrap();
    let mut runner = circuit.runner();
    runner.set_public_inputs(&vals).unwrap();
    let traces = runner.run().unwrap();
    assert_eq!(*traces.probe("r").unwrap(), expected, "inputs");

    // Same coefficients as constants: constant fold.
    let mut builder = CircuitBuilder::<EF>::new();
    let coeffs: Vec<_> = vals.iter().map(|v| builder.define_const(*v)).collect();
    let r = builder
        .recompose_base_coeffs_to_ext_via_alu::<BF>(&coeffs)
        .unwrap();
    builder.tag(r, "r").unwrap();
    let circuit = builder.build().unwrap();
    let traces = circuit.runner().run().unwrap();
    assert_eq!(*traces.probe("r").unwrap(), expected, "constants");
}
