use p3_baby_bear::BabyBear;
use p3_circuit::ops::{AluOpKind, Op};
use p3_circuit::CircuitBuilder;
use p3_field::PrimeCharacteristicRing;

type F = BabyBear;

/// Source program asserts a*b == c*d (through connect). After dedup the emitted op list
/// no longer implies it: the relation only survives in the runner's witness_rewrite post-check.
#[test]
fn dedup_drops_relation_when_duplicate_out_is_already_mentioned() {
    let mut bld = CircuitBuilder::<F>::new();
    let c = bld.public_input();
    let d = bld.public_input();
    let a = bld.public_input();
    let b = bld.public_input();
    let _y = bld.mul(c, d);
    let x = bld.mul(a, b);
    let c2 = bld.alloc_private_input("c2");
    bld.connect(c2, c);
    let x2 = bld.mul(c2, d);
    bld.connect(x2, x);
    let circuit = bld.build().unwrap();
    for op in &circuit.ops {
        println!("{op:?}");
    }
    println!("rewrite = {:?}", circuit.witness_rewrite);
    // assignment violating the source program: a*b = 6, c*d = 35
    let vals = [5u64, 7, 2, 3];
    let mut w: Vec<Option<F>> = vec![None; circuit.witness_count as usize];
    // evaluate every emitted relation forward
    for op in &circuit.ops {
        match op {
            Op::Const { out, val } => w[out.0 as usize] = Some(*val),
            Op::Public { out, public_pos } => w[out.0 as usize] = Some(F::from_u64(vals[*public_pos])),
            Op::Alu { kind: AluOpKind::Mul, a, b, out, .. } => {
                let v = w[a.0 as usize].unwrap() * w[b.0 as usize].unwrap();
                if let Some(e) = w[out.0 as usize] { assert_eq!(e, v, "emitted relation violated"); }
                w[out.0 as usize] = Some(v);
            }
            _ => {}
        }
    }
    let muls = circuit.ops.iter().filter(|o| o.is_alu_kind(AluOpKind::Mul)).count();
    // every emitted relation holds under w although a*b != c*d: the asserted equality is gone from the op list
    assert!(muls >= 3 || false, "emitted ops ({muls} muls) are satisfied by an assignment with a*b != c*d: relation dropped");
}
