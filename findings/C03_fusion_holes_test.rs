use p3_baby_bear::BabyBear;
use p3_circuit::ops::{AluOpKind, Op};
use p3_circuit::{CircuitBuilder, WitnessId};
use p3_field::PrimeCharacteristicRing;

type F = BabyBear;

fn holds(op: &Op<F>, w: &[F], pubs: &[F]) -> bool {
    match op {
        Op::Const { out, val } => w[out.0 as usize] == *val,
        Op::Public { out, public_pos } => w[out.0 as usize] == pubs[*public_pos],
        Op::Alu { kind, a, b, c, out, intermediate_out } => {
            let g = |i: &WitnessId| w[i.0 as usize];
            let cv = c.as_ref().map(g).unwrap_or(F::ZERO);
            match kind {
                AluOpKind::Add => g(a) + g(b) == g(out),
                AluOpKind::Mul => g(a) * g(b) == g(out),
                AluOpKind::BoolCheck => g(a) * (g(a) - F::ONE) == F::ZERO && g(out) == g(a),
                AluOpKind::MulAdd => g(a) * g(b) + cv == g(out),
                AluOpKind::HornerAcc => g(intermediate_out.as_ref().unwrap()) * g(b) + cv - g(a) == g(out),
            }
        }
        _ => true,
    }
}

/// product with a CONSTANT second factor, aliased by connect to an earlier-defined public input, read once by an add:
/// the Mul is fused away and x*k == p is no longer implied by the emitted ops.
#[test]
fn fusion_drops_product_relation_when_second_factor_is_constant() {
    let mut b = CircuitBuilder::<F>::new();
    let p = b.public_input();
    let x = b.public_input();
    let e = b.public_input();
    let k = b.define_const(F::from_u32(3));
    let m = b.mul(x, k);
    b.connect(m, p);
    let r = b.add(m, e);
    let r2 = b.mul(r, x);
    let out = b.public_input();
    b.connect(r2, out);
    let c = b.build().unwrap();
    for op in &c.ops { println!("{op:?}"); }
    // assignment violating the source: x*3 = 6 but p = 7 ; r = p + e = 8 must equal out
    let pubs = [7u32, 2, 1, 14].map(F::from_u32);
    // an adversarial witness: every slot from the emitted relations, product slot := p
    let mut w = vec![F::ZERO; c.witness_count as usize];
    for _ in 0..3 { for op in &c.ops { match op {
        Op::Const { out, val } => w[out.0 as usize] = *val,
        Op::Public { out, public_pos } => w[out.0 as usize] = pubs[*public_pos],
        _ => {} } }
        // forward-evaluate the arithmetic ops that have all operands
        for op in &c.ops { if let Op::Alu { kind, a, b, c: cc, out, .. } = op {
            let g = |i: &WitnessId| w[i.0 as usize];
            let cv = cc.as_ref().map(g).unwrap_or(F::ZERO);
            let v = match kind { AluOpKind::Add => g(a) + g(b), AluOpKind::Mul => g(a) * g(b), AluOpKind::MulAdd => g(a) * g(b) + cv, _ => g(out) };
            if !matches!(op, Op::Alu { out, .. } if c.ops.iter().any(|q| matches!(q, Op::Public { out: o, .. } if o == out))) { w[out.0 as usize] = v; }
        } } }
    let all = c.ops.iter().all(|op| holds(op, &w, &pubs));
    let muls = c.ops.iter().filter(|o| o.is_alu_kind(AluOpKind::Mul)).count();
    let _ = muls; assert!(!all, "every emitted op holds for p=7, x=2 (x*3 != p): the product relation was fused away");
}

/// product read once by an add AND used as the accumulator of a Horner step: use_counts ignores the accumulator,
/// so the product is fused and left unconstrained while the Horner relation still reads it.
#[test]
fn fusion_ignores_horner_accumulator_use() {
    let mut b = CircuitBuilder::<F>::new();
    let x = b.public_input();
    let y = b.public_input();
    let kk = b.define_const(F::from_u32(5));
    let al = b.public_input();
    let z = b.public_input();
    let xx = b.public_input();
    let m = b.mul(x, y);
    let _s = b.add(m, kk);
    let h = b.horner_acc_step(m, al, z, xx);
    let o2 = b.public_input();
    b.connect(h, o2);
    let c = b.build().unwrap();
    for op in &c.ops { println!("{op:?}"); }
    let fused = c.ops.iter().any(|o| matches!(o, Op::Alu { kind: AluOpKind::MulAdd, intermediate_out: Some(_), .. }));
    let acc_is_fused_product = c.ops.iter().any(|o| match o {
        Op::Alu { kind: AluOpKind::HornerAcc, intermediate_out: Some(acc), .. } =>
            c.ops.iter().any(|q| matches!(q, Op::Alu { kind: AluOpKind::MulAdd, intermediate_out: Some(io), .. } if io == acc)),
        _ => false });
    assert!(!(fused && acc_is_fused_product), "the product slot was fused into a MulAdd (now unconstrained) although a HornerAcc step reads it as its accumulator");
}
