//! Side observation on the UNMODIFIED tree (goes into `recursion/tests/`).
//!
//! `CircuitChallenger<WIDTH, RATE, Poseidon2Config>::new_koalabear_base()` is generic in `RATE`,
//! and so is the native `DuplexChallenger<F, P, WIDTH, RATE>`. The base-field (D=1) path however
//! hard-wires the rate of the *table* (8): the executor and the compact D=1 AIR put the
//! absorb-length tag into state slot 8, while the native sponge puts it into slot `RATE`.
//! For `RATE = 4` the in-circuit challenger therefore produces a challenge that is not the native
//! one, and the proof of that circuit is accepted.
//!
//! Property asserted (C06/C05): an accepted proof's sampled challenge equals the native challenge
//! for the observed values. This test FAILS on the unmodified tree.

use p3_batch_stark::ProverData;
use p3_challenger::{CanObserve, CanSample, DuplexChallenger};
use p3_circuit::ops::{KoalaBearD1Width16, Poseidon2Config, generate_poseidon2_trace};
use p3_circuit::{Circuit, CircuitBuilder, Traces};
use p3_circuit_prover::batch_stark_prover::poseidon2_air_builders_d5;
use p3_circuit_prover::common::{NpoPreprocessor, get_airs_and_degrees_with_prep};
use p3_circuit_prover::{
    BatchStarkProver, CircuitProverData, ConstraintProfile, Poseidon2Preprocessor, TablePacking,
};
use p3_recursion::challenger::CircuitChallenger;
use p3_recursion::traits::RecursiveChallenger;
use p3_symmetric::Permutation;
use p3_test_utils::koala_bear_quintic_params::{
    Challenge, F, LiftKoalaPermForQuintic, MyConfig, Perm, WIDTH, default_koalabear_poseidon2_16,
    make_test_config,
};
use p3_test_utils::PrimeCharacteristicRing;

const CFG: Poseidon2Config = Poseidon2Config::KOALA_BEAR_D1_W16;
const R: usize = 4;

fn lift(x: F) -> Challenge {
    Challenge::new([x, F::ZERO, F::ZERO, F::ZERO, F::ZERO])
}

/// observe(blk[0..4]) ; c = sample ; c exposed as a public input.
fn build_circuit() -> Circuit<Challenge> {
    let mut b = CircuitBuilder::<Challenge>::new();
    b.enable_poseidon2_perm_base::<KoalaBearD1Width16, _>(
        generate_poseidon2_trace::<Challenge, KoalaBearD1Width16>,
        LiftKoalaPermForQuintic::new(default_koalabear_poseidon2_16()),
    );
    let mut ch: CircuitChallenger<WIDTH, R, Poseidon2Config> =
        CircuitChallenger::new_koalabear_base();
    let blk: Vec<_> = (0..R).map(|_| b.public_input()).collect();
    let c_pub = b.public_input();
    for &t in &blk {
        RecursiveChallenger::<F, Challenge>::observe(&mut ch, &mut b, t);
    }
    let c = RecursiveChallenger::<F, Challenge>::sample(&mut ch, &mut b);
    let d = b.sub(c, c_pub);
    b.assert_zero(d);
    b.build().expect("circuit builds")
}

fn prove_and_verify(
    circuit: &Circuit<Challenge>,
    traces: &Traces<Challenge>,
) -> Result<(), String> {
    let packing = TablePacking::default();
    let npo_prep: Vec<Box<dyn NpoPreprocessor<F>>> = vec![Box::new(Poseidon2Preprocessor)];
    let air_builders = poseidon2_air_builders_d5::<MyConfig>();
    let (airs_degrees, primitive_columns, non_primitive_columns) =
        get_airs_and_degrees_with_prep::<MyConfig, _, 5>(
            circuit,
            &packing,
            &npo_prep,
            &air_builders,
            ConstraintProfile::Standard,
        )
        .map_err(|e| format!("prep: {e:?}"))?;
    let (airs, degrees): (Vec<_>, Vec<usize>) = airs_degrees.into_iter().unzip();
    let cfg = make_test_config();
    let prover_data = ProverData::from_airs_and_degrees(&cfg, &airs, &degrees);
    let cpd = CircuitProverData::new(prover_data, primitive_columns, non_primitive_columns);
    let mut prover = BatchStarkProver::new(cfg).with_table_packing(packing);
    prover.register_poseidon2_table::<5>(CFG);
    let proof = prover
        .prove_all_tables(traces, &cpd)
        .map_err(|e| format!("prove: {e:?}"))?;
    prover
        .verify_all_tables::<Challenge>(&proof)
        .map_err(|e| format!("verify: {e:?}"))
}

#[test]
fn rate4_base_challenger_matches_native_rate4() {
    let blk: [F; R] = core::array::from_fn(|i| F::from_u64(1_000 + 17 * i as u64));
    let perm = default_koalabear_poseidon2_16();

    // Native RATE = 4 transcript: observe 4, sample.
    let mut native = DuplexChallenger::<F, Perm, WIDTH, R>::new(perm.clone());
    native.observe_slice(&blk);
    let c_native: F = native.sample();

    // What the D=1 table computes: tag in slot 8 instead of slot RATE = 4.
    let mut st = [F::ZERO; WIDTH];
    st[..R].copy_from_slice(&blk);
    st[8] = F::from_u64(R as u64);
    let c_table: F = perm.permute(st)[R - 1];

    let circuit = build_circuit();

    // The native value: is it what the circuit computes?
    let mut runner = circuit.runner();
    let pis: Vec<Challenge> = blk.iter().chain([c_native].iter()).map(|&x| lift(x)).collect();
    runner.set_public_inputs(&pis).unwrap();
    let native_run = runner.run();
    println!(
        "runner with the native challenge {c_native:?}: {}",
        if native_run.is_ok() { "ok" } else { "witness conflict" }
    );

    // The table value: accepted by the verifier?
    let mut runner = circuit.runner();
    let pis: Vec<Challenge> = blk.iter().chain([c_table].iter()).map(|&x| lift(x)).collect();
    runner.set_public_inputs(&pis).unwrap();
    let accepted_non_native = match runner.run() {
        Ok(traces) => prove_and_verify(&circuit, &traces).is_ok(),
        Err(_) => false,
    };
    println!("proof publishing the non-native challenge {c_table:?}: accepted = {accepted_non_native}");

    assert!(
        !(accepted_non_native && c_table != c_native),
        "C06/C05 violated on the unmodified tree: accepted proof publishes {c_table:?}, native \
         DuplexChallenger<_, _, 16, 4> gives {c_native:?}"
    );
    assert!(native_run.is_ok(), "in-circuit challenger must reproduce the native challenge");
}
