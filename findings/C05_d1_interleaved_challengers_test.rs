use p3_batch_stark::ProverData;
use p3_challenger::{CanObserve, CanSample};
use p3_circuit::ops::{KoalaBearD1Width16, Poseidon2Config, generate_poseidon2_trace};
use p3_circuit::CircuitBuilder;
use p3_circuit_prover::batch_stark_prover::poseidon2_air_builders_d5;
use p3_circuit_prover::common::{NpoPreprocessor, get_airs_and_degrees_with_prep};
use p3_circuit_prover::{
    BatchStarkProver, CircuitProverData, ConstraintProfile, Poseidon2Preprocessor, TablePacking,
};
use p3_recursion::challenger::CircuitChallenger;
use p3_recursion::traits::RecursiveChallenger;
use p3_test_utils::koala_bear_quintic_params::*;

const CFG: Poseidon2Config = Poseidon2Config::KOALA_BEAR_D1_W16;
fn lift(x: F) -> Challenge { Challenge::new([x, F::ZERO, F::ZERO, F::ZERO, F::ZERO]) }

#[test]
fn interleaved_second_challenger_changes_first_challengers_challenge() {
    let blk1: [F; RATE] = core::array::from_fn(|i| F::from_u64(1000 + 17 * i as u64));
    let blk2: [F; RATE] = core::array::from_fn(|i| F::from_u64(5000 + 17 * i as u64));
    let other: [F; RATE] = core::array::from_fn(|i| F::from_u64(9000 + i as u64));

    let mut native = Challenger::new(default_koalabear_poseidon2_16());
    native.observe_slice(&blk1);
    native.observe_slice(&blk2);
    let c_native: F = native.sample();

    let mut b = CircuitBuilder::<Challenge>::new();
    b.enable_poseidon2_perm_base::<KoalaBearD1Width16, _>(
        generate_poseidon2_trace::<Challenge, KoalaBearD1Width16>,
        LiftKoalaPermForQuintic::new(default_koalabear_poseidon2_16()),
    );
    let mut a: CircuitChallenger<WIDTH, RATE, Poseidon2Config> = CircuitChallenger::new_koalabear_base();
    let mut o: CircuitChallenger<WIDTH, RATE, Poseidon2Config> = CircuitChallenger::new_koalabear_base();
    let p1: Vec<_> = (0..RATE).map(|_| b.public_input()).collect();
    let po: Vec<_> = (0..RATE).map(|_| b.public_input()).collect();
    let p2: Vec<_> = (0..RATE).map(|_| b.public_input()).collect();
    let c_pub = b.public_input();
    for &t in &p1 { RecursiveChallenger::<F, Challenge>::observe(&mut a, &mut b, t); }
    for &t in &po { RecursiveChallenger::<F, Challenge>::observe(&mut o, &mut b, t); }
    for &t in &p2 { RecursiveChallenger::<F, Challenge>::observe(&mut a, &mut b, t); }
    let c = RecursiveChallenger::<F, Challenge>::sample(&mut a, &mut b);
    let d = b.sub(c, c_pub);
    b.assert_zero(d);
    let circuit = b.build().unwrap();

    // what the circuit actually computes: capacity of `a`'s 2nd duplexing is taken from `o`
    let perm = default_koalabear_poseidon2_16();
    let mut st = [F::ZERO; WIDTH];
    st[..RATE].copy_from_slice(&other);
    st[RATE] += F::from_u64(8);
    use p3_symmetric::Permutation;
    let mut st = perm.permute(st);
    st[..RATE].copy_from_slice(&blk2);
    st[RATE] += F::from_u64(8);
    let st = perm.permute(st);
    let c_circuit = st[RATE - 1];
    println!("native={c_native:?} circuit={c_circuit:?}");
    assert_ne!(c_native, c_circuit);

    let pis: Vec<Challenge> = blk1.iter().chain(other.iter()).chain(blk2.iter()).chain([c_circuit].iter()).map(|&x| lift(x)).collect();
    let mut runner = circuit.runner();
    runner.set_public_inputs(&pis).unwrap();
    let traces = runner.run().expect("honest run with the non-native challenge");

    let packing = TablePacking::default();
    let npo_prep: Vec<Box<dyn NpoPreprocessor<F>>> = vec![Box::new(Poseidon2Preprocessor)];
    let air_builders = poseidon2_air_builders_d5::<MyConfig>();
    let (airs_degrees, prim, npo) = get_airs_and_degrees_with_prep::<MyConfig, _, 5>(
        &circuit, &packing, &npo_prep, &air_builders, ConstraintProfile::Standard).unwrap();
    let (airs, degrees): (Vec<_>, Vec<usize>) = airs_degrees.into_iter().unzip();
    let cfg = make_test_config();
    let pd = ProverData::from_airs_and_degrees(&cfg, &airs, &degrees);
    let cpd = CircuitProverData::new(pd, prim, npo);
    let mut prover = BatchStarkProver::new(cfg).with_table_packing(packing);
    prover.register_poseidon2_table::<5>(CFG);
    let proof = prover.prove_all_tables(&traces, &cpd).unwrap();
    prover.verify_all_tables::<Challenge>(&proof).unwrap();
    println!("ACCEPTED with non-native challenge");
}
