//! C06 demonstration: in the D>1 path of `CircuitChallenger` (`duplexing_ext`) the sponge
//! *capacity* that flows from permutation k to permutation k+1 is not bound to the Poseidon2
//! table row of permutation k.  A malicious prover can substitute an arbitrary capacity and
//! obtain a valid batch-STARK proof in which the challenge sampled after the second duplexing is
//! NOT the Fiat-Shamir challenge of the observed transcript.
//!
//! What the test does (for both recompose lowerings: ALU chain and `recompose` NPO table):
//!  1. builds, with the real `CircuitBuilder` + real `CircuitChallenger::<16, 8>::new_babybear()`
//!     (BabyBear, D = 4), the circuit
//!         observe(8 public values); s1 = sample(); observe(8 public values); s2 = sample();
//!         connect(s1, public claimed_s1); connect(s2, public claimed_s2)
//!  2. prints structural evidence from the compiled circuit and from
//!     `generate_preprocessed_columns` (who creates / reads the capacity-output witness slots);
//!  3. honest run + real prove/verify, with claimed_s1/claimed_s2 = native DuplexChallenger values;
//!  4. malicious run: ONLY the witness-generation side is changed (the verifier key / preprocessed
//!     columns are taken from the honest circuit): the two capacity-output slots of permutation 1
//!     are not written by the Poseidon2 executor, and the two `ExtDecompositionHint`s that
//!     decompose them are replaced by hints returning attacker-chosen coefficients.  Everything
//!     else is produced by the unmodified runner / trace generators / prover.
//!     The attacker grinds the capacity so that the forged second challenge has 12 low zero bits.
//!  5. real prove + verify of the forged traces => verification SUCCEEDS, same transcript,
//!     same first challenge, different second challenge.

use p3_baby_bear::{BabyBear, default_babybear_poseidon2_16};
use p3_batch_stark::ProverData;
use p3_challenger::{CanObserve, CanSample, DuplexChallenger};
use p3_circuit::ops::{
    HintExecutor, NpoTypeId, Op, Poseidon2Config, generate_poseidon2_trace,
    generate_recompose_trace,
};
use p3_circuit::{Circuit, CircuitBuilder, CircuitError, ExprId, Traces, WitnessId};
use p3_circuit_prover::batch_stark_prover::{poseidon2_air_builders, recompose_air_builders};
use p3_circuit_prover::common::{NpoPreprocessor, get_airs_and_degrees_with_prep};
use p3_circuit_prover::config::{self, BabyBearConfig};
use p3_circuit_prover::{
    BatchStarkProver, CircuitProverData, ConstraintProfile, Poseidon2Preprocessor,
    RecomposePreprocessor, TablePacking,
};
use p3_field::extension::BinomialExtensionField;
use p3_field::{PrimeCharacteristicRing, PrimeField32};
use p3_poseidon2_circuit_air::BabyBearD4Width16;
use p3_recursion::challenger::CircuitChallenger;
use p3_recursion::traits::RecursiveChallenger;
use p3_symmetric::Permutation;

type F = BabyBear;
type EF = BinomialExtensionField<F, 4>;
const WIDTH: usize = 16;
const RATE: usize = 8;
const P2CFG: Poseidon2Config = Poseidon2Config::BABY_BEAR_D4_W16;

struct Built {
    circuit: Circuit<EF>,
    s1: ExprId,
    s2: ExprId,
}

/// observe(8) -> sample -> observe(8) -> sample, all values public.
fn build_circuit(recompose_npo: bool) -> Built {
    let mut b = CircuitBuilder::<EF>::new();
    b.enable_poseidon2_perm::<BabyBearD4Width16, _>(
        generate_poseidon2_trace::<EF, BabyBearD4Width16>,
        default_babybear_poseidon2_16(),
    );
    if recompose_npo {
        b.enable_recompose::<F>(generate_recompose_trace::<F, EF>);
    }

    // Public inputs, in this order: obs[0..16], claimed_s1, claimed_s2
    let obs: Vec<ExprId> = (0..16).map(|_| b.alloc_public_input("obs")).collect();
    let claimed_s1 = b.alloc_public_input("claimed_s1");
    let claimed_s2 = b.alloc_public_input("claimed_s2");

    let mut ch = CircuitChallenger::<WIDTH, RATE, Poseidon2Config>::new_babybear();
    for &o in &obs[..8] {
        RecursiveChallenger::<F, EF>::observe(&mut ch, &mut b, o);
    }
    let s1 = RecursiveChallenger::<F, EF>::sample(&mut ch, &mut b);
    for &o in &obs[8..] {
        RecursiveChallenger::<F, EF>::observe(&mut ch, &mut b, o);
    }
    let s2 = RecursiveChallenger::<F, EF>::sample(&mut ch, &mut b);

    b.connect(s1, claimed_s1);
    b.connect(s2, claimed_s2);

    Built {
        circuit: b.build().expect("circuit builds"),
        s1,
        s2,
    }
}

/// (index in ops, inputs, outputs) of every Poseidon2 perm op.
fn poseidon2_ops(c: &Circuit<EF>) -> Vec<(usize, Vec<Vec<WitnessId>>, Vec<Vec<WitnessId>>)> {
    let ty = NpoTypeId::poseidon2_perm(P2CFG);
    c.ops
        .iter()
        .enumerate()
        .filter_map(|(i, op)| match op {
            Op::NonPrimitiveOpWithExecutor {
                executor,
                inputs,
                outputs,
                ..
            } if executor.op_type() == &ty => Some((i, inputs.clone(), outputs.clone())),
            _ => None,
        })
        .collect()
}

fn describe_op(i: usize, op: &Op<EF>) -> String {
    match op {
        Op::Const { out, val } => format!("op#{i} Const out={out:?} val={val:?}"),
        Op::Public { out, public_pos } => format!("op#{i} Public out={out:?} pos={public_pos}"),
        Op::Alu {
            kind, a, b, c, out, ..
        } => format!("op#{i} Alu {kind:?} a={a:?} b={b:?} c={c:?} out={out:?}"),
        Op::Hint {
            inputs,
            outputs,
            executor,
        } => format!("op#{i} Hint {executor:?} in={inputs:?} out={outputs:?}"),
        Op::NonPrimitiveOpWithExecutor {
            executor,
            inputs,
            outputs,
            ..
        } => format!(
            "op#{i} NPO {} in={inputs:?} out={outputs:?}",
            executor.op_type().as_str()
        ),
    }
}

/// All ops that mention `w` (as input, output or hint in/out).
fn ops_touching(c: &Circuit<EF>, w: WitnessId) -> Vec<String> {
    c.ops
        .iter()
        .enumerate()
        .filter(|(_, op)| match op {
            Op::Const { out, .. } | Op::Public { out, .. } => *out == w,
            Op::Alu { a, b, c, out, .. } => *a == w || *b == w || *c == Some(w) || *out == w,
            Op::Hint {
                inputs, outputs, ..
            } => inputs.contains(&w) || outputs.contains(&w),
            Op::NonPrimitiveOpWithExecutor {
                inputs, outputs, ..
            } => inputs.iter().flatten().any(|x| *x == w) || outputs.iter().flatten().any(|x| *x == w),
        })
        .map(|(i, op)| describe_op(i, op))
        .collect()
}

/// Structural evidence (deliverable (b)).
fn print_structure(c: &Circuit<EF>) {
    let p2 = poseidon2_ops(c);
    assert_eq!(p2.len(), 2, "two duplexings => two permutations");
    for (k, (i, ins, outs)) in p2.iter().enumerate() {
        println!("  perm {} = op#{i}: inputs={ins:?} outputs={outs:?}", k + 1);
    }
    let prep = c.generate_preprocessed_columns::<4>().unwrap();
    let ty = NpoTypeId::poseidon2_perm(P2CFG);
    let rows = &prep.non_primitive[&ty];
    let per_row = rows.len() / 2;
    println!(
        "  Poseidon2 preprocessed ({} values/row; layout: 4x[in_idx,in_ctl,normal_chain_sel,merkle_chain_sel], 2x[out_idx,out_ctl], [mmcs_idx,mmcs_flag,new_start,merkle_path]):",
        per_row
    );
    for (k, row) in rows.chunks(per_row).enumerate() {
        let v: Vec<u32> = row
            .iter()
            .map(|x| {
                use p3_field::BasedVectorSpace;
                let co: &[F] = x.as_basis_coefficients_slice();
                co[0].as_canonical_u32()
            })
            .collect();
        println!("    row {k}: {v:?}");
    }
    println!("  (indices are WitnessId*4; note: only TWO output (idx,ctl) pairs per row: the rate limbs)");

    let cap_out = [p2[0].2[2][0], p2[0].2[3][0]];
    for (j, w) in cap_out.iter().enumerate() {
        println!(
            "  capacity output limb {} of perm 1 = {w:?}: ext_reads={}  is_hint_output={}",
            2 + j,
            prep.ext_reads[w.0 as usize],
            prep.hint_output_wids.contains(&w.0)
        );
        for l in ops_touching(c, *w) {
            println!("      {l}");
        }
    }
    let cap_in = [p2[1].1[2][0], p2[1].1[3][0]];
    for (j, w) in cap_in.iter().enumerate() {
        println!(
            "  capacity input limb {} of perm 2 = {w:?}: ext_reads={}",
            2 + j,
            prep.ext_reads[w.0 as usize]
        );
        for l in ops_touching(c, *w) {
            println!("      {l}");
        }
    }
    // The Poseidon2 table never exposes the capacity outputs: out slots 2,3 of perm 1 are not
    // among the (idx,ctl) output pairs of any Poseidon2 preprocessed row.
    for w in cap_out {
        let idx4 = w.0 * 4;
        for row in rows.chunks(per_row) {
            for o in 0..2 {
                use p3_field::BasedVectorSpace;
                let co: &[F] = row[16 + 2 * o].as_basis_coefficients_slice();
                assert_ne!(co[0].as_canonical_u32(), idx4, "capacity output exposed?!");
            }
        }
    }
}

/// Malicious hint: ignores its (removed) input, writes attacker-chosen base coefficients.
#[derive(Debug, Clone)]
struct ForgedCapacityHint {
    coeffs: [F; 4],
}

impl HintExecutor<EF> for ForgedCapacityHint {
    fn execute(
        &self,
        _inputs: &[WitnessId],
        outputs: &[WitnessId],
        witness: &mut [Option<EF>],
    ) -> Result<(), CircuitError> {
        assert_eq!(outputs.len(), 4);
        for (o, c) in outputs.iter().zip(self.coeffs) {
            witness[o.0 as usize] = Some(EF::from(c));
        }
        Ok(())
    }
    fn boxed(&self) -> Box<dyn HintExecutor<EF>> {
        Box::new(self.clone())
    }
}

/// Prover-side only: a witness generator that injects `forged_cap` as perm-1 capacity output.
fn malicious_witness_generator(honest: &Circuit<EF>, forged_cap: [F; 8]) -> Circuit<EF> {
    let mut c = honest.clone();
    let (p1_idx, _, outs) = poseidon2_ops(&c).remove(0);
    let cap_wids = [outs[2][0], outs[3][0]];
    // 1. the Poseidon2 executor of perm 1 no longer writes its (unexposed) capacity outputs.
    if let Op::NonPrimitiveOpWithExecutor { outputs, .. } = &mut c.ops[p1_idx] {
        outputs[2].clear();
        outputs[3].clear();
    }
    // 2. the decomposition hints of these two slots return attacker coefficients.
    let mut replaced = 0;
    for op in c.ops.iter_mut() {
        if let Op::Hint {
            inputs,
            outputs,
            executor,
        } = op
            && inputs.len() == 1
            && outputs.len() == 4
            && let Some(k) = cap_wids.iter().position(|w| *w == inputs[0])
        {
            inputs.clear();
            *executor = Box::new(ForgedCapacityHint {
                coeffs: core::array::from_fn(|i| forged_cap[4 * k + i]),
            });
            replaced += 1;
        }
    }
    assert_eq!(replaced, 2, "expected exactly two capacity decomposition hints");
    c
}

/// Prove with the real prover against the HONEST circuit's preprocessed data; verify.
/// Returns the Debug rendering of the preprocessed commitment carried by the proof.
fn prove_and_verify(
    honest: &Circuit<EF>,
    traces: &Traces<EF>,
    recompose_npo: bool,
) -> Result<String, String> {
    let stark_config = config::baby_bear();
    let table_packing = TablePacking::new(1, 1);
    let mut npo_prep: Vec<Box<dyn NpoPreprocessor<F>>> = vec![Box::new(Poseidon2Preprocessor)];
    let mut air_builders = poseidon2_air_builders::<BabyBearConfig, 4>();
    if recompose_npo {
        npo_prep.push(Box::new(RecomposePreprocessor::default()));
        air_builders.extend(recompose_air_builders(1, false));
    }
    let (airs_degrees, primitive_columns, non_primitive_columns) =
        get_airs_and_degrees_with_prep::<BabyBearConfig, _, 4>(
            honest,
            &table_packing,
            &npo_prep,
            &air_builders,
            ConstraintProfile::Standard,
        )
        .map_err(|e| format!("airs: {e:?}"))?;
    let (airs, degrees): (Vec<_>, Vec<usize>) = airs_degrees.into_iter().unzip();
    let prover_data = ProverData::from_airs_and_degrees(&stark_config, &airs, &degrees);
    let cpd = CircuitProverData::new(prover_data, primitive_columns, non_primitive_columns);

    let mut prover = BatchStarkProver::new(stark_config).with_table_packing(table_packing);
    prover.register_poseidon2_table::<4>(P2CFG);
    if recompose_npo {
        prover.register_recompose_table::<4>(false);
    }
    let proof = prover
        .prove_all_tables(traces, &cpd)
        .map_err(|e| format!("prove: {e:?}"))?;
    prover
        .verify_all_tables::<EF>(&proof)
        .map_err(|e| format!("verify: {e:?}"))?;
    Ok(format!(
        "{:?}",
        proof
            .stark_common
            .preprocessed
            .as_ref()
            .map(|g| &g.commitment)
    ))
}

/// Native model of `CircuitChallenger::duplexing` for a full-rate absorb.
fn duplex(perm: &impl Permutation<[F; WIDTH]>, cap: [F; 8], obs: &[F]) -> [F; WIDTH] {
    let mut st = [F::ZERO; WIDTH];
    st[..8].copy_from_slice(obs);
    st[8..].copy_from_slice(&cap);
    st[RATE] += F::from_u8(8); // prefix-free length tag
    perm.permute(st)
}

fn run_demo(recompose_npo: bool) {
    println!(
        "\n================ C06 demo, recompose lowering = {} ================",
        if recompose_npo { "recompose NPO table" } else { "ALU mul_add chain" }
    );
    let built = build_circuit(recompose_npo);
    let circuit = &built.circuit;
    println!("[structure of the HONEST compiled circuit]");
    print_structure(circuit);

    // ---------------- native reference ----------------
    let perm = default_babybear_poseidon2_16();
    let obs: Vec<F> = (0..16).map(|i| F::from_u32(1000 + i)).collect();
    let mut native = DuplexChallenger::<F, _, WIDTH, RATE>::new(perm.clone());
    for &o in &obs[..8] {
        native.observe(o);
    }
    let n_s1: F = native.sample();
    for &o in &obs[8..] {
        native.observe(o);
    }
    let n_s2: F = native.sample();

    let st1 = duplex(&perm, [F::ZERO; 8], &obs[..8]);
    let honest_cap: [F; 8] = core::array::from_fn(|i| st1[8 + i]);
    let st2 = duplex(&perm, honest_cap, &obs[8..]);
    assert_eq!(st1[RATE - 1], n_s1, "model matches native DuplexChallenger (s1)");
    assert_eq!(st2[RATE - 1], n_s2, "model matches native DuplexChallenger (s2)");

    // ---------------- honest run ----------------
    let mut publics: Vec<EF> = obs.iter().map(|&o| EF::from(o)).collect();
    publics.push(EF::from(n_s1));
    publics.push(EF::from(n_s2));
    let mut runner = circuit.runner();
    runner.set_public_inputs(&publics).unwrap();
    let honest_traces = runner.run().expect("honest run");
    let h_commit = prove_and_verify(circuit, &honest_traces, recompose_npo)
        .expect("honest proof must verify");
    println!("[honest]  s1={n_s1:?} s2={n_s2:?}  -> proof VERIFIES");

    // Sanity: a wrong claimed s2 with an HONEST witness generator cannot even be executed.
    {
        let mut bad = publics.clone();
        bad[17] = EF::from(n_s2 + F::ONE);
        let mut r = circuit.runner();
        r.set_public_inputs(&bad).unwrap();
        assert!(r.run().is_err(), "honest runner rejects a wrong challenge");
    }

    // ---------------- attacker: grind a capacity ----------------
    let mut forged_cap = [F::ZERO; 8];
    let mut forged_s2 = F::ZERO;
    let mut tries = 0u32;
    for k in 1u32.. {
        let cap: [F; 8] = core::array::from_fn(|i| F::from_u32(k * 7919 + i as u32));
        let s2 = duplex(&perm, cap, &obs[8..])[RATE - 1];
        if s2.as_canonical_u32() & 0xFFF == 0 {
            forged_cap = cap;
            forged_s2 = s2;
            tries = k;
            break;
        }
    }
    assert_ne!(forged_cap, honest_cap);
    assert_ne!(forged_s2, n_s2);
    println!(
        "[attack]  honest capacity after perm 1 = {:?}",
        honest_cap.map(|x| x.as_canonical_u32())
    );
    println!(
        "[attack]  forged capacity (found after {tries} native tries) = {:?}",
        forged_cap.map(|x| x.as_canonical_u32())
    );
    println!(
        "[attack]  forged s2 = {} = {:#x} (12 low bits zero); honest s2 = {}",
        forged_s2.as_canonical_u32(),
        forged_s2.as_canonical_u32(),
        n_s2.as_canonical_u32()
    );

    // ---------------- malicious run ----------------
    let evil = malicious_witness_generator(circuit, forged_cap);
    // The tampering does not touch anything the verifier key depends on.
    assert!(
        circuit.generate_preprocessed_columns::<4>().unwrap()
            == evil.generate_preprocessed_columns::<4>().unwrap(),
        "preprocessed columns unchanged by the witness-generator tampering"
    );
    let mut forged_publics = publics.clone();
    forged_publics[17] = EF::from(forged_s2); // same transcript, same s1, forged s2
    let mut runner = evil.runner();
    runner.set_public_inputs(&forged_publics).unwrap();
    let forged_traces = runner.run().expect("malicious run is internally consistent");

    // same observed transcript + same first challenge in the Public table; only claimed_s2 differs
    assert_eq!(
        honest_traces.public_trace.values[..17],
        forged_traces.public_trace.values[..17]
    );
    assert_ne!(
        honest_traces.public_trace.values[17],
        forged_traces.public_trace.values[17]
    );
    assert_eq!(honest_traces.const_trace.values, forged_traces.const_trace.values);
    let w_s1 = circuit.expr_to_widx[&built.s1];
    let w_s2 = circuit.expr_to_widx[&built.s2];
    assert_eq!(
        honest_traces.witness_trace.get_value(w_s1),
        forged_traces.witness_trace.get_value(w_s1)
    );
    println!(
        "[attack]  witness[s2 slot {w_s2:?}]: honest={:?} forged={:?}",
        honest_traces.witness_trace.get_value(w_s2).unwrap(),
        forged_traces.witness_trace.get_value(w_s2).unwrap()
    );

    // Prover data / verifier data come from the HONEST circuit.
    let res = prove_and_verify(circuit, &forged_traces, recompose_npo);
    match &res {
        Ok(f_commit) => {
            assert_eq!(&h_commit, f_commit, "same preprocessed commitment");
            println!(
                "[attack]  FORGED proof VERIFIES against the honest preprocessed commitment \
                 (same transcript, s2 {} != native {})",
                forged_s2.as_canonical_u32(),
                n_s2.as_canonical_u32()
            );
        }
        Err(e) => println!("[attack]  forged proof rejected: {e}"),
    }
    assert!(
        res.is_ok(),
        "C06 hypothesis would be FALSE: tampered capacity was rejected"
    );
}

#[test]
fn c06_capacity_not_bound_alu_recompose() {
    run_demo(false);
}

#[test]
fn c06_capacity_not_bound_npo_recompose() {
    run_demo(true);
}

/// Control experiment: tampering a RATE output (which IS CTL-exposed) the same way must fail.
#[test]
fn c06_control_rate_output_is_bound() {
    let built = build_circuit(false);
    let circuit = &built.circuit;
    let perm = default_babybear_poseidon2_16();
    let obs: Vec<F> = (0..16).map(|i| F::from_u32(1000 + i)).collect();
    let st1 = duplex(&perm, [F::ZERO; 8], &obs[..8]);
    let cap: [F; 8] = core::array::from_fn(|i| st1[8 + i]);
    let st2 = duplex(&perm, cap, &obs[8..]);

    // Tamper rate output limb 1 of perm 2 (holds s2 in its last coefficient): hint returns s2+1.
    let mut evil = circuit.clone();
    let (p2_idx, _, outs) = poseidon2_ops(&evil).remove(1);
    let rate1 = outs[1][0];
    // Same trick as for the capacity: the executor does not write the slot, the hint forges it.
    if let Op::NonPrimitiveOpWithExecutor { outputs, .. } = &mut evil.ops[p2_idx] {
        outputs[1].clear();
    }
    let mut replaced = 0;
    for op in evil.ops.iter_mut() {
        if let Op::Hint {
            inputs,
            outputs,
            executor,
        } = op
            && inputs.len() == 1
            && outputs.len() == 4
            && inputs[0] == rate1
        {
            inputs.clear();
            *executor = Box::new(ForgedCapacityHint {
                coeffs: [st2[4], st2[5], st2[6], st2[7] + F::ONE],
            });
            replaced += 1;
        }
    }
    assert_eq!(replaced, 1);
    let mut publics: Vec<EF> = obs.iter().map(|&o| EF::from(o)).collect();
    publics.push(EF::from(st1[7]));
    publics.push(EF::from(st2[7] + F::ONE));
    let mut runner = evil.runner();
    runner.set_public_inputs(&publics).unwrap();
    match runner.run() {
        Err(e) => println!("[control] runner already rejects tampered RATE output: {e:?}"),
        Ok(tr) => {
            let res = prove_and_verify(circuit, &tr, false);
            println!("[control] tampered RATE output: prove/verify result = {res:?}");
            assert!(res.is_err(), "rate outputs must be bound");
        }
    }
}
