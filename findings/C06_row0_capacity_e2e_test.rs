//! C06b end-to-end: the REAL recursive batch-STARK verifier circuit (KoalaBear quintic, D=1
//! challenger + D=1 MMCS on one Poseidon2 table) accepts an inner proof that the NATIVE verifier
//! rejects.
//!
//! This is `fibonacci_batch_stark_prover_quintic.rs` with a malicious prover:
//! * the inner proof is produced (and is only valid) under a Fiat-Shamir transcript whose sponge
//!   starts from a NON-ZERO capacity (`sponge_state[9] = SALT`) -- the standard native verifier
//!   (zero initial state) rejects it;
//! * the recursive verifier circuit is built by the unmodified library code with the standard
//!   config; the malicious prover only deviates in witness generation: the first Poseidon2
//!   permutation executed (table row 0 = the challenger's first, `new_start` permutation) gets
//!   capacity input 9 = SALT, and the same value is written in the Poseidon2 table row;
//! * the outer proof of the verifier circuit is ACCEPTED by `verify_all_tables`.
//!
//! It also prints the row structure of the Poseidon2 table of the real verifier circuit
//! (hypothesis B: challenger rows are contiguous and come first; MMCS rows follow).

mod common;

use std::sync::Arc;
use std::sync::atomic::{AtomicUsize, Ordering};

use p3_batch_stark::ProverData;
use p3_circuit::CircuitBuilder;
use p3_circuit::ops::{
    KoalaBearD1Width16, NpoTypeId, Poseidon2Config, Poseidon2Trace, generate_poseidon2_trace,
    generate_recompose_trace,
};
use p3_circuit::tables::NonPrimitiveTrace;
use p3_circuit_prover::batch_stark_prover::{poseidon2_air_builders_d5, recompose_air_builders};
use p3_circuit_prover::common::{NpoPreprocessor, get_airs_and_degrees_with_prep};
use p3_circuit_prover::{
    BatchStarkProver, CircuitProverData, ConstraintProfile, Poseidon2Preprocessor,
    RecomposePreprocessor, TablePacking,
};
use p3_lookup::logup::LogUpGadget;
use p3_recursion::pcs::fri::{FriVerifierParams, InputProofTargets, MerkleCapTargets, RecValMmcs};
use p3_recursion::pcs::set_fri_mmcs_private_data;
use p3_recursion::verifier::verify_p3_batch_proof_circuit;
use p3_symmetric::Permutation;
use p3_test_utils::koala_bear_quintic_params::*;

use crate::common::InnerFriGeneric;

type InnerFri = InnerFriGeneric<MyConfig, MyHash, MyCompress, DIGEST_ELEMS>;

const SALT_SLOT: usize = RATE + 1; // capacity element 1 (slot 8 carries the length tag)
const SALT: u64 = 123_456_789;

fn lift(b: F) -> Challenge {
    Challenge::new([b, F::ZERO, F::ZERO, F::ZERO, F::ZERO])
}

fn base(e: &Challenge) -> F {
    <Challenge as BasedVectorSpace<F>>::as_basis_coefficients_slice(e)[0]
}

/// Honest lifted Poseidon2, except that (when `forge`) the very first invocation overwrites
/// capacity input `SALT_SLOT` with `SALT` before permuting.
#[derive(Clone)]
struct ProverPerm {
    inner: Perm,
    forge: bool,
    calls: Arc<AtomicUsize>,
}

impl Permutation<[Challenge; WIDTH]> for ProverPerm {
    fn permute(&self, input: [Challenge; WIDTH]) -> [Challenge; WIDTH] {
        let call = self.calls.fetch_add(1, Ordering::SeqCst);
        let mut bases: [F; WIDTH] = core::array::from_fn(|i| base(&input[i]));
        if self.forge && call == 0 {
            bases[SALT_SLOT] = F::from_u64(SALT);
        }
        let out = self.inner.permute(bases);
        core::array::from_fn(|i| lift(out[i]))
    }
}

/// Standard test config, except the Fiat-Shamir sponge starts from a non-zero capacity.
fn make_salted_config() -> MyConfig {
    let perm = default_koalabear_poseidon2_16();
    let hash = MyHash::new(perm.clone());
    let compress = MyCompress::new(perm.clone());
    let val_mmcs = MyMmcs::new(hash, compress, 0);
    let challenge_mmcs = ChallengeMmcs::new(val_mmcs.clone());
    let fri_params = FriParameters::new_testing(challenge_mmcs, 0);
    let pcs = MyPcs::new(Dft::default(), val_mmcs, fri_params);
    let mut challenger = Challenger::new(perm);
    challenger.sponge_state[SALT_SLOT] = F::from_u64(SALT);
    MyConfig::new(pcs, challenger)
}

fn fibonacci_challenge(n: usize) -> Challenge {
    let mut a = F::ZERO;
    let mut b = F::ONE;
    for _ in 2..=n {
        let next = a + b;
        a = b;
        b = next;
    }
    b.into()
}

/// Run-length summary of the Poseidon2 table rows.
fn summarize_rows(p2: &Poseidon2Trace<F>) {
    let kind = |i: usize| {
        let op = &p2.operations[i];
        let tagged = op.input_values[RATE] != F::ZERO && op.new_start && !op.merkle_path;
        match (op.new_start, op.merkle_path) {
            (true, false) if tagged => "sponge-start(len-tag!=0: challenger)",
            (true, false) => "sponge-start(cap0=0: mmcs leaf hash)",
            (false, false) => "sponge-chained",
            (true, true) => "merkle-start",
            (false, true) => "merkle-chained",
        }
    };
    let n = p2.operations.len();
    eprintln!("[demo_c06b_e2e] Poseidon2 (KoalaBear D1 W16) table: {n} rows; run-length summary of the first runs:");
    let mut i = 0;
    let mut runs = 0;
    while i < n && runs < 8 {
        let k = kind(i);
        let mut j = i;
        while j < n && kind(j) == k {
            j += 1;
        }
        eprintln!("[demo_c06b_e2e]   rows {i:>5}..{j:>5}: {k}");
        i = j;
        runs += 1;
    }
    // Where is the last sponge row that directly follows a non-sponge (merkle) row while being
    // chained (new_start=false, merkle_path=false)? That would be an interleaved chain.
    let mut interleaved = 0usize;
    for r in 1..n {
        let cur = &p2.operations[r];
        let prev = &p2.operations[r - 1];
        if !cur.new_start && !cur.merkle_path && prev.merkle_path {
            interleaved += 1;
        }
    }
    eprintln!(
        "[demo_c06b_e2e]   chained sponge rows whose previous table row is a Merkle row: {interleaved}"
    );
}

fn run(forge: bool) -> bool {
    let n: usize = 48;

    // ---- inner circuit + inner proof -------------------------------------------------------
    let mut builder = CircuitBuilder::<Challenge>::new();
    let expected_result = builder.public_input();
    let mut a = builder.define_const(Challenge::ZERO);
    let mut b = builder.define_const(Challenge::ONE);
    for _ in 2..=n {
        let next = builder.add(a, b);
        a = b;
        b = next;
    }
    builder.connect(b, expected_result);

    let table_packing = TablePacking::new(2, 4);
    // Malicious prover: Fiat-Shamir with a non-zero initial capacity.
    let config_proving = if forge {
        make_salted_config()
    } else {
        make_test_config()
    };

    let circuit = builder.build().unwrap();
    let (airs_degrees, primitive_columns, non_primitive_columns) =
        get_airs_and_degrees_with_prep::<MyConfig, _, 5>(
            &circuit,
            &table_packing,
            &[],
            &[],
            ConstraintProfile::Standard,
        )
        .unwrap();
    let (airs, degrees): (Vec<_>, Vec<usize>) = airs_degrees.into_iter().unzip();
    let mut runner = circuit.runner();
    runner.set_public_inputs(&[fibonacci_challenge(n)]).unwrap();
    let traces = runner.run().unwrap();

    let prover_data = ProverData::from_airs_and_degrees(&config_proving, &airs, &degrees);
    let circuit_prover_data =
        CircuitProverData::new(prover_data, primitive_columns, non_primitive_columns);
    let prover = BatchStarkProver::new(config_proving).with_table_packing(table_packing.clone());
    let lookup_gadget = LogUpGadget::new();
    let batch_stark_proof = prover
        .prove_all_tables(&traces, &circuit_prover_data)
        .unwrap();

    // Native verification with the STANDARD config (zero initial sponge state).
    let native_verifier = BatchStarkProver::new(make_test_config()).with_table_packing(table_packing);
    let native = native_verifier.verify_all_tables::<Challenge>(&batch_stark_proof);
    eprintln!(
        "[demo_c06b_e2e] forge={forge}: NATIVE verifier (standard config) on the inner proof: {}",
        match &native {
            Ok(()) => "ACCEPTED".to_string(),
            Err(e) => format!("REJECTED ({e:?})"),
        }
    );
    assert_eq!(native.is_ok(), !forge, "native verifier accepts iff the transcript is standard");

    // ---- recursive verifier circuit: unmodified library code, standard config ---------------
    let common = &batch_stark_proof.stark_common;
    let scalars = test_fri_scalars();
    let fri_verifier_params = FriVerifierParams::with_mmcs(
        scalars.log_blowup,
        scalars.log_final_poly_len,
        scalars.commit_pow_bits,
        scalars.query_pow_bits,
        Poseidon2Config::KOALA_BEAR_D1_W16,
    );
    let config = make_test_config();
    let batch_proof = &batch_stark_proof.proof;
    const TRACE_D: usize = 5;
    let num_tables = common
        .preprocessed
        .as_ref()
        .map(|g| g.instances.len())
        .unwrap_or(0);
    let pis: Vec<Vec<F>> = vec![vec![]; num_tables];

    let mut circuit_builder = CircuitBuilder::<Challenge>::new();
    circuit_builder.enable_poseidon2_perm_base::<KoalaBearD1Width16, _>(
        generate_poseidon2_trace::<Challenge, KoalaBearD1Width16>,
        // Only witness generation deviates.
        ProverPerm {
            inner: default_koalabear_poseidon2_16(),
            forge,
            calls: Arc::new(AtomicUsize::new(0)),
        },
    );
    circuit_builder.enable_recompose::<F>(generate_recompose_trace::<F, Challenge>);
    circuit_builder.set_recompose_coeff_ctl_for_decompose_links(true);

    let (verifier_inputs, mmcs_op_ids) = verify_p3_batch_proof_circuit::<
        MyConfig,
        MerkleCapTargets<F, DIGEST_ELEMS>,
        InputProofTargets<F, Challenge, RecValMmcs<F, DIGEST_ELEMS, MyHash, MyCompress>>,
        InnerFri,
        LogUpGadget,
        _,
        WIDTH,
        RATE,
        TRACE_D,
    >(
        &config,
        &mut circuit_builder,
        &batch_stark_proof,
        &fri_verifier_params,
        common,
        &lookup_gadget,
        Poseidon2Config::KOALA_BEAR_D1_W16,
        &[],
    )
    .unwrap();

    let verification_circuit = circuit_builder.build().unwrap();
    let (public_inputs, private_inputs) = verifier_inputs.pack_values(&pis, batch_proof, common);

    let verification_table_packing = TablePacking::new(1, 8);
    let npo_prep: Vec<Box<dyn NpoPreprocessor<F>>> = vec![
        Box::new(Poseidon2Preprocessor),
        Box::new(RecomposePreprocessor::new(true)),
    ];
    let mut air_builders = poseidon2_air_builders_d5::<MyConfig>();
    air_builders.extend(recompose_air_builders::<MyConfig, 5>(1, true));
    let (verification_airs_degrees, verification_primitive, verification_npo) =
        get_airs_and_degrees_with_prep::<MyConfig, _, 5>(
            &verification_circuit,
            &verification_table_packing,
            &npo_prep,
            &air_builders,
            ConstraintProfile::Standard,
        )
        .unwrap();
    let (verification_airs, verification_degrees): (Vec<_>, Vec<usize>) =
        verification_airs_degrees.into_iter().unzip();

    let mut runner = verification_circuit.runner();
    runner.set_public_inputs(&public_inputs).unwrap();
    runner.set_private_inputs(&private_inputs).unwrap();
    if !mmcs_op_ids.is_empty() {
        set_fri_mmcs_private_data::<
            F,
            Challenge,
            ChallengeMmcs,
            MyMmcs,
            MyHash,
            MyCompress,
            DIGEST_ELEMS,
        >(
            &mut runner,
            &mmcs_op_ids,
            &batch_stark_proof.proof.opening_proof,
            Poseidon2Config::KOALA_BEAR_D1_W16,
        )
        .unwrap();
    }
    let mut verification_traces = match runner.run() {
        Ok(t) => t,
        Err(e) => {
            eprintln!("[demo_c06b_e2e] forge={forge}: verifier-circuit witness generation FAILED: {e:?}");
            return false;
        }
    };
    eprintln!(
        "[demo_c06b_e2e] forge={forge}: verifier-circuit witness generation succeeded \
         (every in-circuit check of the inner proof passed)"
    );

    {
        let op_type = NpoTypeId::poseidon2_perm(Poseidon2Config::KOALA_BEAR_D1_W16);
        let mut p2: Poseidon2Trace<F> = verification_traces
            .non_primitive_trace::<Poseidon2Trace<F>>(&op_type)
            .expect("poseidon2 trace present")
            .clone();
        let r0 = &p2.operations[0];
        eprintln!(
            "[demo_c06b_e2e] row 0: new_start={} merkle_path={} in_ctl[0..8]={:?} capacity inputs={:?}",
            r0.new_start,
            r0.merkle_path,
            &r0.in_ctl[..RATE],
            &r0.input_values[RATE..]
        );
        assert!(r0.new_start && !r0.merkle_path);
        // Length tag in capacity[0] => this is a challenger permutation (MMCS rows use tag 0).
        assert_ne!(r0.input_values[RATE], F::ZERO);
        if !forge {
            summarize_rows(&p2);
        }
        if forge {
            p2.operations[0].input_values[SALT_SLOT] = F::from_u64(SALT);
            let boxed: Box<dyn NonPrimitiveTrace<Challenge>> = Box::new(p2);
            verification_traces
                .non_primitive_traces
                .insert(op_type, boxed);
        }
    }

    let config3 = make_test_config();
    let verification_prover_data =
        ProverData::from_airs_and_degrees(&config3, &verification_airs, &verification_degrees);
    let verification_circuit_prover_data = CircuitProverData::new(
        verification_prover_data,
        verification_primitive,
        verification_npo,
    );
    let mut verification_prover =
        BatchStarkProver::new(config3).with_table_packing(verification_table_packing);
    verification_prover.register_poseidon2_table::<5>(Poseidon2Config::KOALA_BEAR_D1_W16);
    verification_prover.register_recompose_table::<5>(true);

    let verification_proof = match verification_prover
        .prove_all_tables(&verification_traces, &verification_circuit_prover_data)
    {
        Ok(p) => p,
        Err(e) => {
            eprintln!("[demo_c06b_e2e] forge={forge}: outer prover error: {e:?}");
            return false;
        }
    };
    match verification_prover.verify_all_tables::<Challenge>(&verification_proof) {
        Ok(()) => {
            eprintln!(
                "[demo_c06b_e2e] forge={forge}: OUTER proof of the recursive verifier circuit: \
                 ACCEPTED by verify_all_tables"
            );
            true
        }
        Err(e) => {
            eprintln!("[demo_c06b_e2e] forge={forge}: OUTER proof REJECTED: {e:?}");
            false
        }
    }
}

#[test]
fn honest_recursion_is_accepted() {
    assert!(run(false));
}

/// Inner proof rejected by the native verifier, yet the recursive verification of it yields an
/// accepted outer proof (row-0 capacity of the Poseidon2 table is unconstrained).
#[test]
fn recursion_accepts_inner_proof_that_native_verifier_rejects() {
    assert!(
        run(true),
        "expected the gap to reproduce: outer proof accepted for a natively-invalid inner proof"
    );
    eprintln!(
        "[demo_c06b_e2e] SOUNDNESS GAP (end-to-end): the recursive verifier certified an inner \
         proof that the native verifier rejects"
    );
}
