//! C06b regression test: the capacity inputs of a D=1 sponge chain start must be pinned to
//! `(length tag, 0, 0, ...)` by the compact D=1 Poseidon2 AIR on EVERY table row, including
//! table row 0 (the Fiat-Shamir challenger's first permutation in the recursive verifier).
//!
//! Same harness as the `demo_c06b` / `demo_c06b_e2e` forging demos (malicious prover: only the
//! witness-generation permutation and the Poseidon2 table row inputs are tampered with), but
//! asserting the CORRECT behaviour:
//! * honest proofs are accepted (`small::honest_*`, `e2e::honest_recursion_is_accepted`);
//! * forged row-0 capacity is REJECTED (`small::row0_forged_capacity_*`,
//!   `e2e::recursion_rejects_inner_proof_that_native_verifier_rejects`);
//! * controls (forged rate slot, forged capacity on row 1, wrong claimed challenge) are rejected.
//!
//! Passes with the chain-start constraint applied cyclically (last row -> row 0); fails on the
//! `when_transition()`-only version.

mod common;

mod small {
    use std::panic::{AssertUnwindSafe, catch_unwind};
    use std::sync::Arc;
    use std::sync::atomic::{AtomicUsize, Ordering};

    use p3_batch_stark::ProverData;
    use p3_challenger::{CanObserve, CanSample, DuplexChallenger};
    use p3_circuit::CircuitBuilder;
    use p3_circuit::ops::{
        KoalaBearD1Width16, NpoTypeId, Poseidon2Config, Poseidon2Trace, generate_poseidon2_trace,
    };
    use p3_circuit::tables::NonPrimitiveTrace;
    use p3_circuit_prover::batch_stark_prover::poseidon2_air_builders_d5;
    use p3_circuit_prover::common::{NpoPreprocessor, get_airs_and_degrees_with_prep};
    use p3_circuit_prover::{
        BatchStarkProver, CircuitProverData, ConstraintProfile, Poseidon2Preprocessor, TablePacking,
    };
    use p3_recursion::challenger::CircuitChallenger;
    use p3_recursion::traits::RecursiveChallenger;
    use p3_symmetric::Permutation;
    use p3_test_utils::koala_bear_quintic_params::*;

    /// Observed transcript of challenger k (fewer than RATE values => one partial-absorb duplexing).
    const OBSERVED: [[u64; 3]; 2] = [[500, 501, 502], [600, 601, 602]];
    const FORGED_VALUE: u64 = 123_456_789;

    fn lift(b: F) -> Challenge {
        Challenge::new([b, F::ZERO, F::ZERO, F::ZERO, F::ZERO])
    }

    fn base(e: &Challenge) -> F {
        <Challenge as BasedVectorSpace<F>>::as_basis_coefficients_slice(e)[0]
    }

    /// What the deviating prover does: on Poseidon2 table row `row`, overwrite input `slot` with
    /// `FORGED_VALUE` (the rest of the row is the honest permutation of the resulting state).
    #[derive(Clone, Copy, Debug)]
    struct Forge {
        row: usize,
        slot: usize,
    }

    /// Permutation handed to the circuit executor. Honest lifted Poseidon2, except that the
    /// `forge.row`-th invocation (= `forge.row`-th Poseidon2 table row) first overwrites one input.
    #[derive(Clone)]
    struct ProverPerm {
        inner: Perm,
        forge: Option<Forge>,
        calls: Arc<AtomicUsize>,
    }

    impl Permutation<[Challenge; WIDTH]> for ProverPerm {
        fn permute(&self, input: [Challenge; WIDTH]) -> [Challenge; WIDTH] {
            let call = self.calls.fetch_add(1, Ordering::SeqCst);
            let mut bases: [F; WIDTH] = core::array::from_fn(|i| base(&input[i]));
            if let Some(f) = self.forge
                && f.row == call
            {
                bases[f.slot] = F::from_u64(FORGED_VALUE);
            }
            let out = self.inner.permute(bases);
            core::array::from_fn(|i| lift(out[i]))
        }
    }

    /// Native `DuplexChallenger` challenge for transcript `k`.
    fn native_challenge(k: usize) -> F {
        let mut native =
            DuplexChallenger::<F, Perm, WIDTH, RATE>::new(default_koalabear_poseidon2_16());
        for v in OBSERVED[k] {
            native.observe(F::from_u64(v));
        }
        native.sample()
    }

    /// The "challenge" produced by the deviating prover's sponge for transcript `k`: Poseidon2 of
    /// (observed values, zero padding, length tag in capacity[0]) with `slot` overwritten.
    fn forged_challenge(k: usize, slot: usize) -> F {
        let mut state = [F::ZERO; WIDTH];
        for (i, v) in OBSERVED[k].iter().enumerate() {
            state[i] = F::from_u64(*v);
        }
        state[RATE] = F::from_u64(OBSERVED[k].len() as u64);
        state[slot] = F::from_u64(FORGED_VALUE);
        default_koalabear_poseidon2_16().permute(state)[RATE - 1]
    }

    /// Build the circuit with `claimed.len()` challengers, run the (possibly deviating) prover with
    /// `claimed[k]` as the public "sampled challenge" of challenger `k`, and report whether
    /// `verify_all_tables` accepts.
    fn prove_and_verify(label: &str, forge: Option<Forge>, claimed: &[F]) -> bool {
        let n = claimed.len();
        prove_and_verify_with(label, forge, claimed, n, true, |builder| {
            for obs in OBSERVED.iter().take(n) {
                // The real D=1 in-circuit challenger.
                let mut challenger =
                    CircuitChallenger::<WIDTH, RATE, Poseidon2Config>::new_koalabear_base();
                for v in obs {
                    let t = builder.define_const(lift(F::from_u64(*v)));
                    RecursiveChallenger::<F, Challenge>::observe(&mut challenger, builder, t);
                }
                let sampled = RecursiveChallenger::<F, Challenge>::sample(&mut challenger, builder);
                // The sampled challenge is exposed: it must equal the public input.
                let claimed_pi = builder.public_input();
                let diff = builder.sub(sampled, claimed_pi);
                builder.assert_zero(diff);
            }
        })
    }

    /// Generic driver: `build` emits the circuit (one public input per entry of `claimed`).
    fn prove_and_verify_with(
        label: &str,
        forge: Option<Forge>,
        claimed: &[F],
        expected_rows: usize,
        all_chain_starts: bool,
        build: impl FnOnce(&mut CircuitBuilder<Challenge>),
    ) -> bool {
        let n = expected_rows;
        let mut builder = CircuitBuilder::<Challenge>::new();
        builder.enable_poseidon2_perm_base::<KoalaBearD1Width16, _>(
            generate_poseidon2_trace::<Challenge, KoalaBearD1Width16>,
            ProverPerm {
                inner: default_koalabear_poseidon2_16(),
                forge,
                calls: Arc::new(AtomicUsize::new(0)),
            },
        );

        build(&mut builder);

        let circuit = builder.build().expect("circuit should build");

        let table_packing = TablePacking::default();
        let npo_prep: Vec<Box<dyn NpoPreprocessor<F>>> = vec![Box::new(Poseidon2Preprocessor)];
        let air_builders = poseidon2_air_builders_d5::<MyConfig>();
        let (airs_degrees, primitive_columns, non_primitive_columns) =
            get_airs_and_degrees_with_prep::<MyConfig, _, 5>(
                &circuit,
                &table_packing,
                &npo_prep,
                &air_builders,
                ConstraintProfile::Standard,
            )
            .expect("airs and degrees");
        let (airs, degrees): (Vec<_>, Vec<usize>) = airs_degrees.into_iter().unzip();

        let mut runner = circuit.runner();
        let pis: Vec<Challenge> = claimed.iter().map(|c| lift(*c)).collect();
        runner.set_public_inputs(&pis).expect("public inputs");
        let mut traces = match runner.run() {
            Ok(t) => t,
            Err(e) => {
                eprintln!("[demo_c06b] {label}: REJECTED (witness generation refused: {e:?})");
                return false;
            }
        };

        {
            let op_type = NpoTypeId::poseidon2_perm(Poseidon2Config::KOALA_BEAR_D1_W16);
            let mut p2: Poseidon2Trace<F> = traces
                .non_primitive_trace::<Poseidon2Trace<F>>(&op_type)
                .expect("poseidon2 trace present")
                .clone();
            assert_eq!(p2.operations.len(), n, "expected number of Poseidon2 rows");
            for (k, op) in p2.operations.iter().enumerate() {
                assert!(!op.merkle_path, "row {k} is a sponge row");
                if all_chain_starts {
                    assert!(op.new_start, "row {k} is a sponge chain start");
                }
            }
            if let Some(f) = forge {
                // The deviating prover writes the forged input into its Poseidon2 table row, so that
                // the row is a genuine Poseidon2 evaluation of the forged state.
                p2.operations[f.row].input_values[f.slot] = F::from_u64(FORGED_VALUE);
                let boxed: Box<dyn NonPrimitiveTrace<Challenge>> = Box::new(p2);
                traces.non_primitive_traces.insert(op_type, boxed);
            }
        }

        let config = make_test_config();
        let prover_data = ProverData::from_airs_and_degrees(&config, &airs, &degrees);
        let circuit_prover_data =
            CircuitProverData::new(prover_data, primitive_columns, non_primitive_columns);
        let mut prover = BatchStarkProver::new(config).with_table_packing(table_packing);
        prover.register_poseidon2_table::<5>(Poseidon2Config::KOALA_BEAR_D1_W16);

        // A rejected proof may surface as a prover error, a debug-assertion panic in the prover's
        // own constraint/lookup self-checks (debug builds), or a verifier error. All are "rejected".
        let outcome = catch_unwind(AssertUnwindSafe(|| {
            let proof = match prover.prove_all_tables(&traces, &circuit_prover_data) {
                Ok(p) => p,
                Err(e) => {
                    eprintln!("[demo_c06b] {label}: REJECTED (prover error: {e:?})");
                    return false;
                }
            };
            match prover.verify_all_tables::<Challenge>(&proof) {
                Ok(()) => {
                    eprintln!("[demo_c06b] {label}: ACCEPTED by verify_all_tables");
                    true
                }
                Err(e) => {
                    eprintln!("[demo_c06b] {label}: REJECTED (verifier error: {e:?})");
                    false
                }
            }
        }));
        outcome.unwrap_or_else(|_| {
            eprintln!(
                "[demo_c06b] {label}: REJECTED (prover constraint/lookup self-check panicked)"
            );
            false
        })
    }

    #[test]
    fn honest_native_challenge_is_accepted() {
        assert!(prove_and_verify(
            "honest N=1, claimed = native",
            None,
            &[native_challenge(0)]
        ));
        assert!(prove_and_verify(
            "honest N=2, claimed = native",
            None,
            &[native_challenge(0), native_challenge(1)]
        ));
    }

    #[test]
    fn honest_wrong_challenge_is_rejected() {
        assert!(!prove_and_verify(
            "honest N=1, claimed = native + 1",
            None,
            &[native_challenge(0) + F::ONE]
        ));
    }

    /// Capacity input 9 of the challenger's first (new_start) permutation, table row 0: must be
    /// pinned to zero by the AIR, so a proof sampling a non-native challenge is rejected.
    #[test]
    fn row0_forged_capacity_is_rejected() {
        let slot = RATE + 1;
        let native = native_challenge(0);
        let forged = forged_challenge(0, slot);
        assert_ne!(forged, native);
        eprintln!("[demo_c06b] native challenge = {native:?}, forged challenge = {forged:?}");
        assert!(
            !prove_and_verify(
                "FORGED capacity slot 9 on row 0 (N=1), claimed = forged (non-native)",
                Some(Forge { row: 0, slot }),
                &[forged],
            ),
            "row-0 capacity of a sponge chain start must be constrained"
        );
    }

    /// Same on capacity slot 8 (the prefix-free length-tag slot): honest value 3, forged arbitrary.
    #[test]
    fn row0_forged_capacity_tag_slot_is_rejected() {
        let slot = RATE;
        let native = native_challenge(0);
        let forged = forged_challenge(0, slot);
        assert_ne!(forged, native);
        assert!(
            !prove_and_verify(
                "FORGED capacity slot 8 (length tag) on row 0 (N=1), claimed = forged (non-native)",
                Some(Forge { row: 0, slot }),
                &[forged],
            ),
            "row-0 length-tag slot must equal the preprocessed tag"
        );
    }

    /// Control 1: same harness, same row, but a RATE slot (zero padding slot 5). Rate inputs are
    /// CTL-bound on the WitnessChecks bus -> rejected.
    #[test]
    fn row0_forged_rate_padding_is_rejected() {
        let slot = 5;
        let forged = forged_challenge(0, slot);
        assert_ne!(forged, native_challenge(0));
        assert!(!prove_and_verify(
            "CONTROL forged RATE slot 5 on row 0 (N=1), claimed = forged",
            Some(Forge { row: 0, slot }),
            &[forged],
        ));
    }

    /// Control 2: same tampering (capacity slot 9 of a new_start row), but on a chain start that
    /// is table row 1 (second challenger). The chain-start constraint evaluated on row 0 pins
    /// row 1's capacity -> rejected (was already the case before the row-0 fix).
    #[test]
    fn row1_forged_capacity_is_rejected() {
        let slot = RATE + 1;
        let forged = forged_challenge(1, slot);
        assert_ne!(forged, native_challenge(1));
        assert!(!prove_and_verify(
            "CONTROL forged capacity slot 9 on row 1 (N=2), claimed = [native, forged]",
            Some(Forge { row: 1, slot }),
            &[native_challenge(0), forged],
        ));
    }

    /// Two challengers, tamper the first one (row 0): rejected as well.
    #[test]
    fn row0_forged_capacity_two_challengers_is_rejected() {
        let slot = RATE + 1;
        let forged = forged_challenge(0, slot);
        assert_ne!(forged, native_challenge(0));
        assert!(!prove_and_verify(
            "FORGED capacity slot 9 on row 0 (N=2), claimed = [forged, native]",
            Some(Forge { row: 0, slot }),
            &[forged, native_challenge(1)],
        ));
    }
}

mod e2e {
    use std::sync::Arc;
    use std::sync::atomic::{AtomicUsize, Ordering};

    use p3_batch_stark::ProverData;
    use p3_circuit::CircuitBuilder;
    use p3_circuit::ops::{
        KoalaBearD1Width16, NpoTypeId, Poseidon2Config, Poseidon2Trace, generate_poseidon2_trace,
        generate_recompose_trace,
    };
    use p3_circuit::tables::NonPrimitiveTrace;
    use p3_circuit_prover::batch_stark_prover::{
        poseidon2_air_builders_d5, recompose_air_builders,
    };
    use p3_circuit_prover::common::{NpoPreprocessor, get_airs_and_degrees_with_prep};
    use p3_circuit_prover::{
        BatchStarkProver, CircuitProverData, ConstraintProfile, Poseidon2Preprocessor,
        RecomposePreprocessor, TablePacking,
    };
    use p3_lookup::logup::LogUpGadget;
    use p3_recursion::pcs::fri::{
        FriVerifierParams, InputProofTargets, MerkleCapTargets, RecValMmcs,
    };
    use p3_recursion::pcs::set_fri_mmcs_private_data;
    use p3_recursion::verifier::verify_p3_batch_proof_circuit;
    use p3_symmetric::Permutation;
    use p3_test_utils::koala_bear_quintic_params::*;

    use crate::common::InnerFriGeneric;

    type InnerFri = InnerFriGeneric<MyConfig, MyHash, MyCompress, DIGEST_ELEMS>;

    const SALT_SLOT: usize = RATE + 1; // capacity element 1 (slot 8 carries the length tag)
    const SALT: u64 = 123_456_789;

    fn lift(b: F) -> Challenge {
        Challenge::new([b, F::ZERO, F::ZERO, F::ZERO, F::ZERO])
    }

    fn base(e: &Challenge) -> F {
        <Challenge as BasedVectorSpace<F>>::as_basis_coefficients_slice(e)[0]
    }

    /// Honest lifted Poseidon2, except that (when `forge`) the very first invocation overwrites
    /// capacity input `SALT_SLOT` with `SALT` before permuting.
    #[derive(Clone)]
    struct ProverPerm {
        inner: Perm,
        forge: bool,
        calls: Arc<AtomicUsize>,
    }

    impl Permutation<[Challenge; WIDTH]> for ProverPerm {
        fn permute(&self, input: [Challenge; WIDTH]) -> [Challenge; WIDTH] {
            let call = self.calls.fetch_add(1, Ordering::SeqCst);
            let mut bases: [F; WIDTH] = core::array::from_fn(|i| base(&input[i]));
            if self.forge && call == 0 {
                bases[SALT_SLOT] = F::from_u64(SALT);
            }
            let out = self.inner.permute(bases);
            core::array::from_fn(|i| lift(out[i]))
        }
    }

    /// Standard test config, except the Fiat-Shamir sponge starts from a non-zero capacity.
    fn make_salted_config() -> MyConfig {
        let perm = default_koalabear_poseidon2_16();
        let hash = MyHash::new(perm.clone());
        let compress = MyCompress::new(perm.clone());
        let val_mmcs = MyMmcs::new(hash, compress, 0);
        let challenge_mmcs = ChallengeMmcs::new(val_mmcs.clone());
        let fri_params = FriParameters::new_testing(challenge_mmcs, 0);
        let pcs = MyPcs::new(Dft::default(), val_mmcs, fri_params);
        let mut challenger = Challenger::new(perm);
        challenger.sponge_state[SALT_SLOT] = F::from_u64(SALT);
        MyConfig::new(pcs, challenger)
    }

    fn fibonacci_challenge(n: usize) -> Challenge {
        let mut a = F::ZERO;
        let mut b = F::ONE;
        for _ in 2..=n {
            let next = a + b;
            a = b;
            b = next;
        }
        b.into()
    }

    /// Run-length summary of the Poseidon2 table rows.
    fn summarize_rows(p2: &Poseidon2Trace<F>) {
        let kind = |i: usize| {
            let op = &p2.operations[i];
            let tagged = op.input_values[RATE] != F::ZERO && op.new_start && !op.merkle_path;
            match (op.new_start, op.merkle_path) {
                (true, false) if tagged => "sponge-start(len-tag!=0: challenger)",
                (true, false) => "sponge-start(cap0=0: mmcs leaf hash)",
                (false, false) => "sponge-chained",
                (true, true) => "merkle-start",
                (false, true) => "merkle-chained",
            }
        };
        let n = p2.operations.len();
        eprintln!(
            "[demo_c06b_e2e] Poseidon2 (KoalaBear D1 W16) table: {n} rows; run-length summary of the first runs:"
        );
        let mut i = 0;
        let mut runs = 0;
        while i < n && runs < 8 {
            let k = kind(i);
            let mut j = i;
            while j < n && kind(j) == k {
                j += 1;
            }
            eprintln!("[demo_c06b_e2e]   rows {i:>5}..{j:>5}: {k}");
            i = j;
            runs += 1;
        }
        // Where is the last sponge row that directly follows a non-sponge (merkle) row while being
        // chained (new_start=false, merkle_path=false)? That would be an interleaved chain.
        let mut interleaved = 0usize;
        for r in 1..n {
            let cur = &p2.operations[r];
            let prev = &p2.operations[r - 1];
            if !cur.new_start && !cur.merkle_path && prev.merkle_path {
                interleaved += 1;
            }
        }
        eprintln!(
            "[demo_c06b_e2e]   chained sponge rows whose previous table row is a Merkle row: {interleaved}"
        );
    }

    fn run(forge: bool) -> bool {
        let n: usize = 48;

        // ---- inner circuit + inner proof -------------------------------------------------------
        let mut builder = CircuitBuilder::<Challenge>::new();
        let expected_result = builder.public_input();
        let mut a = builder.define_const(Challenge::ZERO);
        let mut b = builder.define_const(Challenge::ONE);
        for _ in 2..=n {
            let next = builder.add(a, b);
            a = b;
            b = next;
        }
        builder.connect(b, expected_result);

        let table_packing = TablePacking::new(2, 4);
        // Malicious prover: Fiat-Shamir with a non-zero initial capacity.
        let config_proving = if forge {
            make_salted_config()
        } else {
            make_test_config()
        };

        let circuit = builder.build().unwrap();
        let (airs_degrees, primitive_columns, non_primitive_columns) =
            get_airs_and_degrees_with_prep::<MyConfig, _, 5>(
                &circuit,
                &table_packing,
                &[],
                &[],
                ConstraintProfile::Standard,
            )
            .unwrap();
        let (airs, degrees): (Vec<_>, Vec<usize>) = airs_degrees.into_iter().unzip();
        let mut runner = circuit.runner();
        runner.set_public_inputs(&[fibonacci_challenge(n)]).unwrap();
        let traces = runner.run().unwrap();

        let prover_data = ProverData::from_airs_and_degrees(&config_proving, &airs, &degrees);
        let circuit_prover_data =
            CircuitProverData::new(prover_data, primitive_columns, non_primitive_columns);
        let prover =
            BatchStarkProver::new(config_proving).with_table_packing(table_packing.clone());
        let lookup_gadget = LogUpGadget::new();
        let batch_stark_proof = prover
            .prove_all_tables(&traces, &circuit_prover_data)
            .unwrap();

        // Native verification with the STANDARD config (zero initial sponge state).
        let native_verifier =
            BatchStarkProver::new(make_test_config()).with_table_packing(table_packing);
        let native = native_verifier.verify_all_tables::<Challenge>(&batch_stark_proof);
        eprintln!(
            "[demo_c06b_e2e] forge={forge}: NATIVE verifier (standard config) on the inner proof: {}",
            match &native {
                Ok(()) => "ACCEPTED".to_string(),
                Err(e) => format!("REJECTED ({e:?})"),
            }
        );
        assert_eq!(
            native.is_ok(),
            !forge,
            "native verifier accepts iff the transcript is standard"
        );

        // ---- recursive verifier circuit: unmodified library code, standard config ---------------
        let common = &batch_stark_proof.stark_common;
        let scalars = test_fri_scalars();
        let fri_verifier_params = FriVerifierParams::with_mmcs(
            scalars.log_blowup,
            scalars.log_final_poly_len,
            scalars.commit_pow_bits,
            scalars.query_pow_bits,
            Poseidon2Config::KOALA_BEAR_D1_W16,
        );
        let config = make_test_config();
        let batch_proof = &batch_stark_proof.proof;
        const TRACE_D: usize = 5;
        let num_tables = common
            .preprocessed
            .as_ref()
            .map(|g| g.instances.len())
            .unwrap_or(0);
        let pis: Vec<Vec<F>> = vec![vec![]; num_tables];

        let mut circuit_builder = CircuitBuilder::<Challenge>::new();
        circuit_builder.enable_poseidon2_perm_base::<KoalaBearD1Width16, _>(
            generate_poseidon2_trace::<Challenge, KoalaBearD1Width16>,
            // Only witness generation deviates.
            ProverPerm {
                inner: default_koalabear_poseidon2_16(),
                forge,
                calls: Arc::new(AtomicUsize::new(0)),
            },
        );
        circuit_builder.enable_recompose::<F>(generate_recompose_trace::<F, Challenge>);
        circuit_builder.set_recompose_coeff_ctl_for_decompose_links(true);

        let (verifier_inputs, mmcs_op_ids) = verify_p3_batch_proof_circuit::<
            MyConfig,
            MerkleCapTargets<F, DIGEST_ELEMS>,
            InputProofTargets<F, Challenge, RecValMmcs<F, DIGEST_ELEMS, MyHash, MyCompress>>,
            InnerFri,
            LogUpGadget,
            _,
            WIDTH,
            RATE,
            TRACE_D,
        >(
            &config,
            &mut circuit_builder,
            &batch_stark_proof,
            &fri_verifier_params,
            common,
            &lookup_gadget,
            Poseidon2Config::KOALA_BEAR_D1_W16,
            &[],
        )
        .unwrap();

        let verification_circuit = circuit_builder.build().unwrap();
        let (public_inputs, private_inputs) =
            verifier_inputs.pack_values(&pis, batch_proof, common);

        let verification_table_packing = TablePacking::new(1, 8);
        let npo_prep: Vec<Box<dyn NpoPreprocessor<F>>> = vec![
            Box::new(Poseidon2Preprocessor),
            Box::new(RecomposePreprocessor::new(true)),
        ];
        let mut air_builders = poseidon2_air_builders_d5::<MyConfig>();
        air_builders.extend(recompose_air_builders::<MyConfig, 5>(1, true));
        let (verification_airs_degrees, verification_primitive, verification_npo) =
            get_airs_and_degrees_with_prep::<MyConfig, _, 5>(
                &verification_circuit,
                &verification_table_packing,
                &npo_prep,
                &air_builders,
                ConstraintProfile::Standard,
            )
            .unwrap();
        let (verification_airs, verification_degrees): (Vec<_>, Vec<usize>) =
            verification_airs_degrees.into_iter().unzip();

        let mut runner = verification_circuit.runner();
        runner.set_public_inputs(&public_inputs).unwrap();
        runner.set_private_inputs(&private_inputs).unwrap();
        if !mmcs_op_ids.is_empty() {
            set_fri_mmcs_private_data::<
                F,
                Challenge,
                ChallengeMmcs,
                MyMmcs,
                MyHash,
                MyCompress,
                DIGEST_ELEMS,
            >(
                &mut runner,
                &mmcs_op_ids,
                &batch_stark_proof.proof.opening_proof,
                Poseidon2Config::KOALA_BEAR_D1_W16,
            )
            .unwrap();
        }
        let mut verification_traces = match runner.run() {
            Ok(t) => t,
            Err(e) => {
                eprintln!(
                    "[demo_c06b_e2e] forge={forge}: verifier-circuit witness generation FAILED: {e:?}"
                );
                return false;
            }
        };
        eprintln!(
            "[demo_c06b_e2e] forge={forge}: verifier-circuit witness generation succeeded \
             (every in-circuit check of the inner proof passed)"
        );

        {
            let op_type = NpoTypeId::poseidon2_perm(Poseidon2Config::KOALA_BEAR_D1_W16);
            let mut p2: Poseidon2Trace<F> = verification_traces
                .non_primitive_trace::<Poseidon2Trace<F>>(&op_type)
                .expect("poseidon2 trace present")
                .clone();
            let r0 = &p2.operations[0];
            eprintln!(
                "[demo_c06b_e2e] row 0: new_start={} merkle_path={} in_ctl[0..8]={:?} capacity inputs={:?}",
                r0.new_start,
                r0.merkle_path,
                &r0.in_ctl[..RATE],
                &r0.input_values[RATE..]
            );
            assert!(r0.new_start && !r0.merkle_path);
            // Length tag in capacity[0] => this is a challenger permutation (MMCS rows use tag 0).
            assert_ne!(r0.input_values[RATE], F::ZERO);
            if !forge {
                summarize_rows(&p2);
            }
            if forge {
                p2.operations[0].input_values[SALT_SLOT] = F::from_u64(SALT);
                let boxed: Box<dyn NonPrimitiveTrace<Challenge>> = Box::new(p2);
                verification_traces
                    .non_primitive_traces
                    .insert(op_type, boxed);
            }
        }

        let config3 = make_test_config();
        let verification_prover_data =
            ProverData::from_airs_and_degrees(&config3, &verification_airs, &verification_degrees);
        let verification_circuit_prover_data = CircuitProverData::new(
            verification_prover_data,
            verification_primitive,
            verification_npo,
        );
        let mut verification_prover =
            BatchStarkProver::new(config3).with_table_packing(verification_table_packing);
        verification_prover.register_poseidon2_table::<5>(Poseidon2Config::KOALA_BEAR_D1_W16);
        verification_prover.register_recompose_table::<5>(true);

        let verification_proof = match verification_prover
            .prove_all_tables(&verification_traces, &verification_circuit_prover_data)
        {
            Ok(p) => p,
            Err(e) => {
                eprintln!("[demo_c06b_e2e] forge={forge}: outer prover error: {e:?}");
                return false;
            }
        };
        match verification_prover.verify_all_tables::<Challenge>(&verification_proof) {
            Ok(()) => {
                eprintln!(
                    "[demo_c06b_e2e] forge={forge}: OUTER proof of the recursive verifier circuit: \
                     ACCEPTED by verify_all_tables"
                );
                true
            }
            Err(e) => {
                eprintln!("[demo_c06b_e2e] forge={forge}: OUTER proof REJECTED: {e:?}");
                false
            }
        }
    }

    #[test]
    fn honest_recursion_is_accepted() {
        assert!(run(false));
    }

    /// Inner proof rejected by the native verifier (non-zero initial sponge capacity): the recursive
    /// verification of it must NOT yield an accepted outer proof. In debug builds the rejection
    /// surfaces as a panic of the prover's own constraint self-check, in release builds as an error
    /// of `verify_all_tables`; both count as rejected.
    #[test]
    fn recursion_rejects_inner_proof_that_native_verifier_rejects() {
        let outcome = std::panic::catch_unwind(|| run(true));
        let accepted = outcome.unwrap_or_else(|_| {
            eprintln!(
                "[demo_c06b_e2e] forge=true: REJECTED (prover constraint self-check panicked)"
            );
            false
        });
        assert!(
            !accepted,
            "outer proof accepted for a natively-invalid inner proof: row-0 capacity is unconstrained"
        );
    }
}

/// Same check for the compact D=1 Poseidon1 AIR (KoalaBear, width 16): one D=1 Poseidon1
/// challenger, partial first absorb, its single permutation is table row 0.
mod poseidon1 {
    use std::panic::{AssertUnwindSafe, catch_unwind};
    use std::sync::Arc;
    use std::sync::atomic::{AtomicUsize, Ordering};

    use p3_batch_stark::ProverData;
    use p3_challenger::{CanObserve, CanSample, DuplexChallenger};
    use p3_circuit::CircuitBuilder;
    use p3_circuit::ops::poseidon1_perm::KoalaBearD1Width16 as P1KoalaBearD1Width16;
    use p3_circuit::ops::{NpoTypeId, Poseidon1Config, Poseidon1Trace, generate_poseidon1_trace};
    use p3_circuit::tables::NonPrimitiveTrace;
    use p3_circuit_prover::batch_stark_prover::poseidon1_air_builders_d5;
    use p3_circuit_prover::common::{NpoPreprocessor, get_airs_and_degrees_with_prep};
    use p3_circuit_prover::{
        BatchStarkProver, CircuitProverData, ConstraintProfile, Poseidon1Preprocessor, TablePacking,
    };
    use p3_koala_bear::{Poseidon1KoalaBear, default_koalabear_poseidon1_16};
    use p3_recursion::challenger::CircuitChallenger;
    use p3_recursion::traits::RecursiveChallenger;
    use p3_symmetric::Permutation;
    use p3_test_utils::koala_bear_quintic_params::*;

    type P1 = Poseidon1KoalaBear<WIDTH>;

    const OBSERVED: [u64; 3] = [500, 501, 502];
    const FORGED_VALUE: u64 = 123_456_789;

    fn lift(b: F) -> Challenge {
        Challenge::new([b, F::ZERO, F::ZERO, F::ZERO, F::ZERO])
    }

    fn base(e: &Challenge) -> F {
        <Challenge as BasedVectorSpace<F>>::as_basis_coefficients_slice(e)[0]
    }

    /// Honest lifted Poseidon1, except that the first invocation (table row 0) overwrites input
    /// `forge_slot` with `FORGED_VALUE` before permuting.
    #[derive(Clone)]
    struct ProverPerm {
        inner: P1,
        forge_slot: Option<usize>,
        calls: Arc<AtomicUsize>,
    }

    impl Permutation<[Challenge; WIDTH]> for ProverPerm {
        fn permute(&self, input: [Challenge; WIDTH]) -> [Challenge; WIDTH] {
            let call = self.calls.fetch_add(1, Ordering::SeqCst);
            let mut bases: [F; WIDTH] = core::array::from_fn(|i| base(&input[i]));
            if let Some(slot) = self.forge_slot
                && call == 0
            {
                bases[slot] = F::from_u64(FORGED_VALUE);
            }
            let out = self.inner.permute(bases);
            core::array::from_fn(|i| lift(out[i]))
        }
    }

    fn native_challenge() -> F {
        let mut native =
            DuplexChallenger::<F, P1, WIDTH, RATE>::new(default_koalabear_poseidon1_16());
        for v in OBSERVED {
            native.observe(F::from_u64(v));
        }
        native.sample()
    }

    fn forged_challenge(slot: usize) -> F {
        let mut state = [F::ZERO; WIDTH];
        for (i, v) in OBSERVED.iter().enumerate() {
            state[i] = F::from_u64(*v);
        }
        state[RATE] = F::from_u64(OBSERVED.len() as u64);
        state[slot] = F::from_u64(FORGED_VALUE);
        default_koalabear_poseidon1_16().permute(state)[RATE - 1]
    }

    fn prove_and_verify(label: &str, forge_slot: Option<usize>, claimed: F) -> bool {
        let mut builder = CircuitBuilder::<Challenge>::new();
        builder.enable_poseidon1_perm_base::<P1KoalaBearD1Width16, _>(
            generate_poseidon1_trace::<Challenge, P1KoalaBearD1Width16>,
            ProverPerm {
                inner: default_koalabear_poseidon1_16(),
                forge_slot,
                calls: Arc::new(AtomicUsize::new(0)),
            },
        );
        let mut challenger =
            CircuitChallenger::<WIDTH, RATE, Poseidon1Config>::new_koalabear_poseidon1_base();
        for v in OBSERVED {
            let t = builder.define_const(lift(F::from_u64(v)));
            RecursiveChallenger::<F, Challenge>::observe(&mut challenger, &mut builder, t);
        }
        let sampled = RecursiveChallenger::<F, Challenge>::sample(&mut challenger, &mut builder);
        let claimed_pi = builder.public_input();
        let diff = builder.sub(sampled, claimed_pi);
        builder.assert_zero(diff);
        let circuit = builder.build().expect("circuit should build");

        let table_packing = TablePacking::default();
        let npo_prep: Vec<Box<dyn NpoPreprocessor<F>>> = vec![Box::new(Poseidon1Preprocessor)];
        let air_builders = poseidon1_air_builders_d5::<MyConfig>();
        let (airs_degrees, primitive_columns, non_primitive_columns) =
            get_airs_and_degrees_with_prep::<MyConfig, _, 5>(
                &circuit,
                &table_packing,
                &npo_prep,
                &air_builders,
                ConstraintProfile::Standard,
            )
            .expect("airs and degrees");
        let (airs, degrees): (Vec<_>, Vec<usize>) = airs_degrees.into_iter().unzip();

        let mut runner = circuit.runner();
        runner
            .set_public_inputs(&[lift(claimed)])
            .expect("public inputs");
        let mut traces = match runner.run() {
            Ok(t) => t,
            Err(e) => {
                eprintln!("[demo_c06b_p1] {label}: REJECTED (witness generation refused: {e:?})");
                return false;
            }
        };

        {
            let op_type = NpoTypeId::poseidon1_perm(Poseidon1Config::KOALA_BEAR_D1_W16);
            let mut p1: Poseidon1Trace<F> = traces
                .non_primitive_trace::<Poseidon1Trace<F>>(&op_type)
                .expect("poseidon1 trace present")
                .clone();
            assert_eq!(p1.operations.len(), 1);
            assert!(p1.operations[0].new_start && !p1.operations[0].merkle_path);
            if let Some(slot) = forge_slot {
                p1.operations[0].input_values[slot] = F::from_u64(FORGED_VALUE);
                let boxed: Box<dyn NonPrimitiveTrace<Challenge>> = Box::new(p1);
                traces.non_primitive_traces.insert(op_type, boxed);
            }
        }

        let config = make_test_config();
        let prover_data = ProverData::from_airs_and_degrees(&config, &airs, &degrees);
        let circuit_prover_data =
            CircuitProverData::new(prover_data, primitive_columns, non_primitive_columns);
        let mut prover = BatchStarkProver::new(config).with_table_packing(table_packing);
        prover.register_poseidon1_table::<5>(Poseidon1Config::KOALA_BEAR_D1_W16);

        let outcome = catch_unwind(AssertUnwindSafe(|| {
            let proof = match prover.prove_all_tables(&traces, &circuit_prover_data) {
                Ok(p) => p,
                Err(e) => {
                    eprintln!("[demo_c06b_p1] {label}: REJECTED (prover error: {e:?})");
                    return false;
                }
            };
            match prover.verify_all_tables::<Challenge>(&proof) {
                Ok(()) => {
                    eprintln!("[demo_c06b_p1] {label}: ACCEPTED by verify_all_tables");
                    true
                }
                Err(e) => {
                    eprintln!("[demo_c06b_p1] {label}: REJECTED (verifier error: {e:?})");
                    false
                }
            }
        }));
        outcome.unwrap_or_else(|_| {
            eprintln!(
                "[demo_c06b_p1] {label}: REJECTED (prover constraint/lookup self-check panicked)"
            );
            false
        })
    }

    #[test]
    fn honest_native_challenge_is_accepted() {
        assert!(prove_and_verify(
            "Poseidon1 honest, claimed = native",
            None,
            native_challenge()
        ));
    }

    #[test]
    fn row0_forged_capacity_is_rejected() {
        for slot in [RATE, RATE + 1] {
            let forged = forged_challenge(slot);
            assert_ne!(forged, native_challenge());
            assert!(
                !prove_and_verify(
                    &format!("Poseidon1 FORGED capacity slot {slot} on row 0, claimed = forged"),
                    Some(slot),
                    forged,
                ),
                "row-0 capacity of a Poseidon1 sponge chain start must be constrained"
            );
        }
    }

    /// Control: a rate (zero padding) slot is CTL-bound on the WitnessChecks bus.
    #[test]
    fn row0_forged_rate_padding_is_rejected() {
        let forged = forged_challenge(5);
        assert!(!prove_and_verify(
            "Poseidon1 CONTROL forged RATE slot 5 on row 0, claimed = forged",
            Some(5),
            forged,
        ));
    }
}
