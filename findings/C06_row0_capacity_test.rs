//! C06b demo: the capacity of a D=1 sponge chain start is NOT zero-asserted when the chain start
//! is row 0 of the Poseidon2 table.
//!
//! Background. `CircuitChallenger::duplexing_base` emits its first permutation with
//! `new_start = true`, rate inputs `Some(target)` (WitnessChecks CTL) and capacity inputs `None`,
//! relying on "the compact D=1 AIR asserts zero capacity on sponge chain starts". That assertion
//! (`poseidon2-circuit-air/src/air.rs`, "Sponge chain starts") is a `when_transition()` constraint
//! on the *next* row: it pins the capacity of row i+1 for i+1 >= 1 only. There is no
//! first-row constraint, and `when_transition` excludes the wrap-around last->first pair, so the
//! capacity inputs of table row 0 are free prover-chosen values.
//!
//! Everything here uses the real, unmodified AIRs / preprocessed data / verifier. Only witness
//! generation (the permutation closure handed to `enable_poseidon2_perm_base`) and the Poseidon2
//! table row inputs are tampered with, i.e. what a malicious prover controls.
//!
//! Circuit: `N` independent KoalaBear D=1 challengers, emitted one after another. Challenger `k`
//! observes `OBSERVED[k]` (3 constants, partial first absorb) and samples once; the sample is
//! asserted equal to public input `k`. The Poseidon2 (KoalaBear D1 W16) table therefore has
//! exactly `N` rows, all `new_start = true`, row `k` belonging to challenger `k`.
//!
//! Tests (each asserts what is actually OBSERVED on the unmodified code):
//! * `honest_native_challenge_is_accepted`                  -- pipeline sanity.
//! * `honest_wrong_challenge_is_rejected`                   -- pipeline sanity.
//! * `row0_forged_capacity_is_accepted_with_non_native_challenge` -- THE GAP (N = 1, row 0).
//! * `row0_forged_capacity_tag_slot_is_accepted`            -- same, on the length-tag slot 8.
//! * `row0_forged_rate_padding_is_rejected`                 -- control: rate slot IS constrained.
//! * `row1_forged_capacity_is_rejected`                     -- control: chain start at row >= 1
//!   IS constrained (same tampering, N = 2, second challenger).
//! * `row0_forged_capacity_two_challengers_is_accepted`     -- N = 2, tamper first challenger.

use std::panic::{AssertUnwindSafe, catch_unwind};
use std::sync::Arc;
use std::sync::atomic::{AtomicUsize, Ordering};

use p3_batch_stark::ProverData;
use p3_challenger::{CanObserve, CanSample, DuplexChallenger};
use p3_circuit::CircuitBuilder;
use p3_circuit::ops::{
    KoalaBearD1Width16, NpoTypeId, Poseidon2Config, Poseidon2Trace, generate_poseidon2_trace,
};
use p3_circuit::tables::NonPrimitiveTrace;
use p3_circuit_prover::batch_stark_prover::poseidon2_air_builders_d5;
use p3_circuit_prover::common::{NpoPreprocessor, get_airs_and_degrees_with_prep};
use p3_circuit_prover::{
    BatchStarkProver, CircuitProverData, ConstraintProfile, Poseidon2Preprocessor, TablePacking,
};
use p3_recursion::challenger::CircuitChallenger;
use p3_recursion::traits::RecursiveChallenger;
use p3_symmetric::Permutation;
use p3_test_utils::koala_bear_quintic_params::*;

/// Observed transcript of challenger k (fewer than RATE values => one partial-absorb duplexing).
const OBSERVED: [[u64; 3]; 2] = [[500, 501, 502], [600, 601, 602]];
const FORGED_VALUE: u64 = 123_456_789;

fn lift(b: F) -> Challenge {
    Challenge::new([b, F::ZERO, F::ZERO, F::ZERO, F::ZERO])
}

fn base(e: &Challenge) -> F {
    <Challenge as BasedVectorSpace<F>>::as_basis_coefficients_slice(e)[0]
}

/// What the deviating prover does: on Poseidon2 table row `row`, overwrite input `slot` with
/// `FORGED_VALUE` (the rest of the row is the honest permutation of the resulting state).
#[derive(Clone, Copy, Debug)]
struct Forge {
    row: usize,
    slot: usize,
}

/// Permutation handed to the circuit executor. Honest lifted Poseidon2, except that the
/// `forge.row`-th invocation (= `forge.row`-th Poseidon2 table row) first overwrites one input.
#[derive(Clone)]
struct ProverPerm {
    inner: Perm,
    forge: Option<Forge>,
    calls: Arc<AtomicUsize>,
}

impl Permutation<[Challenge; WIDTH]> for ProverPerm {
    fn permute(&self, input: [Challenge; WIDTH]) -> [Challenge; WIDTH] {
        let call = self.calls.fetch_add(1, Ordering::SeqCst);
        let mut bases: [F; WIDTH] = core::array::from_fn(|i| base(&input[i]));
        if let Some(f) = self.forge
            && f.row == call
        {
            bases[f.slot] = F::from_u64(FORGED_VALUE);
        }
        let out = self.inner.permute(bases);
        core::array::from_fn(|i| lift(out[i]))
    }
}

/// Native `DuplexChallenger` challenge for transcript `k`.
fn native_challenge(k: usize) -> F {
    let mut native =
        DuplexChallenger::<F, Perm, WIDTH, RATE>::new(default_koalabear_poseidon2_16());
    for v in OBSERVED[k] {
        native.observe(F::from_u64(v));
    }
    native.sample()
}

/// The "challenge" produced by the deviating prover's sponge for transcript `k`: Poseidon2 of
/// (observed values, zero padding, length tag in capacity[0]) with `slot` overwritten.
fn forged_challenge(k: usize, slot: usize) -> F {
    let mut state = [F::ZERO; WIDTH];
    for (i, v) in OBSERVED[k].iter().enumerate() {
        state[i] = F::from_u64(*v);
    }
    state[RATE] = F::from_u64(OBSERVED[k].len() as u64);
    state[slot] = F::from_u64(FORGED_VALUE);
    default_koalabear_poseidon2_16().permute(state)[RATE - 1]
}

/// Build the circuit with `claimed.len()` challengers, run the (possibly deviating) prover with
/// `claimed[k]` as the public "sampled challenge" of challenger `k`, and report whether
/// `verify_all_tables` accepts.
fn prove_and_verify(label: &str, forge: Option<Forge>, claimed: &[F]) -> bool {
    let n = claimed.len();
    prove_and_verify_with(label, forge, claimed, n, true, |builder| {
        for obs in OBSERVED.iter().take(n) {
            // The real D=1 in-circuit challenger.
            let mut challenger =
                CircuitChallenger::<WIDTH, RATE, Poseidon2Config>::new_koalabear_base();
            for v in obs {
                let t = builder.define_const(lift(F::from_u64(*v)));
                RecursiveChallenger::<F, Challenge>::observe(&mut challenger, builder, t);
            }
            let sampled = RecursiveChallenger::<F, Challenge>::sample(&mut challenger, builder);
            // The sampled challenge is exposed: it must equal the public input.
            let claimed_pi = builder.public_input();
            let diff = builder.sub(sampled, claimed_pi);
            builder.assert_zero(diff);
        }
    })
}

/// Generic driver: `build` emits the circuit (one public input per entry of `claimed`).
fn prove_and_verify_with(
    label: &str,
    forge: Option<Forge>,
    claimed: &[F],
    expected_rows: usize,
    all_chain_starts: bool,
    build: impl FnOnce(&mut CircuitBuilder<Challenge>),
) -> bool {
    let n = expected_rows;
    let mut builder = CircuitBuilder::<Challenge>::new();
    builder.enable_poseidon2_perm_base::<KoalaBearD1Width16, _>(
        generate_poseidon2_trace::<Challenge, KoalaBearD1Width16>,
        ProverPerm {
            inner: default_koalabear_poseidon2_16(),
            forge,
            calls: Arc::new(AtomicUsize::new(0)),
        },
    );

    build(&mut builder);

    let circuit = builder.build().expect("circuit should build");

    let table_packing = TablePacking::default();
    let npo_prep: Vec<Box<dyn NpoPreprocessor<F>>> = vec![Box::new(Poseidon2Preprocessor)];
    let air_builders = poseidon2_air_builders_d5::<MyConfig>();
    let (airs_degrees, primitive_columns, non_primitive_columns) =
        get_airs_and_degrees_with_prep::<MyConfig, _, 5>(
            &circuit,
            &table_packing,
            &npo_prep,
            &air_builders,
            ConstraintProfile::Standard,
        )
        .expect("airs and degrees");
    let (airs, degrees): (Vec<_>, Vec<usize>) = airs_degrees.into_iter().unzip();

    let mut runner = circuit.runner();
    let pis: Vec<Challenge> = claimed.iter().map(|c| lift(*c)).collect();
    runner.set_public_inputs(&pis).expect("public inputs");
    let mut traces = match runner.run() {
        Ok(t) => t,
        Err(e) => {
            eprintln!("[demo_c06b] {label}: REJECTED (witness generation refused: {e:?})");
            return false;
        }
    };

    {
        let op_type = NpoTypeId::poseidon2_perm(Poseidon2Config::KOALA_BEAR_D1_W16);
        let mut p2: Poseidon2Trace<F> = traces
            .non_primitive_trace::<Poseidon2Trace<F>>(&op_type)
            .expect("poseidon2 trace present")
            .clone();
        assert_eq!(p2.operations.len(), n, "expected number of Poseidon2 rows");
        for (k, op) in p2.operations.iter().enumerate() {
            assert!(!op.merkle_path, "row {k} is a sponge row");
            if all_chain_starts {
                assert!(op.new_start, "row {k} is a sponge chain start");
            }
        }
        if let Some(f) = forge {
            // The deviating prover writes the forged input into its Poseidon2 table row, so that
            // the row is a genuine Poseidon2 evaluation of the forged state.
            p2.operations[f.row].input_values[f.slot] = F::from_u64(FORGED_VALUE);
            let boxed: Box<dyn NonPrimitiveTrace<Challenge>> = Box::new(p2);
            traces.non_primitive_traces.insert(op_type, boxed);
        }
    }

    let config = make_test_config();
    let prover_data = ProverData::from_airs_and_degrees(&config, &airs, &degrees);
    let circuit_prover_data =
        CircuitProverData::new(prover_data, primitive_columns, non_primitive_columns);
    let mut prover = BatchStarkProver::new(config).with_table_packing(table_packing);
    prover.register_poseidon2_table::<5>(Poseidon2Config::KOALA_BEAR_D1_W16);

    // A rejected proof may surface as a prover error, a debug-assertion panic in the prover's
    // own constraint/lookup self-checks (debug builds), or a verifier error. All are "rejected".
    let outcome = catch_unwind(AssertUnwindSafe(|| {
        let proof = match prover.prove_all_tables(&traces, &circuit_prover_data) {
            Ok(p) => p,
            Err(e) => {
                eprintln!("[demo_c06b] {label}: REJECTED (prover error: {e:?})");
                return false;
            }
        };
        match prover.verify_all_tables::<Challenge>(&proof) {
            Ok(()) => {
                eprintln!("[demo_c06b] {label}: ACCEPTED by verify_all_tables");
                true
            }
            Err(e) => {
                eprintln!("[demo_c06b] {label}: REJECTED (verifier error: {e:?})");
                false
            }
        }
    }));
    outcome.unwrap_or_else(|_| {
        eprintln!("[demo_c06b] {label}: REJECTED (prover constraint/lookup self-check panicked)");
        false
    })
}

#[test]
fn honest_native_challenge_is_accepted() {
    assert!(prove_and_verify(
        "honest N=1, claimed = native",
        None,
        &[native_challenge(0)]
    ));
    assert!(prove_and_verify(
        "honest N=2, claimed = native",
        None,
        &[native_challenge(0), native_challenge(1)]
    ));
}

#[test]
fn honest_wrong_challenge_is_rejected() {
    assert!(!prove_and_verify(
        "honest N=1, claimed = native + 1",
        None,
        &[native_challenge(0) + F::ONE]
    ));
}

/// THE GAP: capacity input 9 of the challenger's first (new_start) permutation, table row 0.
#[test]
fn row0_forged_capacity_is_accepted_with_non_native_challenge() {
    let slot = RATE + 1;
    let native = native_challenge(0);
    let forged = forged_challenge(0, slot);
    assert_ne!(forged, native);
    eprintln!("[demo_c06b] native challenge = {native:?}, forged challenge = {forged:?}");
    let accepted = prove_and_verify(
        "FORGED capacity slot 9 on row 0 (N=1), claimed = forged (non-native)",
        Some(Forge { row: 0, slot }),
        &[forged],
    );
    assert!(
        accepted,
        "expected the soundness gap to reproduce: row-0 capacity is unconstrained"
    );
    eprintln!(
        "[demo_c06b] SOUNDNESS GAP REPRODUCED: accepted proof whose sampled challenge {forged:?} \
         != native DuplexChallenger challenge {native:?} for the same observed values"
    );
}

/// Same on capacity slot 8 (the prefix-free length-tag slot): honest value 3, forged arbitrary.
#[test]
fn row0_forged_capacity_tag_slot_is_accepted() {
    let slot = RATE;
    let native = native_challenge(0);
    let forged = forged_challenge(0, slot);
    assert_ne!(forged, native);
    let accepted = prove_and_verify(
        "FORGED capacity slot 8 (length tag) on row 0 (N=1), claimed = forged (non-native)",
        Some(Forge { row: 0, slot }),
        &[forged],
    );
    assert!(accepted, "row-0 length-tag slot is unconstrained as well");
}

/// Control 1: same harness, same row, but a RATE slot (zero padding slot 5). Rate inputs are
/// CTL-bound on the WitnessChecks bus -> rejected.
#[test]
fn row0_forged_rate_padding_is_rejected() {
    let slot = 5;
    let forged = forged_challenge(0, slot);
    assert_ne!(forged, native_challenge(0));
    assert!(!prove_and_verify(
        "CONTROL forged RATE slot 5 on row 0 (N=1), claimed = forged",
        Some(Forge { row: 0, slot }),
        &[forged],
    ));
}

/// Control 2: same tampering (capacity slot 9 of a new_start row), but on a chain start that
/// is table row 1 (second challenger). The `when_transition` constraint evaluated on row 0
/// pins row 1's capacity -> rejected. Shows the gap is specific to row 0.
#[test]
fn row1_forged_capacity_is_rejected() {
    let slot = RATE + 1;
    let forged = forged_challenge(1, slot);
    assert_ne!(forged, native_challenge(1));
    assert!(!prove_and_verify(
        "CONTROL forged capacity slot 9 on row 1 (N=2), claimed = [native, forged]",
        Some(Forge { row: 1, slot }),
        &[native_challenge(0), forged],
    ));
}

/// Two challengers, tamper the first one (row 0): accepted, second challenger untouched.
#[test]
fn row0_forged_capacity_two_challengers_is_accepted() {
    let slot = RATE + 1;
    let forged = forged_challenge(0, slot);
    assert_ne!(forged, native_challenge(0));
    assert!(prove_and_verify(
        "FORGED capacity slot 9 on row 0 (N=2), claimed = [forged, native]",
        Some(Forge { row: 0, slot }),
        &[forged, native_challenge(1)],
    ));
}

/// Hypothesis B: two live D=1 challengers A and B whose permutations interleave on the table:
/// row 0 = A (start), row 1 = B (start), row 2 = A's second duplexing (`new_start = false`,
/// capacity `None`). Both the executor (`last_output_normal`, per op type) and the AIR chain
/// constraint (previous table row) take row 2's capacity from ROW 1 (B), not from A's row 0.
/// The honest prover is accepted, and A's second challenge is NOT the native one.
#[test]
fn interleaved_challengers_chain_binds_to_foreign_row() {
    const EXTRA: u64 = 777;
    let perm = default_koalabear_poseidon2_16();

    // Native: A observes OBSERVED[0], samples, observes EXTRA, samples.
    let mut native_a = DuplexChallenger::<F, Perm, WIDTH, RATE>::new(perm.clone());
    for v in OBSERVED[0] {
        native_a.observe(F::from_u64(v));
    }
    let a1: F = native_a.sample();
    native_a.observe(F::from_u64(EXTRA));
    let a2_native: F = native_a.sample();
    let b1 = native_challenge(1);

    // What the table computes for A's second duplexing: rate = [EXTRA, 0, ..] and
    // capacity = capacity OUTPUT OF B's ROW (+ length tag 1).
    let mut b_state = [F::ZERO; WIDTH];
    for (i, v) in OBSERVED[1].iter().enumerate() {
        b_state[i] = F::from_u64(*v);
    }
    b_state[RATE] = F::from_u64(3);
    let b_out = perm.permute(b_state);
    let mut cross = b_out;
    cross[0] = F::from_u64(EXTRA);
    for s in cross.iter_mut().take(RATE).skip(1) {
        *s = F::ZERO;
    }
    cross[RATE] += F::ONE;
    let a2_cross = perm.permute(cross)[RATE - 1];
    assert_ne!(a2_cross, a2_native);
    eprintln!(
        "[demo_c06b] interleaving: native A.sample#2 = {a2_native:?}, chained-to-B value = {a2_cross:?}"
    );

    let build = |builder: &mut CircuitBuilder<Challenge>| {
        let mut a = CircuitChallenger::<WIDTH, RATE, Poseidon2Config>::new_koalabear_base();
        let mut b = CircuitChallenger::<WIDTH, RATE, Poseidon2Config>::new_koalabear_base();
        let expose = |builder: &mut CircuitBuilder<Challenge>, t| {
            let pi = builder.public_input();
            let diff = builder.sub(t, pi);
            builder.assert_zero(diff);
        };
        for v in OBSERVED[0] {
            let t = builder.define_const(lift(F::from_u64(v)));
            RecursiveChallenger::<F, Challenge>::observe(&mut a, builder, t);
        }
        let s = RecursiveChallenger::<F, Challenge>::sample(&mut a, builder); // row 0
        expose(builder, s);
        for v in OBSERVED[1] {
            let t = builder.define_const(lift(F::from_u64(v)));
            RecursiveChallenger::<F, Challenge>::observe(&mut b, builder, t);
        }
        let s = RecursiveChallenger::<F, Challenge>::sample(&mut b, builder); // row 1
        expose(builder, s);
        let t = builder.define_const(lift(F::from_u64(EXTRA)));
        RecursiveChallenger::<F, Challenge>::observe(&mut a, builder, t);
        let s = RecursiveChallenger::<F, Challenge>::sample(&mut a, builder); // row 2
        expose(builder, s);
    };

    // Honest prover, A's second challenge claimed = value chained to B's row: accepted.
    assert!(prove_and_verify_with(
        "HONEST interleaved A,B,A; claimed A#2 = chained-to-B (non-native)",
        None,
        &[a1, b1, a2_cross],
        3,
        false,
        build,
    ));
    // Honest prover, A's second challenge claimed = native: refused.
    assert!(!prove_and_verify_with(
        "HONEST interleaved A,B,A; claimed A#2 = native",
        None,
        &[a1, b1, a2_native],
        3,
        false,
        build,
    ));
}
