//! C07 side observations on the UNMODIFIED code (goes in `recursion/tests/`): two inputs for which
//! the in-circuit FRI verifier (with full MMCS checks) accepts while the native `p3_fri` verifier
//! rejects. Both tests assert "circuit outcome == native outcome" and FAIL on the unmodified tree.
//!
//! For every scenario the same proof is handed to
//!   * the native verifier (`TwoAdicFriPcs::verify`), and
//!   * a circuit built by `verify_fri_circuit` (MMCS verification enabled) and executed by the
//!     circuit runner,
//! and the two outcomes (accept / reject) are compared.

use p3_baby_bear::default_babybear_poseidon2_16;
use p3_challenger::{CanObserve, CanSampleBits, FieldChallenger, GrindingChallenger};
use p3_circuit::CircuitBuilder;
use p3_circuit::ops::{generate_poseidon2_trace, generate_recompose_trace};
use p3_commit::{Mmcs, Pcs};
use p3_dft::Radix2DitParallel;
use p3_field::coset::TwoAdicMultiplicativeCoset;
use p3_fri::FriParameters;
use p3_matrix::dense::RowMajorMatrix;
use p3_poseidon2_circuit_air::BabyBearD4Width16;
use p3_recursion::pcs::fri::{
    FriProofTargets, InputProofTargets, MerkleCapTargets, RecExtensionValMmcs, RecValMmcs,
    Witness as RecWitness, verify_fri_circuit,
};
use p3_recursion::pcs::set_fri_mmcs_private_data;
use p3_recursion::{Poseidon2Config, Recursive};
use p3_test_utils::baby_bear_params::*;
use rand::SeedableRng;
use rand::rngs::SmallRng;

type RecVal = RecValMmcs<F, 8, MyHash, MyCompress>;
type RecExt = RecExtensionValMmcs<F, Challenge, 8, RecVal>;
type FriTargets =
    FriProofTargets<F, Challenge, RecExt, InputProofTargets<F, Challenge, RecVal>, RecWitness<F>>;

type MyCommitment = <MyPcs as Pcs<Challenge, Challenger>>::Commitment;
type MyProof = <MyPcs as Pcs<Challenge, Challenger>>::Proof;
type Domain = TwoAdicMultiplicativeCoset<F>;
type ComsWithPoints = Vec<(MyCommitment, Vec<(Domain, Vec<(Challenge, Vec<Challenge>)>)>)>;

#[derive(Clone, Copy, Debug)]
struct Params {
    log_blowup: usize,
    log_final_poly_len: usize,
    max_log_arity: usize,
    num_queries: usize,
    commit_pow_bits: usize,
    query_pow_bits: usize,
}

fn make_val_mmcs(perm: &Perm) -> MyMmcs {
    MyMmcs::new(MyHash::new(perm.clone()), MyCompress::new(perm.clone()), 0)
}

fn make_pcs(p: Params) -> (MyPcs, Perm) {
    let perm = default_babybear_poseidon2_16();
    let hash = MyHash::new(perm.clone());
    let compress = MyCompress::new(perm.clone());
    let val_mmcs = MyMmcs::new(hash, compress, 0);
    let challenge_mmcs = ChallengeMmcs::new(val_mmcs.clone());
    let fri_params = FriParameters {
        log_blowup: p.log_blowup,
        log_final_poly_len: p.log_final_poly_len,
        max_log_arity: p.max_log_arity,
        num_queries: p.num_queries,
        commit_proof_of_work_bits: p.commit_pow_bits,
        query_proof_of_work_bits: p.query_pow_bits,
        mmcs: challenge_mmcs,
    };
    (
        MyPcs::new(Radix2DitParallel::<F>::default(), val_mmcs, fri_params),
        perm,
    )
}

/// An opening claim (commitments, points, claimed evaluations) plus the FRI opening proof.
struct Instance {
    val_sizes: Vec<F>,
    coms: ComsWithPoints,
    proof: MyProof,
}

fn make_evals(log_sizes: &[u8], seed: u64) -> Vec<(Domain, RowMajorMatrix<F>)> {
    let mut rng = SmallRng::seed_from_u64(seed);
    log_sizes
        .iter()
        .map(|&deg_bits| {
            let rows = 1usize << deg_bits;
            let domain = Domain::new(F::GENERATOR, deg_bits as usize).unwrap();
            let width = 2 + (deg_bits as usize % 3);
            (
                domain,
                RowMajorMatrix::<F>::rand_nonzero(&mut rng, rows, width),
            )
        })
        .collect()
}

/// Honest prover: commit every group, open every matrix at one shared `zeta`.
fn prove(pcs: &MyPcs, perm: &Perm, group_sizes: &[Vec<u8>], seed: u64) -> Instance {
    let val_sizes: Vec<F> = group_sizes
        .iter()
        .flat_map(|s| s.iter().map(|&b| F::from_u8(b)))
        .collect();

    let mut challenger = Challenger::new(perm.clone());
    challenger.observe_slice(&val_sizes);

    let mut commits = Vec::new();
    let mut datas = Vec::new();
    for (i, sizes) in group_sizes.iter().enumerate() {
        let evals = make_evals(sizes, seed + i as u64);
        let (c, d) = <MyPcs as Pcs<Challenge, Challenger>>::commit(pcs, evals);
        challenger.observe(c.clone());
        commits.push(c);
        datas.push(d);
    }
    let zeta: Challenge = challenger.sample_algebra_element();

    let open_data = datas
        .iter()
        .zip(group_sizes)
        .map(|(d, sizes)| (d, vec![vec![zeta]; sizes.len()]))
        .collect();
    let (opened, proof) =
        <MyPcs as Pcs<Challenge, Challenger>>::open(pcs, open_data, &mut challenger);

    let coms = commits
        .into_iter()
        .zip(group_sizes)
        .zip(opened)
        .map(|((c, sizes), opened_group)| {
            let mats = sizes
                .iter()
                .zip(opened_group)
                .map(|(&log_size, mut per_point)| {
                    let domain = Domain::new(F::GENERATOR, log_size as usize).unwrap();
                    (domain, vec![(zeta, per_point.remove(0))])
                })
                .collect();
            (c, mats)
        })
        .collect();

    Instance {
        val_sizes,
        coms,
        proof,
    }
}

/// Transcript state right before the PCS verification starts.
fn challenger_before_pcs(perm: &Perm, inst: &Instance) -> Challenger {
    let mut ch = Challenger::new(perm.clone());
    ch.observe_slice(&inst.val_sizes);
    for (c, _) in &inst.coms {
        ch.observe(c.clone());
    }
    let _zeta: Challenge = ch.sample_algebra_element();
    ch
}

/// Outcome of the native `p3_fri` verifier.
fn native_accepts(pcs: &MyPcs, perm: &Perm, inst: &Instance) -> bool {
    let mut ch = challenger_before_pcs(perm, inst);
    <MyPcs as Pcs<Challenge, Challenger>>::verify(pcs, inst.coms.clone(), &inst.proof, &mut ch)
        .is_ok()
}

/// Fiat-Shamir challenges of the FRI verifier, replayed natively.
struct Replay {
    alpha: Challenge,
    betas: Vec<Challenge>,
    log_max_height: usize,
    indices: Vec<usize>,
}

/// Returns `None` when a proof-of-work witness is invalid.
fn replay(p: Params, perm: &Perm, inst: &Instance) -> Option<Replay> {
    let mut ch = challenger_before_pcs(perm, inst);
    for (_, mats) in &inst.coms {
        for (_, pts) in mats {
            for (_, vals) in pts {
                for &v in vals {
                    ch.observe_algebra_element(v);
                }
            }
        }
    }
    let alpha: Challenge = ch.sample_algebra_element();
    let proof = &inst.proof;
    let mut betas: Vec<Challenge> = Vec::new();
    for (c, w) in proof
        .commit_phase_commits
        .iter()
        .zip(proof.commit_pow_witnesses.iter())
    {
        ch.observe(c.clone());
        if !ch.check_witness(p.commit_pow_bits, *w) {
            return None;
        }
        betas.push(ch.sample_algebra_element());
    }
    for &c in &proof.final_poly {
        ch.observe_algebra_element(c);
    }
    let log_arities = schedule(inst);
    for &la in &log_arities {
        ch.observe(F::from_usize(la));
    }
    if !ch.check_witness(p.query_pow_bits, proof.query_pow_witness) {
        return None;
    }
    let log_max_height = log_arities.iter().sum::<usize>() + p.log_blowup + p.log_final_poly_len;
    let indices = (0..proof.query_proofs.len())
        .map(|_| ch.sample_bits(log_max_height))
        .collect();
    Some(Replay {
        alpha,
        betas,
        log_max_height,
        indices,
    })
}

/// Outcome of the in-circuit verifier: `true` iff `verify_fri_circuit` builds a circuit and the
/// runner satisfies every constraint of it.
fn circuit_accepts(p: Params, perm: &Perm, inst: &Instance) -> bool {
    let Some(Replay {
        alpha,
        betas,
        log_max_height,
        indices,
        ..
    }) = replay(p, perm, inst)
    else {
        return false;
    };
    let proof = &inst.proof;
    let index_bits: Vec<Vec<Challenge>> = indices
        .iter()
        .map(|&index| {
            (0..log_max_height)
                .map(|k| Challenge::from_bool((index >> k) & 1 == 1))
                .collect()
        })
        .collect();

    // ---- Circuit ----
    let mut builder = CircuitBuilder::<Challenge>::new();
    builder.enable_poseidon2_perm::<BabyBearD4Width16, _>(
        generate_poseidon2_trace::<Challenge, BabyBearD4Width16>,
        default_babybear_poseidon2_16(),
    );
    builder.enable_recompose::<F>(generate_recompose_trace::<F, Challenge>);

    let fri_targets = FriTargets::new(&mut builder, proof);
    let alpha_t = builder.public_input();
    let betas_t: Vec<_> = betas.iter().map(|_| builder.public_input()).collect();
    let index_bits_t: Vec<Vec<_>> = index_bits
        .iter()
        .map(|bits| bits.iter().map(|_| builder.public_input()).collect())
        .collect();

    let mut coms_t = Vec::new();
    for (commit, mats) in &inst.coms {
        let commit_t =
            <MerkleCapTargets<F, DIGEST_ELEMS> as Recursive<Challenge>>::new(&mut builder, commit);
        let mut mats_t = Vec::new();
        for (domain, pts) in mats {
            let mut pts_t = Vec::new();
            for (_z, vals) in pts {
                let z_t = builder.public_input();
                let vals_t: Vec<_> = vals.iter().map(|_| builder.public_input()).collect();
                pts_t.push((z_t, vals_t));
            }
            mats_t.push((*domain, pts_t));
        }
        coms_t.push((commit_t, mats_t));
    }

    let Ok(op_ids) = verify_fri_circuit::<
        F,
        Challenge,
        RecExt,
        RecVal,
        RecWitness<F>,
        MerkleCapTargets<F, DIGEST_ELEMS>,
    >(
        &mut builder,
        &fri_targets,
        alpha_t,
        &betas_t,
        &index_bits_t,
        &coms_t,
        p.log_blowup,
        Some(Poseidon2Config::BABY_BEAR_D4_W16.into()),
    ) else {
        return false;
    };
    let circuit = builder.build().unwrap();

    // ---- Inputs, in allocation order ----
    let mut public_inputs: Vec<Challenge> = FriTargets::get_values(proof);
    public_inputs.push(alpha);
    public_inputs.extend(&betas);
    for bits in &index_bits {
        public_inputs.extend(bits);
    }
    for (commit, mats) in &inst.coms {
        for entry in commit.roots() {
            public_inputs.extend(entry.iter().map(|&c| Challenge::from(c)));
        }
        for (_, pts) in mats {
            for (z, vals) in pts {
                public_inputs.push(*z);
                public_inputs.extend(vals);
            }
        }
    }
    let private_inputs = <FriTargets as Recursive<Challenge>>::get_private_values(proof);

    let mut runner = circuit.runner();
    runner.set_public_inputs(&public_inputs).unwrap();
    runner.set_private_inputs(&private_inputs).unwrap();
    set_fri_mmcs_private_data::<F, Challenge, ChallengeMmcs, MyMmcs, MyHash, MyCompress, DIGEST_ELEMS>(
        &mut runner,
        &op_ids,
        proof,
        Poseidon2Config::BABY_BEAR_D4_W16,
    )
    .unwrap();
    runner.run().is_ok()
}

fn schedule(inst: &Instance) -> Vec<usize> {
    inst.proof.query_proofs[0]
        .commit_phase_openings
        .iter()
        .map(|s| s.log_arity as usize)
        .collect()
}

/// Native verdict with the error, for the report.
fn native_verdict(pcs: &MyPcs, perm: &Perm, inst: &Instance) -> Result<(), String> {
    let mut ch = challenger_before_pcs(perm, inst);
    <MyPcs as Pcs<Challenge, Challenger>>::verify(pcs, inst.coms.clone(), &inst.proof, &mut ch)
        .map_err(|e| format!("{e:?}"))
}

/// Side observation 1: the arity bound `max_log_arity` of the native verifier's parameters is not
/// carried by `FriVerifierParams` / `verify_fri_circuit`.
///
/// The prover folds with `max_log_arity = 3` (schedule [3, 3]); the verifier is configured with
/// `max_log_arity = 1` and every other parameter identical (the transcript does not depend on
/// `max_log_arity`). Native: `InvalidLogArity`. Circuit: satisfiable.
#[test]
fn side_max_log_arity_is_not_enforced_in_circuit() {
    let prover_params = Params {
        log_blowup: 1,
        log_final_poly_len: 0,
        max_log_arity: 3,
        num_queries: 3,
        commit_pow_bits: 0,
        query_pow_bits: 1,
    };
    let verifier_params = Params {
        max_log_arity: 1,
        ..prover_params
    };
    let (prover_pcs, perm) = make_pcs(prover_params);
    let (verifier_pcs, _) = make_pcs(verifier_params);

    let inst = prove(&prover_pcs, &perm, &[vec![6u8]], 7);
    assert_eq!(schedule(&inst), vec![3, 3]);
    assert!(native_accepts(&prover_pcs, &perm, &inst), "sanity: honest proof");

    let native = native_verdict(&verifier_pcs, &perm, &inst);
    println!("native verifier (max_log_arity = 1): {native:?}");
    // The circuit verifier only ever sees log_blowup / log_final_poly_len / pow bits.
    let circuit = circuit_accepts(verifier_params, &perm, &inst);
    println!("circuit verifier: accepts = {circuit}");
    assert_eq!(
        circuit,
        native.is_ok(),
        "schedule [3, 3] under verifier parameter max_log_arity = 1: circuit accepts = {circuit}, native = {native:?}"
    );
}

/// Side observation 2: a reduced opening at a height no fold phase lands on.
///
/// Native `verify_query` rejects such a proof unconditionally (`UnconsumedReducedOpenings`); the
/// circuit only connects the reduced opening to zero, which holds for a matrix of constant columns.
/// Batch 0 = one constant matrix of LDE height 2^5, batch 1 = one random matrix of LDE height 2^7,
/// schedule [3, 3] (7 -> 4 -> 1, never 5).
#[test]
fn side_unconsumed_zero_reduced_opening_is_accepted_in_circuit() {
    let p = Params {
        log_blowup: 1,
        log_final_poly_len: 0,
        max_log_arity: 3,
        num_queries: 3,
        commit_pow_bits: 0,
        query_pow_bits: 1,
    };
    let (pcs, perm) = make_pcs(p);
    let val_mmcs = make_val_mmcs(&perm);

    let (log_small, log_big) = (4usize, 6usize);
    let consts = [F::from_u32(11), F::from_u32(22)];
    let small_domain = Domain::new(F::GENERATOR, log_small).unwrap();
    let small = RowMajorMatrix::new(
        (0..1 << log_small).flat_map(|_| consts).collect(),
        consts.len(),
    );
    let big_domain = Domain::new(F::GENERATOR, log_big).unwrap();
    let big = RowMajorMatrix::<F>::rand_nonzero(&mut SmallRng::seed_from_u64(5), 1 << log_big, 3);

    let val_sizes = vec![F::from_usize(log_small), F::from_usize(log_big)];
    let mut challenger = Challenger::new(perm.clone());
    challenger.observe_slice(&val_sizes);
    let (c_small, d_small) =
        <MyPcs as Pcs<Challenge, Challenger>>::commit(&pcs, vec![(small_domain, small)]);
    let (c_big, d_big) =
        <MyPcs as Pcs<Challenge, Challenger>>::commit(&pcs, vec![(big_domain, big)]);
    challenger.observe(c_small.clone());
    challenger.observe(c_big.clone());
    let zeta: Challenge = challenger.sample_algebra_element();

    // The prover opens only the big batch; the (true) evaluations of the constant matrix are
    // put into the transcript by hand, in the position the verifier observes them.
    let small_at_zeta: Vec<Challenge> = consts.iter().map(|&c| Challenge::from(c)).collect();
    for &v in &small_at_zeta {
        challenger.observe_algebra_element(v);
    }
    let (mut opened, mut proof) = <MyPcs as Pcs<Challenge, Challenger>>::open(
        &pcs,
        vec![(&d_big, vec![vec![zeta]])],
        &mut challenger,
    );
    let big_at_zeta = opened.remove(0).remove(0).remove(0);

    let coms: ComsWithPoints = vec![
        (c_small, vec![(small_domain, vec![(zeta, small_at_zeta)])]),
        (c_big, vec![(big_domain, vec![(zeta, big_at_zeta)])]),
    ];
    let mut inst = Instance {
        val_sizes,
        coms,
        proof: proof.clone(),
    };
    assert_eq!(schedule(&inst), vec![3, 3], "no phase may land on height 5");

    // Complete every query with the Merkle opening of the small batch at the reduced index.
    let r = replay(p, &perm, &inst).expect("valid proof-of-work");
    let bits_reduced = log_big - log_small;
    for (qp, &index) in proof.query_proofs.iter_mut().zip(&r.indices) {
        let opening = val_mmcs.open_batch(index >> bits_reduced, &d_small);
        qp.input_proof.insert(0, opening);
    }
    inst.proof = proof;

    let native = native_verdict(&pcs, &perm, &inst);
    println!("native verifier: {native:?}");
    let circuit = circuit_accepts(p, &perm, &inst);
    println!("circuit verifier: accepts = {circuit}");
    assert_eq!(
        circuit,
        native.is_ok(),
        "constant matrix at a height the schedule skips: circuit accepts = {circuit}, native = {native:?}"
    );
}
