//! Side observation on the UNMODIFIED tree (goes in `recursion/tests/`).
//!
//! When the tallest committed matrix is exactly as tall as the final FRI domain, a FRI proof has
//! **zero** commit phases: no commit-phase commitments, no betas; the reduced opening at the
//! maximal height is compared with the final polynomial directly. The native verifier accepts such
//! a proof (`verify_query` runs zero rounds). `verify_fri_circuit` refuses to build a circuit for
//! it ("FRI must have at least one fold phase"): the in-circuit verifier rejects a proof the
//! native verifier accepts.
//!
//! The honest Plonky3 prover produces this shape for `log_final_poly_len = 0` when every committed
//! matrix has a single row (constant polynomials only), which is what this test does. (For
//! `log_final_poly_len > 0` the honest prover asserts that every input is taller than the final
//! domain, but the native *verifier* has no such requirement, so a hand-made zero-phase proof
//! with all matrices at the final height is accepted natively as well -- not executed.)

use p3_baby_bear::default_babybear_poseidon2_16;
use p3_challenger::{CanObserve, FieldChallenger};
use p3_circuit::CircuitBuilder;
use p3_commit::Pcs;
use p3_dft::Radix2DitParallel;
use p3_field::coset::TwoAdicMultiplicativeCoset;
use p3_fri::FriParameters;
use p3_matrix::dense::RowMajorMatrix;
use p3_recursion::Recursive;
use p3_recursion::pcs::fri::{
    FriProofTargets, InputProofTargets, RecExtensionValMmcs, RecValMmcs, Witness as RecWitness,
    verify_fri_circuit,
};
use p3_test_utils::baby_bear_params::*;
use rand::SeedableRng;
use rand::rngs::SmallRng;

type RecVal = RecValMmcs<F, 8, MyHash, MyCompress>;
type RecExt = RecExtensionValMmcs<F, Challenge, 8, RecVal>;
type FriTargets =
    FriProofTargets<F, Challenge, RecExt, InputProofTargets<F, Challenge, RecVal>, RecWitness<F>>;

#[test]
fn zero_phase_fri_proof_native_accepts_circuit_must_too() {
    const LOG_FINAL_POLY_LEN: usize = 0;
    // Two batches, every matrix has 2^LOG_FINAL_POLY_LEN = 1 row (constant columns).
    let group_sizes: Vec<Vec<usize>> = vec![vec![LOG_FINAL_POLY_LEN], vec![LOG_FINAL_POLY_LEN; 2]];

    let perm = default_babybear_poseidon2_16();
    let hash = MyHash::new(perm.clone());
    let compress = MyCompress::new(perm.clone());
    let val_mmcs = MyMmcs::new(hash, compress, 0);
    let challenge_mmcs = ChallengeMmcs::new(val_mmcs.clone());
    let fri_params = FriParameters::new_testing(challenge_mmcs, LOG_FINAL_POLY_LEN);
    let log_blowup = fri_params.log_blowup;
    let pcs = MyPcs::new(Radix2DitParallel::<F>::default(), val_mmcs, fri_params);

    // --- Prover ---
    let mut rng = SmallRng::seed_from_u64(7);
    let mut p_challenger = Challenger::new(perm.clone());
    let mut commits_and_data = Vec::new();
    for sizes in &group_sizes {
        let evals: Vec<_> = sizes
            .iter()
            .map(|&log_size| {
                let domain = TwoAdicMultiplicativeCoset::new(F::GENERATOR, log_size).unwrap();
                (
                    domain,
                    RowMajorMatrix::<F>::rand_nonzero(&mut rng, 1 << log_size, 3),
                )
            })
            .collect();
        let (commitment, data) = <MyPcs as Pcs<Challenge, Challenger>>::commit(&pcs, evals);
        p_challenger.observe(commitment.clone());
        commits_and_data.push((commitment, data));
    }
    let zeta: Challenge = p_challenger.sample_algebra_element();
    let open_data = commits_and_data
        .iter()
        .zip(&group_sizes)
        .map(|((_, data), sizes)| (data, vec![vec![zeta]; sizes.len()]))
        .collect();
    let (opened_values, fri_proof) =
        <MyPcs as Pcs<Challenge, Challenger>>::open(&pcs, open_data, &mut p_challenger);

    assert!(
        fri_proof.commit_phase_commits.is_empty(),
        "the honest proof has no commit phase"
    );

    // --- Native verifier ---
    let mut v_challenger = Challenger::new(perm);
    for (commitment, _) in &commits_and_data {
        v_challenger.observe(commitment.clone());
    }
    let zeta_v: Challenge = v_challenger.sample_algebra_element();
    assert_eq!(zeta, zeta_v);
    let coms_to_verify = commits_and_data
        .iter()
        .zip(&group_sizes)
        .zip(&opened_values)
        .map(|(((commitment, _), sizes), batch_values)| {
            let mats = sizes
                .iter()
                .zip(batch_values)
                .map(|(&log_size, mat_values)| {
                    (
                        TwoAdicMultiplicativeCoset::new(F::GENERATOR, log_size).unwrap(),
                        vec![(zeta, mat_values[0].clone())],
                    )
                })
                .collect();
            (commitment.clone(), mats)
        })
        .collect();
    let native = <MyPcs as Pcs<Challenge, Challenger>>::verify(
        &pcs,
        coms_to_verify,
        &fri_proof,
        &mut v_challenger,
    );
    assert!(
        native.is_ok(),
        "native FRI verifier must accept: {native:?}"
    );

    // --- In-circuit verifier (arithmetic only) on the same proof ---
    let log_max_height = LOG_FINAL_POLY_LEN + log_blowup;
    let mut builder = CircuitBuilder::<Challenge>::new();
    let fri_targets = FriTargets::new(&mut builder, &fri_proof);
    let alpha_t = builder.public_input();
    let betas_t: Vec<p3_recursion::Target> = Vec::new();
    let index_bits_t_per_query: Vec<Vec<_>> = (0..fri_proof.query_proofs.len())
        .map(|_| {
            (0..log_max_height)
                .map(|_| builder.public_input())
                .collect()
        })
        .collect();
    let mut coms_t = Vec::new();
    for (sizes, batch_values) in group_sizes.iter().zip(&opened_values) {
        let commit_t = builder.public_input();
        let mut mats_t = Vec::new();
        for (&log_size, mat_values) in sizes.iter().zip(batch_values) {
            let z_t = builder.public_input();
            let fz_t: Vec<_> = (0..mat_values[0].len())
                .map(|_| builder.public_input())
                .collect();
            mats_t.push((
                TwoAdicMultiplicativeCoset::new(F::GENERATOR, log_size).unwrap(),
                vec![(z_t, fz_t)],
            ));
        }
        coms_t.push((commit_t, mats_t));
    }

    let circuit =
        verify_fri_circuit::<F, Challenge, RecExt, RecVal, RecWitness<F>, p3_recursion::Target>(
            &mut builder,
            &fri_targets,
            alpha_t,
            &betas_t,
            &index_bits_t_per_query,
            &coms_t,
            log_blowup,
            None,
        );
    assert!(
        circuit.is_ok(),
        "native FRI verifier accepts the zero-phase proof, verify_fri_circuit rejects it: {:?}",
        circuit.err()
    );
}
