//! Finding C08-arity4-cap-after-bridge (reproduced from the round-12 C08 mutation agent's side observation, unmodified tree):
//! arity-4 MMCS with a Merkle cap whose layer comes right after a binary bridge: the in-circuit walk stops at the first layer whose padded
//! width equals the cap length, one level before the native proof ends, so honest openings are rejected in-circuit.
use p3_circuit::CircuitBuilder;
use p3_circuit::ops::{
    Poseidon2Config, generate_poseidon2_trace, generate_recompose_trace, perm_private_data,
};
use p3_commit::{BatchOpeningRef, Mmcs};
use p3_field::extension::BinomialExtensionField;
use p3_field::{BasedVectorSpace, PrimeCharacteristicRing};
use p3_koala_bear::{KoalaBear, Poseidon2KoalaBear, default_koalabear_poseidon2_32};
use p3_matrix::Matrix;
use p3_matrix::dense::RowMajorMatrix;
use p3_merkle_tree::MerkleTreeMmcs;
use p3_poseidon2_circuit_air::KoalaBearD4Width32;
use p3_recursion::Target;
use p3_recursion::pcs::verify_batch_circuit_arity4;
use p3_symmetric::{PaddingFreeSponge, TruncatedPermutation};

type F = KoalaBear;
type CF = BinomialExtensionField<F, 4>;

type Perm32 = Poseidon2KoalaBear<32>;
type LeafHash = PaddingFreeSponge<Perm32, 32, 24, 8>;
type Compress4 = TruncatedPermutation<Perm32, 4, 8, 32>;
type Mmcs4 = MerkleTreeMmcs<F, F, LeafHash, Compress4, 4, 8>;

fn pack_digest(digest: &[F]) -> Vec<CF> {
    let d = <CF as BasedVectorSpace<F>>::DIMENSION;
    digest
        .chunks(d)
        .map(|chunk| {
            let mut coeffs = vec![F::ZERO; d];
            coeffs[..chunk.len()].copy_from_slice(chunk);
            CF::from_basis_coefficients_slice(&coeffs).expect("digest packs into EF")
        })
        .collect()
}

/// Which part of an honest opening is altered before it is handed to both verifiers.
#[derive(Clone, Copy, Debug)]
enum Tamper {
    None,
    /// Add one to `opened_values[mat][0]`.
    Leaf(usize),
    /// Add one to `opening_proof[sibling][0]`.
    Sibling(usize),
}

/// Returns `(native accepts, in-circuit accepts)` for the opening of `index` in a batch of
/// matrices with the given `(height, width)` shapes committed with `cap_height`.
fn native_vs_circuit(
    shapes: &[(usize, usize)],
    cap_height: usize,
    index: usize,
    tamper: Tamper,
) -> (bool, Result<(), String>) {
    let perm = default_koalabear_poseidon2_32();
    let mmcs = Mmcs4::new(
        LeafHash::new(perm.clone()),
        Compress4::new(perm.clone()),
        cap_height,
    );

    let matrices: Vec<RowMajorMatrix<F>> = shapes
        .iter()
        .enumerate()
        .map(|(m, &(h, w))| {
            let values = (0..h * w)
                .map(|i| F::from_u64((m as u64 + 1) * 1_000_003 + 7 * i as u64))
                .collect();
            RowMajorMatrix::new(values, w)
        })
        .collect();
    let dimensions: Vec<_> = matrices.iter().map(Matrix::dimensions).collect();
    let max_height = dimensions.iter().map(|d| d.height).max().unwrap();
    let log_max_height = max_height.next_power_of_two().trailing_zeros() as usize;

    let (commit, prover_data) = mmcs.commit(matrices);
    let mut opening = mmcs.open_batch(index, &prover_data);
    match tamper {
        Tamper::None => {}
        Tamper::Leaf(m) => opening.opened_values[m][0] += F::ONE,
        Tamper::Sibling(s) => opening.opening_proof[s][0] += F::ONE,
    }

    let native_ok = mmcs
        .verify_batch(
            &commit,
            &dimensions,
            index,
            BatchOpeningRef::new(&opening.opened_values, &opening.opening_proof),
        )
        .is_ok();

    let circuit_ok = (|| -> Result<(), String> {
        let mut builder = CircuitBuilder::<CF>::new();
        let permutation_config = Poseidon2Config::KOALA_BEAR_D4_W32;
        let capacity_ext = permutation_config.capacity_ext();
        builder.enable_poseidon2_perm_width_32::<KoalaBearD4Width32, _>(
            generate_poseidon2_trace::<CF, KoalaBearD4Width32>,
            perm.clone(),
        );
        builder.enable_recompose::<F>(generate_recompose_trace::<F, CF>);

        let opened: Vec<Vec<Target>> = dimensions
            .iter()
            .map(|dims| (0..dims.width).map(|_| builder.public_input()).collect())
            .collect();
        let directions_expr = builder.alloc_public_inputs(log_max_height, "directions");
        let cap_exprs: Vec<Vec<Target>> = commit
            .roots()
            .iter()
            .map(|root| {
                pack_digest(root)
                    .iter()
                    .map(|&v| builder.alloc_const(v, "cap"))
                    .collect()
            })
            .collect();

        let op_ids = verify_batch_circuit_arity4::<F, CF>(
            &mut builder,
            permutation_config,
            &cap_exprs,
            &dimensions,
            &directions_expr,
            &opened,
        )
        .map_err(|e| format!("builder: {e:?}"))?;
        let circuit = builder.build().map_err(|e| format!("build: {e:?}"))?;
        let mut runner = circuit.runner();

        let mut public_inputs: Vec<CF> = opening
            .opened_values
            .iter()
            .flat_map(|row| row.iter().map(|&v| CF::from(v)))
            .collect();
        public_inputs.extend((0..log_max_height).map(|k| CF::from_bool((index >> k) & 1 == 1)));
        runner
            .set_public_inputs(&public_inputs)
            .map_err(|e| format!("public inputs: {e:?}"))?;

        // One private payload per compression op: its siblings (3 for a step-4 level, 1 for a
        // step-2 bridge), zero-padded to `3 * capacity_ext` limbs.
        let mut proof_idx = 0usize;
        let mut op_idx = 0usize;
        while op_idx < op_ids.len() {
            let op_id = op_ids[op_idx];
            let mut flat = Vec::new();
            let mut n = 0usize;
            while op_idx < op_ids.len() && op_ids[op_idx] == op_id {
                // If the circuit's schedule disagrees with the native proof shape there may be no
                // sibling left for this slot; feed zeros and let the root check decide.
                match opening.opening_proof.get(proof_idx) {
                    Some(sibling) => flat.extend(pack_digest(sibling)),
                    None => flat.extend(vec![CF::ZERO; capacity_ext]),
                }
                proof_idx += 1;
                op_idx += 1;
                n += 1;
            }
            for _ in n..3 {
                flat.extend(vec![CF::ZERO; capacity_ext]);
            }
            runner
                .set_private_data(op_id, perm_private_data(permutation_config, flat))
                .map_err(|e| format!("private data: {e:?}"))?;
        }

        runner.run().map(|_| ()).map_err(|e| format!("run: {e:?}"))
    })();

    (native_ok, circuit_ok)
}

fn assert_agree(shapes: &[(usize, usize)], cap_height: usize, index: usize, tamper: Tamper) {
    let (native_ok, circuit) = native_vs_circuit(shapes, cap_height, index, tamper);
    assert_eq!(
        native_ok,
        circuit.is_ok(),
        "shapes={shapes:?} cap_height={cap_height} index={index} tamper={tamper:?}: \
         native accepts = {native_ok}, in-circuit result = {circuit:?}"
    );
}

/// Honest openings of every index must be accepted by both verifiers; an altered leaf value or
/// sibling digest must be rejected by both.
fn check_batch(shapes: &[(usize, usize)], cap_height: usize) {
    let max_height = shapes.iter().map(|s| s.0).max().unwrap();
    for index in 0..max_height {
        let (native_ok, _) = native_vs_circuit(shapes, cap_height, index, Tamper::None);
        assert!(native_ok, "native must accept its own honest opening");
        assert_agree(shapes, cap_height, index, Tamper::None);
    }
    for mat in 0..shapes.len() {
        assert_agree(shapes, cap_height, max_height - 1, Tamper::Leaf(mat));
    }
    assert_agree(shapes, cap_height, 1, Tamper::Sibling(0));
}

/// Control: power-of-two heights (the shapes the existing suite already exercises).

#[test]
fn arity4_cap_layer_after_a_bridge_agrees_with_native() {
    // native schedule [4, 2(+inject the 2-row matrix), 4]; cap_height = 1 strips the last entry
    assert_agree(&[(16, 3), (2, 5)], 1, 0, Tamper::None);
    assert_agree(&[(16, 3), (2, 5)], 1, 3, Tamper::None);
}
