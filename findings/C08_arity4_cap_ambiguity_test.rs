//! Side observation on the UNMODIFIED code (C08): `verify_batch_circuit_arity4` learns the cap
//! height only from `commitment_cap.len()` and walks the schedule `while curr_height_padded >
//! num_roots`. In a 4-ary tree two different cap heights can have the SAME number of roots, because
//! a 2-entry layer is stored padded to 4 entries. For heights {8, 4, 2, 1} the full schedule is
//! [2, 2, 4]: `cap_height = 1` (cap = padded 2-entry layer, proof = 2 bridge siblings) and
//! `cap_height = 2` (cap = 4-entry layer, proof = 1 bridge sibling) both give 4 roots. The circuit
//! always takes the `cap_height = 2` reading, so every honest opening of the `cap_height = 1`
//! commitment is rejected (one compression level is emitted where the native proof has two).
//! Probably the same root cause as the already known "arity-4 cap after bridge" finding.
//!
//! Goes into `recursion/tests/`. Expected: FAILS on the unmodified tree.

use p3_circuit::CircuitBuilder;
use p3_circuit::ops::{
    Poseidon2Config, generate_poseidon2_trace, generate_recompose_trace, perm_private_data,
};
use p3_commit::{BatchOpeningRef, Mmcs};
use p3_field::extension::BinomialExtensionField;
use p3_field::{BasedVectorSpace, PrimeCharacteristicRing};
use p3_koala_bear::{KoalaBear, Poseidon2KoalaBear, default_koalabear_poseidon2_32};
use p3_matrix::Matrix;
use p3_matrix::dense::RowMajorMatrix;
use p3_merkle_tree::MerkleTreeMmcs;
use p3_poseidon2_circuit_air::KoalaBearD4Width32;
use p3_recursion::Target;
use p3_recursion::pcs::verify_batch_circuit_arity4;
use p3_symmetric::{PaddingFreeSponge, TruncatedPermutation};

type F = KoalaBear;
type CF = BinomialExtensionField<F, 4>;

type Perm32 = Poseidon2KoalaBear<32>;
type LeafHash = PaddingFreeSponge<Perm32, 32, 24, 8>;
type Compress4 = TruncatedPermutation<Perm32, 4, 8, 32>;
type Mmcs4 = MerkleTreeMmcs<F, F, LeafHash, Compress4, 4, 8>;

fn pack_digest(digest: &[F]) -> Vec<CF> {
    let d = <CF as BasedVectorSpace<F>>::DIMENSION;
    digest
        .chunks(d)
        .map(|chunk| {
            let mut coeffs = vec![F::ZERO; d];
            coeffs[..chunk.len()].copy_from_slice(chunk);
            CF::from_basis_coefficients_slice(&coeffs).expect("digest packs into EF")
        })
        .collect()
}

fn set_sibling_private_data(
    runner: &mut p3_circuit::CircuitRunner<'_, CF>,
    op_ids: &[p3_circuit::NonPrimitiveOpId],
    opening_proof: &[[F; 8]],
    permutation_config: Poseidon2Config,
) {
    let capacity_ext = permutation_config.capacity_ext();
    let mut proof_idx = 0usize;
    let mut op_idx = 0usize;
    while op_idx < op_ids.len() {
        let op_id = op_ids[op_idx];
        let mut flat = Vec::new();
        let mut siblings_for_op = 0usize;
        while op_idx < op_ids.len() && op_ids[op_idx] == op_id {
            flat.extend(pack_digest(&opening_proof[proof_idx]));
            proof_idx += 1;
            op_idx += 1;
            siblings_for_op += 1;
        }
        for _ in siblings_for_op..3 {
            flat.extend(vec![CF::ZERO; capacity_ext]);
        }
        runner
            .set_private_data(op_id, perm_private_data(permutation_config, flat))
            .expect("set private data");
    }
    assert_eq!(proof_idx, opening_proof.len());
}

/// For each index: native `verify_batch` verdict must be `Ok` (honest opening); returns whether the
/// in-circuit verifier (runner) accepted the very same opening against the very same cap.
fn arity4_check(
    shapes: &[(usize, usize)],
    cap_height: usize,
    indices: &[usize],
) -> Vec<Result<(), String>> {
    arity4_check_claimed(shapes, cap_height, indices, |i| i)
        .into_iter()
        .map(|(native_ok, circuit)| {
            assert!(native_ok, "native must accept an honest opening");
            circuit
        })
        .collect()
}

/// The opening is produced at `index` but presented to both verifiers under `claim(index)`.
/// Returns `(native verdict, circuit verdict)` per index.
fn arity4_check_claimed(
    shapes: &[(usize, usize)],
    cap_height: usize,
    indices: &[usize],
    claim: impl Fn(usize) -> usize,
) -> Vec<(bool, Result<(), String>)> {
    let perm = default_koalabear_poseidon2_32();
    let mmcs = Mmcs4::new(LeafHash::new(perm.clone()), Compress4::new(perm.clone()), cap_height);
    let matrices: Vec<RowMajorMatrix<F>> = shapes
        .iter()
        .enumerate()
        .map(|(m, &(h, w))| {
            RowMajorMatrix::new(
                (0..h * w)
                    .map(|i| F::from_u64((m as u64 + 1) * 1_000_003 + 7 * i as u64))
                    .collect(),
                w,
            )
        })
        .collect();
    let dimensions: Vec<_> = matrices.iter().map(Matrix::dimensions).collect();
    let max_height = shapes.iter().map(|s| s.0).max().unwrap();
    let log_max_height = p3_util::log2_ceil_usize(max_height);
    let (commit, prover_data) = mmcs.commit(matrices);
    let num_roots = commit.roots().len();
    assert!(num_roots > 1, "the demo needs a real cap (num_roots = {num_roots})");

    let mut out = Vec::new();
    for &index in indices {
        let batch_opening = mmcs.open_batch(index, &prover_data);
        let index = claim(index);
        let native_ok = mmcs
            .verify_batch(
                &commit,
                &dimensions,
                index,
                BatchOpeningRef::new(&batch_opening.opened_values, &batch_opening.opening_proof),
            )
            .is_ok();

        let mut builder = CircuitBuilder::<CF>::new();
        let permutation_config = Poseidon2Config::KOALA_BEAR_D4_W32;
        builder.enable_poseidon2_perm_width_32::<KoalaBearD4Width32, _>(
            generate_poseidon2_trace::<CF, KoalaBearD4Width32>,
            perm.clone(),
        );
        builder.enable_recompose::<F>(generate_recompose_trace::<F, CF>);

        let opened: Vec<Vec<Target>> = dimensions
            .iter()
            .map(|dims| (0..dims.width).map(|_| builder.public_input()).collect())
            .collect();
        let directions_expr = builder.alloc_public_inputs(log_max_height, "dirs");
        let cap_exprs: Vec<Vec<Target>> = commit
            .roots()
            .iter()
            .map(|root| {
                pack_digest(root)
                    .iter()
                    .map(|&v| builder.alloc_const(v, "cap"))
                    .collect()
            })
            .collect();
        let res = verify_batch_circuit_arity4::<F, CF>(
            &mut builder,
            permutation_config,
            &cap_exprs,
            &dimensions,
            &directions_expr,
            &opened,
        );
        let mmcs_op_ids = match res {
            Ok(v) => v,
            Err(e) => {
                out.push((native_ok, Err(format!("build: {e:?}"))));
                continue;
            }
        };
        if mmcs_op_ids.len() != batch_opening.opening_proof.len() {
            out.push((
                native_ok,
                Err(format!(
                    "op ids {} vs proof {}",
                    mmcs_op_ids.len(),
                    batch_opening.opening_proof.len()
                )),
            ));
            continue;
        }
        let circuit = builder.build().expect("build");
        let mut runner = circuit.runner();
        let mut public_inputs: Vec<CF> = batch_opening
            .opened_values
            .iter()
            .flat_map(|row| row.iter().map(|&v| CF::from(v)))
            .collect();
        public_inputs.extend((0..log_max_height).map(|k| CF::from_bool((index >> k) & 1 == 1)));
        runner.set_public_inputs(&public_inputs).expect("pi");
        set_sibling_private_data(
            &mut runner,
            &mmcs_op_ids,
            &batch_opening.opening_proof,
            permutation_config,
        );
        out.push((
            native_ok,
            runner.run().map(|_| ()).map_err(|e| format!("{e:?}")),
        ));
    }
    out
}


#[test]
fn arity4_cap_height_1_after_two_bridges() {
    let shapes = [(8usize, 3usize), (4, 2), (2, 5), (1, 7)];
    let indices: Vec<usize> = (0..8).collect();
    // Control: cap_height = 2 has the same number of roots and is handled.
    for r in arity4_check(&shapes, 2, &indices) {
        assert!(r.is_ok(), "cap_height 2 control: {r:?}");
    }
    let results = arity4_check(&shapes, 1, &indices);
    let rejected: Vec<(usize, String)> = indices
        .iter()
        .zip(results)
        .filter_map(|(&i, r)| r.err().map(|e| (i, e.chars().take(120).collect())))
        .collect();
    assert!(
        rejected.is_empty(),
        "native accepts every opening (cap_height 1, 4 roots); circuit rejected {} of 8; first: {:?}",
        rejected.len(),
        rejected.first()
    );
}
