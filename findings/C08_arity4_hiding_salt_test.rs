//! Side observation (C08, unmodified tree): arity-4 + hiding MMCS.
//!
//! Native `MerkleTreeHidingMmcs` is generic over the tree arity `N`, so an arity-4 hiding MMCS
//! is a valid native configuration: the leaf preimage of every matrix is `row || salt`.
//! The in-circuit arity-4 entry points (`verify_batch_circuit_arity4`,
//! `verify_batch_circuit_from_extension_opened_arity4`) take no salts at all, and the FRI
//! verifier (`pcs/fri/verifier.rs`, input batches and commit phases) silently drops the salt
//! targets whenever `perm_config.is_arity4_shape()`. Every honest opening of an arity-4 hiding
//! commitment is therefore rejected in-circuit although native accepts it.
//!
//! Goes in `recursion/tests/`.

use p3_circuit::ops::{
    Poseidon2Config, generate_poseidon2_trace, generate_recompose_trace, perm_private_data,
};
use p3_circuit::{CircuitBuilder, NonPrimitiveOpId};
use p3_commit::Mmcs;
use p3_field::extension::BinomialExtensionField;
use p3_field::{BasedVectorSpace, PrimeCharacteristicRing};
use p3_koala_bear::{KoalaBear, Poseidon2KoalaBear, default_koalabear_poseidon2_32};
use p3_matrix::dense::RowMajorMatrix;
use p3_matrix::{Dimensions, Matrix};
use p3_merkle_tree::MerkleTreeHidingMmcs;
use p3_poseidon2_circuit_air::KoalaBearD4Width32;
use p3_recursion::Target;
use p3_recursion::pcs::verify_batch_circuit_arity4;
use p3_symmetric::{PaddingFreeSponge, TruncatedPermutation};
use rand::SeedableRng;
use rand::rngs::SmallRng;

type F = KoalaBear;
type CF = BinomialExtensionField<F, 4>;
type Perm32 = Poseidon2KoalaBear<32>;
type LeafHash = PaddingFreeSponge<Perm32, 32, 24, 8>;
type Compress4 = TruncatedPermutation<Perm32, 4, 8, 32>;
const SALT_ELEMS: usize = 4;
type HidingMmcs4 = MerkleTreeHidingMmcs<F, F, LeafHash, Compress4, SmallRng, 4, 8, SALT_ELEMS>;

fn pack_digest(digest: &[F]) -> Vec<CF> {
    digest
        .chunks(<CF as BasedVectorSpace<F>>::DIMENSION)
        .map(|c| CF::from_basis_coefficients_slice(c).expect("full limb"))
        .collect()
}

fn set_sibling_private_data(
    runner: &mut p3_circuit::CircuitRunner<'_, CF>,
    op_ids: &[NonPrimitiveOpId],
    siblings: &[[F; 8]],
    cfg: Poseidon2Config,
) {
    let capacity_ext = cfg.capacity_ext();
    let (mut proof_idx, mut op_idx) = (0usize, 0usize);
    while op_idx < op_ids.len() {
        let op_id = op_ids[op_idx];
        let mut flat = Vec::new();
        let mut n = 0usize;
        while op_idx < op_ids.len() && op_ids[op_idx] == op_id {
            flat.extend(pack_digest(&siblings[proof_idx]));
            proof_idx += 1;
            op_idx += 1;
            n += 1;
        }
        for _ in n..3 {
            flat.extend(vec![CF::ZERO; capacity_ext]);
        }
        runner
            .set_private_data(op_id, perm_private_data(cfg, flat))
            .expect("private data");
    }
    assert_eq!(proof_idx, siblings.len());
}

/// In-circuit arity-4 verification of leaf preimages `rows` (one per matrix).
fn circuit_accepts(
    roots: &[[F; 8]],
    dimensions: &[Dimensions],
    index: usize,
    log_max_height: usize,
    rows: &[Vec<F>],
    siblings: &[[F; 8]],
) -> bool {
    let perm = default_koalabear_poseidon2_32();
    let cfg = Poseidon2Config::KOALA_BEAR_D4_W32;
    let capacity_ext = cfg.capacity_ext();
    let d = <CF as BasedVectorSpace<F>>::DIMENSION;

    let mut builder = CircuitBuilder::<CF>::new();
    builder.enable_poseidon2_perm_width_32::<KoalaBearD4Width32, _>(
        generate_poseidon2_trace::<CF, KoalaBearD4Width32>,
        perm,
    );
    builder.enable_recompose::<F>(generate_recompose_trace::<F, CF>);

    let opened: Vec<Vec<Target>> = rows
        .iter()
        .map(|r| (0..r.len()).map(|_| builder.public_input()).collect())
        .collect();
    let directions = builder.alloc_public_inputs(log_max_height, "directions");
    let cap: Vec<Vec<Target>> = roots
        .iter()
        .map(|_| builder.alloc_public_inputs(capacity_ext, "cap entry").to_vec())
        .collect();
    let _ = d;

    let op_ids = verify_batch_circuit_arity4::<F, CF>(
        &mut builder,
        cfg,
        &cap,
        dimensions,
        &directions,
        &opened,
    )
    .expect("circuit construction");

    let circuit = builder.build().expect("build");
    let mut runner = circuit.runner();
    let mut pis: Vec<CF> = rows
        .iter()
        .flat_map(|r| r.iter().map(|&v| CF::from(v)))
        .collect();
    pis.extend((0..log_max_height).map(|k| CF::from_bool((index >> k) & 1 == 1)));
    for root in roots {
        pis.extend(pack_digest(root));
    }
    runner.set_public_inputs(&pis).expect("public inputs");
    set_sibling_private_data(&mut runner, &op_ids, siblings, cfg);
    runner.run().is_ok()
}

#[test]
fn arity4_hiding_opening_is_accepted_like_native() {
    let perm = default_koalabear_poseidon2_32();
    let mmcs = HidingMmcs4::new(
        LeafHash::new(perm.clone()),
        Compress4::new(perm),
        0,
        SmallRng::seed_from_u64(3),
    );

    let height = 16usize;
    let width = 3usize;
    let mut rng = SmallRng::seed_from_u64(5);
    let mat = RowMajorMatrix::<F>::rand(&mut rng, height, width);
    let dimensions = vec![mat.dimensions()];
    let (commit, prover_data) = mmcs.commit(vec![mat]);
    let roots: Vec<[F; 8]> = commit.roots().to_vec();

    for index in [0usize, 6, 15] {
        let opening = mmcs.open_batch(index, &prover_data);
        let native_accepts = mmcs
            .verify_batch(&commit, &dimensions, index, (&opening).into())
            .is_ok();
        assert!(native_accepts, "native accepts the honest hiding opening");

        let (salts, siblings) = &opening.opening_proof;

        // Sanity: the tree really commits to `row || salt`; handing that preimage to the
        // arity-4 circuit (which a caller cannot do through the FRI verifier) verifies.
        let salted: Vec<Vec<F>> = opening
            .opened_values
            .iter()
            .zip(salts)
            .map(|(row, salt)| row.iter().chain(salt.iter()).copied().collect())
            .collect();
        assert!(
            circuit_accepts(&roots, &dimensions, index, 4, &salted, siblings),
            "row || salt preimage verifies in-circuit (index {index})"
        );

        // What the arity-4 API / FRI verifier does: the salt never reaches the leaf hash.
        let circuit = circuit_accepts(
            &roots,
            &dimensions,
            index,
            4,
            &opening.opened_values,
            siblings,
        );
        assert_eq!(
            circuit, native_accepts,
            "arity-4 hiding MMCS: in-circuit outcome differs from native verify_batch (index {index})"
        );
    }
}
