//! Side observation on the UNMODIFIED tree (goes in `recursion/tests/`).
//!
//! `arity4_emit_path` ties the recovered root to the selected cap entry with
//! `for (o, r) in output.iter().zip(selected_root.iter()) { connect(o, r) }` and nothing checks
//! that a cap entry has `capacity_ext` limbs (the arity-2 `add_mmcs_verify` and the circuit-level
//! `add_mmcs_verify_arity4` both return `InvalidDimension` for a root of the wrong length; see
//! the unit test `verify_rejects_mismatched_root_length`). A cap entry with fewer limbs is silently
//! accepted and only the provided limbs are compared:
//!   * with one limb (4 of the 8 digest elements) a commitment that differs from the real root in
//!     elements 4..8 is accepted,
//!   * with zero limbs nothing at all is compared and any altered leaf value is accepted.
//!
//! Expected on the unmodified tree: both tests FAIL.

use p3_circuit::ops::{
    Poseidon2Config, generate_poseidon2_trace, generate_recompose_trace, perm_private_data,
};
use p3_circuit::{CircuitBuilder, CircuitBuilderError, NonPrimitiveOpId};
use p3_commit::{BatchOpening, BatchOpeningRef, Mmcs};
use p3_field::extension::BinomialExtensionField;
use p3_field::{BasedVectorSpace, PrimeCharacteristicRing};
use p3_koala_bear::{KoalaBear, Poseidon2KoalaBear, default_koalabear_poseidon2_32};
use p3_matrix::dense::RowMajorMatrix;
use p3_matrix::{Dimensions, Matrix};
use p3_merkle_tree::{MerkleCap, MerkleTreeMmcs};
use p3_poseidon2_circuit_air::KoalaBearD4Width32;
use p3_recursion::Target;
use p3_recursion::pcs::verify_batch_circuit_arity4;
use p3_symmetric::{PaddingFreeSponge, TruncatedPermutation};
use p3_util::log2_ceil_usize;

type F = KoalaBear;
type CF = BinomialExtensionField<F, 4>;
type Perm32 = Poseidon2KoalaBear<32>;
type LeafHash = PaddingFreeSponge<Perm32, 32, 24, 8>;
type Compress4 = TruncatedPermutation<Perm32, 4, 8, 32>;
type Mmcs4 = MerkleTreeMmcs<F, F, LeafHash, Compress4, 4, 8>;

const CFG: Poseidon2Config = Poseidon2Config::KOALA_BEAR_D4_W32;

fn pack_digest(digest: &[F]) -> Vec<CF> {
    digest
        .chunks(<CF as BasedVectorSpace<F>>::DIMENSION)
        .map(|c| CF::from_basis_coefficients_slice(c).unwrap())
        .collect()
}

struct Fixture {
    mmcs: Mmcs4,
    commit: MerkleCap<F, [F; 8]>,
    dims: Vec<Dimensions>,
    opening: BatchOpening<F, Mmcs4>,
    index: usize,
}

fn fixture() -> Fixture {
    let perm = default_koalabear_poseidon2_32();
    let mmcs = Mmcs4::new(LeafHash::new(perm.clone()), Compress4::new(perm), 0);
    let values: Vec<F> = (0..16 * 4).map(|i| F::from_u64(7 * i as u64 + 1)).collect();
    let mat = RowMajorMatrix::new(values, 4);
    let dims = vec![mat.dimensions()];
    let (commit, pd) = mmcs.commit(vec![mat]);
    let index = 6;
    let opening = mmcs.open_batch(index, &pd);
    Fixture {
        mmcs,
        commit,
        dims,
        opening,
        index,
    }
}

/// Build the circuit with `limbs` limbs of the (packed) root per cap entry.
fn build(
    fx: &Fixture,
    root: &[F; 8],
    limbs: usize,
) -> (
    CircuitBuilder<CF>,
    Result<Vec<NonPrimitiveOpId>, CircuitBuilderError>,
) {
    let log_h = log2_ceil_usize(fx.dims[0].height);
    let mut builder = CircuitBuilder::<CF>::new();
    builder.enable_poseidon2_perm_width_32::<KoalaBearD4Width32, _>(
        generate_poseidon2_trace::<CF, KoalaBearD4Width32>,
        default_koalabear_poseidon2_32(),
    );
    builder.enable_recompose::<F>(generate_recompose_trace::<F, CF>);
    let opened: Vec<Vec<Target>> = fx
        .dims
        .iter()
        .map(|d| (0..d.width).map(|_| builder.public_input()).collect())
        .collect();
    let bits = builder.alloc_public_inputs(log_h, "index bits");
    let cap: Vec<Vec<Target>> = vec![
        pack_digest(root)
            .iter()
            .take(limbs)
            .map(|&v| builder.alloc_const(v, "cap"))
            .collect(),
    ];
    let res =
        verify_batch_circuit_arity4::<F, CF>(&mut builder, CFG, &cap, &fx.dims, &bits, &opened);
    (builder, res)
}

fn run(
    fx: &Fixture,
    builder: CircuitBuilder<CF>,
    op_ids: &[NonPrimitiveOpId],
    opening: &BatchOpening<F, Mmcs4>,
) -> bool {
    let log_h = log2_ceil_usize(fx.dims[0].height);
    let circuit = builder.build().expect("circuit build");
    let mut runner = circuit.runner();
    let mut pis: Vec<CF> = opening
        .opened_values
        .iter()
        .flat_map(|r| r.iter().map(|&v| CF::from(v)))
        .collect();
    pis.extend((0..log_h).map(|k| CF::from_bool((fx.index >> k) & 1 == 1)));
    runner.set_public_inputs(&pis).unwrap();
    let cap_ext = CFG.capacity_ext();
    let (mut pi, mut oi) = (0usize, 0usize);
    while oi < op_ids.len() {
        let id = op_ids[oi];
        let mut flat = Vec::new();
        let mut n = 0;
        while oi < op_ids.len() && op_ids[oi] == id {
            flat.extend(pack_digest(&opening.opening_proof[pi]));
            pi += 1;
            oi += 1;
            n += 1;
        }
        for _ in n..3 {
            flat.extend(vec![CF::ZERO; cap_ext]);
        }
        runner
            .set_private_data(id, perm_private_data(CFG, flat))
            .unwrap();
    }
    runner.run().is_ok()
}

/// The commitment handed to the verifier differs from the real root in its last element. Native
/// rejects. The circuit, given only the first limb of each cap entry, must either refuse to build
/// (like the arity-2 path) or reject; it accepts.
#[test]
fn truncated_cap_entry_hides_a_wrong_commitment() {
    let fx = fixture();
    let mut wrong_root = fx.commit.roots()[0];
    wrong_root[7] += F::ONE;
    let wrong_commit: MerkleCap<F, [F; 8]> = MerkleCap::new(vec![wrong_root]);
    let native = fx
        .mmcs
        .verify_batch(
            &wrong_commit,
            &fx.dims,
            fx.index,
            BatchOpeningRef::new(&fx.opening.opened_values, &fx.opening.opening_proof),
        )
        .is_ok();
    assert!(!native, "native rejects the wrong commitment");

    let (builder, res) = build(&fx, &wrong_root, 1);
    let circuit_accepts = match res {
        Err(_) => false,
        Ok(op_ids) => run(&fx, builder, &op_ids, &fx.opening),
    };
    assert_eq!(
        circuit_accepts, native,
        "circuit accepts an opening against a commitment the native MMCS rejects"
    );
}

/// With an empty cap entry the recovered root is compared with nothing: an opening with an altered
/// leaf value (native: `CapMismatch`) is accepted.
#[test]
fn empty_cap_entry_accepts_altered_leaf() {
    let fx = fixture();
    let mut tampered = BatchOpening::<F, Mmcs4>::new(
        fx.opening.opened_values.clone(),
        fx.opening.opening_proof.clone(),
    );
    tampered.opened_values[0][0] += F::ONE;
    let native = fx
        .mmcs
        .verify_batch(
            &fx.commit,
            &fx.dims,
            fx.index,
            BatchOpeningRef::new(&tampered.opened_values, &tampered.opening_proof),
        )
        .is_ok();
    assert!(!native);

    let (builder, res) = build(&fx, &fx.commit.roots()[0], 0);
    let circuit_accepts = match res {
        Err(_) => false,
        Ok(op_ids) => run(&fx, builder, &op_ids, &tampered),
    };
    assert_eq!(
        circuit_accepts, native,
        "circuit accepts an altered leaf value the native MMCS rejects"
    );
}
