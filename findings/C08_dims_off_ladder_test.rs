//! Side observation on the UNMODIFIED tree (goes in `recursion/tests/`).
//!
//! Native `MerkleTreeMmcs::verify_batch` starts with a geometry gate
//! (`validate_commit_reachable_heights`) and an index bound (`index < max_height`):
//!   * every claimed height must be exactly `ceil(max_height / 2^k)` for its level `k`,
//!   * the opened index must be smaller than the (possibly non-power-of-two) tallest height.
//! `verify_batch_circuit` (arity 2) performs neither check: it only buckets the claimed heights by
//! `next_power_of_two()`, so for the dimension vectors below it accepts openings that the native
//! MMCS rejects.  Each test compares the runner's verdict with the native verdict for the very
//! same `(commitment, dimensions, index, opening)`.
//!
//! Expected on the unmodified tree: all three tests FAIL (circuit accepts, native rejects).

use p3_circuit::CircuitBuilder;
use p3_circuit::ops::{
    Poseidon2Config, generate_poseidon2_trace, generate_recompose_trace, perm_private_data,
};
use p3_commit::{BatchOpening, BatchOpeningRef, Mmcs};
use p3_field::extension::BinomialExtensionField;
use p3_field::{BasedVectorSpace, PrimeCharacteristicRing};
use p3_koala_bear::{KoalaBear, Poseidon2KoalaBear, default_koalabear_poseidon2_16};
use p3_matrix::Dimensions;
use p3_matrix::dense::RowMajorMatrix;
use p3_merkle_tree::{MerkleCap, MerkleTreeMmcs};
use p3_poseidon2_circuit_air::KoalaBearD4Width16;
use p3_recursion::Target;
use p3_recursion::pcs::verify_batch_circuit;
use p3_symmetric::{PaddingFreeSponge, TruncatedPermutation};
use p3_util::log2_ceil_usize;

type F = KoalaBear;
type CF = BinomialExtensionField<F, 4>;
type Perm16 = Poseidon2KoalaBear<16>;
type Hash2 = PaddingFreeSponge<Perm16, 16, 8, 8>;
type Compress2 = TruncatedPermutation<Perm16, 2, 8, 16>;
type Mmcs2 = MerkleTreeMmcs<F, F, Hash2, Compress2, 2, 8>;

const CFG: Poseidon2Config = Poseidon2Config::KOALA_BEAR_D4_W16;

fn native_mmcs() -> Mmcs2 {
    let perm = default_koalabear_poseidon2_16();
    Mmcs2::new(Hash2::new(perm.clone()), Compress2::new(perm), 0)
}

fn pack_digest(digest: &[F]) -> Vec<CF> {
    digest
        .chunks(<CF as BasedVectorSpace<F>>::DIMENSION)
        .map(|c| CF::from_basis_coefficients_slice(c).unwrap())
        .collect()
}

fn matrices(shapes: &[(usize, usize)]) -> Vec<RowMajorMatrix<F>> {
    shapes
        .iter()
        .enumerate()
        .map(|(m, &(h, w))| {
            let values = (0..h * w)
                .map(|i| F::from_u64((m as u64 + 1) * 1_000_003 + 7 * i as u64 + 1))
                .collect();
            RowMajorMatrix::new(values, w)
        })
        .collect()
}

fn native_accepts(
    mmcs: &Mmcs2,
    commit: &MerkleCap<F, [F; 8]>,
    dims: &[Dimensions],
    index: usize,
    opening: &BatchOpening<F, Mmcs2>,
) -> bool {
    mmcs.verify_batch(
        commit,
        dims,
        index,
        BatchOpeningRef::new(&opening.opened_values, &opening.opening_proof),
    )
    .is_ok()
}

fn circuit_accepts(
    commit: &MerkleCap<F, [F; 8]>,
    dims: &[Dimensions],
    index: usize,
    opening: &BatchOpening<F, Mmcs2>,
) -> bool {
    let max_height = dims.iter().map(|d| d.height).max().unwrap();
    let log_max_height = log2_ceil_usize(max_height);
    let mut builder = CircuitBuilder::<CF>::new();
    builder.enable_poseidon2_perm::<KoalaBearD4Width16, _>(
        generate_poseidon2_trace::<CF, KoalaBearD4Width16>,
        default_koalabear_poseidon2_16(),
    );
    builder.enable_recompose::<F>(generate_recompose_trace::<F, CF>);
    let opened: Vec<Vec<Target>> = dims
        .iter()
        .map(|d| (0..d.width).map(|_| builder.public_input()).collect())
        .collect();
    let bits = builder.alloc_public_inputs(log_max_height, "index bits");
    let cap: Vec<Vec<Target>> = commit
        .roots()
        .iter()
        .map(|r| {
            pack_digest(r)
                .iter()
                .map(|&v| builder.alloc_const(v, "cap"))
                .collect()
        })
        .collect();
    let Ok(op_ids) =
        verify_batch_circuit::<F, CF>(&mut builder, CFG, &cap, dims, &bits, &opened, None)
    else {
        return false; // a build-time rejection counts as "circuit rejects"
    };
    if op_ids.len() != opening.opening_proof.len() {
        return false;
    }
    let Ok(circuit) = builder.build() else {
        return false;
    };
    let mut runner = circuit.runner();
    let mut pis: Vec<CF> = opening
        .opened_values
        .iter()
        .flat_map(|r| r.iter().map(|&v| CF::from(v)))
        .collect();
    pis.extend((0..log_max_height).map(|k| CF::from_bool((index >> k) & 1 == 1)));
    runner.set_public_inputs(&pis).unwrap();
    for (id, sib) in op_ids.iter().zip(opening.opening_proof.iter()) {
        runner
            .set_private_data(*id, perm_private_data(CFG, pack_digest(sib)))
            .unwrap();
    }
    runner.run().is_ok()
}

/// Committed heights {8, 4}; claimed dimensions {8, 3}. Height 3 is not on the ladder of 8
/// (`ceil(8/2) = 4`): native returns `IncompatibleHeights`, the circuit puts the 3-row claim into
/// the same bucket as 4 and accepts.
#[test]
fn claimed_height_off_the_ladder_same_bucket() {
    let mmcs = native_mmcs();
    let (commit, pd) = mmcs.commit(matrices(&[(8, 4), (4, 2)]));
    let claimed = [
        Dimensions {
            width: 4,
            height: 8,
        },
        Dimensions {
            width: 2,
            height: 3,
        },
    ];
    for index in 0..8 {
        let opening = mmcs.open_batch(index, &pd);
        let native = native_accepts(&mmcs, &commit, &claimed, index, &opening);
        assert!(
            !native,
            "native rejects dimensions no commitment can produce"
        );
        assert_eq!(
            circuit_accepts(&commit, &claimed, index, &opening),
            native,
            "index {index}: circuit accepts an opening for dimensions the native MMCS rejects"
        );
    }
}

/// Committed heights {8, 8}; claimed dimensions {8, 7}: two *different* heights rounding up to the
/// same power of two. Native: `IncompatibleHeights`. The arity-4 entry point and
/// `format_openings` reject this shape, `verify_batch_circuit` hashes both rows into one leaf.
#[test]
fn two_different_heights_in_one_power_of_two_bucket() {
    let mmcs = native_mmcs();
    let (commit, pd) = mmcs.commit(matrices(&[(8, 4), (8, 2)]));
    let claimed = [
        Dimensions {
            width: 4,
            height: 8,
        },
        Dimensions {
            width: 2,
            height: 7,
        },
    ];
    for index in 0..8 {
        let opening = mmcs.open_batch(index, &pd);
        let native = native_accepts(&mmcs, &commit, &claimed, index, &opening);
        assert!(!native);
        assert_eq!(
            circuit_accepts(&commit, &claimed, index, &opening),
            native,
            "index {index}: circuit accepts an opening for dimensions the native MMCS rejects"
        );
    }
}

/// Committed height 8; claimed height 5 (same tree depth). Native accepts indices 0..5 and
/// rejects 5, 6, 7 with `IndexOutOfBounds`; the circuit has no bound on the index beyond its bit
/// length and accepts all eight.
#[test]
fn index_beyond_non_power_of_two_max_height() {
    let mmcs = native_mmcs();
    let (commit, pd) = mmcs.commit(matrices(&[(8, 4)]));
    let claimed = [Dimensions {
        width: 4,
        height: 5,
    }];
    for index in 0..8 {
        let opening = mmcs.open_batch(index, &pd);
        let native = native_accepts(&mmcs, &commit, &claimed, index, &opening);
        assert_eq!(native, index < 5, "native index bound");
        assert_eq!(
            circuit_accepts(&commit, &claimed, index, &opening),
            native,
            "index {index}: circuit and native disagree"
        );
    }
}
