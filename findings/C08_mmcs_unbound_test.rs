//! C08b demonstration: in the NON-compact (extension-mode, D = 4) Poseidon circuit AIR an input limb
//! that the circuit leaves un-wired (`None`) on a `new_start` row is constrained by NOTHING:
//!   * `in_ctl = 0`            -> no WitnessChecks bus send for the limb (eval_interactions),
//!   * `normal_chain_sel = 0`  -> (`!new_start && !merkle_path && !in_ctl` is false) no sponge chaining,
//!   * `merkle_chain_sel = 0`  -> no Merkle chaining,
//!   * and, unlike the compact D=1 branch, the `else` branch of `eval` has no
//!     "new_start && !merkle => capacity == 0" constraint.
//! The in-circuit MMCS leaf hash (`recursion/src/pcs/mmcs.rs::add_hash_base_coeffs_overwrite`) emits its
//! first chunk as such a row with the CAPACITY limbs `None`.  The native `PaddingFreeSponge` starts
//! from the all-zero state, so a malicious prover who chooses the initial capacity makes the circuit
//! accept openings the native MMCS rejects.
//!
//! Everything the verifier depends on (circuit, preprocessed columns, AIRs, verifier) is the real,
//! unmodified code built from the HONEST circuit.  Only witness generation is tampered: a clone of the
//! compiled circuit gets (a) two extra witness slots filled by a hint with the attacker's capacity,
//! (b) those slots wired into the (prover-side only) capacity input slots of the leaf-hash op so that
//! the REAL Poseidon2 executor computes the row.  The recorded row is then given back its honest
//! control fields, i.e. the forged trace differs from an honest one in VALUE columns only.
//!
//! Tests
//!  * `c08b_forged_leaf_same_root`  (strong): same committed root, same index, same siblings, but the
//!    opened leaf values are NOT the committed ones.  leaf'/cap' are obtained by inverting Poseidon2 on
//!    (honest leaf digest || arbitrary 8 elements).  Native `verify_batch` rejects; the batch-STARK
//!    proof of the verification circuit VERIFIES.
//!  * `c08b_forged_capacity_other_root` (weak): honest leaf, attacker capacity, everything downstream
//!    recomputed; the proof VERIFIES although the root it is connected to is not the Merkle root of
//!    the opening (native `verify_batch` rejects).
//!  * controls: honest proof verifies; a forged RATE limb (bus-exposed) is rejected.
//!  * Question B (Merkle-mode rows, arity-2): `c08b_merkle_row_wired_limbs_unbound` (the leaf digest
//!    wired into the first compression row is not bus-read, so an ARBITRARY public leaf opens the honest
//!    root), `c08b_merkle_direction_bit_unbound` (public index bits != path bits accepted), and the
//!    control `c08b_control_chained_merkle_limb_is_bound` (a `merkle_chain_sel = 1` limb is rejected).
//! The attacked leaf-hash row is row 1 of the Poseidon2 table (row 0 is an unrelated dummy sponge row).

use p3_baby_bear::{
    BABYBEAR_POSEIDON2_RC_16_EXTERNAL_FINAL, BABYBEAR_POSEIDON2_RC_16_EXTERNAL_INITIAL,
    BABYBEAR_POSEIDON2_RC_16_INTERNAL, BabyBear, GenericPoseidon2LinearLayersBabyBear,
    default_babybear_poseidon2_16,
};
use p3_batch_stark::ProverData;
use p3_circuit::ops::{
    HintExecutor, NpoTypeId, Op, Poseidon2Config, Poseidon2Trace, generate_poseidon2_trace,
    generate_recompose_trace, perm_private_data, PermCall,
};
use p3_circuit::{
    Circuit, CircuitBuilder, CircuitError, NonPrimitiveOpId, Traces, WitnessId,
};
use p3_circuit_prover::batch_stark_prover::{poseidon2_air_builders, recompose_air_builders};
use p3_circuit_prover::common::{NpoPreprocessor, get_airs_and_degrees_with_prep};
use p3_circuit_prover::config::{self, BabyBearConfig};
use p3_circuit_prover::{
    BatchStarkProver, CircuitProverData, ConstraintProfile, Poseidon2Preprocessor,
    RecomposePreprocessor, TablePacking,
};
use p3_commit::{BatchOpeningRef, Mmcs};
use p3_field::extension::BinomialExtensionField;
use p3_field::{BasedVectorSpace, Field, PrimeCharacteristicRing, PrimeField32};
use p3_matrix::dense::RowMajorMatrix;
use p3_matrix::{Dimensions, Matrix};
use p3_poseidon2::GenericPoseidon2LinearLayers;
use p3_poseidon2_circuit_air::BabyBearD4Width16;
use p3_recursion::pcs::verify_batch_circuit;
use p3_symmetric::{MerkleCap, Permutation};
use p3_test_utils::baby_bear_params::{MyCompress, MyHash, MyMmcs};

type F = BabyBear;
type EF = BinomialExtensionField<F, 4>;
const P2CFG: Poseidon2Config = Poseidon2Config::BABY_BEAR_D4_W16;
const HEIGHT: usize = 4;
const LEAF_W: usize = 8; // one sponge chunk: a single leaf-hash row
const LOG_H: usize = 2;
const INDEX: usize = 2;
/// Row of the leaf-hash permutation in the Poseidon2 table (row 0 is an unrelated dummy sponge row).
const LEAF_ROW: usize = 1;

// ---------------------------------------------------------------------------------------------
// Native Poseidon2 (BabyBear, width 16) forward model + INVERSE, from the public p3 constants.
// ---------------------------------------------------------------------------------------------
type Mat = [[F; 16]; 16];

fn mat_of(f: impl Fn(&mut [F; 16])) -> Mat {
    // column j = f(e_j)
    let mut m = [[F::ZERO; 16]; 16];
    for j in 0..16 {
        let mut e = [F::ZERO; 16];
        e[j] = F::ONE;
        f(&mut e);
        for i in 0..16 {
            m[i][j] = e[i];
        }
    }
    m
}

fn mat_inv(m: &Mat) -> Mat {
    let mut a = *m;
    let mut inv = [[F::ZERO; 16]; 16];
    for (i, row) in inv.iter_mut().enumerate() {
        row[i] = F::ONE;
    }
    for c in 0..16 {
        let p = (c..16).find(|&r| a[r][c] != F::ZERO).expect("invertible");
        a.swap(c, p);
        inv.swap(c, p);
        let s = a[c][c].inverse();
        for j in 0..16 {
            a[c][j] *= s;
            inv[c][j] *= s;
        }
        for r in 0..16 {
            if r != c && a[r][c] != F::ZERO {
                let f = a[r][c];
                for j in 0..16 {
                    let (x, y) = (a[c][j], inv[c][j]);
                    a[r][j] -= f * x;
                    inv[r][j] -= f * y;
                }
            }
        }
    }
    inv
}

fn mat_apply(m: &Mat, s: &mut [F; 16]) {
    let old = *s;
    for i in 0..16 {
        s[i] = (0..16).map(|j| m[i][j] * old[j]).sum();
    }
}

struct P2 {
    ext: Mat,
    ext_inv: Mat,
    int: Mat,
    int_inv: Mat,
    inv7: u64,
}

impl P2 {
    fn new() -> Self {
        let ext = mat_of(|s| {
            <GenericPoseidon2LinearLayersBabyBear as GenericPoseidon2LinearLayers<16>>::external_linear_layer(s)
        });
        let int = mat_of(|s| {
            <GenericPoseidon2LinearLayersBabyBear as GenericPoseidon2LinearLayers<16>>::internal_linear_layer(s)
        });
        // 7^{-1} mod (p-1)
        let m = (F::ORDER_U32 - 1) as i128;
        let (mut r0, mut r1, mut t0, mut t1) = (m, 7i128, 0i128, 1i128);
        while r1 != 0 {
            let q = r0 / r1;
            (r0, r1) = (r1, r0 - q * r1);
            (t0, t1) = (t1, t0 - q * t1);
        }
        assert_eq!(r0, 1);
        let inv7 = t0.rem_euclid(m) as u64;
        Self {
            ext_inv: mat_inv(&ext),
            int_inv: mat_inv(&int),
            ext,
            int,
            inv7,
        }
    }
    fn sbox(x: F) -> F {
        x.exp_const_u64::<7>()
    }
    fn forward(&self, mut s: [F; 16]) -> [F; 16] {
        mat_apply(&self.ext, &mut s);
        for rc in BABYBEAR_POSEIDON2_RC_16_EXTERNAL_INITIAL {
            for i in 0..16 {
                s[i] = Self::sbox(s[i] + rc[i]);
            }
            mat_apply(&self.ext, &mut s);
        }
        for rc in BABYBEAR_POSEIDON2_RC_16_INTERNAL {
            s[0] = Self::sbox(s[0] + rc);
            mat_apply(&self.int, &mut s);
        }
        for rc in BABYBEAR_POSEIDON2_RC_16_EXTERNAL_FINAL {
            for i in 0..16 {
                s[i] = Self::sbox(s[i] + rc[i]);
            }
            mat_apply(&self.ext, &mut s);
        }
        s
    }
    fn inverse(&self, mut s: [F; 16]) -> [F; 16] {
        let unsbox = |x: F| x.exp_u64(self.inv7);
        for rc in BABYBEAR_POSEIDON2_RC_16_EXTERNAL_FINAL.iter().rev() {
            mat_apply(&self.ext_inv, &mut s);
            for i in 0..16 {
                s[i] = unsbox(s[i]) - rc[i];
            }
        }
        for rc in BABYBEAR_POSEIDON2_RC_16_INTERNAL.iter().rev() {
            mat_apply(&self.int_inv, &mut s);
            s[0] = unsbox(s[0]) - *rc;
        }
        for rc in BABYBEAR_POSEIDON2_RC_16_EXTERNAL_INITIAL.iter().rev() {
            mat_apply(&self.ext_inv, &mut s);
            for i in 0..16 {
                s[i] = unsbox(s[i]) - rc[i];
            }
        }
        mat_apply(&self.ext_inv, &mut s);
        s
    }
}

// ---------------------------------------------------------------------------------------------
// Circuit under test: one real `verify_batch_circuit` (BabyBear, D = 4, width 16).
// ---------------------------------------------------------------------------------------------
fn native_mmcs() -> MyMmcs {
    let perm = default_babybear_poseidon2_16();
    MyMmcs::new(MyHash::new(perm.clone()), MyCompress::new(perm), 0)
}

fn matrix() -> RowMajorMatrix<F> {
    RowMajorMatrix::new(
        (0..HEIGHT * LEAF_W)
            .map(|i| F::from_u32(1000 + 17 * i as u32))
            .collect(),
        LEAF_W,
    )
}

struct Built {
    circuit: Circuit<EF>,
    mmcs_ops: Vec<NonPrimitiveOpId>,
}

fn build_circuit(dims: &[Dimensions]) -> Built {
    let mut b = CircuitBuilder::<EF>::new();
    b.enable_poseidon2_perm::<BabyBearD4Width16, _>(
        generate_poseidon2_trace::<EF, BabyBearD4Width16>,
        default_babybear_poseidon2_16(),
    );
    b.enable_recompose::<F>(generate_recompose_trace::<F, EF>);

    // An unrelated, fully wired sponge row first, so that the attacked leaf-hash row is NOT row 0 of
    // the Poseidon2 table (the recent compact-D1 fix was about row 0; here the row index is irrelevant).
    let k0 = b.define_const(EF::from_u32(3));
    let k1 = b.define_const(EF::from_u32(5));
    let kz = b.define_const(EF::ZERO);
    b.add_perm(
        P2CFG.into(),
        &PermCall {
            new_start: true,
            merkle_path: false,
            mmcs_bit: None,
            mmcs_bit2: None,
            inputs: vec![Some(k0), Some(k1), Some(kz), Some(kz)],
            out_ctl: vec![false; 2],
            return_all_outputs: false,
            mmcs_index_sum: None,
        },
    )
    .expect("dummy perm");

    // public inputs, in this order: opened[0..8], directions[0..2], root[0..2]
    let opened: Vec<Vec<_>> = vec![(0..LEAF_W).map(|_| b.public_input()).collect()];
    let dirs = b.alloc_public_inputs(LOG_H, "directions");
    let cap: Vec<Vec<_>> = vec![b.alloc_public_inputs(P2CFG.rate_ext(), "root").to_vec()];
    let mmcs_ops = verify_batch_circuit::<F, EF>(&mut b, P2CFG, &cap, dims, &dirs, &opened, None)
        .expect("verify_batch_circuit");
    Built {
        circuit: b.build().expect("circuit builds"),
        mmcs_ops,
    }
}

fn pack(d: &[F]) -> Vec<EF> {
    d.chunks(4)
        .map(|c| EF::from_basis_coefficients_slice(c).unwrap())
        .collect()
}

fn publics(leaf: &[F], root: &[F; 8]) -> Vec<EF> {
    let mut p: Vec<EF> = leaf.iter().map(|&v| EF::from(v)).collect();
    p.extend((0..LOG_H).map(|k| EF::from_bool((INDEX >> k) & 1 == 1)));
    p.extend(pack(root));
    p
}

fn run(
    c: &Circuit<EF>,
    mmcs_ops: &[NonPrimitiveOpId],
    publics: &[EF],
    siblings: &[[F; 8]],
) -> Result<Traces<EF>, CircuitError> {
    let mut r = c.runner();
    r.set_public_inputs(publics)?;
    assert_eq!(mmcs_ops.len(), siblings.len());
    for (&op, sib) in mmcs_ops.iter().zip(siblings) {
        r.set_private_data(op, perm_private_data(P2CFG, pack(sib)))?;
    }
    r.run()
}

fn poseidon_ops(c: &Circuit<EF>) -> Vec<(usize, Vec<Vec<WitnessId>>, Vec<Vec<WitnessId>>)> {
    let ty = NpoTypeId::poseidon2_perm(P2CFG);
    c.ops
        .iter()
        .enumerate()
        .filter_map(|(i, op)| match op {
            Op::NonPrimitiveOpWithExecutor {
                executor,
                inputs,
                outputs,
                ..
            } if executor.op_type() == &ty => Some((i, inputs.clone(), outputs.clone())),
            _ => None,
        })
        .collect()
}

/// Real prover + real verifier, prover/verifier data derived from the HONEST circuit.
fn prove_and_verify(honest: &Circuit<EF>, traces: &Traces<EF>) -> Result<String, String> {
    let stark_config = config::baby_bear();
    let table_packing = TablePacking::new(1, 1);
    let npo_prep: Vec<Box<dyn NpoPreprocessor<F>>> = vec![
        Box::new(Poseidon2Preprocessor),
        Box::new(RecomposePreprocessor::default()),
    ];
    let mut air_builders = poseidon2_air_builders::<BabyBearConfig, 4>();
    air_builders.extend(recompose_air_builders(1, false));
    let (airs_degrees, primitive_columns, non_primitive_columns) =
        get_airs_and_degrees_with_prep::<BabyBearConfig, _, 4>(
            honest,
            &table_packing,
            &npo_prep,
            &air_builders,
            ConstraintProfile::Standard,
        )
        .map_err(|e| format!("airs: {e:?}"))?;
    let (airs, degrees): (Vec<_>, Vec<usize>) = airs_degrees.into_iter().unzip();
    let prover_data = ProverData::from_airs_and_degrees(&stark_config, &airs, &degrees);
    let cpd = CircuitProverData::new(prover_data, primitive_columns, non_primitive_columns);

    let mut prover = BatchStarkProver::new(stark_config).with_table_packing(table_packing);
    prover.register_poseidon2_table::<4>(P2CFG);
    prover.register_recompose_table::<4>(false);
    let proof = prover
        .prove_all_tables(traces, &cpd)
        .map_err(|e| format!("prove: {e:?}"))?;
    prover
        .verify_all_tables::<EF>(&proof)
        .map_err(|e| format!("verify: {e:?}"))?;
    Ok(format!(
        "{:?}",
        proof.stark_common.preprocessed.as_ref().map(|g| &g.commitment)
    ))
}

#[derive(Debug, Clone)]
struct ForgedHint {
    vals: Vec<EF>,
}
impl HintExecutor<EF> for ForgedHint {
    fn execute(
        &self,
        _inputs: &[WitnessId],
        outputs: &[WitnessId],
        witness: &mut [Option<EF>],
    ) -> Result<(), CircuitError> {
        for (o, v) in outputs.iter().zip(&self.vals) {
            witness[o.0 as usize] = Some(*v);
        }
        Ok(())
    }
    fn boxed(&self) -> Box<dyn HintExecutor<EF>> {
        Box::new(self.clone())
    }
}

/// Prover-side only: make Poseidon op number `which` (in execution order) take `vals` on its input
/// limbs `limbs` (which must be un-wired in the honest circuit, or are re-wired away from their
/// honest witness).  Uses two fresh witness slots written by a hint placed just before the op.
fn evil_witness_generator(
    honest: &Circuit<EF>,
    which: usize,
    limbs: &[usize],
    vals: &[EF],
) -> Circuit<EF> {
    let mut c = honest.clone();
    let (op_idx, _, _) = poseidon_ops(&c).remove(which);
    let fresh: Vec<WitnessId> = (0..limbs.len() as u32)
        .map(|k| WitnessId(c.witness_count + k))
        .collect();
    c.witness_count += limbs.len() as u32;
    if let Op::NonPrimitiveOpWithExecutor { inputs, .. } = &mut c.ops[op_idx] {
        for (&l, &w) in limbs.iter().zip(&fresh) {
            inputs[l] = vec![w];
        }
    }
    c.ops.insert(
        op_idx,
        Op::Hint {
            inputs: vec![],
            outputs: fresh,
            executor: Box::new(ForgedHint {
                vals: vals.to_vec(),
            }),
        },
    );
    c
}

/// Give every Poseidon2 row of `forged` the control fields of the corresponding honest row, so the
/// forged trace differs from the honest one in `input_values` only.  Returns the indices of rows
/// whose input values differ.
fn restore_control_fields(forged: &mut Traces<EF>, honest: &Traces<EF>) -> Vec<usize> {
    let ty = NpoTypeId::poseidon2_perm(P2CFG);
    let h = honest
        .non_primitive_trace::<Poseidon2Trace<F>>(&ty)
        .unwrap()
        .clone();
    let mut t = forged
        .non_primitive_trace::<Poseidon2Trace<F>>(&ty)
        .unwrap()
        .clone();
    assert_eq!(h.operations.len(), t.operations.len());
    let mut diff = vec![];
    for (i, (fr, hr)) in t.operations.iter_mut().zip(&h.operations).enumerate() {
        fr.in_ctl = hr.in_ctl.clone();
        fr.input_indices = hr.input_indices.clone();
        assert_eq!(fr.out_ctl, hr.out_ctl);
        assert_eq!(fr.output_indices, hr.output_indices);
        assert_eq!(
            (fr.new_start, fr.merkle_path, fr.mmcs_bit, fr.mmcs_ctl_enabled),
            (hr.new_start, hr.merkle_path, hr.mmcs_bit, hr.mmcs_ctl_enabled)
        );
        if fr.input_values != hr.input_values {
            diff.push(i);
        }
    }
    forged.non_primitive_traces.insert(ty, Box::new(t));
    diff
}

fn u32s(v: &[F]) -> Vec<u32> {
    v.iter().map(|x| x.as_canonical_u32()).collect()
}

fn print_structure(c: &Circuit<EF>) {
    let ops = poseidon_ops(c);
    println!("[structure] Poseidon2 ops of the compiled verify_batch_circuit (execution order):");
    for (k, (i, ins, outs)) in ops.iter().enumerate() {
        println!("   perm {k} = op#{i}: inputs={ins:?} outputs={outs:?}");
    }
    let prep = c.generate_preprocessed_columns::<4>().unwrap();
    let ty = NpoTypeId::poseidon2_perm(P2CFG);
    let rows = &prep.non_primitive[&ty];
    let per_row = rows.len() / ops.len();
    println!(
        "[structure] Poseidon2 preprocessed ({per_row} values/row; 4x[in_idx,in_ctl,normal_chain_sel,merkle_chain_sel], 2x[out_idx,out_ctl], [mmcs_idx,mmcs_flag,new_start,merkle_path]):"
    );
    for (k, row) in rows.chunks(per_row).enumerate() {
        let v: Vec<u32> = row
            .iter()
            .map(|x| {
                let co: &[F] = x.as_basis_coefficients_slice();
                co[0].as_canonical_u32()
            })
            .collect();
        let limbs: Vec<&[u32]> = v[..16].chunks(4).collect();
        println!(
            "   row {k}: limbs[idx,ctl,nsel,msel]={limbs:?} outs={:?} flags[mmcs_idx,mmcs_flag,new_start,merkle]={:?}",
            &v[16..20],
            &v[20..24]
        );
    }
    // Bus read counts (creator multiplicities) of the witnesses a Merkle row is "wired" to.
    let leaf_digest = &ops[LEAF_ROW].2; // outputs of the leaf-hash perm
    let bit_src = &ops[LEAF_ROW + 1].1[5]; // mmcs_bit source of the first compression row
    println!(
        "[structure] ext_reads(leaf digest {:?},{:?}) = {},{}   ext_reads(direction bit source {:?}) = {}",
        leaf_digest[0][0],
        leaf_digest[1][0],
        prep.ext_reads[leaf_digest[0][0].0 as usize],
        prep.ext_reads[leaf_digest[1][0].0 as usize],
        bit_src[0],
        prep.ext_reads[bit_src[0].0 as usize],
    );
    println!("            (0 reads => nobody receives these values from the WitnessChecks bus)");
}

struct Setup {
    built: Built,
    dims: Vec<Dimensions>,
    mmcs: MyMmcs,
    commit: MerkleCap<F, [F; 8]>,
    leaf: Vec<F>,
    siblings: Vec<[F; 8]>,
    root: [F; 8],
    honest_traces: Traces<EF>,
}

fn setup() -> Setup {
    let mmcs = native_mmcs();
    let mat = matrix();
    let dims = vec![mat.dimensions()];
    let (commit, pd) = mmcs.commit(vec![mat]);
    let opening = mmcs.open_batch(INDEX, &pd);
    let leaf = opening.opened_values[0].clone();
    let siblings: Vec<[F; 8]> = opening.opening_proof.clone();
    let root: [F; 8] = commit.roots()[0];
    mmcs.verify_batch(
        &commit,
        &dims,
        INDEX,
        BatchOpeningRef::new(&opening.opened_values, &opening.opening_proof),
    )
    .expect("native accepts the honest opening");
    let built = build_circuit(&dims);
    let honest_traces = run(
        &built.circuit,
        &built.mmcs_ops,
        &publics(&leaf, &root),
        &siblings,
    )
    .expect("honest run");
    Setup {
        built,
        dims,
        mmcs,
        commit,
        leaf,
        siblings,
        root,
        honest_traces,
    }
}

#[test]
fn c08b_structure_and_honest_control() {
    let s = setup();
    print_structure(&s.built.circuit);
    let r = prove_and_verify(&s.built.circuit, &s.honest_traces);
    println!("[honest]  proof of the honest opening: {}", if r.is_ok() { "VERIFIES" } else { "rejected" });
    r.expect("honest proof must verify");
}

/// STRONG: same root / index / siblings, different (non-committed) leaf.
#[test]
fn c08b_forged_leaf_same_root() {
    let s = setup();
    let circuit = &s.built.circuit;
    let perm = default_babybear_poseidon2_16();
    let p2 = P2::new();

    // sanity of the native model and its inverse against the real p3 permutation
    for k in 0..4u32 {
        let st: [F; 16] = core::array::from_fn(|i| F::from_u32(k * 1_000_003 + 77 * i as u32 + 5));
        assert_eq!(p2.forward(st), perm.permute(st), "forward model == p3 Poseidon2");
        assert_eq!(p2.inverse(perm.permute(st)), st, "inverse model");
    }

    // honest leaf digest = rate part of perm(leaf || 0)
    let mut st = [F::ZERO; 16];
    st[..8].copy_from_slice(&s.leaf);
    let out = perm.permute(st);
    let digest: [F; 8] = core::array::from_fn(|i| out[i]);

    // attacker: pick ANY 8 elements x, invert Poseidon2 on (digest || x)
    let mut target = [F::ZERO; 16];
    target[..8].copy_from_slice(&digest);
    for i in 0..8 {
        target[8 + i] = F::from_u32(0xC08B_000 + i as u32);
    }
    let pre = p2.inverse(target);
    assert_eq!(perm.permute(pre), target, "real permutation maps (leaf'||cap') to (digest||x)");
    let leaf2: Vec<F> = pre[..8].to_vec();
    let cap2: Vec<F> = pre[8..].to_vec();
    assert_ne!(leaf2, s.leaf);
    assert!(cap2.iter().any(|c| *c != F::ZERO));
    println!("[attack]  committed leaf      = {:?}", u32s(&s.leaf));
    println!("[attack]  forged   leaf'      = {:?}", u32s(&leaf2));
    println!("[attack]  forged   capacity'  = {:?}", u32s(&cap2));
    println!("[attack]  leaf digest (both)  = {:?}", u32s(&digest));

    // native MMCS rejects (leaf', honest proof) against the honest commitment
    let native = s.mmcs.verify_batch(
        &s.commit,
        &s.dims,
        INDEX,
        BatchOpeningRef::new(&[leaf2.clone()], &s.siblings),
    );
    println!("[native]  verify_batch(commit, index, leaf', siblings) = {native:?}");
    assert!(native.is_err(), "native MMCS must reject the forged leaf");
    // the honest witness generator cannot even execute the circuit on leaf'
    assert!(
        run(circuit, &s.built.mmcs_ops, &publics(&leaf2, &s.root), &s.siblings).is_err(),
        "honest runner rejects leaf'"
    );

    // malicious witness generation: capacity limbs 2,3 of the leaf-hash perm (table row LEAF_ROW) := cap'
    let evil = evil_witness_generator(circuit, LEAF_ROW, &[2, 3], &pack(&cap2));
    let mut forged = run(&evil, &s.built.mmcs_ops, &publics(&leaf2, &s.root), &s.siblings)
        .expect("malicious run is internally consistent");
    let diff = restore_control_fields(&mut forged, &s.honest_traces);
    println!("[attack]  Poseidon2 rows whose VALUE columns differ from the honest trace: {diff:?}");
    assert_eq!(diff, vec![LEAF_ROW], "only the leaf-hash row differs");
    // same root, same directions in the Public table; only the opened leaf differs
    assert_eq!(
        s.honest_traces.public_trace.values[LEAF_W..],
        forged.public_trace.values[LEAF_W..]
    );
    assert_ne!(
        s.honest_traces.public_trace.values[..LEAF_W],
        forged.public_trace.values[..LEAF_W]
    );
    assert_eq!(s.honest_traces.const_trace.values, forged.const_trace.values);

    let h_commit = prove_and_verify(circuit, &s.honest_traces).expect("honest proof verifies");
    let res = prove_and_verify(circuit, &forged);
    match &res {
        Ok(c) => {
            assert_eq!(&h_commit, c, "same preprocessed commitment (same verifier key)");
            println!(
                "[attack]  FORGED proof VERIFIES: circuit accepts leaf' != committed leaf under the SAME root/index/siblings"
            );
        }
        Err(e) => println!("[attack]  forged proof rejected: {e}"),
    }
    assert!(res.is_ok(), "C08b hypothesis would be FALSE: forged capacity was rejected");
}

/// WEAK: honest leaf, attacker capacity, forged root.
#[test]
fn c08b_forged_capacity_other_root() {
    let s = setup();
    let circuit = &s.built.circuit;
    let perm = default_babybear_poseidon2_16();

    let cap2: Vec<F> = (0..8).map(|i| F::from_u32(0xBAD_0000 + i)).collect();
    let mut st = [F::ZERO; 16];
    st[..8].copy_from_slice(&s.leaf);
    st[8..].copy_from_slice(&cap2);
    let mut node: [F; 8] = core::array::from_fn(|i| perm.permute(st)[i]);
    for (k, sib) in s.siblings.iter().enumerate() {
        let mut st = [F::ZERO; 16];
        if (INDEX >> k) & 1 == 0 {
            st[..8].copy_from_slice(&node);
            st[8..].copy_from_slice(sib);
        } else {
            st[..8].copy_from_slice(sib);
            st[8..].copy_from_slice(&node);
        }
        node = core::array::from_fn(|i| perm.permute(st)[i]);
    }
    let root2 = node;
    assert_ne!(root2, s.root);
    println!("[attack]  honest root  = {:?}", u32s(&s.root));
    println!("[attack]  forged root' = {:?}", u32s(&root2));
    let native = s.mmcs.verify_batch(
        &MerkleCap::new(vec![root2]),
        &s.dims,
        INDEX,
        BatchOpeningRef::new(&[s.leaf.clone()], &s.siblings),
    );
    println!("[native]  verify_batch(root', index, leaf, siblings) = {native:?}");
    assert!(native.is_err());

    let evil = evil_witness_generator(circuit, LEAF_ROW, &[2, 3], &pack(&cap2));
    let mut forged = run(&evil, &s.built.mmcs_ops, &publics(&s.leaf, &root2), &s.siblings)
        .expect("malicious run is internally consistent");
    let diff = restore_control_fields(&mut forged, &s.honest_traces);
    println!("[attack]  Poseidon2 rows whose VALUE columns differ from the honest trace: {diff:?}");
    let res = prove_and_verify(circuit, &forged);
    println!(
        "[attack]  forged-capacity proof connecting (leaf, index, siblings) to root': {}",
        match &res {
            Ok(_) => "VERIFIES".to_string(),
            Err(e) => format!("rejected: {e}"),
        }
    );
    assert!(res.is_ok(), "C08b hypothesis would be FALSE: forged capacity was rejected");
}

/// CONTROL: the RATE limbs of the leaf-hash row are bus-bound.  Same forgery as the strong test but
/// the Public table keeps the COMMITTED leaf while the hash row uses leaf' => must be rejected.
#[test]
fn c08b_control_rate_limb_is_bound() {
    let s = setup();
    let circuit = &s.built.circuit;
    let perm = default_babybear_poseidon2_16();
    let p2 = P2::new();
    let mut st = [F::ZERO; 16];
    st[..8].copy_from_slice(&s.leaf);
    let out = perm.permute(st);
    let mut target = out;
    for i in 0..8 {
        target[8 + i] = F::from_u32(0xC08B_000 + i as u32);
    }
    let pre = p2.inverse(target);
    // all four input limbs of the leaf row are re-wired to attacker values (leaf' || cap');
    // the public opened values stay the COMMITTED leaf.
    let evil = evil_witness_generator(circuit, LEAF_ROW, &[0, 1, 2, 3], &pack(&pre));
    let mut forged = run(&evil, &s.built.mmcs_ops, &publics(&s.leaf, &s.root), &s.siblings)
        .expect("malicious run is internally consistent");
    let diff = restore_control_fields(&mut forged, &s.honest_traces);
    assert_eq!(diff, vec![LEAF_ROW]);
    assert_eq!(s.honest_traces.public_trace.values, forged.public_trace.values);
    let res = prove_and_verify(circuit, &forged);
    println!("[control] leaf row uses leaf' on its RATE limbs while publics say committed leaf: {res:?}");
    assert!(res.is_err(), "rate limbs must be bound by the WitnessChecks bus");
}

// ---------------------------------------------------------------------------------------------
// Question B: inputs of Merkle-mode rows (arity-2, non-compact AIR).
// ---------------------------------------------------------------------------------------------

/// B1: the leaf digest wired (`Some`) into limbs 0,1 of the FIRST compression row
/// (`new_start = 1, merkle_path = 1`) is not bus-read either: the AIR's input send multiplicity is
/// `in_ctl * (1 - merkle_path) = 0` and the chain selectors are 0 on `new_start`.  So the prover can
/// feed the honest digest into the path while the PUBLIC opened leaf is arbitrary garbage (the leaf
/// hash row is computed honestly from the garbage, zero capacity; its digest is simply not used).
#[test]
fn c08b_merkle_row_wired_limbs_unbound() {
    let s = setup();
    let circuit = &s.built.circuit;
    let perm = default_babybear_poseidon2_16();
    let mut st = [F::ZERO; 16];
    st[..8].copy_from_slice(&s.leaf);
    let out = perm.permute(st);
    let digest: Vec<F> = out[..8].to_vec();

    let garbage: Vec<F> = (0..8).map(|i| F::from_u32(42 + i)).collect();
    let native = s.mmcs.verify_batch(
        &s.commit,
        &s.dims,
        INDEX,
        BatchOpeningRef::new(&[garbage.clone()], &s.siblings),
    );
    println!("[native]  verify_batch(commit, index, garbage leaf, siblings) = {native:?}");
    assert!(native.is_err());

    // perm LEAF_ROW + 1 = first compression row; bit 0 of INDEX is 0 so the running digest sits in limbs 0,1.
    assert_eq!(INDEX & 1, 0);
    let evil = evil_witness_generator(circuit, LEAF_ROW + 1, &[0, 1], &pack(&digest));
    let mut forged = run(&evil, &s.built.mmcs_ops, &publics(&garbage, &s.root), &s.siblings)
        .expect("malicious run is internally consistent");
    let diff = restore_control_fields(&mut forged, &s.honest_traces);
    println!("[attackB] Poseidon2 rows whose VALUE columns differ from the honest trace: {diff:?}");
    assert_eq!(diff, vec![LEAF_ROW], "only the (honestly computed) hash row of the garbage leaf differs");
    assert_eq!(
        s.honest_traces.public_trace.values[LEAF_W..],
        forged.public_trace.values[LEAF_W..]
    );
    let res = prove_and_verify(circuit, &forged);
    println!(
        "[attackB] proof that an arbitrary PUBLIC leaf {:?} opens the honest root at index {INDEX}: {}",
        u32s(&garbage),
        match &res {
            Ok(_) => "VERIFIES".to_string(),
            Err(e) => format!("rejected: {e}"),
        }
    );
    assert!(res.is_ok(), "B1 hypothesis would be FALSE");
}

/// B2: the direction bit column `mmcs_bit` of an arity-2 Merkle row is only constrained boolean; it
/// reaches the bus only through the `mmcs_index_sum` accumulator, which `add_mmcs_verify` never enables
/// (`mmcs_index_sum: None`).  So the PUBLIC index bits need not be the ones used along the path.
#[test]
fn c08b_merkle_direction_bit_unbound() {
    let s = setup();
    let circuit = &s.built.circuit;
    // public index claims 3 = (1,1) while the path is the one of INDEX = 2 = (0,1).
    let mut pubs = publics(&s.leaf, &s.root);
    pubs[LEAF_W] = EF::ONE;
    let native = s.mmcs.verify_batch(
        &s.commit,
        &s.dims,
        3,
        BatchOpeningRef::new(&[s.leaf.clone()], &s.siblings),
    );
    println!("[native]  verify_batch(commit, index=3, leaf(2), siblings(2)) = {native:?}");
    assert!(native.is_err());
    // slot 5 of the op's inputs is the mmcs_bit source (4 limbs, index_sum, bit)
    let evil = evil_witness_generator(circuit, LEAF_ROW + 1, &[5], &[EF::ZERO]);
    let mut forged = run(&evil, &s.built.mmcs_ops, &pubs, &s.siblings)
        .expect("malicious run is internally consistent");
    let diff = restore_control_fields(&mut forged, &s.honest_traces);
    assert!(diff.is_empty(), "Poseidon2 table identical to the honest one");
    assert_ne!(s.honest_traces.public_trace.values, forged.public_trace.values);
    let res = prove_and_verify(circuit, &forged);
    println!(
        "[attackB] proof with PUBLIC index bits (1,1) but path bits (0,1): {}",
        match &res {
            Ok(_) => "VERIFIES".to_string(),
            Err(e) => format!("rejected: {e}"),
        }
    );
    assert!(res.is_ok(), "B2 hypothesis would be FALSE");
}

/// CONTROL for B: a limb with `merkle_chain_sel = 1` (second compression row, running-digest side)
/// IS constrained by the Merkle chaining constraint: replacing it (and the root consistently) is
/// rejected.
#[test]
fn c08b_control_chained_merkle_limb_is_bound() {
    let s = setup();
    let circuit = &s.built.circuit;
    let perm = default_babybear_poseidon2_16();
    // honest level-1 node
    let mut st = [F::ZERO; 16];
    st[..8].copy_from_slice(&s.leaf);
    let d0: [F; 8] = core::array::from_fn(|i| perm.permute(st)[i]);
    let mut st = [F::ZERO; 16];
    st[..8].copy_from_slice(&d0);
    st[8..].copy_from_slice(&s.siblings[0]);
    let mut n1: [F; 8] = core::array::from_fn(|i| perm.permute(st)[i]);
    // tamper its first extension limb; bit 1 of INDEX is 1 => node is the RIGHT child
    assert_eq!((INDEX >> 1) & 1, 1);
    for x in n1.iter_mut().take(4) {
        *x = F::from_u32(7);
    }
    let mut st = [F::ZERO; 16];
    st[..8].copy_from_slice(&s.siblings[1]);
    st[8..].copy_from_slice(&n1);
    let root2: [F; 8] = core::array::from_fn(|i| perm.permute(st)[i]);
    // logical limb 0 (pre-swap) = physical limb 2 of the row (post-swap), which is chained.
    let evil = evil_witness_generator(circuit, LEAF_ROW + 2, &[0], &pack(&n1[..4]));
    let mut forged = run(&evil, &s.built.mmcs_ops, &publics(&s.leaf, &root2), &s.siblings)
        .expect("malicious run is internally consistent");
    let diff = restore_control_fields(&mut forged, &s.honest_traces);
    assert_eq!(diff, vec![LEAF_ROW + 2]);
    let res = prove_and_verify(circuit, &forged);
    println!("[control] tampered CHAINED limb of compression row 2: {res:?}");
    assert!(res.is_err(), "chained Merkle limbs must be bound");
}
