//! Side observation on the UNMODIFIED code (C08): `verify_batch_circuit` never compares the length
//! of an opened row with `dimensions[i].width`; it only concatenates all rows of one height level
//! and hashes the stream. The native `MerkleTreeMmcs::verify_batch` authenticates row boundaries
//! with `check_widths` and rejects an opening whose rows are split differently (same concatenation).
//! So the circuit accepts an opening the native scheme rejects.
//!
//! Goes into `recursion/tests/`. Expected: FAILS on the unmodified tree.

use p3_circuit::CircuitBuilder;
use p3_circuit::ops::{
    Poseidon2Config, generate_poseidon2_trace, generate_recompose_trace, perm_private_data,
};
use p3_commit::{BatchOpeningRef, Mmcs};
use p3_field::extension::BinomialExtensionField;
use p3_field::{BasedVectorSpace, PrimeCharacteristicRing};
use p3_koala_bear::KoalaBear;
use p3_matrix::Matrix;
use p3_matrix::dense::RowMajorMatrix;
use p3_poseidon2_circuit_air::KoalaBearD4Width16;
use p3_recursion::Target;
use p3_recursion::pcs::verify_batch_circuit;
use p3_test_utils::koala_bear_params::{
    MyCompress, MyHash, MyMmcs, default_koalabear_poseidon2_16,
};

type F = KoalaBear;
type CF = BinomialExtensionField<F, 4>;

fn pack_digest(digest: &[F]) -> Vec<CF> {
    let d = <CF as BasedVectorSpace<F>>::DIMENSION;
    digest
        .chunks(d)
        .map(|chunk| CF::from_basis_coefficients_slice(chunk).expect("digest packs into EF"))
        .collect()
}

#[test]
fn shifted_row_boundary_native_rejects_circuit_must_reject() {
    let perm = default_koalabear_poseidon2_16();
    let mmcs = MyMmcs::new(MyHash::new(perm.clone()), MyCompress::new(perm.clone()), 0);

    // Two matrices of the same height 4, widths 2 and 3.
    let m0 = RowMajorMatrix::new((0..8).map(|i| F::from_u64(100 + i)).collect(), 2);
    let m1 = RowMajorMatrix::new((0..12).map(|i| F::from_u64(200 + i)).collect(), 3);
    let dimensions = vec![m0.dimensions(), m1.dimensions()];
    let (commit, prover_data) = mmcs.commit(vec![m0, m1]);

    let index = 2usize;
    let opening = mmcs.open_batch(index, &prover_data);
    // Honest opening is fine natively.
    mmcs.verify_batch(
        &commit,
        &dimensions,
        index,
        BatchOpeningRef::new(&opening.opened_values, &opening.opening_proof),
    )
    .expect("honest opening verifies natively");

    // Same concatenated stream, boundary moved by one: rows of length 3 and 2.
    let flat: Vec<F> = opening.opened_values.iter().flatten().copied().collect();
    let shifted: Vec<Vec<F>> = vec![flat[..3].to_vec(), flat[3..].to_vec()];
    let native = mmcs.verify_batch(
        &commit,
        &dimensions,
        index,
        BatchOpeningRef::new(&shifted, &opening.opening_proof),
    );
    assert!(native.is_err(), "native rejects the shifted row boundary");

    // The circuit for this very opening (targets shaped like the presented rows).
    let mut builder = CircuitBuilder::<CF>::new();
    let cfg = Poseidon2Config::KOALA_BEAR_D4_W16;
    builder.enable_poseidon2_perm::<KoalaBearD4Width16, _>(
        generate_poseidon2_trace::<CF, KoalaBearD4Width16>,
        perm,
    );
    builder.enable_recompose::<F>(generate_recompose_trace::<F, CF>);
    let opened: Vec<Vec<Target>> = shifted
        .iter()
        .map(|row| row.iter().map(|_| builder.public_input()).collect())
        .collect();
    let dirs = builder.alloc_public_inputs(2, "dirs");
    let cap: Vec<Vec<Target>> = commit
        .roots()
        .iter()
        .map(|r| pack_digest(r).iter().map(|&v| builder.alloc_const(v, "cap")).collect())
        .collect();
    let built = verify_batch_circuit::<F, CF>(&mut builder, cfg, &cap, &dimensions, &dirs, &opened, None);
    let circuit_accepts = match built {
        Err(_) => false,
        Ok(ops) => {
            let circuit = builder.build().unwrap();
            let mut runner = circuit.runner();
            let mut pi: Vec<CF> = shifted.iter().flatten().map(|&v| CF::from(v)).collect();
            pi.extend((0..2).map(|k| CF::from_bool((index >> k) & 1 == 1)));
            runner.set_public_inputs(&pi).unwrap();
            for (&op, sib) in ops.iter().zip(opening.opening_proof.iter()) {
                runner
                    .set_private_data(op, perm_private_data(cfg, pack_digest(sib)))
                    .unwrap();
            }
            runner.run().is_ok()
        }
    };
    assert_eq!(
        native.is_ok(),
        circuit_accepts,
        "native rejects an opening with a shifted row boundary; the circuit accepted it"
    );
}
