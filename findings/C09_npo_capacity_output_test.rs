//! Side observation (unmodified tree), goes in circuit-prover/tests/.
//!
//! `Poseidon2PermCall { return_all_outputs: true }` hands the capacity outputs to the circuit as
//! ordinary expressions, but the Poseidon2 table only creates the RATE outputs on the witness bus.
//! An ALU row that takes a capacity output as its `a` operand gets `a_state = 0` (skip) in
//! `generate_preprocessed_columns` (slot never `defined`, not a private input, not a hint output):
//! the operand floats free of the value the Poseidon2 table computed.
//!
//! C09: every operand an operation's relation depends on takes part in the shared witness bus.
//! Demonstrated end to end: `expected == capacity_out * p` is "proven" for an arbitrary `expected`
//! by changing only the ALU row's `a` value (and the public value), nothing else.

use std::panic::{AssertUnwindSafe, catch_unwind};

use p3_batch_stark::ProverData;
use p3_circuit::CircuitBuilder;
use p3_circuit::ops::{Poseidon2Config, Poseidon2PermCall, generate_poseidon2_trace};
use p3_circuit_prover::batch_stark_prover::poseidon2_air_builders;
use p3_circuit_prover::common::{NpoPreprocessor, get_airs_and_degrees_with_prep};
use p3_circuit_prover::config::KoalaBearConfig;
use p3_circuit_prover::{
    BatchStarkProver, CircuitProverData, ConstraintProfile, Poseidon2Preprocessor, TablePacking,
    config,
};
use p3_field::extension::BinomialExtensionField;
use p3_field::{BasedVectorSpace, Field, PrimeCharacteristicRing};
use p3_koala_bear::{KoalaBear, default_koalabear_poseidon2_16};
use p3_poseidon2_circuit_air::KoalaBearD4Width16;
use p3_symmetric::Permutation;

type Base = KoalaBear;
type Ext4 = BinomialExtensionField<Base, 4>;

#[test]
fn alu_operand_fed_by_capacity_output_is_bound_to_the_poseidon_value() {
    let mut builder = CircuitBuilder::<Ext4>::new();
    builder.enable_poseidon2_perm::<KoalaBearD4Width16, _>(
        generate_poseidon2_trace::<Ext4, KoalaBearD4Width16>,
        default_koalabear_poseidon2_16(),
    );

    let ins: Vec<_> = (0..4).map(|_| builder.public_input()).collect();
    let p = builder.public_input();
    let expected = builder.public_input();
    let (_id, outs) = builder
        .add_poseidon2_perm(&Poseidon2PermCall {
            config: Poseidon2Config::KOALA_BEAR_D4_W16,
            new_start: true,
            merkle_path: false,
            mmcs_bit: None,
            mmcs_bit2: None,
            inputs: ins.iter().map(|&e| Some(e)).collect(),
            out_ctl: vec![true, true],
            return_all_outputs: true,
            mmcs_index_sum: None,
        })
        .unwrap();
    assert_eq!(outs.len(), 4, "rate + capacity outputs");
    let cap = outs[2].expect("capacity output expression");
    // Keep the rate outputs alive on the bus.
    let r = builder.add(outs[0].unwrap(), outs[1].unwrap());
    let r_pub = builder.public_input();
    builder.connect(r, r_pub);
    // expected == cap * p
    let prod = builder.mul(cap, p);
    builder.connect(prod, expected);

    let circuit = builder.build().unwrap();

    // Native values.
    let in_vals: Vec<Ext4> = (0..4)
        .map(|l| Ext4::from_basis_coefficients_fn(|j| Base::from_u64((4 * l + j + 1) as u64)))
        .collect();
    let mut st = [Base::ZERO; 16];
    for (l, v) in in_vals.iter().enumerate() {
        st[4 * l..4 * l + 4].copy_from_slice(v.as_basis_coefficients_slice());
    }
    let st = default_koalabear_poseidon2_16().permute(st);
    let o: Vec<Ext4> = (0..4)
        .map(|l| Ext4::from_basis_coefficients_slice(&st[4 * l..4 * l + 4]).unwrap())
        .collect();
    let p_val = Ext4::from_basis_coefficients_fn(|j| Base::from_u64(100 + j as u64));
    let honest_expected = o[2] * p_val;

    let mut pis = in_vals.clone();
    pis.extend([p_val, honest_expected, o[0] + o[1]]);
    let mut runner = circuit.runner();
    runner.set_public_inputs(&pis).unwrap();
    let mut traces = runner.run().unwrap();

    // Forge: claim expected' = honest + 1 by moving only the ALU row's `a` (and `out`) value and
    // the matching public value. The Poseidon2 table is untouched.
    let forged_expected = honest_expected + Ext4::ONE;
    let row = traces
        .alu_trace
        .values
        .iter()
        .position(|v| v[0] == o[2] && v[1] == p_val && v[3] == honest_expected)
        .expect("the mul row cap * p = expected");
    traces.alu_trace.values[row][0] = forged_expected * p_val.inverse();
    traces.alu_trace.values[row][3] = forged_expected;
    let pub_pos = traces
        .public_trace
        .values
        .iter()
        .position(|v| *v == honest_expected)
        .expect("public slot of expected");
    traces.public_trace.values[pub_pos] = forged_expected;

    let stark_config = config::koala_bear();
    let table_packing = TablePacking::new(1, 1);
    let npo_prep: Vec<Box<dyn NpoPreprocessor<Base>>> = vec![Box::new(Poseidon2Preprocessor)];
    let air_builders = poseidon2_air_builders::<_, 4>();
    let (airs_degrees, primitive_columns, non_primitive_columns) =
        get_airs_and_degrees_with_prep::<KoalaBearConfig, _, 4>(
            &circuit,
            &table_packing,
            &npo_prep,
            &air_builders,
            ConstraintProfile::Standard,
        )
        .unwrap();
    let (airs, degrees): (Vec<_>, Vec<usize>) = airs_degrees.into_iter().unzip();
    let prover_data = ProverData::from_airs_and_degrees(&stark_config, &airs, &degrees);
    let circuit_prover_data =
        CircuitProverData::new(prover_data, primitive_columns, non_primitive_columns);
    let mut prover = BatchStarkProver::new(stark_config).with_table_packing(table_packing);
    prover.register_poseidon2_table::<4>(Poseidon2Config::KOALA_BEAR_D4_W16);

    let accepted = catch_unwind(AssertUnwindSafe(|| {
        match prover.prove_all_tables(&traces, &circuit_prover_data) {
            Ok(proof) => prover.verify_all_tables::<Ext4>(&proof).is_ok(),
            Err(_) => false,
        }
    }))
    .unwrap_or(false);
    assert!(
        !accepted,
        "a proof for expected' != capacity_out * p was accepted: the `a` operand is off the bus"
    );
}
