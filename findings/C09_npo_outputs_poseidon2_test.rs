//! Side observation (unmodified tree), goes in circuit-prover/tests/.
//!
//! Two Poseidon2 rows of the same table hash the same public inputs; their exposed outputs are
//! connected, so both rows write the same witness slots. `dup_npo_outputs[op_type][wid]` is
//! looked up per (op_type, wid) in `poseidon_preprocess_for_prover` phase 2, so BOTH rows get
//! `out_ctl = -1` (reader) and the slots have no creator.
//! C09: exactly one creator per slot; the honest bus balances.

use p3_batch_stark::ProverData;
use p3_circuit::CircuitBuilder;
use p3_circuit::ops::{Poseidon2Config, Poseidon2PermCall, generate_poseidon2_trace};
use p3_circuit_prover::batch_stark_prover::poseidon2_air_builders;
use p3_circuit_prover::common::{NpoPreprocessor, get_airs_and_degrees_with_prep};
use p3_circuit_prover::config::KoalaBearConfig;
use p3_circuit_prover::{
    BatchStarkProver, CircuitProverData, ConstraintProfile, Poseidon2Preprocessor, TablePacking,
    config,
};
use p3_field::PrimeCharacteristicRing;
use p3_field::extension::BinomialExtensionField;
use p3_koala_bear::{KoalaBear, default_koalabear_poseidon2_16};
use p3_poseidon2_circuit_air::KoalaBearD4Width16;

type Base = KoalaBear;
type Ext4 = BinomialExtensionField<Base, 4>;

#[test]
fn two_poseidon2_rows_with_connected_outputs_honest_proof_accepted() {
    let perm = default_koalabear_poseidon2_16();
    let mut builder = CircuitBuilder::<Ext4>::new();
    builder.enable_poseidon2_perm::<KoalaBearD4Width16, _>(
        generate_poseidon2_trace::<Ext4, KoalaBearD4Width16>,
        perm,
    );

    let ins: Vec<_> = (0..4).map(|_| builder.public_input()).collect();
    let mut outs = Vec::new();
    for _ in 0..2 {
        let (_id, o) = builder
            .add_poseidon2_perm(&Poseidon2PermCall {
                config: Poseidon2Config::KOALA_BEAR_D4_W16,
                new_start: true,
                merkle_path: false,
                mmcs_bit: None,
                mmcs_bit2: None,
                inputs: ins.iter().map(|&e| Some(e)).collect(),
                out_ctl: vec![true, true],
                return_all_outputs: false,
                mmcs_index_sum: None,
            })
            .unwrap();
        outs.push(o);
    }
    // Both rows must produce the same digest.
    builder.connect(outs[0][0].unwrap(), outs[1][0].unwrap());
    builder.connect(outs[0][1].unwrap(), outs[1][1].unwrap());
    // Somebody reads the digest.
    let s = builder.add(outs[0][0].unwrap(), outs[0][1].unwrap());
    let expected = builder.public_input();
    let d = builder.sub(s, expected);
    builder.assert_zero(d);

    let circuit = builder.build().unwrap();

    // Native digest to fill `expected`.
    use p3_field::BasedVectorSpace;
    use p3_symmetric::Permutation;
    let in_vals: Vec<Ext4> = (0..4)
        .map(|l| Ext4::from_basis_coefficients_fn(|j| Base::from_u64((4 * l + j + 1) as u64)))
        .collect();
    let mut st = [Base::ZERO; 16];
    for (l, v) in in_vals.iter().enumerate() {
        st[4 * l..4 * l + 4].copy_from_slice(v.as_basis_coefficients_slice());
    }
    let st = default_koalabear_poseidon2_16().permute(st);
    let o0 = Ext4::from_basis_coefficients_slice(&st[0..4]).unwrap();
    let o1 = Ext4::from_basis_coefficients_slice(&st[4..8]).unwrap();

    let mut pis = in_vals.clone();
    pis.push(o0 + o1);
    let mut runner = circuit.runner();
    runner.set_public_inputs(&pis).unwrap();
    let traces = runner.run().unwrap();

    let stark_config = config::koala_bear();
    let table_packing = TablePacking::new(1, 1);
    let npo_prep: Vec<Box<dyn NpoPreprocessor<Base>>> = vec![Box::new(Poseidon2Preprocessor)];
    let air_builders = poseidon2_air_builders::<_, 4>();
    let (airs_degrees, primitive_columns, non_primitive_columns) =
        get_airs_and_degrees_with_prep::<KoalaBearConfig, _, 4>(
            &circuit,
            &table_packing,
            &npo_prep,
            &air_builders,
            ConstraintProfile::Standard,
        )
        .unwrap();
    let (airs, degrees): (Vec<_>, Vec<usize>) = airs_degrees.into_iter().unzip();
    let prover_data = ProverData::from_airs_and_degrees(&stark_config, &airs, &degrees);
    let circuit_prover_data =
        CircuitProverData::new(prover_data, primitive_columns, non_primitive_columns);
    let mut prover = BatchStarkProver::new(stark_config).with_table_packing(table_packing);
    prover.register_poseidon2_table::<4>(Poseidon2Config::KOALA_BEAR_D4_W16);
    let proof = prover
        .prove_all_tables(&traces, &circuit_prover_data)
        .expect("prove");
    prover.verify_all_tables::<Ext4>(&proof).expect("verify");
}
