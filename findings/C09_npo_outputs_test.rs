//! Side observation (unmodified tree), goes in circuit-prover/tests/.
//!
//! Two rows of the SAME recompose table whose outputs are connected share one witness slot.
//! `generate_preprocessed_columns` makes the first row the creator and flags the slot in
//! `dup_npo_outputs[op_type][wid]` for the second row; `recompose_preprocess_for_op` then looks
//! the flag up per (op_type, wid), so BOTH rows become readers (-1) and the slot has no creator.
//! C09: the slot must have exactly one creator and the honest bus must balance.

use p3_baby_bear::BabyBear;
use p3_batch_stark::ProverData;
use p3_circuit::CircuitBuilder;
use p3_circuit::ops::{NpoTypeId, generate_recompose_trace};
use p3_circuit_prover::batch_stark_prover::{recompose_air_builders, recompose_preprocessor};
use p3_circuit_prover::common::{NpoPreprocessor, get_airs_and_degrees_with_prep};
use p3_circuit_prover::config::{self, BabyBearConfig};
use p3_circuit_prover::{BatchStarkProver, CircuitProverData, ConstraintProfile, TablePacking};
use p3_field::extension::BinomialExtensionField;
use p3_field::{BasedVectorSpace, PrimeCharacteristicRing};

type F = BabyBear;
const D: usize = 4;
type EF = BinomialExtensionField<F, D>;

#[test]
fn two_recompose_rows_with_connected_outputs_keep_one_creator() {
    run(true);
}

#[test]
fn two_recompose_rows_with_connected_outputs_honest_proof_accepted() {
    run(false);
}

fn run(check_columns: bool) {
    let mut builder = CircuitBuilder::<EF>::new();
    builder.enable_recompose::<F>(generate_recompose_trace::<F, EF>);

    // Four base-field-valued public inputs recomposed twice (same coefficient targets, so the
    // builder's provenance debug-assert in `connect` is satisfied; with two different coefficient
    // vectors the same shape is accepted by release builds).
    let a: Vec<_> = (0..D).map(|_| builder.public_input()).collect();
    let expected = builder.public_input();

    let ra = builder.recompose_base_coeffs_to_ext::<F>(&a).unwrap();
    let rb = builder.recompose_base_coeffs_to_ext::<F>(&a).unwrap();
    assert_ne!(ra, rb, "two separate recompose operations");
    builder.connect(ra, rb);
    let diff = builder.sub(ra, expected);
    builder.assert_zero(diff);

    let circuit = builder.build().unwrap();

    // C09 on the preprocessed columns: exactly one of the two recompose rows creates the slot.
    let npo_prep: Vec<Box<dyn NpoPreprocessor<F>>> = vec![recompose_preprocessor::<F>(false)];
    let air_builders = recompose_air_builders::<BabyBearConfig, D>(1, false);
    let packing = TablePacking::new(1, 1);
    let (airs_degrees, primitive_columns, non_primitive_columns) =
        get_airs_and_degrees_with_prep::<BabyBearConfig, _, D>(
            &circuit,
            &packing,
            &npo_prep,
            &air_builders,
            ConstraintProfile::Standard,
        )
        .unwrap();
    let rows = non_primitive_columns[&NpoTypeId::recompose()].clone();
    assert_eq!(rows.len(), 4, "two rows of [output_idx, out_mult]");
    assert_eq!(rows[0], rows[2], "both rows write the same slot");
    let creators = [rows[1], rows[3]]
        .iter()
        .filter(|m| **m != F::NEG_ONE)
        .count();
    if check_columns {
        assert_eq!(creators, 1, "out_mult of the two rows: {:?} {:?}", rows[1], rows[3]);
        return;
    }

    // And the honest execution is accepted.
    let coeffs = [2u64, 3, 5, 7];
    let mut pis: Vec<EF> = coeffs.iter().map(|&c| EF::from(F::from_u64(c))).collect();
    pis.push(EF::from_basis_coefficients_fn(|i| F::from_u64(coeffs[i])));
    let mut runner = circuit.runner();
    runner.set_public_inputs(&pis).unwrap();
    let traces = runner.run().unwrap();

    let cfg = config::baby_bear();
    let (airs, degrees): (Vec<_>, Vec<usize>) = airs_degrees.into_iter().unzip();
    let prover_data = ProverData::from_airs_and_degrees(&cfg, &airs, &degrees);
    let circuit_prover_data =
        CircuitProverData::new(prover_data, primitive_columns, non_primitive_columns);
    let mut prover = BatchStarkProver::new(cfg).with_table_packing(packing);
    prover.register_recompose_table::<D>(false);
    let proof = prover
        .prove_all_tables(&traces, &circuit_prover_data)
        .expect("prove");
    prover.verify_all_tables::<EF>(&proof).expect("verify");
}
