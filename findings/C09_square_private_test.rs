use p3_baby_bear::BabyBear;
use p3_circuit::CircuitBuilder;
use p3_field::{PrimeCharacteristicRing, PrimeField32};

type F = BabyBear;

#[test]
fn squaring_a_private_input_first_use() {
    let mut b = CircuitBuilder::<F>::new();
    let x = b.alloc_private_input("x");
    let y = b.mul(x, x);
    let e = b.public_input();
    b.connect(y, e);
    let circuit = b.build().unwrap();
    for op in &circuit.ops { println!("{op:?}"); }
    let prep = circuit.generate_preprocessed_columns::<1>().unwrap();
    let alu: Vec<u32> = prep.primitive[2].iter().map(|v| v.as_canonical_u32()).collect();
    println!("alu prep (12 per op) = {alu:?}  ext_reads = {:?}", prep.ext_reads);
    for row in alu.chunks(12) {
        let (a_idx, b_idx, c_idx, out_idx) = (row[4], row[5], row[6], row[7]);
        let (a_state, b_cr, c_state, out_cr) = (row[8], row[9], row[10], row[11]);
        let mut created = vec![];
        if a_state == 2 { created.push(a_idx); }
        if b_cr == 1 { created.push(b_idx); }
        if c_state == 2 { created.push(c_idx); }
        if out_cr == 1 { created.push(out_idx); }
        let n = created.len();
        created.sort(); created.dedup();
        assert_eq!(n, created.len(), "one ALU row creates the same slot twice: a_state={a_state} b_is_creator={b_cr} c_state={c_state} out_is_creator={out_cr} idx a={a_idx} b={b_idx} out={out_idx}");
    }
}
