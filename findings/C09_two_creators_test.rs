use p3_baby_bear::BabyBear;
use p3_circuit::ops::Op;
use p3_circuit::CircuitBuilder;
use p3_field::PrimeCharacteristicRing;

type F = BabyBear;

/// Two public inputs asserted equal share one witness slot; each of them gets its own Public table row,
/// and every Public row is a bus creator of its slot => the slot has two creators.
#[test]
fn connected_public_inputs_give_one_slot_two_creator_rows() {
    let mut b = CircuitBuilder::<F>::new();
    let p = b.public_input();
    let q = b.public_input();
    b.connect(p, q);
    let s = b.add(p, q);
    let e = b.public_input();
    b.connect(s, e);
    let circuit = b.build().unwrap();
    let mut runner = circuit.runner();
    runner.set_public_inputs(&[F::from_u32(3), F::from_u32(3), F::from_u32(6)]).unwrap();
    runner.run().expect("honest satisfying inputs");
    let mut creators = vec![0usize; circuit.witness_count as usize];
    for op in &circuit.ops {
        match op {
            Op::Const { out, .. } | Op::Public { out, .. } => creators[out.0 as usize] += 1,
            _ => {}
        }
    }
    let prep = circuit.generate_preprocessed_columns::<1>().unwrap();
    println!("public column = {:?}, ext_reads = {:?}", prep.primitive[1], prep.ext_reads);
    let worst = creators.iter().copied().max().unwrap();
    assert!(worst <= 1, "a witness slot is created by {worst} Const/Public rows (each sends with multiplicity ext_reads[slot])");
}
