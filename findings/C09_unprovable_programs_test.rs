//! Side observations for C09 on the UNMODIFIED code (not part of the seeded change).
//! Drop this file into circuit-prover/tests/ and run
//!   cargo nextest run -p p3-circuit-prover --test side_observations_c09 --no-fail-fast --no-capture
//! Every `p*` test below FAILS on the unmodified tree (honest execution not provable);
//! `q0`/`q1` pass on the unmodified tree (q0 is the shape used by demo_c09.rs).

use std::panic::{AssertUnwindSafe, catch_unwind};

use p3_circuit::Circuit;
use p3_circuit::builder::CircuitBuilder;
use p3_circuit_prover::batch_stark_prover::{BatchStarkProver, CircuitProverData, TablePacking};
use p3_circuit_prover::common::get_airs_and_degrees_with_prep;
use p3_circuit_prover::{ConstraintProfile, config};
use p3_field::PrimeCharacteristicRing;
use p3_test_utils::baby_bear_params::*;

type F = BabyBear;

fn prove_verify(circuit: &Circuit<F>, publics: &[F], privates: &[F]) -> Result<(), String> {
    let r = catch_unwind(AssertUnwindSafe(|| -> Result<(), String> {
        let cfg = config::baby_bear();
        let (airs_degrees, primitive_columns, non_primitive_columns) =
            get_airs_and_degrees_with_prep::<config::BabyBearConfig, _, 1>(
                circuit,
                &TablePacking::default(),
                &[],
                &[],
                ConstraintProfile::Standard,
            )
            .map_err(|e| format!("prep: {e:?}"))?;
        let (airs, log_degrees): (Vec<_>, Vec<usize>) = airs_degrees.into_iter().unzip();
        let mut runner = circuit.runner();
        runner
            .set_public_inputs(publics)
            .map_err(|e| format!("pub: {e:?}"))?;
        if !privates.is_empty() {
            runner
                .set_private_inputs(privates)
                .map_err(|e| format!("priv: {e:?}"))?;
        }
        let traces = runner.run().map_err(|e| format!("run: {e:?}"))?;
        let prover_data =
            p3_batch_stark::ProverData::from_airs_and_degrees(&cfg, &airs, &log_degrees);
        let cpd = CircuitProverData::new(prover_data, primitive_columns, non_primitive_columns);
        let prover = BatchStarkProver::new(cfg);
        let proof = prover
            .prove_all_tables(&traces, &cpd)
            .map_err(|e| format!("prove: {e:?}"))?;
        prover
            .verify_all_tables::<F>(&proof)
            .map_err(|e| format!("verify: {e:?}"))?;
        Ok(())
    }));
    match r {
        Ok(x) => x,
        Err(_) => Err("panic".to_string()),
    }
}

#[test]
fn p1_private_minuend_first_use() {
    let mut b = CircuitBuilder::<F>::new();
    let x = b.public_input();
    let p = b.alloc_private_input("p");
    let d = b.sub(p, x);
    let _e = b.mul(d, d);
    let c = b.build().unwrap();
    for op in &c.ops {
        println!("{op:?}");
    }
    let r = prove_verify(&c, &[F::from_u64(3)], &[F::from_u64(10)]);
    println!("P1 result: {r:?}");
    assert!(r.is_ok());
}

#[test]
fn p2_horner_intermediate_read() {
    let mut b = CircuitBuilder::<F>::new();
    let alpha = b.public_input();
    let z0 = b.public_input();
    let x0 = b.public_input();
    let z1 = b.public_input();
    let x1 = b.public_input();
    let zero = b.define_const(F::ZERO);
    let acc1 = b.horner_acc_step(zero, alpha, z0, x0);
    let acc2 = b.horner_acc_step(acc1, alpha, z1, x1);
    let _y = b.add(acc1, acc2);
    let c = b.build().unwrap();
    for op in &c.ops {
        println!("{op:?}");
    }
    let r = prove_verify(
        &c,
        &[
            F::from_u64(3),
            F::from_u64(5),
            F::from_u64(7),
            F::from_u64(11),
            F::from_u64(13),
        ],
        &[],
    );
    println!("P2 result: {r:?}");
    assert!(r.is_ok());
}

#[test]
fn p3_horner_unchained_acc() {
    let mut b = CircuitBuilder::<F>::new();
    let alpha = b.public_input();
    let z0 = b.public_input();
    let x0 = b.public_input();
    let start = b.public_input();
    let _acc1 = b.horner_acc_step(start, alpha, z0, x0);
    let c = b.build().unwrap();
    let r = prove_verify(
        &c,
        &[
            F::from_u64(3),
            F::from_u64(5),
            F::from_u64(7),
            F::from_u64(11),
        ],
        &[],
    );
    println!("P3 result: {r:?}");
    assert!(r.is_ok());
}

// ---------------- D = 4 harness with recompose tables ----------------
mod d4 {
    use std::panic::{AssertUnwindSafe, catch_unwind};

    use p3_circuit::Circuit;
    use p3_circuit::builder::CircuitBuilder;
    use p3_circuit::ops::generate_recompose_trace;
    use p3_circuit_prover::batch_stark_prover::{
        BatchStarkProver, CircuitProverData, TablePacking, recompose_air_builders,
        recompose_preprocessor,
    };
    use p3_circuit_prover::common::{NpoPreprocessor, get_airs_and_degrees_with_prep};
    use p3_circuit_prover::{ConstraintProfile, config};
    use p3_field::extension::BinomialExtensionField;
    use p3_field::{BasedVectorSpace, PrimeCharacteristicRing};
    use p3_test_utils::baby_bear_params::BabyBear;

    type F = BabyBear;
    type EF = BinomialExtensionField<F, 4>;

    fn ef(c: [u64; 4]) -> EF {
        EF::from_basis_coefficients_slice(&c.map(F::from_u64)).unwrap()
    }

    fn prove_verify(circuit: &Circuit<EF>, publics: &[EF], privates: &[EF]) -> Result<(), String> {
        let r = catch_unwind(AssertUnwindSafe(|| -> Result<(), String> {
            let cfg = config::baby_bear();
            let preps: Vec<Box<dyn NpoPreprocessor<F>>> = vec![recompose_preprocessor::<F>(true)];
            let air_builders = recompose_air_builders::<config::BabyBearConfig, 4>(1, true);
            let (airs_degrees, primitive_columns, non_primitive_columns) =
                get_airs_and_degrees_with_prep::<config::BabyBearConfig, _, 4>(
                    circuit,
                    &TablePacking::default(),
                    &preps,
                    &air_builders,
                    ConstraintProfile::Standard,
                )
                .map_err(|e| format!("prep: {e:?}"))?;
            let (airs, log_degrees): (Vec<_>, Vec<usize>) = airs_degrees.into_iter().unzip();
            let mut runner = circuit.runner();
            runner
                .set_public_inputs(publics)
                .map_err(|e| format!("pub: {e:?}"))?;
            if !privates.is_empty() {
                runner
                    .set_private_inputs(privates)
                    .map_err(|e| format!("priv: {e:?}"))?;
            }
            let traces = runner.run().map_err(|e| format!("run: {e:?}"))?;
            let prover_data =
                p3_batch_stark::ProverData::from_airs_and_degrees(&cfg, &airs, &log_degrees);
            let cpd = CircuitProverData::new(prover_data, primitive_columns, non_primitive_columns);
            let prover = BatchStarkProver::new(cfg).with_recompose_table::<4>(true);
            let proof = prover
                .prove_all_tables(&traces, &cpd)
                .map_err(|e| format!("prove: {e:?}"))?;
            prover
                .verify_all_tables::<EF>(&proof)
                .map_err(|e| format!("verify: {e:?}"))?;
            Ok(())
        }));
        match r {
            Ok(x) => x,
            Err(_) => Err("panic".to_string()),
        }
    }

    fn new_builder(coeff_ctl: bool) -> CircuitBuilder<EF> {
        let mut b = CircuitBuilder::<EF>::new();
        b.enable_recompose::<F>(generate_recompose_trace::<F, EF>);
        b.set_recompose_coeff_ctl_for_decompose_links(coeff_ctl);
        b
    }

    #[test]
    fn q0_hint_coeff_is_public() {
        let mut b = new_builder(true);
        let x = b.public_input();
        let p = b.public_input();
        let coeffs = b.decompose_ext_to_base_coeffs::<F>(x).unwrap();
        b.connect(coeffs[0], p);
        let two = b.define_const(EF::TWO);
        let _y = b.mul(two, p);
        let c = b.build().unwrap();
        for op in &c.ops {
            println!("{op:?}");
        }
        let r = prove_verify(&c, &[ef([5, 6, 7, 8]), ef([5, 0, 0, 0])], &[]);
        println!("Q0 result: {r:?}");
        assert!(r.is_ok());
    }

    #[test]
    fn q1_plain_decompose_coeff_ctl() {
        let mut b = new_builder(true);
        let x = b.public_input();
        let coeffs = b.decompose_ext_to_base_coeffs::<F>(x).unwrap();
        let two = b.define_const(EF::TWO);
        let _y = b.mul(two, coeffs[0]);
        let c = b.build().unwrap();
        let r = prove_verify(&c, &[ef([5, 6, 7, 8])], &[]);
        println!("Q1 result: {r:?}");
        assert!(r.is_ok());
    }

    #[test]
    fn p5_hint_coeff_as_alu_a() {
        let mut b = new_builder(true);
        let x = b.public_input();
        let coeffs = b.decompose_ext_to_base_coeffs::<F>(x).unwrap();
        let two = b.define_const(EF::TWO);
        let _y = b.mul(coeffs[0], two);
        let _w = b.mul(coeffs[0], coeffs[0]);
        let c = b.build().unwrap();
        for op in &c.ops {
            println!("{op:?}");
        }
        let r = prove_verify(&c, &[ef([5, 6, 7, 8])], &[]);
        println!("P5 result: {r:?}");
        assert!(r.is_ok());
    }
}

#[test]
fn p4_private_alpha_packed_horner() {
    let mut b = CircuitBuilder::<F>::new();
    let alpha = b.alloc_private_input("alpha");
    let z0 = b.public_input();
    let x0 = b.public_input();
    let z1 = b.public_input();
    let x1 = b.public_input();
    let zero = b.define_const(F::ZERO);
    let acc1 = b.horner_acc_step(zero, alpha, z0, x0);
    let _acc2 = b.horner_acc_step(acc1, alpha, z1, x1);
    let c = b.build().unwrap();
    let r = prove_verify(
        &c,
        &[
            F::from_u64(5),
            F::from_u64(7),
            F::from_u64(11),
            F::from_u64(13),
        ],
        &[F::from_u64(3)],
    );
    println!("P4 result: {r:?}");
    assert!(r.is_ok());
}
