//! Side observation (unmodified tree): a hint output whose only consumers are non-primitive
//! inputs has no creator on the WitnessChecks bus.
//!
//! `decompose_ext_to_base_coeffs(x)` (recompose NPO enabled, default settings) yields hinted
//! coefficient slots and a plain `recompose` row, which does not put its coefficients on the bus.
//! Feeding the coefficients to a Poseidon2 permutation makes the Poseidon2 table read slots that
//! no table creates. Private inputs in the same position are rejected with
//! `UnclaimedPrivateInput`; hint outputs are accepted and the honest proof is rejected.
//!
//! Goes in `circuit-prover/tests/`. Fails on the unmodified tree.

use p3_baby_bear::{BabyBear, default_babybear_poseidon2_16};
use p3_batch_stark::ProverData;
use p3_circuit::CircuitBuilder;
use p3_circuit::ops::{Poseidon2Config, generate_poseidon2_trace, generate_recompose_trace};
use p3_circuit_prover::batch_stark_prover::{poseidon2_air_builders, recompose_air_builders};
use p3_circuit_prover::common::{NpoPreprocessor, get_airs_and_degrees_with_prep};
use p3_circuit_prover::config::{self, BabyBearConfig};
use p3_circuit_prover::{
    BatchStarkProver, CircuitProverData, ConstraintProfile, Poseidon2Preprocessor,
    RecomposePreprocessor, TablePacking,
};
use p3_field::extension::BinomialExtensionField;
use p3_field::{BasedVectorSpace, PrimeCharacteristicRing};
use p3_poseidon2_circuit_air::BabyBearD4Width16;

type F = BabyBear;
const D: usize = 4;
type EF = BinomialExtensionField<F, D>;

#[test]
fn hinted_coefficients_hashed_by_poseidon2_have_a_creator() {
    let mut builder = CircuitBuilder::<EF>::new();
    builder.enable_poseidon2_perm::<BabyBearD4Width16, _>(
        generate_poseidon2_trace::<EF, BabyBearD4Width16>,
        default_babybear_poseidon2_16(),
    );
    builder.enable_recompose::<F>(generate_recompose_trace::<F, EF>);

    let x = builder.public_input();
    let coeffs = builder.decompose_ext_to_base_coeffs::<F>(x).unwrap();
    // Hash the first two base coefficients (each one an embedded base-field element).
    let _digest = builder
        .add_hash_slice(&Poseidon2Config::BABY_BEAR_D4_W16, &coeffs[..2], true)
        .unwrap();
    let circuit = builder.build().unwrap();

    let packing = TablePacking::default();
    let npo_prep: Vec<Box<dyn NpoPreprocessor<F>>> = vec![
        Box::new(Poseidon2Preprocessor),
        Box::new(RecomposePreprocessor::default()),
    ];
    let mut air_builders = poseidon2_air_builders::<BabyBearConfig, D>();
    air_builders.extend(recompose_air_builders::<BabyBearConfig, D>(1, false));
    let (airs_degrees, primitive_columns, non_primitive_columns) =
        get_airs_and_degrees_with_prep::<BabyBearConfig, _, D>(
            &circuit,
            &packing,
            &npo_prep,
            &air_builders,
            ConstraintProfile::Standard,
        )
        .expect("the program is accepted");
    let (airs, degrees): (Vec<_>, Vec<usize>) = airs_degrees.into_iter().unzip();
    let cfg = config::baby_bear();
    let prover_data = ProverData::from_airs_and_degrees(&cfg, &airs, &degrees);
    let circuit_prover_data =
        CircuitProverData::new(prover_data, primitive_columns, non_primitive_columns);

    let x_val =
        EF::from_basis_coefficients_slice(&[1, 2, 3, 4].map(F::from_u64)).expect("4 coefficients");
    let mut runner = circuit.runner();
    runner.set_public_inputs(&[x_val]).unwrap();
    let traces = runner.run().expect("honest execution");

    let mut prover = BatchStarkProver::new(cfg).with_table_packing(packing);
    prover.register_poseidon2_table::<D>(Poseidon2Config::BABY_BEAR_D4_W16);
    prover.register_recompose_table::<D>(false);
    // Debug builds of the prover panic on an unbalanced bus; count that as a rejection.
    let accepted = std::panic::catch_unwind(std::panic::AssertUnwindSafe(|| {
        prover
            .prove_all_tables(&traces, &circuit_prover_data)
            .is_ok_and(|proof| prover.verify_all_tables::<EF>(&proof).is_ok())
    }))
    .unwrap_or(false);
    assert!(
        accepted,
        "the honest execution of an accepted program must yield an accepted proof"
    );
}
