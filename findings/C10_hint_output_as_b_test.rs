//! C10 (open finding C10-hint-output-only-read-as-b-has-no-creator): a hint output whose only ALU use is the `b` operand of a forward row has no creator on the
//! witness bus (generate_preprocessed_columns gives `b` the creator role only for private inputs or on backward rows): the honest proof cannot be produced.
//! Goes in circuit-prover/tests/.  Found by the round-15 C03 mutation agent on the unmodified tree.
use std::panic::{AssertUnwindSafe, catch_unwind};

use p3_baby_bear::BabyBear;
use p3_batch_stark::ProverData;
use p3_circuit::builder::{CircuitBuilder, NonPrimitiveOpParams};
use p3_circuit::ops::{HintExecutor, NpoTypeId};
use p3_circuit::{Circuit, CircuitError, ExprId, Traces, WitnessId};
use p3_circuit_prover::ConstraintProfile;
use p3_circuit_prover::batch_stark_prover::{BatchStarkProver, CircuitProverData, TablePacking};
use p3_circuit_prover::common::get_airs_and_degrees_with_prep;
use p3_circuit_prover::config::{self, BabyBearConfig};
use p3_field::{PrimeCharacteristicRing, PrimeField32};

type F = BabyBear;

#[derive(Debug, Clone)]
struct Advice(F);

impl HintExecutor<F> for Advice {
    fn execute(
        &self,
        _inputs: &[WitnessId],
        outputs: &[WitnessId],
        witness: &mut [Option<F>],
    ) -> Result<(), CircuitError> {
        witness[outputs[0].0 as usize] = Some(self.0);
        Ok(())
    }

    fn boxed(&self) -> Box<dyn HintExecutor<F>> {
        Box::new(self.clone())
    }
}

fn advice(builder: &mut CircuitBuilder<F>, input: ExprId, val: F) -> ExprId {
    let (_, _, outs) = builder.push_non_primitive_op_with_outputs(
        NpoTypeId::unconstrained(),
        vec![vec![input]],
        vec![Some("sqrt")],
        Some(NonPrimitiveOpParams::Unconstrained {
            executor: Box::new(Advice(val)),
        }),
        "sqrt_advice",
    );
    outs[0].unwrap()
}

#[allow(dead_code)]
fn is_square(s: F) -> bool {
    s == F::ZERO || s.exp_u64((F::ORDER_U32 as u64 - 1) / 2) == F::ONE
}

fn accepted(circuit: &Circuit<F>, traces: &Traces<F>) -> bool {
    catch_unwind(AssertUnwindSafe(|| {
        let cfg = config::baby_bear();
        let (airs_degrees, primitive_columns, non_primitive_columns) =
            get_airs_and_degrees_with_prep::<BabyBearConfig, _, 1>(
                circuit,
                &TablePacking::default(),
                &[],
                &[],
                ConstraintProfile::Standard,
            )
            .unwrap();
        let (airs, log_degrees): (Vec<_>, Vec<usize>) = airs_degrees.into_iter().unzip();
        let prover_data = ProverData::from_airs_and_degrees(&cfg, &airs, &log_degrees);
        let cpd = CircuitProverData::new(prover_data, primitive_columns, non_primitive_columns);
        let prover = BatchStarkProver::new(cfg);
        let Ok(proof) = prover.prove_all_tables(traces, &cpd) else {
            return false;
        };
        prover.verify_all_tables::<F>(&proof).is_ok()
    }))
    .unwrap_or(false)
}

#[test]
fn hint_output_first_used_as_b_of_a_forward_row_can_be_proven() {
    // y = x * h with h a hint output that appears ONLY as the `b` operand of this forward row; Y == y asserted.
    let mut b = CircuitBuilder::<F>::new();
    let x = b.public_input();
    let y_pub = b.public_input();
    let h = advice(&mut b, x, F::from_u64(3));
    let y = b.mul(x, h);
    let d = b.sub(y_pub, y);
    b.assert_zero(d);
    let circuit = b.build().unwrap();
    let mut runner = circuit.runner();
    runner.set_public_inputs(&[F::from_u64(5), F::from_u64(15)]).unwrap();
    let traces = runner.run().unwrap();
    assert!(accepted(&circuit, &traces), "a buildable circuit with satisfying inputs (5 * 3 = 15) must be provable");
}

/// control: the same program with the hint output in the `a` slot
#[test]
fn control_hint_output_first_used_as_a() {
    let mut b = CircuitBuilder::<F>::new();
    let x = b.public_input();
    let y_pub = b.public_input();
    let h = advice(&mut b, x, F::from_u64(3));
    let y = b.mul(h, x);
    let d = b.sub(y_pub, y);
    b.assert_zero(d);
    let circuit = b.build().unwrap();
    let mut runner = circuit.runner();
    runner.set_public_inputs(&[F::from_u64(5), F::from_u64(15)]).unwrap();
    let traces = runner.run().unwrap();
    assert!(accepted(&circuit, &traces));
}
