//! Side observations on the UNMODIFIED code (default packing, horner_packed_steps = 2).
//! Each test builds a circuit through the public builder API, feeds satisfying inputs and
//! asserts the C10 property (run -> prove -> verify all succeed). On the unmodified tree the
//! tests named `obs_*` FAIL (they document existing completeness gaps); `control_*` passes.

use std::panic::{AssertUnwindSafe, catch_unwind};

use p3_baby_bear::BabyBear;
use p3_batch_stark::ProverData;
use p3_circuit::builder::CircuitBuilder;
use p3_circuit_prover::ConstraintProfile;
use p3_circuit_prover::batch_stark_prover::{BatchStarkProver, CircuitProverData, TablePacking};
use p3_circuit_prover::common::get_airs_and_degrees_with_prep;
use p3_circuit_prover::config::{self, BabyBearConfig};
use p3_field::PrimeCharacteristicRing;

type F = BabyBear;

fn pipeline(builder: CircuitBuilder<F>, inputs: Vec<F>, packing: TablePacking) -> Result<(), String> {
    catch_unwind(AssertUnwindSafe(move || -> Result<(), String> {
        let circuit = builder.build().map_err(|e| format!("build: {e:?}"))?;
        let cfg = config::baby_bear();
        let (ad, pc, npc) = get_airs_and_degrees_with_prep::<BabyBearConfig, _, 1>(
            &circuit, &packing, &[], &[], ConstraintProfile::Standard,
        )
        .map_err(|e| format!("prep: {e:?}"))?;
        let (airs, degs): (Vec<_>, Vec<usize>) = ad.into_iter().unzip();
        let pd = ProverData::from_airs_and_degrees(&cfg, &airs, &degs);
        let cpd = CircuitProverData::new(pd, pc, npc);
        let mut runner = circuit.runner();
        runner.set_public_inputs(&inputs).map_err(|e| format!("inputs: {e:?}"))?;
        let traces = runner.run().map_err(|e| format!("trace generation: {e:?}"))?;
        let prover = BatchStarkProver::new(cfg).with_table_packing(packing);
        let proof = prover.prove_all_tables(&traces, &cpd).map_err(|e| format!("prove: {e:?}"))?;
        prover.verify_all_tables::<F>(&proof).map_err(|e| format!("verify: {e:?}"))
    }))
    .unwrap_or_else(|p| {
        let msg = p.downcast_ref::<String>().cloned()
            .or_else(|| p.downcast_ref::<&str>().map(|s| (*s).to_string()))
            .unwrap_or_default();
        Err(format!("panic: {}", msg.chars().take(200).collect::<String>()))
    })
}

fn f(x: u64) -> F { F::from_u64(x) }

/// Two Horner chains separated by an ordinary ALU op: fine.
#[test]
fn control_two_chains_separated_by_a_mul() {
    let mut b = CircuitBuilder::<F>::new();
    let alpha = b.public_input();
    let c1 = b.public_input();
    let c2 = b.public_input();
    let e1 = b.public_input();
    let e2 = b.public_input();
    let zero = b.define_const(F::ZERO);
    let s1 = b.horner_acc_step(zero, alpha, c1, zero);
    let s2 = b.horner_acc_step(s1, alpha, c2, zero);
    b.connect(s2, e1);
    let _m = b.mul(alpha, c1);
    let t1 = b.horner_acc_step(zero, alpha, c2, zero);
    let t2 = b.horner_acc_step(t1, alpha, c1, zero);
    b.connect(t2, e2);
    let (a, x, y) = (f(3), f(5), f(7));
    let r = pipeline(b, vec![a, x, y, x * a + y, y * a + x], TablePacking::new(1, 1));
    assert!(r.is_ok(), "{r:?}");
}

/// Two Horner chains that are adjacent in ALU order (nothing but Const/Public ops in between):
/// `compute_schedule` sees one maximal run of HornerAcc ops, so no separator row is inserted and
/// the first step of the second chain is constrained against the last output of the first chain.
#[test]
fn obs_two_adjacent_chains() {
    let mut b = CircuitBuilder::<F>::new();
    let alpha = b.public_input();
    let c1 = b.public_input();
    let c2 = b.public_input();
    let e1 = b.public_input();
    let e2 = b.public_input();
    let zero = b.define_const(F::ZERO);
    let s1 = b.horner_acc_step(zero, alpha, c1, zero);
    let s2 = b.horner_acc_step(s1, alpha, c2, zero);
    b.connect(s2, e1);
    let t1 = b.horner_acc_step(zero, alpha, c2, zero);
    let t2 = b.horner_acc_step(t1, alpha, c1, zero);
    b.connect(t2, e2);
    let (a, x, y) = (f(3), f(5), f(7));
    let r = pipeline(b, vec![a, x, y, x * a + y, y * a + x], TablePacking::new(1, 1));
    assert!(r.is_ok(), "{r:?}");
}

/// A Horner chain whose first accumulator is an arbitrary (non-zero) witness: the AIR takes the
/// accumulator from the previous row (a separator, i.e. 0), never from the `acc` witness.
#[test]
fn obs_chain_starting_from_nonzero_accumulator() {
    let mut b = CircuitBuilder::<F>::new();
    let alpha = b.public_input();
    let c1 = b.public_input();
    let start = b.public_input();
    let e1 = b.public_input();
    let zero = b.define_const(F::ZERO);
    let s1 = b.horner_acc_step(start, alpha, c1, zero);
    b.connect(s1, e1);
    let (a, x, s) = (f(3), f(5), f(9));
    let r = pipeline(b, vec![a, x, s, s * a + x], TablePacking::new(1, 1));
    assert!(r.is_ok(), "{r:?}");
}

/// An intermediate accumulator of a packed group is read by another op: the packed row only
/// creates the LAST output of the group on the witness bus.
#[test]
fn obs_intermediate_accumulator_read_elsewhere() {
    let mut b = CircuitBuilder::<F>::new();
    let alpha = b.public_input();
    let c1 = b.public_input();
    let c2 = b.public_input();
    let zero = b.define_const(F::ZERO);
    let s1 = b.horner_acc_step(zero, alpha, c1, zero);
    let _s2 = b.horner_acc_step(s1, alpha, c2, zero);
    let _m = b.mul(s1, alpha);
    let r = pipeline(b, vec![f(3), f(5), f(7)], TablePacking::new(1, 1));
    assert!(r.is_ok(), "{r:?}");
}

/// `0 / 0`: lowered to `rhs * q = lhs`, satisfiable by any `q`, but the runner needs an inverse.
#[test]
fn obs_zero_over_zero() {
    let mut b = CircuitBuilder::<F>::new();
    let x = b.public_input();
    let y = b.public_input();
    let _q = b.div(x, y);
    let r = pipeline(b, vec![F::ZERO, F::ZERO], TablePacking::new(1, 1));
    assert!(r.is_ok(), "{r:?}");
}
