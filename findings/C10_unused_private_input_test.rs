//! Side observation (C10) on the UNMODIFIED tree -- goes in `circuit-prover/tests/`.
//!
//! A private input that no ALU op reads is accepted by `CircuitBuilder::build` and by the runner,
//! but `Circuit::generate_preprocessed_columns` (called from `get_airs_and_degrees_with_prep`)
//! rejects the circuit with `CircuitError::UnclaimedPrivateInput`: a buildable circuit with
//! satisfying inputs cannot be proven.

use p3_baby_bear::BabyBear;
use p3_circuit::builder::CircuitBuilder;
use p3_circuit_prover::batch_stark_prover::{BatchStarkProver, CircuitProverData, TablePacking};
use p3_circuit_prover::common::get_airs_and_degrees_with_prep;
use p3_circuit_prover::config::{self, BabyBearConfig};
use p3_circuit_prover::ConstraintProfile;
use p3_field::PrimeCharacteristicRing;

type F = BabyBear;

fn f(x: u64) -> F {
    F::from_u64(x)
}

/// Build, run, prove and natively verify; the error names the first stage that failed.
/// Panics raised by the library (debug constraint / lookup checks) are reported as errors.
fn prove_verify(
    builder: CircuitBuilder<F>,
    pubs: &[F],
    privs: &[F],
    packing: TablePacking,
) -> Result<(), String> {
    let circuit = builder.build().map_err(|e| format!("build: {e:?}"))?;
    let cfg = config::baby_bear();
    let (airs_degrees, primitive_columns, non_primitive_columns) =
        get_airs_and_degrees_with_prep::<BabyBearConfig, _, 1>(
            &circuit,
            &packing,
            &[],
            &[],
            ConstraintProfile::Standard,
        )
        .map_err(|e| format!("get_airs_and_degrees_with_prep: {e:?}"))?;
    let (airs, log_degrees): (Vec<_>, Vec<usize>) = airs_degrees.into_iter().unzip();
    let prover_data = p3_batch_stark::ProverData::from_airs_and_degrees(&cfg, &airs, &log_degrees);
    let cpd = CircuitProverData::new(prover_data, primitive_columns, non_primitive_columns);
    let mut runner = circuit.runner();
    runner
        .set_public_inputs(pubs)
        .map_err(|e| format!("set_public_inputs: {e:?}"))?;
    if !privs.is_empty() {
        runner
            .set_private_inputs(privs)
            .map_err(|e| format!("set_private_inputs: {e:?}"))?;
    }
    let traces = runner.run().map_err(|e| format!("run: {e:?}"))?;
    let prover = BatchStarkProver::new(cfg).with_table_packing(packing);
    let proof = std::panic::catch_unwind(std::panic::AssertUnwindSafe(|| {
        prover.prove_all_tables(&traces, &cpd)
    }))
    .map_err(|_| "prove_all_tables panicked".to_string())?
    .map_err(|e| format!("prove: {e:?}"))?;
    prover
        .verify_all_tables::<F>(&proof)
        .map_err(|e| format!("verify: {e:?}"))
}

#[test]
fn circuit_with_unused_private_input_is_provable() {
    let mut b = CircuitBuilder::<F>::new();
    let _p = b.alloc_private_input("p");
    let x = b.public_input();
    let _m = b.mul(x, x);
    prove_verify(b, &[f(2)], &[f(10)], TablePacking::default()).unwrap();
}

/// Control: the same circuit with the private input read once goes through.
#[test]
fn control_used_private_input() {
    let mut b = CircuitBuilder::<F>::new();
    let p = b.alloc_private_input("p");
    let x = b.public_input();
    let _m = b.mul(x, p);
    prove_verify(b, &[f(2)], &[f(10)], TablePacking::default()).unwrap();
}
