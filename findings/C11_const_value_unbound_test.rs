//! Finding C11-const-values-unbound: the Const table commits only (multiplicity, index) in its preprocessed columns; the VALUE of a constant is a main-trace column
//! the prover fills. `x + 5 == y` with the constant forged to 6 proves 1 + "5" == 7 and verify_all_tables accepts (unmodified tree).

use std::panic::{AssertUnwindSafe, catch_unwind};

use p3_circuit::tables::Traces;
use p3_circuit::CircuitBuilder;
use p3_circuit_prover::batch_stark_prover::{BatchStarkProver, CircuitProverData, TablePacking};
use p3_circuit_prover::common::get_airs_and_degrees_with_prep;
use p3_circuit_prover::config::BabyBearConfig;
use p3_circuit_prover::field_params::ExtractBinomialW;
use p3_circuit_prover::{ConstraintProfile, config};
use p3_field::extension::BinomialExtensionField;
use p3_field::{BasedVectorSpace, Field, PrimeCharacteristicRing};
use p3_test_utils::baby_bear_params::BabyBear;

type Ext4 = BinomialExtensionField<BabyBear, 4>;


/// Proves `traces` and verifies the proof. A panic / error anywhere counts as a rejection.
fn accepted<EF, const D: usize>(
    prover: &BatchStarkProver<BabyBearConfig>,
    data: &CircuitProverData<BabyBearConfig>,
    traces: &Traces<EF>,
) -> bool
where
    EF: Field + BasedVectorSpace<BabyBear> + ExtractBinomialW<BabyBear>,
{
    catch_unwind(AssertUnwindSafe(|| {
        prover
            .prove_all_tables(traces, data)
            .is_ok_and(|proof| prover.verify_all_tables::<EF>(&proof).is_ok())
    }))
    .unwrap_or(false)
}



#[test]
fn a_constant_keeps_its_value() {
    type F = BabyBear;
    let mut builder = CircuitBuilder::<F>::new();
    let x = builder.public_input();
    let y = builder.public_input();
    let five = builder.define_const(F::from_u64(5));
    let s = builder.add(x, five);
    builder.connect(s, y);
    let circuit = builder.build().unwrap();

    let cfg = config::baby_bear();
    let (airs_degrees, prim_cols, npo_cols) = get_airs_and_degrees_with_prep::<BabyBearConfig, _, 1>(
        &circuit, &TablePacking::default(), &[], &[], ConstraintProfile::Standard).unwrap();
    let (airs, degrees): (Vec<_>, Vec<usize>) = airs_degrees.into_iter().unzip();
    let prover_data = p3_batch_stark::ProverData::from_airs_and_degrees(&cfg, &airs, &degrees);
    let data = CircuitProverData::new(prover_data, prim_cols, npo_cols);
    let prover = BatchStarkProver::new(cfg);

    let mut runner = circuit.runner();
    runner.set_public_inputs(&[F::from_u64(1), F::from_u64(6)]).unwrap();
    let honest = runner.run().unwrap();
    assert!(accepted::<F, 1>(&prover, &data, &honest), "honest proof must verify");

    // dishonest: claim 1 + "5" == 7 by giving the constant the value 6
    let mut t = honest.clone();
    println!("const index {:?} values {:?}", t.const_trace.index, t.const_trace.values);
    println!("alu {:?} {:?}", t.alu_trace.indices, t.alu_trace.values);
    for (i, v) in t.const_trace.values.clone().iter().enumerate() {
        if *v == F::from_u64(5) { t.const_trace.values[i] = F::from_u64(6); }
    }
    for i in 0..t.alu_trace.values.len() {
        let [a, b, c, _o] = t.alu_trace.values[i];
        let b2 = if b == F::from_u64(5) { F::from_u64(6) } else { b };
        let a2 = if a == F::from_u64(5) { F::from_u64(6) } else { a };
        t.alu_trace.values[i] = [a2, b2, c, a2 + b2];
    }
    for pos in 0..t.public_trace.values.len() {
        if t.public_trace.values[pos] == F::from_u64(6) { t.public_trace.values[pos] = F::from_u64(7); }
    }
    assert!(!accepted::<F, 1>(&prover, &data, &t), "a proof of 1 + 5 == 7 was accepted");
}
