//! Side observation for C11 (goes in poseidon1-circuit-air/tests/), UNMODIFIED tree.
//!
//! The leaf-index accumulator of a Merkle chain is defined by the runner / trace generator as
//!   acc(chain-start row) = 0          (when the start row does not itself expose the index)
//!   acc(next)            = 2*acc + bit
//! and the last row of the chain sends `acc` on the witness bus as the leaf index.
//! The Poseidon1 AIR only enforces the recurrence; nothing pins `acc` on the chain-start
//! (`new_start = 1`, `merkle_path = 1`) row. A trace that starts the chain at an arbitrary
//! value `s` therefore satisfies every constraint and exposes `4*s + 2*b1 + b2` instead of the
//! index spelled by the direction bits.

use p3_baby_bear::{BabyBear, default_babybear_poseidon1_16};
use p3_field::extension::BinomialExtensionField;
use p3_field::{PrimeCharacteristicRing, PrimeField32};
use p3_matrix::Matrix;
use p3_matrix::dense::RowMajorMatrix;
use p3_poseidon1_circuit_air::{
    BabyBearD4Width16, Poseidon1CircuitAirBabyBearD4Width16, Poseidon1CircuitRow,
    extract_preprocessed_from_operations,
};
use p3_symmetric::Permutation;
use p3_test_utils::air_satisfaction::check_air_satisfies;
use rand::rngs::SmallRng;
use rand::{RngExt, SeedableRng};

type Val = BabyBear;
type EF = BinomialExtensionField<Val, 4>;

const D: usize = 4;
const WIDTH: usize = 16;
const WIDTH_EXT: usize = 4;
const RATE_EXT: usize = 2;
const HEIGHT: usize = 8;

fn row(
    new_start: bool,
    merkle_path: bool,
    mmcs_bit: bool,
    input_values: Vec<Val>,
    in_ctl: Vec<bool>,
    mmcs_ctl_enabled: bool,
) -> Poseidon1CircuitRow<Val> {
    Poseidon1CircuitRow {
        new_start,
        merkle_path,
        mmcs_bit,
        mmcs_index_sum: Val::ZERO,
        input_values,
        in_ctl,
        input_indices: vec![0; WIDTH_EXT],
        out_ctl: vec![false; RATE_EXT],
        output_indices: vec![0; RATE_EXT],
        mmcs_index_sum_idx: 0,
        mmcs_ctl_enabled,
    }
}

/// Build the AIR (with its preprocessed trace) and the honest main trace for a 3-row Merkle
/// chain with direction bits `bits[1]`, `bits[2]` on the two continuation rows.
///
/// `ctl0_on_row1` says whether row 1 takes input limb 0 from the witness bus.
fn build(
    bits: [bool; 3],
    ctl0_on_row1: bool,
) -> (Poseidon1CircuitAirBabyBearD4Width16, RowMajorMatrix<Val>) {
    let mut rng = SmallRng::seed_from_u64(0xC11);
    let perm = default_babybear_poseidon1_16();

    // Row 0: chain start (leaf hash).
    let state_0: [Val; WIDTH] = core::array::from_fn(|_| rng.random());
    let out_0 = perm.permute(state_0);

    // Place `prev[0..2D]` in the left (bit = 0) or right (bit = 1) half of the next input and a
    // random sibling in the other half.
    let mut place = |prev: &[Val; WIDTH], bit: bool| -> [Val; WIDTH] {
        let sibling: [Val; 2 * D] = core::array::from_fn(|_| rng.random());
        let mut s = [Val::ZERO; WIDTH];
        if bit {
            s[0..2 * D].copy_from_slice(&sibling);
            s[2 * D..4 * D].copy_from_slice(&prev[0..2 * D]);
        } else {
            s[0..2 * D].copy_from_slice(&prev[0..2 * D]);
            s[2 * D..4 * D].copy_from_slice(&sibling);
        }
        s
    };

    let state_1 = place(&out_0, bits[1]);
    let out_1 = perm.permute(state_1);
    let state_2 = place(&out_1, bits[2]);

    let mut in_ctl_1 = vec![false; WIDTH_EXT];
    in_ctl_1[0] = ctl0_on_row1;

    let mut rows = vec![
        row(true, true, bits[0], state_0.to_vec(), vec![false; WIDTH_EXT], false),
        row(false, true, bits[1], state_1.to_vec(), in_ctl_1, false),
        // Last row of the chain exposes the accumulated leaf index on the witness bus.
        row(false, true, bits[2], state_2.to_vec(), vec![false; WIDTH_EXT], true),
    ];
    rows.resize(
        HEIGHT,
        row(true, false, false, Val::zero_vec(WIDTH), vec![false; WIDTH_EXT], false),
    );

    let preprocessed =
        extract_preprocessed_from_operations::<WIDTH_EXT, RATE_EXT, Val, Val>(&rows, D as u32, D);
    let (full, partial) = BabyBearD4Width16::round_constants();
    let air = Poseidon1CircuitAirBabyBearD4Width16::new_with_preprocessed(
        full.clone(),
        partial.clone(),
        preprocessed,
    );
    let trace = air.generate_trace_rows(&rows, &full, &partial, 0);
    (air, trace)
}

/// Column index of `mmcs_index_sum` (last column of the row).
fn acc_col(trace: &RowMajorMatrix<Val>) -> usize {
    trace.width() - 1
}

fn acc(trace: &RowMajorMatrix<Val>, r: usize) -> u32 {
    trace.values[r * trace.width() + acc_col(trace)].as_canonical_u32()
}

fn set_acc(trace: &mut RowMajorMatrix<Val>, r: usize, v: u32) {
    let w = trace.width();
    let c = acc_col(trace);
    trace.values[r * w + c] = Val::from_u32(v);
}

fn accepts(air: &Poseidon1CircuitAirBabyBearD4Width16, trace: &RowMajorMatrix<Val>) -> bool {
    check_air_satisfies::<Val, EF, _>(air, trace, &[]).is_ok()
}

/// Native leaf index: start at 0 on the chain-start row, then `idx = 2 * idx + bit` per level.
fn native_index(bits: [bool; 3]) -> u32 {
    bits[1..].iter().fold(0u32, |a, &b| 2 * a + b as u32)
}

/// The table must reject a Merkle chain whose exposed accumulator differs from the index
/// spelled by its direction bits. FAILS on the unmodified tree.
#[test]
fn merkle_accumulator_start_value_is_pinned() {
    let bits = [false, true, false];
    let native = native_index(bits); // 2
    let (air, honest) = build(bits, false);
    assert!(accepts(&air, &honest));
    assert_eq!(acc(&honest, 0), 0);
    assert_eq!(acc(&honest, 2), native);

    // Start the chain at s = 7 and follow the recurrence honestly from there.
    let s = 7u32;
    let mut forged = honest.clone();
    set_acc(&mut forged, 0, s);
    set_acc(&mut forged, 1, 2 * s + bits[1] as u32);
    set_acc(&mut forged, 2, 4 * s + 2 * (bits[1] as u32) + bits[2] as u32);
    assert_ne!(acc(&forged, 2), native);
    assert!(
        !accepts(&air, &forged),
        "table accepted a Merkle chain exposing leaf index {} although its direction bits spell {native}",
        acc(&forged, 2)
    );
}
