//! Side observation on the UNMODIFIED tree (goes in `recursion/tests/`).
//!
//! The opened rows of the input batch are BASE-field values natively (`BatchOpening<Val, _>`), but
//! in the circuit they are private inputs over the extension field, and nothing constrains them to
//! the base field. The Merkle leaf hash of `verify_batch_circuit` sees only coordinate 0 of each
//! of them (the recompose table's executor reads `as_basis_coefficients_slice()[0]`), while the
//! reduced opening of `open_input` (`horner_acc_step`) uses the whole extension element. A witness
//! can therefore keep the committed row in coordinate 0 (Merkle path verifies) and put anything in
//! coordinates 1..D, which moves the reduced opening of that query to ANY value.
//!
//! The test forges an opening: the commitment is to a matrix `M`, the claimed evaluations at
//! `zeta` are those of a different matrix `M'` (so the statement is false and no native proof
//! exists for it), the FRI part of the proof is the honest one for `M'`, and the input openings
//! are the rows of `M` (with `M`'s Merkle paths) plus a per-query correction living in
//! coordinates 1..3 only. The native verifier rejects; the property says the circuit built by
//! `verify_fri_circuit` (full MMCS verification enabled) must be unsatisfiable too.

use p3_baby_bear::default_babybear_poseidon2_16;
use p3_challenger::{CanObserve, CanSampleBits, FieldChallenger, GrindingChallenger};
use p3_circuit::CircuitBuilder;
use p3_circuit::ops::{generate_poseidon2_trace, generate_recompose_trace};
use p3_commit::{BatchOpening, Mmcs, Pcs};
use p3_field::BasedVectorSpace;
use p3_field::coset::TwoAdicMultiplicativeCoset;
use p3_fri::FriParameters;
use p3_matrix::dense::RowMajorMatrix;
use p3_poseidon2_circuit_air::BabyBearD4Width16;
use p3_recursion::pcs::convert_merkle_proof_to_siblings;
use p3_recursion::pcs::fri::{
    FriProofTargets, InputProofTargets, MerkleCapTargets, RecExtensionValMmcs, RecValMmcs,
    Witness as RecWitness, verify_fri_circuit,
};
use p3_recursion::{Poseidon2Config, Recursive};
use p3_test_utils::baby_bear_params::*;
use rand::SeedableRng;
use rand::rngs::SmallRng;

type RecVal = RecValMmcs<F, 8, MyHash, MyCompress>;
type RecExt = RecExtensionValMmcs<F, Challenge, 8, RecVal>;
type FriTargets =
    FriProofTargets<F, Challenge, RecExt, InputProofTargets<F, Challenge, RecVal>, RecWitness<F>>;
type MyProof = <MyPcs as Pcs<Challenge, Challenger>>::Proof;
type MyCommitment = <MyPcs as Pcs<Challenge, Challenger>>::Commitment;
type Domain = TwoAdicMultiplicativeCoset<F>;

const LOG_N: usize = 5;
const WIDTH_M: usize = 3;
const LOG_FINAL_POLY_LEN: usize = 1;

/// Solve `A x = b` over `F` (A is `rows x cols`, any solution; free variables are set to 0).
fn solve(mut a: Vec<Vec<F>>, mut b: Vec<F>) -> Vec<F> {
    let rows = a.len();
    let cols = a[0].len();
    let mut pivots = Vec::new();
    let mut r = 0;
    for c in 0..cols {
        if r == rows {
            break;
        }
        let Some(p) = (r..rows).find(|&i| a[i][c] != F::ZERO) else {
            continue;
        };
        a.swap(r, p);
        b.swap(r, p);
        let inv = a[r][c].inverse();
        for j in 0..cols {
            a[r][j] *= inv;
        }
        b[r] *= inv;
        for i in 0..rows {
            if i != r && a[i][c] != F::ZERO {
                let f = a[i][c];
                for j in 0..cols {
                    let t = a[r][j];
                    a[i][j] -= f * t;
                }
                let t = b[r];
                b[i] -= f * t;
            }
        }
        pivots.push(c);
        r += 1;
    }
    assert!(b[r..].iter().all(|&v| v == F::ZERO), "system is solvable");
    let mut x = vec![F::ZERO; cols];
    for (i, &c) in pivots.iter().enumerate() {
        x[c] = b[i];
    }
    x
}

fn coords(e: Challenge) -> Vec<F> {
    <Challenge as BasedVectorSpace<F>>::as_basis_coefficients_slice(&e).to_vec()
}

fn from_coords(c: &[F]) -> Challenge {
    <Challenge as BasedVectorSpace<F>>::from_basis_coefficients_slice(c).unwrap()
}

/// Corrections `e_0, e_1` with ZERO base coordinate such that `e_0 + alpha * e_1 = target`.
fn nonbase_corrections(alpha: Challenge, target: Challenge) -> [Challenge; 2] {
    // unknowns: coordinates 1..4 of e_0, then coordinates 1..4 of e_1
    let mut columns: Vec<Vec<F>> = Vec::new();
    for k in 1..4 {
        let mut unit = vec![F::ZERO; 4];
        unit[k] = F::ONE;
        columns.push(coords(from_coords(&unit)));
    }
    for k in 1..4 {
        let mut unit = vec![F::ZERO; 4];
        unit[k] = F::ONE;
        columns.push(coords(alpha * from_coords(&unit)));
    }
    let a: Vec<Vec<F>> = (0..4)
        .map(|row| columns.iter().map(|col| col[row]).collect())
        .collect();
    let x = solve(a, coords(target));
    let e0 = from_coords(&[F::ZERO, x[0], x[1], x[2]]);
    let e1 = from_coords(&[F::ZERO, x[3], x[4], x[5]]);
    assert_eq!(e0 + alpha * e1, target);
    [e0, e1]
}

struct Transcript {
    alpha: Challenge,
    betas: Vec<Challenge>,
    indices: Vec<usize>,
    log_max_height: usize,
}

/// Replay of the verifier transcript for statement (`commitment`, `zeta`, `claims`) and `proof`.
fn replay(
    perm: &Perm,
    commitment: &MyCommitment,
    claims: &[Challenge],
    proof: &MyProof,
    log_blowup: usize,
    pow_bits: (usize, usize),
) -> Transcript {
    let mut ch = Challenger::new(perm.clone());
    ch.observe(commitment.clone());
    let _zeta: Challenge = ch.sample_algebra_element();
    for &v in claims {
        ch.observe_algebra_element(v);
    }
    let alpha: Challenge = ch.sample_algebra_element();
    let mut betas = Vec::new();
    for (c, w) in proof
        .commit_phase_commits
        .iter()
        .zip(&proof.commit_pow_witnesses)
    {
        ch.observe(c.clone());
        assert!(ch.check_witness(pow_bits.0, *w));
        betas.push(ch.sample_algebra_element());
    }
    for &c in &proof.final_poly {
        ch.observe_algebra_element(c);
    }
    for step in &proof.query_proofs[0].commit_phase_openings {
        ch.observe(F::from_usize(step.log_arity as usize));
    }
    assert!(ch.check_witness(pow_bits.1, proof.query_pow_witness));
    let log_max_height = proof.commit_phase_commits.len() + log_blowup + LOG_FINAL_POLY_LEN;
    let indices = proof
        .query_proofs
        .iter()
        .map(|_| ch.sample_bits(log_max_height))
        .collect();
    Transcript {
        alpha,
        betas,
        indices,
        log_max_height,
    }
}

/// Build the circuit of `verify_fri_circuit` WITH MMCS verification for the statement
/// (`commitment`, `zeta`, `claims`) and run it with the given private inputs; the Merkle siblings
/// are taken from `proof`.
fn circuit_accepts(
    perm: &Perm,
    commitment: &MyCommitment,
    domain: Domain,
    zeta: Challenge,
    claims: &[Challenge],
    proof: &MyProof,
    private_inputs: &[Challenge],
    log_blowup: usize,
    tr: &Transcript,
) -> bool {
    let mut builder = CircuitBuilder::<Challenge>::new();
    builder.enable_poseidon2_perm::<BabyBearD4Width16, _>(
        generate_poseidon2_trace::<Challenge, BabyBearD4Width16>,
        perm.clone(),
    );
    builder.enable_recompose::<F>(generate_recompose_trace::<F, Challenge>);

    let fri_targets = FriTargets::new(&mut builder, proof);
    let alpha_t = builder.public_input();
    let betas_t: Vec<_> = tr.betas.iter().map(|_| builder.public_input()).collect();
    let index_bits_t: Vec<Vec<_>> = tr
        .indices
        .iter()
        .map(|_| {
            (0..tr.log_max_height)
                .map(|_| builder.public_input())
                .collect()
        })
        .collect();
    let commit_t =
        <MerkleCapTargets<F, DIGEST_ELEMS> as Recursive<Challenge>>::new(&mut builder, commitment);
    let z_t = builder.public_input();
    let claims_t: Vec<_> = claims.iter().map(|_| builder.public_input()).collect();
    let coms_t = vec![(commit_t, vec![(domain, vec![(z_t, claims_t)])])];

    let mmcs_op_ids = verify_fri_circuit::<
        F,
        Challenge,
        RecExt,
        RecVal,
        RecWitness<F>,
        MerkleCapTargets<F, DIGEST_ELEMS>,
    >(
        &mut builder,
        &fri_targets,
        alpha_t,
        &betas_t,
        &index_bits_t,
        &coms_t,
        log_blowup,
        Some(Poseidon2Config::BABY_BEAR_D4_W16.into()),
    )
    .expect("shape validation passes");
    let circuit = builder.build().expect("circuit builds");

    let mut public_inputs: Vec<Challenge> = FriTargets::get_values(proof);
    public_inputs.push(tr.alpha);
    public_inputs.extend(&tr.betas);
    for &index in &tr.indices {
        public_inputs
            .extend((0..tr.log_max_height).map(|k| Challenge::from_bool((index >> k) & 1 == 1)));
    }
    for entry in commitment.roots() {
        public_inputs.extend(entry.iter().map(|&c| Challenge::from(c)));
    }
    public_inputs.push(zeta);
    public_inputs.extend(claims);

    let mut runner = circuit.runner();
    runner.set_public_inputs(&public_inputs).unwrap();
    runner.set_private_inputs(private_inputs).unwrap();

    let mut op_idx = 0;
    for query_proof in &proof.query_proofs {
        for batch_opening in &query_proof.input_proof {
            for sibling in convert_merkle_proof_to_siblings::<F, Challenge, DIGEST_ELEMS>(
                &batch_opening.opening_proof,
            ) {
                runner
                    .set_private_data(
                        mmcs_op_ids[op_idx],
                        p3_circuit::NpoPrivateData::new(
                            p3_circuit::ops::Poseidon2PermPrivateData { sibling },
                        ),
                    )
                    .unwrap();
                op_idx += 1;
            }
        }
        for (phase_idx, phase_opening) in query_proof.commit_phase_openings.iter().enumerate() {
            let log_folded_height = tr.log_max_height - (phase_idx + 1);
            let prefix: Vec<[F; DIGEST_ELEMS]> = phase_opening
                .opening_proof
                .iter()
                .take(log_folded_height)
                .copied()
                .collect();
            for sibling in convert_merkle_proof_to_siblings::<F, Challenge, DIGEST_ELEMS>(&prefix) {
                runner
                    .set_private_data(
                        mmcs_op_ids[op_idx],
                        p3_circuit::NpoPrivateData::new(
                            p3_circuit::ops::Poseidon2PermPrivateData { sibling },
                        ),
                    )
                    .unwrap();
                op_idx += 1;
            }
        }
    }
    assert_eq!(op_idx, mmcs_op_ids.len());

    runner.run().is_ok()
}

#[test]
fn side_c07_false_opening_accepted_with_non_base_opened_values() {
    let perm = default_babybear_poseidon2_16();
    let hash = MyHash::new(perm.clone());
    let compress = MyCompress::new(perm.clone());
    let val_mmcs = MyMmcs::new(hash, compress, 0);
    let challenge_mmcs = ChallengeMmcs::new(val_mmcs.clone());
    let fri_params = FriParameters::new_testing(challenge_mmcs, LOG_FINAL_POLY_LEN);
    let log_blowup = fri_params.log_blowup;
    let pow_bits = (
        fri_params.commit_proof_of_work_bits,
        fri_params.query_proof_of_work_bits,
    );
    let pcs = MyPcs::new(Dft::default(), val_mmcs.clone(), fri_params);

    // The committed matrix M and the matrix M' whose evaluations are (falsely) claimed for it.
    let mut rng = SmallRng::seed_from_u64(7);
    let domain = Domain::new(F::GENERATOR, LOG_N).unwrap();
    let m = RowMajorMatrix::<F>::rand_nonzero(&mut rng, 1 << LOG_N, WIDTH_M);
    let m_prime = RowMajorMatrix::<F>::rand_nonzero(&mut rng, 1 << LOG_N, WIDTH_M);
    let (com_m, data_m) = <MyPcs as Pcs<Challenge, Challenger>>::commit(&pcs, vec![(domain, m)]);
    let (_com_mp, data_mp) =
        <MyPcs as Pcs<Challenge, Challenger>>::commit(&pcs, vec![(domain, m_prime)]);

    // Statement: commitment to M, opening point zeta.
    let mut ch = Challenger::new(perm.clone());
    ch.observe(com_m.clone());
    let zeta: Challenge = ch.sample_algebra_element();

    // True evaluations of M at zeta (only to show that the claim below is false).
    let true_values = {
        let mut ch = ch.clone();
        let (opened, _) = <MyPcs as Pcs<Challenge, Challenger>>::open(
            &pcs,
            vec![(&data_m, vec![vec![zeta]])],
            &mut ch,
        );
        opened[0][0][0].clone()
    };

    // The cheating prover runs the honest FRI prover on M' in the transcript of the statement.
    let (opened, proof_mp): (_, MyProof) = <MyPcs as Pcs<Challenge, Challenger>>::open(
        &pcs,
        vec![(&data_mp, vec![vec![zeta]])],
        &mut ch,
    );
    let claims: Vec<Challenge> = opened[0][0][0].clone();
    assert_ne!(claims, true_values, "the claimed evaluations are false");

    let tr = replay(&perm, &com_m, &claims, &proof_mp, log_blowup, pow_bits);

    // Input openings: the committed rows of M with M's Merkle paths.
    let mut proof_forged = proof_mp.clone();
    for (query, &index) in proof_forged.query_proofs.iter_mut().zip(&tr.indices) {
        let BatchOpening {
            opened_values,
            opening_proof,
        } = val_mmcs.open_batch(index, &data_m);
        query.input_proof[0].opened_values = opened_values;
        query.input_proof[0].opening_proof = opening_proof;
    }

    // ---- native outcome: rejected, with M' openings or with M openings ----
    let statement = || {
        vec![(
            com_m.clone(),
            vec![(domain, vec![(zeta, claims.clone())])],
        )]
    };
    let native_ch = || {
        let mut ch = Challenger::new(perm.clone());
        ch.observe(com_m.clone());
        let _zeta: Challenge = ch.sample_algebra_element();
        ch
    };
    for candidate in [&proof_mp, &proof_forged] {
        let res = <MyPcs as Pcs<Challenge, Challenger>>::verify(
            &pcs,
            statement(),
            candidate,
            &mut native_ch(),
        );
        assert!(res.is_err(), "native verifier rejects the false opening");
    }

    // ---- circuit witness ----
    let base_private = <FriTargets as Recursive<Challenge>>::get_private_values(&proof_forged);
    let num_queries = proof_forged.query_proofs.len();
    assert_eq!(base_private.len() % num_queries, 0);
    let per_query = base_private.len() / num_queries;

    // Control: with base-field opened values (the rows of M as they are) the circuit rejects.
    assert!(
        !circuit_accepts(
            &perm,
            &com_m,
            domain,
            zeta,
            &claims,
            &proof_forged,
            &base_private,
            log_blowup,
            &tr
        ),
        "control: base-field witness for the false opening is rejected"
    );

    // Forgery: per query, add corrections with zero base coordinate to the first two opened
    // values so that sum_i alpha^i * opened_i equals the value it has for the row of M'.
    let mut forged_private = base_private.clone();
    for (q, query_mp) in proof_mp.query_proofs.iter().enumerate() {
        let row_mp = &query_mp.input_proof[0].opened_values[0];
        let row_m = &proof_forged.query_proofs[q].input_proof[0].opened_values[0];
        let mut target = Challenge::ZERO;
        let mut alpha_pow = Challenge::ONE;
        for i in 0..WIDTH_M {
            // the opened values come first in each query's private-input block
            assert_eq!(forged_private[q * per_query + i], Challenge::from(row_m[i]));
            target += alpha_pow * Challenge::from(row_mp[i] - row_m[i]);
            alpha_pow *= tr.alpha;
        }
        let [e0, e1] = nonbase_corrections(tr.alpha, target);
        forged_private[q * per_query] += e0;
        forged_private[q * per_query + 1] += e1;
        // coordinate 0 (what the Merkle leaf hash sees) is unchanged
        assert_eq!(coords(forged_private[q * per_query])[0], row_m[0]);
        assert_eq!(coords(forged_private[q * per_query + 1])[0], row_m[1]);
    }

    let accepted = circuit_accepts(
        &perm,
        &com_m,
        domain,
        zeta,
        &claims,
        &proof_forged,
        &forged_private,
        log_blowup,
        &tr,
    );
    assert!(
        !accepted,
        "the statement is false and the native verifier rejects, but the circuit of \
         verify_fri_circuit (MMCS enabled) is satisfied by a witness whose opened values are not \
         base-field elements"
    );
}
