use p3_baby_bear::BabyBear;
use p3_circuit::ops::{AluOpKind, Op};
use p3_circuit::CircuitBuilder;
use p3_field::{PrimeCharacteristicRing, PrimeField32};

type F = BabyBear;

fn relation_holds(op: &Op<F>, w: &[F], pubs: &[F]) -> bool {
    match op {
        Op::Const { out, val } => w[out.0 as usize] == *val,
        Op::Public { out, public_pos } => w[out.0 as usize] == pubs[*public_pos],
        Op::Alu { kind, a, b, c, out, intermediate_out } => {
            let g = |i: &p3_circuit::WitnessId| w[i.0 as usize];
            let cv = c.as_ref().map(g).unwrap_or(F::ZERO);
            match kind {
                AluOpKind::Add => g(a) + g(b) == g(out),
                AluOpKind::Mul => g(a) * g(b) == g(out),
                AluOpKind::BoolCheck => g(a) * (g(a) - F::ONE) == F::ZERO && g(out) == g(a),
                AluOpKind::MulAdd => g(a) * g(b) + cv == g(out),
                AluOpKind::HornerAcc => g(intermediate_out.as_ref().unwrap()) * g(b) + cv - g(a) == g(out),
            }
        }
        _ => true, // hints carry no relation
    }
}

/// The emitted op list of `decompose_to_bits(x, 31)` over BabyBear admits a second, NON-canonical witness:
/// the 31 bits of x + P (for x < 2^31 - P).  Only the canonical one should be admissible (C12).
#[test]
fn decompose_to_bits_31_admits_a_non_canonical_witness() {
    let mut b = CircuitBuilder::<F>::new();
    let x = b.public_input();
    let bits = b.decompose_to_bits::<F>(x, 31).unwrap();
    let circuit = b.build().unwrap();

    let xv: u32 = 5;
    let pubs = [F::from_u32(xv)];
    let mut runner = circuit.runner();
    runner.set_public_inputs(&pubs).unwrap();
    let traces = runner.run().unwrap();
    let mut w: Vec<F> = (0..circuit.witness_count).map(|i| *traces.witness_trace.get_value(p3_circuit::WitnessId(i)).unwrap()).collect();
    assert!(circuit.ops.iter().all(|op| relation_holds(op, &w, &pubs)), "honest witness must satisfy every emitted op");

    // adversarial witness: bits of x + P instead of bits of x; recompute the running sums op by op
    let alt = xv as u64 + F::ORDER_U32 as u64;
    assert!(alt < (1u64 << 31));
    for (i, e) in bits.iter().enumerate() {
        let wid = circuit.expr_to_widx[e];
        w[wid.0 as usize] = F::from_u32(((alt >> i) & 1) as u32);
    }
    for op in &circuit.ops {
        if let Op::Alu { kind: AluOpKind::MulAdd, a, b, c, out, .. } = op {
            let cv = c.map(|c| w[c.0 as usize]).unwrap_or(F::ZERO);
            w[out.0 as usize] = w[a.0 as usize] * w[b.0 as usize] + cv;
        }
    }
    let canonical: Vec<u32> = (0..31).map(|i| (xv >> i) & 1).collect();
    let used: Vec<u32> = bits.iter().map(|e| w[circuit.expr_to_widx[e].0 as usize].as_canonical_u32()).collect();
    assert_ne!(canonical, used);
    let all_ok = circuit.ops.iter().all(|op| relation_holds(op, &w, &pubs));
    assert!(!all_ok, "a non-canonical bit decomposition {used:?} of x={xv} satisfies every emitted op");
}
