//! Side observation on the UNMODIFIED tree (C12): a coefficient of a coeff-lookup decomposition
//! that shares its slot with a Const/Public creator is not tied to the recompose/coeff row.
//!
//! `decompose_ext_to_base_coeffs(x)` with `set_recompose_coeff_ctl_for_decompose_links(true)`
//! hands out hinted coefficients c_0..c_3 and emits one `recompose/coeff` row whose packed
//! output is connected to x. The per-coefficient receive of that row is what ties c_i to the
//! i-th coefficient of x. Its multiplicity is only non-zero for a coefficient slot listed in
//! `hint_output_wids`, and that set drops every slot that a Const/Public op also writes. So
//! after `assert_zero(c_1)` (c_1 now aliases the zero constant) nothing links c_1 to x any more:
//! the statement "the e_1 coefficient of x is zero" is accepted for an x where it is not.
//!
//! Goes in circuit-prover/tests/.

use p3_baby_bear::BabyBear;
use p3_batch_stark::ProverData;
use p3_circuit::ops::recompose::{RecomposeCircuitRow, RecomposeTrace, RecomposeTraceKind};
use p3_circuit::ops::generate_recompose_trace;
use p3_circuit::{CircuitBuilder, NpoTypeId};
use p3_circuit_prover::batch_stark_prover::recompose_air_builders;
use p3_circuit_prover::common::{NpoPreprocessor, get_airs_and_degrees_with_prep};
use p3_circuit_prover::config::{self, BabyBearConfig};
use p3_circuit_prover::{
    BatchStarkProver, CircuitProverData, ConstraintProfile, RecomposePreprocessor, TablePacking,
};
use p3_field::extension::BinomialExtensionField;
use p3_field::{BasedVectorSpace, PrimeCharacteristicRing};

type F = BabyBear;
type EF = BinomialExtensionField<F, 4>;

fn ef(c: [u64; 4]) -> EF {
    EF::from_basis_coefficients_slice(&c.map(F::from_u64)).unwrap()
}

/// Proves the circuit "x is public, coefficient 1 of x is zero" for the honest value and then
/// re-proves it with the public value and the recompose row replaced by `forged`.
fn run(forged: Option<[u64; 4]>) -> Result<(), String> {
    let mut builder = CircuitBuilder::<EF>::new();
    builder.enable_recompose::<F>(generate_recompose_trace::<F, EF>);
    builder.set_recompose_coeff_ctl_for_decompose_links(true);

    let x = builder.public_input();
    let coeffs = builder.decompose_ext_to_base_coeffs::<F>(x).unwrap();
    // "x has no e_1 component".
    builder.assert_zero(coeffs[1]);
    let circuit = builder.build().unwrap();

    let cfg = config::baby_bear();
    let packing = TablePacking::default();
    let npo_prep: Vec<Box<dyn NpoPreprocessor<F>>> =
        vec![Box::new(RecomposePreprocessor::new(true))];
    let air_builders = recompose_air_builders::<BabyBearConfig, 4>(1, true);
    let (airs_degrees, primitive_columns, non_primitive_columns) =
        get_airs_and_degrees_with_prep::<BabyBearConfig, _, 4>(
            &circuit,
            &packing,
            &npo_prep,
            &air_builders,
            ConstraintProfile::Standard,
        )
        .map_err(|e| format!("keys: {e:?}"))?;
    let (airs, degrees): (Vec<_>, Vec<usize>) = airs_degrees.into_iter().unzip();
    let prover_data = ProverData::from_airs_and_degrees(&cfg, &airs, &degrees);
    let circuit_prover_data =
        CircuitProverData::new(prover_data, primitive_columns, non_primitive_columns);

    // Honest witness: x = 5 + 0*e_1 + 7*e_2 + 9*e_3.
    let mut runner = circuit.runner();
    runner.set_public_inputs(&[ef([5, 0, 7, 9])]).unwrap();
    let mut traces = runner.run().map_err(|e| format!("run: {e:?}"))?;

    if let Some(forged) = forged {
        // The prover does not have to use the runner: it only has to hand in tables.
        let op_type = NpoTypeId::recompose_with_coeff_lookups();
        let honest = traces
            .non_primitive_trace::<RecomposeTrace<F>>(&op_type)
            .expect("one recompose/coeff row");
        assert_eq!(honest.operations.len(), 1);
        let row = &honest.operations[0];
        let forged_trace = RecomposeTrace {
            operations: vec![RecomposeCircuitRow {
                input_wids: row.input_wids.clone(),
                output_wid: row.output_wid,
                values: forged.map(F::from_u64).to_vec(),
            }],
            kind: RecomposeTraceKind::WithCoeffLookups,
        };
        traces
            .non_primitive_traces
            .insert(op_type, Box::new(forged_trace));
        assert_eq!(traces.public_trace.values.len(), 1);
        traces.public_trace.values[0] = ef(forged);
    }

    let mut prover = BatchStarkProver::new(cfg).with_table_packing(packing);
    prover.register_recompose_table::<4>(true);
    let outcome = std::panic::catch_unwind(std::panic::AssertUnwindSafe(|| {
        let proof = prover
            .prove_all_tables(&traces, &circuit_prover_data)
            .map_err(|e| format!("prove: {e:?}"))?;
        prover
            .verify_all_tables::<EF>(&proof)
            .map_err(|e| format!("verify: {e:?}"))
    }));
    match outcome {
        Ok(r) => r,
        Err(_) => Err("prover panicked on a violated constraint".to_string()),
    }
}

#[test]
fn honest_statement_is_accepted() {
    run(None).expect("x = (5,0,7,9) has no e_1 component");
}

#[test]
fn pinned_coefficient_is_tied_to_the_decomposed_value() {
    // x = (5,6,7,9) has e_1 coefficient 6, the circuit asserts it is 0.
    let res = run(Some([5, 6, 7, 9]));
    assert!(
        res.is_err(),
        "accepted: public x = 5 + 6 e_1 + 7 e_2 + 9 e_3 under a circuit asserting coeff_1(x) = 0"
    );
}

/// Same hole with Public creators: a circuit that publishes the base coefficients of a public
/// extension value (`connect(c_i, p_i)`) accepts any p_i.
#[test]
fn published_coefficients_are_tied_to_the_decomposed_value() {
    let mut builder = CircuitBuilder::<EF>::new();
    builder.enable_recompose::<F>(generate_recompose_trace::<F, EF>);
    builder.set_recompose_coeff_ctl_for_decompose_links(true);
    let x = builder.public_input();
    let published = builder.alloc_public_inputs(4, "published coefficients");
    let coeffs = builder.decompose_ext_to_base_coeffs::<F>(x).unwrap();
    for (c, p) in coeffs.iter().zip(&published) {
        builder.connect(*c, *p);
    }
    let circuit = builder.build().unwrap();

    let cfg = config::baby_bear();
    let packing = TablePacking::default();
    let npo_prep: Vec<Box<dyn NpoPreprocessor<F>>> =
        vec![Box::new(RecomposePreprocessor::new(true))];
    let air_builders = recompose_air_builders::<BabyBearConfig, 4>(1, true);
    let (airs_degrees, primitive_columns, non_primitive_columns) =
        get_airs_and_degrees_with_prep::<BabyBearConfig, _, 4>(
            &circuit,
            &packing,
            &npo_prep,
            &air_builders,
            ConstraintProfile::Standard,
        )
        .unwrap();
    let (airs, degrees): (Vec<_>, Vec<usize>) = airs_degrees.into_iter().unzip();
    let prover_data = ProverData::from_airs_and_degrees(&cfg, &airs, &degrees);
    let circuit_prover_data =
        CircuitProverData::new(prover_data, primitive_columns, non_primitive_columns);

    let lift = |v: u64| EF::from(F::from_u64(v));
    let mut runner = circuit.runner();
    runner
        .set_public_inputs(&[ef([5, 6, 7, 9]), lift(5), lift(6), lift(7), lift(9)])
        .unwrap();
    let mut traces = runner.run().unwrap();

    // Forge the published coefficients only: x and the recompose row stay as they are.
    assert_eq!(traces.public_trace.values.len(), 5);
    assert_eq!(traces.public_trace.values[0], ef([5, 6, 7, 9]));
    for (slot, v) in traces.public_trace.values[1..].iter_mut().zip([1u64, 2, 3, 4]) {
        *slot = lift(v);
    }

    let mut prover = BatchStarkProver::new(cfg).with_table_packing(packing);
    prover.register_recompose_table::<4>(true);
    let outcome = std::panic::catch_unwind(std::panic::AssertUnwindSafe(|| {
        let proof = prover
            .prove_all_tables(&traces, &circuit_prover_data)
            .map_err(|e| format!("prove: {e:?}"))?;
        prover
            .verify_all_tables::<EF>(&proof)
            .map_err(|e| format!("verify: {e:?}"))
    }));
    let accepted = matches!(outcome, Ok(Ok(())));
    assert!(
        !accepted,
        "accepted: x = (5,6,7,9) published with coefficients (1,2,3,4)"
    );
}
