//! Is the packed extension value of the `recompose` NPO table bound to its D coefficient slots?
//!
//! Statements under test (BabyBear, EF = BinomialExtensionField<BabyBear, 4>):
//!   D ("decompose"): publics (x, c0).  `coeffs = decompose_ext_to_base_coeffs(x)`, `coeffs[0]` linked to `c0`
//!                    => "c0 is the 0-th base coefficient of x".
//!   R ("recompose"): publics (c0, c1, c2, c3, y). `out = recompose_base_coeffs_to_ext([c0..c3])`, `out` linked
//!                    to `y` => "y = pack(c0, c1, c2, c3)".
//! "linked" is either `connect(a, b)` (the two targets share ONE witness slot) or
//! `assert_zero(sub(a, b))` (two slots, one ALU row).
//!
//! Lowerings:
//!   Narrow : `enable_recompose`, table `recompose`         (one bus tuple per row: (out_idx, v_0..v_3))
//!   Wide   : `enable_recompose`, table `recompose/coeff`   (+ D tuples (coeff_i_idx, v_i, 0, 0, 0))
//!   Alu    : no `enable_recompose`: `acc = c_i * e_i + acc` MulAdd chain
//!
//! Everything the verifier depends on (circuit, preprocessed columns, AIRs, prover data, verifier) is
//! built from the HONEST circuit by the real code.  Only witness / trace generation is tampered with:
//! a forged witness vector is chosen, the Public / ALU value columns are re-read from it, and the
//! recompose table rows (main columns v_0..v_3) are chosen freely.
//!
//! Tests (each prints `[SUMMARY]` lines):
//!   narrow_decompose_coefficient_is_unbound / narrow_recompose_output_is_unbound : hypothesis (b) / (a)
//!   wide_decompose / wide_recompose            : same forgeries against the `recompose/coeff` table
//!   alu_decompose / alu_recompose              : same forgeries against the MulAdd chain (controls: rejected)
//!   alu_decompose_moving_mass / alu_recompose_moving_mass : non-base "coefficients" with sum_i c_i e_i = x
//!   decompose_coefficient_with_alu_reader      : coefficient used by two ALU rows (narrow: still forged;
//!                                                wide: even the HONEST proof is rejected, double creator)
//!
//! Debug builds of p3-batch-stark re-check every constraint and the global bus inside `prove_batch`
//! and panic on the first unbalanced bus tuple; that panic message is captured and printed because it
//! names the exact tuple that rejects a forgery.  Run with debug assertions off to see the verifier's
//! own verdict for the rejected ones.

use std::panic::{AssertUnwindSafe, catch_unwind};

use p3_baby_bear::BabyBear;
use p3_batch_stark::ProverData;
use p3_circuit::ops::{
    HintExecutor, NpoTypeId, Op, RecomposeTrace, generate_recompose_trace,
};
use p3_circuit::tables::WitnessTrace;
use p3_circuit::{Circuit, CircuitBuilder, CircuitError, ExprId, Traces, WitnessId};
use p3_circuit_prover::batch_stark_prover::recompose_air_builders;
use p3_circuit_prover::common::{NpoAirBuilder, NpoPreprocessor, get_airs_and_degrees_with_prep};
use p3_circuit_prover::config::{self, BabyBearConfig};
use p3_circuit_prover::{
    BatchStarkProver, CircuitProverData, ConstraintProfile, RecomposePreprocessor, TablePacking,
};
use p3_field::extension::BinomialExtensionField;
use p3_field::{BasedVectorSpace, PrimeCharacteristicRing, PrimeField32};

type F = BabyBear;
type EF = BinomialExtensionField<F, 4>;

#[derive(Debug, Clone, Copy, PartialEq, Eq)]
enum Mode {
    Narrow,
    Wide,
    Alu,
}

#[derive(Debug, Clone, Copy, PartialEq, Eq)]
enum Link {
    /// `connect(a, b)`: both targets become the same witness slot.
    Connect,
    /// `assert_zero(sub(a, b))`.
    AssertEq,
}

#[derive(Debug, Clone, PartialEq)]
enum Outcome {
    Accepted,
    /// debug-assertion self check inside `prove_batch` (constraint or bus) panicked
    ProverSelfCheck(String),
    ProveErr(String),
    VerifyErr(String),
}

impl Outcome {
    fn accepted(&self) -> bool {
        *self == Self::Accepted
    }
}

fn ef(c: [u32; 4]) -> EF {
    EF::from_basis_coefficients_slice(&c.map(F::from_u32)).unwrap()
}
fn base(c: u32) -> EF {
    EF::from(F::from_u32(c))
}
fn show(v: &EF) -> String {
    let c: &[F] = v.as_basis_coefficients_slice();
    format!("{:?}", c.iter().map(|x| x.as_canonical_u32()).collect::<Vec<_>>())
}
fn coeffs_of(v: &EF) -> [F; 4] {
    let c: &[F] = v.as_basis_coefficients_slice();
    [c[0], c[1], c[2], c[3]]
}

fn new_builder(mode: Mode) -> CircuitBuilder<EF> {
    let mut b = CircuitBuilder::<EF>::new();
    if mode != Mode::Alu {
        b.enable_recompose::<F>(generate_recompose_trace::<F, EF>);
    }
    if mode == Mode::Wide {
        b.set_recompose_coeff_ctl_for_decompose_links(true);
    }
    b
}

fn link(b: &mut CircuitBuilder<EF>, l: Link, a: ExprId, pubv: ExprId) {
    match l {
        Link::Connect => b.connect(a, pubv),
        Link::AssertEq => {
            let d = b.sub(a, pubv);
            b.assert_zero(d);
        }
    }
}

struct DecCircuit {
    circuit: Circuit<EF>,
    x: WitnessId,
    c0_pub: WitnessId,
    coeffs: Vec<WitnessId>,
}

/// publics: [x, c0]
fn build_decompose(mode: Mode, l: Link) -> DecCircuit {
    let mut b = new_builder(mode);
    let x = b.public_input();
    let c0 = b.public_input();
    let coeffs = b.decompose_ext_to_base_coeffs::<F>(x).unwrap();
    link(&mut b, l, coeffs[0], c0);
    let circuit = b.build().unwrap();
    let w = |e: &ExprId| circuit.expr_to_widx[e];
    DecCircuit {
        x: w(&x),
        c0_pub: w(&c0),
        coeffs: coeffs.iter().map(w).collect(),
        circuit,
    }
}

struct RecCircuit {
    circuit: Circuit<EF>,
    cs: Vec<WitnessId>,
    y: WitnessId,
    out: WitnessId,
}

/// publics: [c0, c1, c2, c3, y]
fn build_recompose(mode: Mode, l: Link) -> RecCircuit {
    let mut b = new_builder(mode);
    let cs: Vec<ExprId> = (0..4).map(|_| b.public_input()).collect();
    let y = b.public_input();
    let out = match mode {
        Mode::Wide => b
            .recompose_base_coeffs_to_ext_with_coeff_lookups::<F>(&cs)
            .unwrap(),
        _ => b.recompose_base_coeffs_to_ext::<F>(&cs).unwrap(),
    };
    link(&mut b, l, out, y);
    let circuit = b.build().unwrap();
    let w = |e: &ExprId| circuit.expr_to_widx[e];
    RecCircuit {
        cs: cs.iter().map(w).collect(),
        y: w(&y),
        out: w(&out),
        circuit,
    }
}

fn recompose_ty(mode: Mode) -> NpoTypeId {
    match mode {
        Mode::Wide => NpoTypeId::recompose_with_coeff_lookups(),
        _ => NpoTypeId::recompose(),
    }
}

fn run(c: &Circuit<EF>, publics: &[EF]) -> Result<Traces<EF>, CircuitError> {
    let mut r = c.runner();
    r.set_public_inputs(publics)?;
    r.run()
}

fn witness_of(c: &Circuit<EF>, t: &Traces<EF>) -> Vec<EF> {
    (0..c.witness_count)
        .map(|i| {
            t.witness_trace
                .get_value(WitnessId(i))
                .copied()
                .unwrap_or(EF::ZERO)
        })
        .collect()
}

/// Re-read the VALUE columns of the Public and ALU tables from the forged witness vector `w`:
/// every cell that mirrored witness slot `i` in the honest trace now holds `w[i]`.
/// Indices, op kinds, the Const table and every preprocessed column are untouched.
fn retrace(honest: &Traces<EF>, hw: &[EF], w: &[EF]) -> Traces<EF> {
    let mut t = honest.clone();
    t.witness_trace = WitnessTrace::new(w.to_vec());
    for (v, i) in t.public_trace.values.iter_mut().zip(&honest.public_trace.index) {
        assert_eq!(*v, hw[i.0 as usize]);
        *v = w[i.0 as usize];
    }
    for (vals, idx) in t.alu_trace.values.iter_mut().zip(&honest.alu_trace.indices) {
        for k in 0..4 {
            let i = idx[k].0 as usize;
            if vals[k] == hw[i] {
                vals[k] = w[i];
            }
        }
    }
    t
}

/// ALU mode only: re-evaluate every MulAdd row forward from the forged witness so that each row
/// satisfies its local constraint a*b + c = out.  Slots in `frozen` (public inputs) keep their value in
/// every OTHER cell that mirrors them; only the producing row's `out` cell carries the recomputed value.
fn alu_forward(t: &mut Traces<EF>, w: &[EF], frozen: &[WitnessId]) {
    use p3_circuit::AluOpKind;
    let mut w = w.to_vec();
    let n = t.alu_trace.values.len();
    for r in 0..n {
        let idx = t.alu_trace.indices[r];
        let kind = t.alu_trace.op_kind[r];
        let g = |i: WitnessId, w: &[EF]| w[i.0 as usize];
        match kind {
            AluOpKind::MulAdd => {
                let (a, b, c) = (g(idx[0], &w), g(idx[1], &w), g(idx[2], &w));
                let out = a * b + c;
                if !frozen.contains(&idx[3]) {
                    w[idx[3].0 as usize] = out;
                }
                t.alu_trace.values[r] = [a, b, c, out];
            }
            AluOpKind::Add => {
                let v = &mut t.alu_trace.values[r];
                v[0] = g(idx[0], &w);
                v[1] = g(idx[1], &w);
                v[3] = g(idx[3], &w);
            }
            _ => {}
        }
    }
}

/// Overwrite the main columns v_0..v_3 of the recompose table rows (ids untouched).
fn set_recompose_rows(t: &mut Traces<EF>, ty: &NpoTypeId, rows: &[[F; 4]]) {
    let mut tr = t
        .non_primitive_trace::<RecomposeTrace<F>>(ty)
        .expect("recompose trace present")
        .clone();
    assert_eq!(tr.operations.len(), rows.len());
    for (op, r) in tr.operations.iter_mut().zip(rows) {
        op.values = r.to_vec();
    }
    t.non_primitive_traces.insert(ty.clone(), Box::new(tr));
}

fn recompose_rows(t: &Traces<EF>, ty: &NpoTypeId) -> Vec<Vec<u32>> {
    t.non_primitive_trace::<RecomposeTrace<F>>(ty)
        .map(|tr| {
            tr.operations
                .iter()
                .map(|o| o.values.iter().map(|v| v.as_canonical_u32()).collect())
                .collect()
        })
        .unwrap_or_default()
}

/// Real prover + real verifier; prover data / verifier key derived from the HONEST circuit.
fn prove_and_verify(honest: &Circuit<EF>, traces: &Traces<EF>, mode: Mode) -> Outcome {
    // the captured panic message is printed by `report`; keep the default hook from dumping a backtrace
    static QUIET: std::sync::Once = std::sync::Once::new();
    QUIET.call_once(|| {
        let default = std::panic::take_hook();
        std::panic::set_hook(Box::new(move |info| {
            let in_prover = info
                .location()
                .is_some_and(|l| l.file().contains("p3-lookup") || l.file().contains("p3-batch-stark"));
            if !in_prover {
                default(info);
            }
        }));
    });
    let r = catch_unwind(AssertUnwindSafe(|| {
        let stark_config = config::baby_bear();
        let table_packing = TablePacking::new(1, 1);
        let split = mode == Mode::Wide;
        let npo_prep: Vec<Box<dyn NpoPreprocessor<F>>> = match mode {
            Mode::Alu => vec![],
            _ => vec![Box::new(RecomposePreprocessor::new(split))],
        };
        let air_builders: Vec<Box<dyn NpoAirBuilder<BabyBearConfig, 4>>> = match mode {
            Mode::Alu => vec![],
            _ => recompose_air_builders(1, split),
        };
        let (airs_degrees, primitive_columns, non_primitive_columns) =
            match get_airs_and_degrees_with_prep::<BabyBearConfig, _, 4>(
                honest,
                &table_packing,
                &npo_prep,
                &air_builders,
                ConstraintProfile::Standard,
            ) {
                Ok(v) => v,
                Err(e) => return Outcome::ProveErr(format!("airs: {e:?}")),
            };
        let (airs, degrees): (Vec<_>, Vec<usize>) = airs_degrees.into_iter().unzip();
        let prover_data = ProverData::from_airs_and_degrees(&stark_config, &airs, &degrees);
        let cpd = CircuitProverData::new(prover_data, primitive_columns, non_primitive_columns);

        let mut prover = BatchStarkProver::new(stark_config).with_table_packing(table_packing);
        if mode != Mode::Alu {
            prover.register_recompose_table::<4>(split);
        }
        let proof = match prover.prove_all_tables(traces, &cpd) {
            Ok(p) => p,
            Err(e) => return Outcome::ProveErr(format!("{e:?}")),
        };
        match prover.verify_all_tables::<EF>(&proof) {
            Ok(()) => Outcome::Accepted,
            Err(e) => Outcome::VerifyErr(format!("{e:?}")),
        }
    }));
    match r {
        Ok(o) => o,
        Err(p) => {
            let msg = p
                .downcast_ref::<String>()
                .cloned()
                .or_else(|| p.downcast_ref::<&str>().map(|s| s.to_string()))
                .unwrap_or_else(|| "<non-string panic>".into());
            Outcome::ProverSelfCheck(msg)
        }
    }
}

/// Dump what the verifier key says about the bus: per-witness read counts and the (index,
/// multiplicity) preprocessed rows of every table.
fn print_structure(tag: &str, c: &Circuit<EF>, mode: Mode) {
    // once per (scenario, mode, link)
    static SEEN: std::sync::Mutex<Vec<String>> = std::sync::Mutex::new(Vec::new());
    {
        let mut seen = SEEN.lock().unwrap();
        if seen.iter().any(|t| t == tag) {
            return;
        }
        seen.push(tag.to_string());
    }
    println!("[{tag}] ops:");
    for (i, op) in c.ops.iter().enumerate() {
        let d = format!("{op:?}");
        // drop the PhantomData noise of the field types
        let d = d.split(", _phantom").next().unwrap().to_string();
        println!("[{tag}]   #{i}: {d}");
    }
    let prep = c.generate_preprocessed_columns::<4>().unwrap();
    println!("[{tag}] ext_reads (per WitnessId) = {:?}", prep.ext_reads);
    let mut hints: Vec<u32> = prep.hint_output_wids.iter().copied().collect();
    hints.sort_unstable();
    println!("[{tag}] hint_output_wids = {hints:?}   dup_npo_outputs = {:?}", prep.dup_npo_outputs);
    let split = mode == Mode::Wide;
    let npo_prep: Vec<Box<dyn NpoPreprocessor<F>>> = match mode {
        Mode::Alu => vec![],
        _ => vec![Box::new(RecomposePreprocessor::new(split))],
    };
    let air_builders: Vec<Box<dyn NpoAirBuilder<BabyBearConfig, 4>>> = match mode {
        Mode::Alu => vec![],
        _ => recompose_air_builders(1, split),
    };
    let (_, prim, npo) = get_airs_and_degrees_with_prep::<BabyBearConfig, _, 4>(
        c,
        &TablePacking::new(1, 1),
        &npo_prep,
        &air_builders,
        ConstraintProfile::Standard,
    )
    .unwrap();
    let s = |v: &F| {
        let u = v.as_canonical_u32();
        if u > F::ORDER_U32 / 2 {
            format!("-{}", F::ORDER_U32 - u)
        } else {
            format!("{u}")
        }
    };
    let names = ["Const  [mult, idx]", "Public [mult, idx]", "Alu    [mult_a, sel*4, a_idx, b_idx, c_idx, out_idx, mult_b, mult_out, a_reader, c_reader]"];
    let widths = [2usize, 2, 13];
    for (k, cols) in prim.iter().enumerate() {
        println!("[{tag}] committed preprocessed {}:", names[k]);
        for row in cols.chunks(widths[k]) {
            println!("[{tag}]     {:?}", row.iter().map(s).collect::<Vec<_>>());
        }
    }
    for (ty, cols) in &npo {
        let w = if ty == &NpoTypeId::recompose() { 2 } else { 10 };
        println!(
            "[{tag}] committed preprocessed NPO `{}` [out_idx, out_mult{}]:",
            ty.as_str(),
            if w == 10 { ", (coeff_i_idx, coeff_i_mult) x4" } else { "" }
        );
        for row in cols.chunks(w) {
            println!("[{tag}]     {:?}", row.iter().map(s).collect::<Vec<_>>());
        }
    }
    println!("[{tag}] (indices are WitnessId * 4; mult > 0 = creator/send with that many reads, -1 = reader, 0 = no bus interaction)");
}

fn report(tag: &str, what: &str, o: &Outcome) {
    match o {
        Outcome::Accepted => println!("[{tag}] {what}: PROOF VERIFIES (accepted)"),
        Outcome::ProverSelfCheck(m) => {
            println!("[{tag}] {what}: REJECTED (debug self-check of the prover): {m}")
        }
        Outcome::ProveErr(m) => println!("[{tag}] {what}: REJECTED at prove: {m}"),
        Outcome::VerifyErr(m) => println!("[{tag}] {what}: REJECTED by verify_all_tables: {m}"),
    }
}

// ------------------------------------------------------------------------------------------------
// Scenario D
// ------------------------------------------------------------------------------------------------

const X: [u32; 4] = [2, 3, 5, 7];

/// Returns (honest outcome, forged outcome [recompose rows left honest], forged outcome [row v_0 := forged c0]).
fn scenario_decompose(mode: Mode, l: Link, forged_c0: EF) -> (Outcome, Outcome, Option<Outcome>) {
    let tag = format!("D/{mode:?}/{l:?}");
    let dc = build_decompose(mode, l);
    print_structure(&tag, &dc.circuit, mode);
    println!(
        "[{tag}] witness slots: x={:?} c0_pub={:?} coeffs={:?}",
        dc.x, dc.c0_pub, dc.coeffs
    );
    let x = ef(X);
    let honest = run(&dc.circuit, &[x, base(X[0])]).expect("honest run");
    let hw = witness_of(&dc.circuit, &honest);
    let ty = recompose_ty(mode);
    println!("[{tag}] honest recompose rows = {:?}", recompose_rows(&honest, &ty));
    let h = prove_and_verify(&dc.circuit, &honest, mode);
    report(&tag, &format!("honest  publics x={} c0={}", show(&x), show(&base(X[0]))), &h);

    // the honest witness generator refuses the false statement
    assert!(run(&dc.circuit, &[x, forged_c0]).is_err(), "honest runner must refuse");

    // forged witness: public c0 (and the coefficient-0 slot it is linked to) := forged value
    let mut w = hw.clone();
    w[dc.c0_pub.0 as usize] = forged_c0;
    w[dc.coeffs[0].0 as usize] = forged_c0;
    let forged = retrace(&honest, &hw, &w);
    assert_eq!(forged.public_trace.values, vec![x, forged_c0]);
    let f1 = prove_and_verify(&dc.circuit, &forged, mode);
    report(
        &tag,
        &format!(
            "FORGED  publics x={} c0={} (recompose rows = honest coefficients of x)",
            show(&x),
            show(&forged_c0)
        ),
        &f1,
    );
    let f2 = if mode != Mode::Alu {
        let mut forged2 = forged.clone();
        let mut row = coeffs_of(&x);
        row[0] = coeffs_of(&forged_c0)[0];
        set_recompose_rows(&mut forged2, &ty, &[row]);
        let o = prove_and_verify(&dc.circuit, &forged2, mode);
        report(&tag, "FORGED  same, but recompose row v_0 := forged c0 limb 0", &o);
        o
    } else {
        // smarter ALU forgery: every MulAdd row is locally consistent, the last row outputs x' != x
        let mut forged2 = forged.clone();
        alu_forward(&mut forged2, &w, &[dc.x]);
        assert_eq!(forged2.public_trace.values, vec![x, forged_c0]);
        let o = prove_and_verify(&dc.circuit, &forged2, mode);
        report(&tag, "FORGED  same, MulAdd chain re-evaluated forward (all ALU rows locally consistent)", &o);
        o
    };
    (h, f1, Some(f2))
}

// ------------------------------------------------------------------------------------------------
// Scenario R
// ------------------------------------------------------------------------------------------------

fn scenario_recompose(mode: Mode, l: Link, forged_y: EF) -> (Outcome, Outcome) {
    let tag = format!("R/{mode:?}/{l:?}");
    let rc = build_recompose(mode, l);
    print_structure(&tag, &rc.circuit, mode);
    println!("[{tag}] witness slots: cs={:?} y={:?} out={:?}", rc.cs, rc.y, rc.out);
    let y = ef(X);
    let mut publics: Vec<EF> = X.iter().map(|&c| base(c)).collect();
    publics.push(y);
    let honest = run(&rc.circuit, &publics).expect("honest run");
    let hw = witness_of(&rc.circuit, &honest);
    let ty = recompose_ty(mode);
    println!("[{tag}] honest recompose rows = {:?}", recompose_rows(&honest, &ty));
    let h = prove_and_verify(&rc.circuit, &honest, mode);
    report(&tag, &format!("honest  publics c={X:?} y={}", show(&y)), &h);

    let mut bad = publics.clone();
    bad[4] = forged_y;
    assert!(run(&rc.circuit, &bad).is_err(), "honest runner must refuse");

    let mut w = hw.clone();
    w[rc.y.0 as usize] = forged_y;
    w[rc.out.0 as usize] = forged_y;
    let mut forged = retrace(&honest, &hw, &w);
    assert_eq!(forged.public_trace.values, bad);
    if mode != Mode::Alu {
        // the table row simply carries the coefficients of the forged y
        set_recompose_rows(&mut forged, &ty, &[coeffs_of(&forged_y)]);
    }
    let f = prove_and_verify(&rc.circuit, &forged, mode);
    report(
        &tag,
        &format!("FORGED  publics c={X:?} y={} (recompose row = coefficients of forged y)", show(&forged_y)),
        &f,
    );
    (h, f)
}

// ------------------------------------------------------------------------------------------------
// Hint swapping (ALU chain, "moving mass")
// ------------------------------------------------------------------------------------------------

#[derive(Debug, Clone)]
struct ForgedHint {
    vals: Vec<EF>,
}
impl HintExecutor<EF> for ForgedHint {
    fn execute(
        &self,
        _inputs: &[WitnessId],
        outputs: &[WitnessId],
        witness: &mut [Option<EF>],
    ) -> Result<(), CircuitError> {
        for (o, v) in outputs.iter().zip(&self.vals) {
            witness[o.0 as usize] = Some(*v);
        }
        Ok(())
    }
    fn boxed(&self) -> Box<dyn HintExecutor<EF>> {
        Box::new(self.clone())
    }
}

/// Prover-side only: the decomposition hint returns `vals` instead of the coefficients of x.
fn swap_decomposition_hint(c: &Circuit<EF>, vals: &[EF]) -> Circuit<EF> {
    let mut c = c.clone();
    let mut n = 0;
    for op in c.ops.iter_mut() {
        if let Op::Hint { outputs, executor, .. } = op
            && outputs.len() == 4
        {
            *executor = Box::new(ForgedHint { vals: vals.to_vec() });
            n += 1;
        }
    }
    assert_eq!(n, 1, "exactly one decomposition hint");
    c
}

// ================================================================================================
// Tests
// ================================================================================================

const FORGED_C0_BASE: u32 = 1002;

#[test]
fn narrow_decompose_coefficient_is_unbound() {
    for l in [Link::Connect, Link::AssertEq] {
        // (i) a wrong base-field value, (ii) not even a base-field element
        for forged in [base(FORGED_C0_BASE), ef([5, 6, 7, 8])] {
            let (h, f1, f2) = scenario_decompose(Mode::Narrow, l, forged);
            assert!(h.accepted(), "control: honest must verify");
            println!(
                "[SUMMARY] D/Narrow/{l:?}: forged c0={} accepted = {} ; with row v_0 forged accepted = {}",
                show(&forged),
                f1.accepted(),
                f2.as_ref().unwrap().accepted()
            );
            assert!(
                f1.accepted(),
                "hypothesis (b) would be FALSE for narrow/{l:?}: forged c0 rejected: {f1:?}"
            );
        }
    }
}

#[test]
fn narrow_recompose_output_is_unbound() {
    for l in [Link::Connect, Link::AssertEq] {
        for forged in [ef([1002, 3, 5, 7]), ef([11, 22, 33, 44])] {
            let (h, f) = scenario_recompose(Mode::Narrow, l, forged);
            assert!(h.accepted(), "control: honest must verify");
            println!(
                "[SUMMARY] R/Narrow/{l:?}: forged y={} accepted = {}",
                show(&forged),
                f.accepted()
            );
            assert!(
                f.accepted(),
                "hypothesis (a) would be FALSE for narrow/{l:?}: forged y rejected: {f:?}"
            );
        }
    }
}

#[test]
fn wide_decompose() {
    for l in [Link::Connect, Link::AssertEq] {
        let (h, f1, f2) = scenario_decompose(Mode::Wide, l, base(FORGED_C0_BASE));
        assert!(h.accepted(), "control: honest must verify");
        println!(
            "[SUMMARY] D/Wide/{l:?}: forged c0 accepted = {} ; with row v_0 forged accepted = {}",
            f1.accepted(),
            f2.as_ref().unwrap().accepted()
        );
        assert!(f1.accepted(), "observed on this code base: wide variant does not bind either");
    }
}

#[test]
fn wide_recompose() {
    for l in [Link::Connect, Link::AssertEq] {
        let (h, f) = scenario_recompose(Mode::Wide, l, ef([11, 22, 33, 44]));
        assert!(h.accepted(), "control: honest must verify");
        println!("[SUMMARY] R/Wide/{l:?}: forged y accepted = {}", f.accepted());
        assert!(f.accepted(), "observed on this code base: wide variant does not bind either");
    }
}

#[test]
fn alu_decompose() {
    for l in [Link::Connect, Link::AssertEq] {
        let (h, f1, _f2) = scenario_decompose(Mode::Alu, l, base(FORGED_C0_BASE));
        assert!(h.accepted(), "control: honest must verify");
        let f2 = _f2.unwrap();
        println!(
            "[SUMMARY] D/Alu/{l:?}: forged base c0 accepted = {} ; with chain re-evaluated accepted = {}",
            f1.accepted(),
            f2.accepted()
        );
        assert!(!f1.accepted() && !f2.accepted(), "ALU chain must reject sum_i c_i e_i != x");
    }
}

#[test]
fn alu_recompose() {
    for l in [Link::Connect, Link::AssertEq] {
        let (h, f) = scenario_recompose(Mode::Alu, l, ef([11, 22, 33, 44]));
        assert!(h.accepted(), "control: honest must verify");
        println!("[SUMMARY] R/Alu/{l:?}: forged y accepted = {}", f.accepted());
        assert!(!f.accepted(), "ALU chain must reject y != sum_i c_i e_i");
    }
}

/// Extra: the coefficient has a genuine bus READER (it is used by two ALU rows: the first use creates
/// it on the bus, the second reads it).  publics [x, c0, sq]: c0 == coeffs[0], sq == coeffs[0]^2.
#[test]
fn decompose_coefficient_with_alu_reader() {
    for mode in [Mode::Narrow, Mode::Wide] {
        let tag = format!("D2/{mode:?}");
        let mut b = new_builder(mode);
        let x = b.public_input();
        let c0 = b.public_input();
        let sq = b.public_input();
        let coeffs = b.decompose_ext_to_base_coeffs::<F>(x).unwrap();
        link(&mut b, Link::AssertEq, coeffs[0], c0);
        let m = b.mul(coeffs[0], coeffs[0]);
        b.connect(m, sq);
        let circuit = b.build().unwrap();
        print_structure(&tag, &circuit, mode);
        let wid = |e: &ExprId| circuit.expr_to_widx[e];
        let xv = ef(X);
        let honest = run(&circuit, &[xv, base(2), base(4)]).expect("honest run");
        let hw = witness_of(&circuit, &honest);
        let h = prove_and_verify(&circuit, &honest, mode);
        report(&tag, "honest  publics x=[2,3,5,7] c0=2 sq=4", &h);
        let fc = base(FORGED_C0_BASE);
        let mut w = hw.clone();
        w[wid(&c0).0 as usize] = fc;
        w[wid(&coeffs[0]).0 as usize] = fc;
        w[wid(&sq).0 as usize] = fc * fc;
        let forged = retrace(&honest, &hw, &w);
        assert_eq!(forged.public_trace.values, vec![xv, fc, fc * fc]);
        let f = prove_and_verify(&circuit, &forged, mode);
        report(&tag, "FORGED  publics x=[2,3,5,7] c0=1002 sq=1002^2 (recompose row honest)", &f);
        println!(
            "[SUMMARY] {tag}: honest accepted = {} ; forged accepted = {}",
            h.accepted(),
            f.accepted()
        );
    }
}

/// ALU chain, "moving mass": the coefficient slots hold NON-base values with sum_i c_i e_i = x.
/// x = 2 + 3X + 5X^2 + 7X^3;  c0' = 2 + X (not a base element), c1' = 2, c2' = 5, c3' = 7:
/// c0' + c1' X + c2' X^2 + c3' X^3 = x.  Public claim: "coefficient 0 of x is 2 + X".
#[test]
fn alu_decompose_moving_mass() {
    for l in [Link::Connect, Link::AssertEq] {
        let tag = format!("D/Alu/{l:?}/moving-mass");
        let dc = build_decompose(Mode::Alu, l);
        let x = ef(X);
        let c0p = ef([2, 1, 0, 0]);
        let moved = [c0p, base(2), base(5), base(7)];
        let basis = [ef([1, 0, 0, 0]), ef([0, 1, 0, 0]), ef([0, 0, 1, 0]), ef([0, 0, 0, 1])];
        let sum: EF = moved.iter().zip(&basis).map(|(c, e)| *c * *e).sum();
        assert_eq!(sum, x);
        assert!(run(&dc.circuit, &[x, c0p]).is_err(), "honest hint yields c0 = 2, conflicts");
        let evil = swap_decomposition_hint(&dc.circuit, &moved);
        let forged = run(&evil, &[x, c0p]).expect("malicious run is internally consistent");
        assert_eq!(forged.public_trace.values, vec![x, c0p]);
        let o = prove_and_verify(&dc.circuit, &forged, Mode::Alu);
        report(
            &tag,
            &format!("FORGED  publics x={} c0={} (coeff slots {:?})", show(&x), show(&c0p), moved.iter().map(show).collect::<Vec<_>>()),
            &o,
        );
        println!("[SUMMARY] {tag}: accepted = {}", o.accepted());
    }
}

/// Same for scenario R over the ALU chain: no tampering at all is needed, the honest runner accepts
/// non-base "coefficients"; what is proved is y = sum_i c_i e_i, not y = pack(c_0..c_3).
#[test]
fn alu_recompose_moving_mass() {
    let rc = build_recompose(Mode::Alu, Link::Connect);
    let y = ef(X);
    let publics = vec![ef([2, 1, 0, 0]), base(2), base(5), base(7), y];
    let t = run(&rc.circuit, &publics).expect("honest runner accepts non-base coefficient publics");
    let o = prove_and_verify(&rc.circuit, &t, Mode::Alu);
    report("R/Alu/Connect/moving-mass", "publics c=[(2,1,0,0),2,5,7] y=[2,3,5,7]", &o);
    println!("[SUMMARY] R/Alu/moving-mass: accepted = {}", o.accepted());
}
