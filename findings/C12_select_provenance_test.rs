//! Side observations on the UNMODIFIED code (not part of the seeded change).
use p3_baby_bear::BabyBear;
use p3_circuit::CircuitBuilder;
use p3_field::extension::BinomialExtensionField;
use p3_field::{BasedVectorSpace, PrimeCharacteristicRing};

type F = BabyBear;
type EF = BinomialExtensionField<F, 4>;

/// `connect` of two *different* select results is a legitimate program ("these two selected
/// values are equal"), but `merge_provenance` debug-asserts that their select sources agree.
#[test]
fn connecting_two_select_results_builds() {
    let mut b = CircuitBuilder::<EF>::new();
    let s0 = b.public_input();
    let t0 = b.public_input();
    let s1 = b.public_input();
    let t1 = b.public_input();
    let c0 = b.public_input();
    let c1 = b.public_input();
    let x0 = b.select(c0, t0, s0);
    let x1 = b.select(c1, t1, s1);
    b.connect(x0, x1);
    let circuit = b.build().unwrap();
    let mut r = circuit.runner();
    let one = EF::ONE;
    let v = EF::from_u32(7);
    // c0 = 1 -> x0 = t0 = 7 ; c1 = 0 -> x1 = s1 = 7
    r.set_public_inputs(&[EF::ZERO, v, v, EF::ZERO, one, EF::ZERO]).unwrap();
    r.run().unwrap();
}

/// Same for two recomposed extension values that the program asserts equal.
#[test]
fn connecting_two_recomposed_values_builds() {
    let mut b = CircuitBuilder::<EF>::new();
    let c: Vec<_> = (0..4).map(|_| b.public_input()).collect();
    let d: Vec<_> = (0..4).map(|_| b.public_input()).collect();
    let x = b.recompose_base_coeffs_to_ext::<F>(&c).unwrap();
    let y = b.recompose_base_coeffs_to_ext::<F>(&d).unwrap();
    b.connect(x, y);
    let circuit = b.build().unwrap();
    let mut r = circuit.runner();
    let vals: Vec<EF> = [2u32, 3, 5, 7, 2, 3, 5, 7].iter().map(|&v| EF::from_u32(v)).collect();
    r.set_public_inputs(&vals).unwrap();
    r.run().unwrap();
}

/// decompose_ext_to_base_coeffs on `select(b, t, s)` with a selector that is neither boolean
/// nor a base-field element: the returned "coefficients" are not base-field elements.
#[test]
fn select_path_coefficients_are_base_field_elements() {
    let mut b = CircuitBuilder::<EF>::new();
    let sel = b.public_input();
    let tc: Vec<_> = (0..4).map(|_| b.public_input()).collect();
    let s = b.public_input();
    let t = b.recompose_base_coeffs_to_ext::<F>(&tc).unwrap();
    let x = b.select(sel, t, s);
    let coeffs = b.decompose_ext_to_base_coeffs::<F>(x).unwrap();
    let circuit = b.build().unwrap();
    let mut r = circuit.runner();
    // selector = the basis element e_1 (not a base-field element, not boolean)
    let e1 = EF::from_basis_coefficients_fn(|i| if i == 1 { F::ONE } else { F::ZERO });
    let mut vals = vec![e1];
    vals.extend([2u32, 3, 5, 7].iter().map(|&v| EF::from_u32(v)));
    vals.push(EF::from_u32(11));
    r.set_public_inputs(&vals).unwrap();
    let traces = r.run().expect("the honest runner accepts");
    for (i, c) in coeffs.iter().enumerate() {
        let w = circuit.expr_to_widx[c];
        let v: EF = *traces.witness_trace.get_value(w).unwrap();
        let cs: &[F] = v.as_basis_coefficients_slice();
        assert!(
            cs[1..].iter().all(|x| *x == F::ZERO),
            "coefficient {i} returned by decompose_ext_to_base_coeffs is {v:?}: not a base-field element"
        );
    }
}
