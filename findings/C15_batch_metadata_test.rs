//! Side observations (C15) on the UNMODIFIED tree — goes in `recursion/tests/`.
//!
//! `verify_p3_batch_proof_circuit` rebuilds the primitive AIRs from metadata carried by the
//! `BatchStarkProof`. `BatchStarkProof::validate()` only re-checks zero lanes / zero row counts,
//! the minimum height and the Horner pack size. Two proof-supplied fields that pass
//! `validate()` reach a panic while the AIRs are rebuilt:
//!
//! 1. `alu_quintic_trinomial`: the native `verify_all_tables` compares the flag with the one
//!    the verifier's field dictates (`QuinticReductionMismatch`); the recursive verifier hands
//!    the PROOF's flag to `create_alu_air`, whose `AluExtMulKind::resolve(5, None, false)` is
//!    `None` for the quintic *trinomial* field (it has no binomial `W`) and hits
//!    `.expect("extension field must provide binomial W for ALU AIR")`.
//! 2. `rows[Alu]`: `create_alu_air` allocates `rows[Alu] * preprocessed_lane_width()` zero
//!    field elements. The count is prover-chosen and unbounded: `usize::MAX` overflows the
//!    multiplication (debug) / the `Vec` capacity (release); a merely large count (say 2^40)
//!    asks the allocator for terabytes, which aborts the process (not executed here).
//!
//! The native verifier refuses (1) with an error and never allocates from (2).

mod common;

use std::panic::{AssertUnwindSafe, catch_unwind};

use p3_batch_stark::ProverData;
use p3_circuit::CircuitBuilder;
use p3_circuit::ops::{
    KoalaBearD1Width16, Poseidon2Config, generate_poseidon2_trace, generate_recompose_trace,
};
use p3_circuit_prover::batch_stark_prover::{BatchStarkProof, PrimitiveTable, RowCounts};
use p3_circuit_prover::common::get_airs_and_degrees_with_prep;
use p3_circuit_prover::{BatchStarkProver, CircuitProverData, ConstraintProfile, TablePacking};
use p3_lookup::logup::LogUpGadget;
use p3_recursion::VerificationError;
use p3_recursion::pcs::fri::{FriVerifierParams, InputProofTargets, MerkleCapTargets, RecValMmcs};
use p3_recursion::verifier::verify_p3_batch_proof_circuit;
use p3_test_utils::koala_bear_quintic_params::*;

use crate::common::InnerFriGeneric;

type InnerFri = InnerFriGeneric<MyConfig, MyHash, MyCompress, DIGEST_ELEMS>;

/// Honest D = 5 (Koala quintic trinomial) proof of a small Fibonacci circuit, as in
/// `fibonacci_batch_stark_prover_quintic.rs`.
fn honest_quintic_proof() -> (BatchStarkProver<MyConfig>, BatchStarkProof<MyConfig>) {
    let n = 16usize;
    let mut builder = CircuitBuilder::<Challenge>::new();
    let expected_result = builder.public_input();
    let mut a = builder.define_const(Challenge::ZERO);
    let mut b = builder.define_const(Challenge::ONE);
    for _ in 2..=n {
        let next = builder.add(a, b);
        a = b;
        b = next;
    }
    builder.connect(b, expected_result);

    let table_packing = TablePacking::new(2, 4);
    let config_proving = make_test_config();
    let circuit = builder.build().unwrap();
    let (airs_degrees, primitive_columns, non_primitive_columns) =
        get_airs_and_degrees_with_prep::<MyConfig, _, 5>(
            &circuit,
            &table_packing,
            &[],
            &[],
            ConstraintProfile::Standard,
        )
        .unwrap();
    let (airs, degrees): (Vec<_>, Vec<usize>) = airs_degrees.into_iter().unzip();

    let (mut x, mut y) = (F::ZERO, F::ONE);
    for _ in 2..=n {
        let next = x + y;
        x = y;
        y = next;
    }
    let mut runner = circuit.runner();
    runner.set_public_inputs(&[Challenge::from(y)]).unwrap();
    let traces = runner.run().unwrap();

    let prover_data = ProverData::from_airs_and_degrees(&config_proving, &airs, &degrees);
    let circuit_prover_data =
        CircuitProverData::new(prover_data, primitive_columns, non_primitive_columns);
    let prover = BatchStarkProver::new(config_proving).with_table_packing(table_packing);
    let proof = prover
        .prove_all_tables(&traces, &circuit_prover_data)
        .unwrap();
    prover.verify_all_tables::<Challenge>(&proof).unwrap();
    (prover, proof)
}

/// Outer `Err` = panic message, inner = the verifier's own result.
fn build_verifier(
    proof: &BatchStarkProof<MyConfig>,
    fri_verifier_params: &FriVerifierParams,
) -> Result<Result<(), VerificationError>, String> {
    let config = make_test_config();
    let lookup_gadget = LogUpGadget::new();
    let common = &proof.stark_common;

    catch_unwind(AssertUnwindSafe(|| {
        let mut circuit_builder = CircuitBuilder::<Challenge>::new();
        let lift = LiftKoalaPermForQuintic::new(default_koalabear_poseidon2_16());
        circuit_builder.enable_poseidon2_perm_base::<KoalaBearD1Width16, _>(
            generate_poseidon2_trace::<Challenge, KoalaBearD1Width16>,
            lift,
        );
        circuit_builder.enable_recompose::<F>(generate_recompose_trace::<F, Challenge>);
        circuit_builder.set_recompose_coeff_ctl_for_decompose_links(true);
        verify_p3_batch_proof_circuit::<
            MyConfig,
            MerkleCapTargets<F, DIGEST_ELEMS>,
            InputProofTargets<F, Challenge, RecValMmcs<F, DIGEST_ELEMS, MyHash, MyCompress>>,
            InnerFri,
            LogUpGadget,
            _,
            WIDTH,
            RATE,
            5,
        >(
            &config,
            &mut circuit_builder,
            proof,
            fri_verifier_params,
            common,
            &lookup_gadget,
            Poseidon2Config::KOALA_BEAR_D1_W16,
            &[],
        )
        .map(|_| ())
    }))
    .map_err(|payload| {
        payload
            .downcast_ref::<String>()
            .cloned()
            .or_else(|| payload.downcast_ref::<&str>().map(|s| (*s).to_string()))
            .unwrap_or_else(|| "<non-string panic payload>".to_string())
    })
}

fn honest_params() -> FriVerifierParams {
    let scalars = test_fri_scalars();
    FriVerifierParams::with_mmcs(
        scalars.log_blowup,
        scalars.log_final_poly_len,
        scalars.commit_pow_bits,
        scalars.query_pow_bits,
        Poseidon2Config::KOALA_BEAR_D1_W16,
    )
}

#[test]
fn honest_quintic_proof_builds() {
    let (_, proof) = honest_quintic_proof();
    assert!(matches!(
        build_verifier(&proof, &honest_params()),
        Ok(Ok(()))
    ));
}

#[test]
fn flipped_quintic_reduction_flag_is_rejected_with_an_error() {
    let (prover, mut proof) = honest_quintic_proof();
    assert!(proof.alu_quintic_trinomial);
    proof.alu_quintic_trinomial = false;
    assert!(proof.validate().is_ok(), "validate() does not look at the flag");
    assert!(
        prover.verify_all_tables::<Challenge>(&proof).is_err(),
        "the native verifier refuses the flipped flag"
    );

    match build_verifier(&proof, &honest_params()) {
        Ok(Err(_)) => {}
        Ok(Ok(())) => panic!("a verifier circuit was built for a proof-chosen ALU reduction"),
        Err(msg) => panic!("building the verifier circuit PANICKED: {msg}"),
    }
}

#[test]
fn unbounded_alu_row_count_does_not_panic() {
    let (prover, mut proof) = honest_quintic_proof();
    proof.rows = RowCounts::new([
        proof.rows[PrimitiveTable::Const],
        proof.rows[PrimitiveTable::Public],
        usize::MAX,
    ]);
    assert!(proof.validate().is_ok(), "validate() only refuses zero counts");
    // The native verifier never allocates from the count (it only parameterises the AIR).
    let native = prover.verify_all_tables::<Challenge>(&proof);
    println!("native verify_all_tables on the forged row count: {native:?}");

    match build_verifier(&proof, &honest_params()) {
        // Either answer is fine for the property (an error, or a circuit that ignores the
        // count like the native verifier does) — a panic is not.
        Ok(_) => {}
        Err(msg) => panic!("building the verifier circuit PANICKED: {msg}"),
    }
}

/// "Parameters out of range": the FRI verifier parameters are added to the proof's fold count
/// without a checked addition (`total_log_reduction + log_final_poly_len + log_blowup` in
/// `TwoAdicFriPcs::verify_circuit` / `HidingFriPcs::verify_circuit`). Overflow checks are on in
/// the dev/test profile only: a release build wraps and ends in `InvalidProofShape`.
#[test]
fn out_of_range_fri_parameter_is_rejected_with_an_error() {
    let (_, proof) = honest_quintic_proof();
    let mut params = honest_params();
    params.log_final_poly_len = usize::MAX;

    match build_verifier(&proof, &params) {
        Ok(Err(_)) => {}
        Ok(Ok(())) => panic!("a verifier circuit was built for log_final_poly_len = usize::MAX"),
        Err(msg) => panic!("building the verifier circuit PANICKED: {msg}"),
    }
}
