//! Side observations for C15 on the UNMODIFIED tree (goes into `recursion/tests/`).
//!
//! `verify_batch_circuit` takes each instance's preprocessed width from the caller's
//! `CommonData` and only compares the proof's openings with THAT number; it never compares it
//! with the AIR's own `preprocessed_width()` (the native circuit-prover verifier got that check
//! in 069e8d7, `p3_batch_stark::verify_batch` relies on the AIR layout too). A `CommonData`
//! (plus matching proof openings) that declares a narrower preprocessed trace than the AIR reads
//! must be rejected with `InvalidProofShape`.

mod common;

use p3_baby_bear::default_babybear_poseidon2_16;
use p3_batch_stark::{BatchProof, CommonData, ProverData, StarkInstance, prove_batch};
use p3_circuit::CircuitBuilder;
use p3_circuit::ops::{generate_poseidon2_trace, generate_recompose_trace};
use p3_lookup::logup::LogUpGadget;
use p3_poseidon2_circuit_air::BabyBearD4Width16;
use p3_recursion::pcs::MerkleCapTargets;
use p3_recursion::{
    BatchStarkVerifierInputsBuilder, FriVerifierParams, Poseidon2Config, VerificationError,
    verify_batch_circuit,
};
use p3_test_utils::baby_bear_params::*;

use crate::common::{InnerFriGeneric, MulAir};

type InnerFri = InnerFriGeneric<MyConfig, MyHash, MyCompress, DIGEST_ELEMS>;

fn run(
    tamper: impl FnOnce(&mut BatchProof<MyConfig>, &mut CommonData<MyConfig>),
) -> Result<(), VerificationError> {
    let scalars = test_fri_scalars();
    let fri_verifier_params = FriVerifierParams::unsafe_arithmetic_only_for_tests(
        scalars.log_blowup,
        scalars.log_final_poly_len,
        scalars.commit_pow_bits,
        scalars.query_pow_bits,
    );
    let config = make_test_config();
    let air = MulAir { degree: 2, rows: 1 << 3 };
    let trace = air.random_valid_trace(true).0;
    let instances = vec![StarkInstance {
        air: &air,
        trace: &trace,
        public_values: vec![],
    }];
    let mut prover_data = ProverData::from_instances(&config, &instances);
    let lookup_gadget = LogUpGadget::new();
    let mut batch_proof = prove_batch(&config, &instances, &prover_data);
    tamper(&mut batch_proof, &mut prover_data.common);

    let mut circuit_builder = CircuitBuilder::new();
    circuit_builder.enable_poseidon2_perm::<BabyBearD4Width16, _>(
        generate_poseidon2_trace::<Challenge, BabyBearD4Width16>,
        default_babybear_poseidon2_16(),
    );
    circuit_builder.enable_recompose::<F>(generate_recompose_trace::<F, Challenge>);
    let verifier_inputs = BatchStarkVerifierInputsBuilder::<
        MyConfig,
        MerkleCapTargets<F, DIGEST_ELEMS>,
        InnerFri,
    >::allocate(&mut circuit_builder, &batch_proof, &prover_data.common, &[0]);
    verify_batch_circuit::<_, _, _, _, _, _, _, WIDTH, RATE>(
        &config,
        &[air],
        &mut circuit_builder,
        &verifier_inputs.proof_targets,
        &verifier_inputs.air_public_targets,
        &fri_verifier_params,
        &verifier_inputs.common_data,
        &lookup_gadget,
        Poseidon2Config::BABY_BEAR_D4_W16,
    )
    .map(|_| ())
}

#[test]
fn s4_common_data_declares_a_narrower_preprocessed_trace_than_the_air() {
    run(|_, _| {}).expect("untampered inputs build");

    let result = std::panic::catch_unwind(std::panic::AssertUnwindSafe(|| {
        run(|proof, common| {
            let meta = common.preprocessed.as_mut().unwrap().instances[0]
                .as_mut()
                .unwrap();
            meta.width -= 1;
            let ov = &mut proof.opened_values.instances[0].base_opened_values;
            ov.preprocessed_local.as_mut().unwrap().pop();
            ov.preprocessed_next.as_mut().unwrap().pop();
        })
    }));
    match result {
        Err(_) => panic!("verify_batch_circuit PANICKED on a narrower preprocessed width"),
        Ok(Err(VerificationError::InvalidProofShape(_))) => {}
        Ok(other) => panic!("expected Err(InvalidProofShape), got {other:?}"),
    }
}
