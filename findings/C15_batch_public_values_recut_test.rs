//! Side observation on the UNMODIFIED tree (C14): `BatchStarkVerifierInputsBuilder::allocate`
//! sizes the per-instance AIR public-input windows from `air_public_counts`, while
//! `pack_public_values` flattens whatever per-instance vectors the caller passes, without
//! comparing their lengths with the allocated windows. Public values `[[a, b], []]` for two
//! instances that take one public value each pack to the same vector as `[[a], [b]]`: `b`
//! lands on the input allocated for instance 1 although it was supplied for instance 0.
//! The native verifier rejects `[[a, b], []]`, the recursive pipeline accepts it.
//! (`FriVerifierResult::pack_public_inputs` forwards `table_public_inputs` the same way,
//! the counts coming from `proof.non_primitives[i].public_values.len()`.)
//!
//! Goes in `recursion/tests/side_batch_public_values_recut.rs`. Expected to FAIL on the
//! unmodified tree (and independently of the C14 seed).

mod common;

use p3_air::{Air, AirBuilder, BaseAir, WindowAccess};
use p3_baby_bear::default_babybear_poseidon2_16;
use p3_batch_stark::{ProverData, StarkInstance, prove_batch, verify_batch};
use p3_circuit::CircuitBuilder;
use p3_circuit::ops::{generate_poseidon2_trace, generate_recompose_trace};
use p3_field::Field;
use p3_lookup::logup::LogUpGadget;
use p3_matrix::dense::RowMajorMatrix;
use p3_poseidon2_circuit_air::BabyBearD4Width16;
use p3_recursion::pcs::MerkleCapTargets;
use p3_recursion::{
    BatchStarkVerifierInputsBuilder, FriVerifierParams, Poseidon2Config, verify_batch_circuit,
};
use p3_test_utils::baby_bear_params::*;

use crate::common::InnerFriGeneric;

type InnerFri = InnerFriGeneric<MyConfig, MyHash, MyCompress, DIGEST_ELEMS>;

/// AIR with one public value: constrains `pis[0] == row[0]` on the first row.
#[derive(Clone, Copy)]
struct PublicValueAir {
    rows: usize,
    first: usize,
}

impl PublicValueAir {
    fn generate_trace<Val: Field>(&self) -> (RowMajorMatrix<Val>, Vec<Val>) {
        let width = 2;
        let mut values = Val::zero_vec(self.rows * width);
        for row in 0..self.rows {
            values[row * width] = Val::from_usize(row + self.first);
            values[row * width + 1] = Val::from_usize(row + 1);
        }
        let pv = values[0];
        (RowMajorMatrix::new(values, width), vec![pv])
    }
}

impl<Val: Field> BaseAir<Val> for PublicValueAir {
    fn width(&self) -> usize {
        2
    }

    fn num_public_values(&self) -> usize {
        1
    }
}

impl<AB: AirBuilder> Air<AB> for PublicValueAir
where
    AB::F: Field,
{
    fn eval(&self, builder: &mut AB) {
        let main = builder.main();
        let local = main.current_slice();
        let pis = builder.public_values();
        let pi0 = pis[0];

        builder.when_first_row().assert_eq(local[0], pi0);
    }
}

#[test]
fn recut_batch_public_values_are_rejected_like_natively() {
    let scalars = test_fri_scalars();
    let fri_verifier_params = FriVerifierParams::unsafe_arithmetic_only_for_tests(
        scalars.log_blowup,
        scalars.log_final_poly_len,
        scalars.commit_pow_bits,
        scalars.query_pow_bits,
    );
    let config = make_test_config();

    let air0 = PublicValueAir {
        rows: 1 << 3,
        first: 42,
    };
    let air1 = PublicValueAir {
        rows: 1 << 3,
        first: 50,
    };
    let (trace0, pv0) = air0.generate_trace::<F>();
    let (trace1, pv1) = air1.generate_trace::<F>();
    let honest_pvs = [pv0.clone(), pv1.clone()];
    let recut_pvs = [vec![pv0[0], pv1[0]], vec![]];

    let instances = vec![
        StarkInstance {
            air: &air0,
            trace: &trace0,
            public_values: pv0,
        },
        StarkInstance {
            air: &air1,
            trace: &trace1,
            public_values: pv1,
        },
    ];
    let prover_data = ProverData::from_instances(&config, &instances);
    let common_data = &prover_data.common;
    let batch_proof = prove_batch(&config, &instances, &prover_data);
    let airs = [air0, air1];

    verify_batch(&config, &airs, &batch_proof, &honest_pvs, common_data)
        .expect("native verifier accepts the honest public values");
    let native = verify_batch(&config, &airs, &batch_proof, &recut_pvs, common_data);
    assert!(
        native.is_err(),
        "native verifier must reject the re-cut public values"
    );

    // One verifier circuit, built for AIRs that take one public value each.
    let mut circuit_builder = CircuitBuilder::new();
    circuit_builder.enable_poseidon2_perm::<BabyBearD4Width16, _>(
        generate_poseidon2_trace::<Challenge, BabyBearD4Width16>,
        default_babybear_poseidon2_16(),
    );
    circuit_builder.enable_recompose::<F>(generate_recompose_trace::<F, Challenge>);
    let verifier_inputs = BatchStarkVerifierInputsBuilder::<
        MyConfig,
        MerkleCapTargets<F, DIGEST_ELEMS>,
        InnerFri,
    >::allocate(&mut circuit_builder, &batch_proof, common_data, &[1, 1]);
    verify_batch_circuit::<_, _, _, _, _, _, _, WIDTH, RATE>(
        &config,
        &airs,
        &mut circuit_builder,
        &verifier_inputs.proof_targets,
        &verifier_inputs.air_public_targets,
        &fri_verifier_params,
        &verifier_inputs.common_data,
        &LogUpGadget::new(),
        Poseidon2Config::BABY_BEAR_D4_W16,
    )
    .expect("verifier circuit");
    let circuit = circuit_builder.build().expect("build");

    let run = |pvs: &[Vec<F>]| -> Result<(), String> {
        let (public_inputs, private_inputs) =
            verifier_inputs.pack_values(pvs, &batch_proof, common_data);
        let mut runner = circuit.runner();
        runner
            .set_public_inputs(&public_inputs)
            .map_err(|e| format!("public inputs: {e:?}"))?;
        runner
            .set_private_inputs(&private_inputs)
            .map_err(|e| format!("private inputs: {e:?}"))?;
        runner.run().map_err(|e| format!("run: {e:?}"))?;
        Ok(())
    };

    run(&honest_pvs).expect("recursive verifier accepts the honest public values");
    let recursive = run(&recut_pvs);
    assert!(
        recursive.is_err(),
        "native verifier rejects ({:?}) but the recursive pipeline accepted the re-cut public values",
        native.err()
    );
}
