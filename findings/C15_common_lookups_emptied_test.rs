//! C15 side observation (unmodified tree): `verify_batch_circuit` derives *whether* an AIR has a
//! LogUp terminal from the AIR itself (`declares_interactions`), but the lookup constraints it
//! evaluates, the auxiliary width it expects and the challenges it lays out all come from
//! `common.lookups[i]`, which is only length-checked against the number of AIRs. Emptying the
//! entry of one table (while the AIR still declares its interactions) together with that
//! table's permutation openings builds a circuit in which the table's lookup argument is not
//! evaluated at all, instead of returning an error.
//!
//! Goes in `recursion/tests/side_common_lookups_emptied.rs`. FAILS on the unmodified tree.

mod common;

use p3_batch_stark::{CommonData, ProverData};
use p3_baby_bear::default_babybear_poseidon2_16;
use p3_circuit::CircuitBuilder;
use p3_circuit::ops::{generate_poseidon2_trace, generate_recompose_trace};
use p3_circuit_prover::common::get_airs_and_degrees_with_prep;
use p3_circuit_prover::{
    BatchStarkProof, BatchStarkProver, CircuitProverData, ConstraintProfile, TablePacking,
};
use p3_lookup::Lookups;
use p3_lookup::logup::LogUpGadget;
use p3_poseidon2_circuit_air::BabyBearD4Width16;
use p3_recursion::pcs::fri::{FriVerifierParams, InputProofTargets, MerkleCapTargets, RecValMmcs};
use p3_recursion::verifier::verify_p3_batch_proof_circuit;
use p3_recursion::{Poseidon2Config, VerificationError};
use p3_test_utils::baby_bear_params::*;

use crate::common::InnerFriGeneric;

const TRACE_D: usize = 1;
type InnerFri = InnerFriGeneric<MyConfig, MyHash, MyCompress, DIGEST_ELEMS>;

fn get_circuit(n: usize) -> CircuitBuilder<F> {
    let mut builder = CircuitBuilder::<F>::new();
    let x = builder.public_input();
    let a = builder.public_input();
    let b = builder.public_input();
    let expected = builder.public_input();
    let mut y = builder.mul(a, x);
    y = builder.add(y, b);
    for _ in 0..n {
        y = builder.mul(a, y);
        y = builder.add(y, b);
    }
    let diff = builder.sub(y, expected);
    builder.assert_zero(diff);
    builder
}

fn repeated_arith(a: usize, b: usize, x: usize, n: usize) -> usize {
    let mut y = a * x + b;
    for _ in 0..n {
        y = a * y + b;
    }
    y
}

fn honest() -> (BatchStarkProof<MyConfig>, CircuitProverData<MyConfig>) {
    let n = 10;
    let table_packing = TablePacking::new(4, 4);
    let config = make_test_config();
    let circuit = get_circuit(n).build().unwrap();
    let (airs_degrees, primitive_columns, non_primitive_columns) =
        get_airs_and_degrees_with_prep::<MyConfig, F, 1>(
            &circuit,
            &table_packing,
            &[],
            &[],
            ConstraintProfile::Standard,
        )
        .unwrap();
    let (airs, degrees): (Vec<_>, Vec<usize>) = airs_degrees.into_iter().unzip();
    let mut runner = circuit.runner();
    runner
        .set_public_inputs(&[
            F::from_usize(7),
            F::from_usize(3),
            F::from_usize(5),
            F::from_usize(repeated_arith(3, 5, 7, n)),
        ])
        .unwrap();
    let traces = runner.run().unwrap();
    let prover_data = ProverData::from_airs_and_degrees(&config, &airs, &degrees);
    let cpd = CircuitProverData::new(prover_data, primitive_columns, non_primitive_columns);
    let prover = BatchStarkProver::new(config).with_table_packing(table_packing);
    let proof = prover.prove_all_tables(&traces, &cpd).unwrap();
    prover.verify_all_tables::<F>(&proof).unwrap();
    (proof, cpd)
}

fn build(
    proof: &BatchStarkProof<MyConfig>,
    common: &CommonData<MyConfig>,
) -> Result<(), VerificationError> {
    let s = test_fri_scalars();
    let params = FriVerifierParams::unsafe_arithmetic_only_for_tests(
        s.log_blowup,
        s.log_final_poly_len,
        s.commit_pow_bits,
        s.query_pow_bits,
    );
    let config = make_test_config();
    let mut cb = CircuitBuilder::<Challenge>::new();
    cb.enable_poseidon2_perm::<BabyBearD4Width16, _>(
        generate_poseidon2_trace::<Challenge, BabyBearD4Width16>,
        default_babybear_poseidon2_16(),
    );
    cb.enable_recompose::<F>(generate_recompose_trace::<F, Challenge>);
    verify_p3_batch_proof_circuit::<
        MyConfig,
        MerkleCapTargets<F, DIGEST_ELEMS>,
        InputProofTargets<F, Challenge, RecValMmcs<F, DIGEST_ELEMS, MyHash, MyCompress>>,
        InnerFri,
        LogUpGadget,
        _,
        WIDTH,
        RATE,
        TRACE_D,
    >(
        &config,
        &mut cb,
        proof,
        &params,
        common,
        &LogUpGadget::new(),
        Poseidon2Config::BABY_BEAR_D4_W16,
        &[],
    )
    .map(|_| ())
}

#[test]
fn honest_pair_builds() {
    let (proof, cpd) = honest();
    build(&proof, cpd.common_data()).expect("honest proof and common data build a circuit");
}

/// For each primitive table in turn: empty its `common.lookups` entry and its permutation
/// openings (and drop its matrix from every query's opening of the permutation round, so the
/// lists stay mutually consistent). The AIR still declares its bus interactions, so the
/// well-formed shape evaluates its lookup constraints: the builder must return an error.
#[test]
fn emptied_lookup_contexts_are_rejected() {
    let mut accepted = Vec::new();
    for table in 0..3 {
        let (mut proof, mut cpd) = honest();
        let common = &mut cpd.prover_data.common;
        assert!(!common.lookups[table].is_empty(), "table {table} has lookups");
        common.lookups[table] = Lookups::default();

        let inst = &mut proof.proof.opened_values.instances[table];
        inst.permutation_local.clear();
        inst.permutation_next.clear();
        // Rounds (non-ZK): trace, quotient, preprocessed, permutation; every table has lookups,
        // so the permutation round lists one matrix per table in table order.
        for query in &mut proof.proof.opening_proof.query_proofs {
            assert_eq!(query.input_proof.len(), 4);
            assert_eq!(query.input_proof[3].opened_values.len(), 3);
            query.input_proof[3].opened_values.remove(table);
        }

        let res = build(&proof, &cpd.prover_data.common);
        eprintln!("table {table}: {:?}", res.as_ref().map_err(|e| e.to_string()));
        if res.is_ok() {
            accepted.push(table);
        }
    }
    assert!(
        accepted.is_empty(),
        "a circuit was built although the lookup contexts of table(s) {accepted:?} were emptied \
         (their AIRs still declare interactions)"
    );
}
