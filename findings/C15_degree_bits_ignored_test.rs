//! Side observation on the UNMODIFIED code (goes in `recursion/tests/`).
//!
//! `BatchProofTargets::get_values` / `get_private_values` (and the uni-STARK `ProofTargets`
//! counterparts) destructure the proof with `degree_bits: _`: the per-instance `degree_bits` of
//! the proof that is being PACKED are never looked at. `allocate()` bakes the `degree_bits` of
//! the reference proof into the circuit as constants. Consequently a proof that differs from the
//! reference proof only in `degree_bits` is packed to exactly the same public / private vectors
//! and is accepted by the circuit, whereas the native verifier (which binds `degree_bits` into
//! the transcript and derives the domains from it) rejects it. `pack_values` gives the caller no
//! error and no way to notice that the packed proof does not have the allocated shape.
//!
//! (The accepted vectors are those of a valid proof, so the statement proven by the circuit is
//! not weakened; the observation is that a proof element the native verdict depends on is
//! neither an input of the circuit nor compared against the allocated shape when packing.)

use p3_air::{Air, AirBuilder, BaseAir, WindowAccess};
use p3_batch_stark::{
    BatchProof, CommonData, ProverData, StarkInstance, prove_batch, verify_batch,
};
use p3_circuit::CircuitBuilder;
use p3_circuit::ops::{generate_poseidon2_trace, generate_recompose_trace};
use p3_field::{Field, PrimeCharacteristicRing};
use p3_fri::{FriParameters, HidingFriPcs};
use p3_lookup::logup::LogUpGadget;
use p3_matrix::dense::RowMajorMatrix;
use p3_poseidon2_circuit_air::KoalaBearD4Width16;
use p3_recursion::pcs::fri::{
    FriVerifierParams, HidingFriProofTargets, InputProofTargets, MerkleCapTargets,
    RecExtensionValMmcs, RecValMmcs, Witness,
};
use p3_recursion::pcs::set_fri_mmcs_private_data;
use p3_recursion::{BatchStarkVerifierInputsBuilder, Poseidon2Config, verify_batch_circuit};
use p3_test_utils::koala_bear_params::*;
use rand::SeedableRng;
use rand::rngs::SmallRng;

type MyPcsZk = HidingFriPcs<F, Dft, MyMmcs, ChallengeMmcs, SmallRng>;
type MyConfigZk = StarkConfig<MyPcsZk, Challenge, Challenger>;
type InnerFriZk = HidingFriProofTargets<
    F,
    Challenge,
    RecExtensionValMmcs<
        F,
        Challenge,
        DIGEST_ELEMS,
        RecValMmcs<F, DIGEST_ELEMS, MyHash, MyCompress>,
    >,
    InputProofTargets<F, Challenge, RecValMmcs<F, DIGEST_ELEMS, MyHash, MyCompress>>,
    Witness<F>,
>;

/// Fibonacci-like AIR without public values: `a' = b`, `b' = a + b` on transition rows.
/// It reads the next row, so its trace is opened at `zeta` and `zeta_next`.
#[derive(Clone, Copy)]
struct StepAir;

impl<Val: Field> BaseAir<Val> for StepAir {
    fn width(&self) -> usize {
        2
    }
}

impl<AB: AirBuilder> Air<AB> for StepAir
where
    AB::F: Field,
{
    fn eval(&self, builder: &mut AB) {
        let main = builder.main();
        let local = main.current_slice();
        let next = main.next_slice();
        let (a, b) = (local[0], local[1]);
        let (na, nb) = (next[0], next[1]);
        builder.when_transition().assert_eq(na, b);
        builder.when_transition().assert_eq(nb, a + b);
    }
}

fn generate_step_trace(rows: usize, a0: u32, b0: u32) -> RowMajorMatrix<F> {
    let mut values = F::zero_vec(rows * 2);
    let (mut a, mut b) = (F::from_u32(a0), F::from_u32(b0));
    for row in 0..rows {
        values[2 * row] = a;
        values[2 * row + 1] = b;
        (a, b) = (b, a + b);
    }
    RowMajorMatrix::new(values, 2)
}

fn make_zk_config(seed: u64) -> MyConfigZk {
    let perm = default_koalabear_poseidon2_16();
    let hash = MyHash::new(perm.clone());
    let compress = MyCompress::new(perm);
    let val_mmcs = MyMmcs::new(hash, compress, 0);
    let challenge_mmcs = ChallengeMmcs::new(val_mmcs.clone());
    let fri_params = FriParameters::new_testing(challenge_mmcs, 0);
    let pcs = MyPcsZk::new(
        Dft::default(),
        val_mmcs,
        fri_params,
        2,
        SmallRng::seed_from_u64(seed),
    );
    MyConfigZk::new(pcs, Challenger::new(default_koalabear_poseidon2_16()))
}

fn fri_verifier_params() -> FriVerifierParams {
    let perm = default_koalabear_poseidon2_16();
    let hash = MyHash::new(perm.clone());
    let compress = MyCompress::new(perm);
    let val_mmcs = MyMmcs::new(hash, compress, 0);
    let fri_params = FriParameters::new_testing(ChallengeMmcs::new(val_mmcs), 0);
    FriVerifierParams::unsafe_arithmetic_only_for_tests(
        fri_params.log_blowup,
        fri_params.log_final_poly_len,
        fri_params.commit_proof_of_work_bits,
        fri_params.query_proof_of_work_bits,
    )
}

struct Proved {
    proof: BatchProof<MyConfigZk>,
    prover_data: ProverData<MyConfigZk>,
}

/// Two-instance ZK batch proof (both instances read the next row), natively verified.
fn prove_two_instances() -> Proved {
    let config = make_zk_config(1);
    let air = StepAir;
    let trace0 = generate_step_trace(1 << 6, 0, 1);
    let trace1 = generate_step_trace(1 << 5, 3, 4);
    let instances = vec![
        StarkInstance {
            air: &air,
            trace: &trace0,
            public_values: vec![],
        },
        StarkInstance {
            air: &air,
            trace: &trace1,
            public_values: vec![],
        },
    ];
    let prover_data = ProverData::from_instances(&config, &instances);
    let proof = prove_batch(&config, &instances, &prover_data);
    verify_batch(
        &config,
        &[air, air],
        &proof,
        &[vec![], vec![]],
        &prover_data.common,
    )
    .expect("native verifier must accept the honest proof");
    Proved { proof, prover_data }
}

/// Builds the recursive verifier for `shape_proof`, optionally pins every hiding random opened
/// value target to the corresponding element of `shape_proof`, then packs and runs `run_proof`.
fn build_and_run(
    shape_proof: &BatchProof<MyConfigZk>,
    run_proof: &BatchProof<MyConfigZk>,
    common: &CommonData<MyConfigZk>,
    pin_positions: bool,
) -> Result<(), String> {
    let config = make_zk_config(2);
    let mut circuit_builder = CircuitBuilder::new();
    circuit_builder.enable_poseidon2_perm::<KoalaBearD4Width16, _>(
        generate_poseidon2_trace::<Challenge, KoalaBearD4Width16>,
        default_koalabear_poseidon2_16(),
    );
    circuit_builder.enable_recompose::<F>(generate_recompose_trace::<F, Challenge>);

    let air_public_counts = vec![0usize; shape_proof.opened_values.instances.len()];
    let verifier_inputs = BatchStarkVerifierInputsBuilder::<
        MyConfigZk,
        MerkleCapTargets<F, DIGEST_ELEMS>,
        InnerFriZk,
    >::allocate(
        &mut circuit_builder,
        shape_proof,
        common,
        &air_public_counts,
    );
    let lookup_gadget = LogUpGadget::new();
    let mmcs_op_ids = verify_batch_circuit::<_, _, _, _, _, _, _, WIDTH, RATE>(
        &config,
        &[StepAir, StepAir],
        &mut circuit_builder,
        &verifier_inputs.proof_targets,
        &verifier_inputs.air_public_targets,
        &fri_verifier_params(),
        &verifier_inputs.common_data,
        &lookup_gadget,
        Poseidon2Config::KOALA_BEAR_D4_W16,
    )
    .map_err(|e| format!("circuit construction failed: {e:?}"))?;

    if pin_positions {
        // The target allocated for rounds[r][m][p][k] must carry proof element [r][m][p][k].
        let targets = &verifier_inputs
            .proof_targets
            .opening_proof
            .random_opened_values
            .rounds;
        let values = &shape_proof.opening_proof.0;
        assert_eq!(targets.len(), values.len(), "round count");
        for (t_round, v_round) in targets.iter().zip(values) {
            assert_eq!(t_round.len(), v_round.len(), "matrix count");
            for (t_mat, v_mat) in t_round.iter().zip(v_round) {
                assert_eq!(t_mat.len(), v_mat.len(), "point count");
                for (t_point, v_point) in t_mat.iter().zip(v_mat) {
                    assert_eq!(t_point.len(), v_point.len(), "value count");
                    for (&t, &v) in t_point.iter().zip(v_point) {
                        let c = circuit_builder.define_const(v);
                        let d = circuit_builder.sub(t, c);
                        circuit_builder.assert_zero(d);
                    }
                }
            }
        }
    }

    let circuit = circuit_builder
        .build()
        .map_err(|e| format!("build failed: {e:?}"))?;
    let (public_inputs, private_inputs) =
        verifier_inputs.pack_values(&[vec![], vec![]], run_proof, common);

    // Property, part 1: exact lengths.
    assert_eq!(
        public_inputs.len(),
        circuit.public_flat_len,
        "public length"
    );
    assert_eq!(
        private_inputs.len(),
        circuit.private_flat_len,
        "private length"
    );

    let mut runner = circuit.runner();
    runner
        .set_public_inputs(&public_inputs)
        .map_err(|e| format!("set_public_inputs: {e:?}"))?;
    runner
        .set_private_inputs(&private_inputs)
        .map_err(|e| format!("set_private_inputs: {e:?}"))?;
    if !mmcs_op_ids.is_empty() {
        set_fri_mmcs_private_data::<
            F,
            Challenge,
            ChallengeMmcs,
            MyMmcs,
            MyHash,
            MyCompress,
            DIGEST_ELEMS,
        >(
            &mut runner,
            &mmcs_op_ids,
            &run_proof.opening_proof.1,
            Poseidon2Config::KOALA_BEAR_D4_W16,
        )
        .map_err(|e| format!("mmcs private data: {e}"))?;
    }
    runner.run().map(|_| ()).map_err(|e| format!("run: {e:?}"))
}

/// Single-field perturbation of `degree_bits`: native rejects, so the circuit (or the packer)
/// must reject as well.
#[test]
fn side_degree_bits_perturbation_is_rejected_like_native() {
    let proved = prove_two_instances();
    let mut bad = prove_two_instances().proof;
    bad.degree_bits[0] += 1;

    let config = make_zk_config(1);
    assert!(
        verify_batch(
            &config,
            &[StepAir, StepAir],
            &bad,
            &[vec![], vec![]],
            &proved.prover_data.common,
        )
        .is_err(),
        "native verifier must reject the proof with a perturbed degree_bits"
    );

    // Circuit allocated from the honest reference proof, values packed from the perturbed one.
    let res = build_and_run(&proved.proof, &bad, &proved.prover_data.common, false);
    assert!(
        res.is_err(),
        "packing ignores degree_bits: the circuit accepts a proof the native verifier rejects"
    );
}
