//! Side observation on the UNMODIFIED tree (C14): FRI commit-phase sibling values are
//! allocated from `log_arity` (`2^log_arity - 1` siblings per step) but packed from
//! `sibling_values` (however many the proof carries). A proof that moves the sibling of
//! commit step 1 into step 0 of the same query (`[s0, s1]`, `[]` instead of `[s0]`, `[s1]`)
//! packs to exactly the private vector of the honest proof: `s1` lands on the input
//! allocated for step 1 although the proof carries it in step 0. The native verifier
//! rejects the proof (`SiblingValuesLengthMismatch`), the recursive one accepts it.
//!
//! Goes in `recursion/tests/side_fri_sibling_recut.rs`. Expected to FAIL on the unmodified
//! tree (and independently of the C14 seed).

mod common;

use p3_baby_bear::default_babybear_poseidon2_16;
use p3_circuit::CircuitBuilder;
use p3_circuit::ops::{generate_poseidon2_trace, generate_recompose_trace};
use p3_matrix::Matrix;
use p3_poseidon2_circuit_air::BabyBearD4Width16;
use p3_recursion::pcs::fri::{FriVerifierParams, MerkleCapTargets};
use p3_recursion::public_inputs::StarkVerifierInputsBuilder;
use p3_recursion::{Poseidon2Config, verify_p3_uni_proof_circuit};
use p3_test_utils::baby_bear_params::*;
use p3_uni_stark::{
    PreprocessedVerifierKey, Proof, prove_with_preprocessed, setup_preprocessed,
    verify_with_preprocessed,
};
use p3_util::log2_ceil_usize;

use crate::common::{InnerFriGeneric, MulAir};

type InnerFri = InnerFriGeneric<MyConfig, MyHash, MyCompress, DIGEST_ELEMS>;
type Inputs = StarkVerifierInputsBuilder<MyConfig, MerkleCapTargets<F, DIGEST_ELEMS>, InnerFri>;

fn fri_params() -> FriVerifierParams {
    let scalars = test_fri_scalars();
    FriVerifierParams::unsafe_arithmetic_only_for_tests(
        scalars.log_blowup,
        scalars.log_final_poly_len,
        scalars.commit_pow_bits,
        scalars.query_pow_bits,
    )
}

fn new_builder() -> CircuitBuilder<Challenge> {
    let mut circuit_builder = CircuitBuilder::new();
    circuit_builder.enable_poseidon2_perm::<BabyBearD4Width16, _>(
        generate_poseidon2_trace::<Challenge, BabyBearD4Width16>,
        default_babybear_poseidon2_16(),
    );
    circuit_builder.enable_recompose::<F>(generate_recompose_trace::<F, Challenge>);
    circuit_builder
}

fn honest_proof() -> (
    MyConfig,
    MulAir,
    Proof<MyConfig>,
    Option<PreprocessedVerifierKey<MyConfig>>,
) {
    let config = make_test_config();
    let air = MulAir {
        degree: 2,
        rows: 1 << 3,
    };
    let (trace, _) = air.random_valid_trace(true);
    let (prover_data, vk) =
        setup_preprocessed(&config, &air, log2_ceil_usize(trace.height())).unzip();
    let proof = prove_with_preprocessed(&config, &air, trace, &[], prover_data.as_ref());
    (config, air, proof, vk)
}

/// The whole recursive pipeline for one proof: allocate from the proof's shape, add the
/// verifier, build, pack, run. `Ok` means the circuit accepted the proof.
fn recursive_verdict(
    config: &MyConfig,
    air: &MulAir,
    proof: &Proof<MyConfig>,
    vk: &Option<PreprocessedVerifierKey<MyConfig>>,
) -> Result<(), String> {
    let mut circuit_builder = new_builder();
    let verifier_inputs = Inputs::allocate(
        &mut circuit_builder,
        proof,
        vk.as_ref().map(|vk| &vk.commitment),
        0,
    );
    verify_p3_uni_proof_circuit::<_, _, _, _, _, _, WIDTH, RATE>(
        config,
        air,
        &mut circuit_builder,
        &verifier_inputs.proof_targets,
        &verifier_inputs.air_public_targets,
        &verifier_inputs.preprocessed_commit,
        &fri_params(),
        Poseidon2Config::BABY_BEAR_D4_W16,
    )
    .map_err(|e| format!("verifier circuit: {e:?}"))?;

    let circuit = circuit_builder
        .build()
        .map_err(|e| format!("build: {e:?}"))?;
    let (public_inputs, private_inputs) = verifier_inputs.pack_values(
        &[],
        proof,
        &vk.as_ref().map(|vk| vk.commitment.clone()),
    );
    let mut runner = circuit.runner();
    runner
        .set_public_inputs(&public_inputs)
        .map_err(|e| format!("public inputs: {e:?}"))?;
    runner
        .set_private_inputs(&private_inputs)
        .map_err(|e| format!("private inputs: {e:?}"))?;
    runner.run().map_err(|e| format!("run: {e:?}"))?;
    Ok(())
}

/// Native and recursive verdicts must agree on a proof whose sibling values are re-cut
/// across two commit steps of one query.
#[test]
fn recut_fri_sibling_values_are_rejected_like_natively() {
    let (config, air, mut proof, vk) = honest_proof();

    verify_with_preprocessed(&config, &air, &proof, &[], vk.as_ref())
        .expect("native verifier accepts the honest proof");
    recursive_verdict(&config, &air, &proof, &vk)
        .expect("recursive verifier accepts the honest proof");

    let steps = &mut proof.opening_proof.query_proofs[0].commit_phase_openings;
    assert!(steps.len() >= 2, "need two commit phases");
    assert!(steps.iter().all(|s| s.log_arity == 1 && s.sibling_values.len() == 1));
    let moved = steps[1].sibling_values.remove(0);
    steps[0].sibling_values.push(moved);

    let native = verify_with_preprocessed(&config, &air, &proof, &[], vk.as_ref());
    assert!(native.is_err(), "native verifier must reject the re-cut proof");

    let recursive = recursive_verdict(&config, &air, &proof, &vk);
    assert!(
        recursive.is_err(),
        "native verifier rejects ({:?}) but the recursive verifier accepted the re-cut proof",
        native.err()
    );
}
