//! Side observation (C15) on the UNMODIFIED tree — goes in `recursion/tests/`.
//!
//! Hiding-MMCS salts are a prover-supplied list (`BatchOpening::opening_proof.0`, one salt of
//! `SALT_ELEMS` elements per opened matrix). The native `MerkleTreeHidingMmcs::verify_batch`
//! rejects an opening whose salt list does not have one entry per matrix (`zip_eq`,
//! `WrongBatchSize`) and whose salted row is not `width + SALT_ELEMS` wide. The in-circuit
//! verifier only compares the number of salts with the number of matrices when the list is
//! non-empty (`open_input`: `Some(s) if !s.is_empty()`, `verify_fri_circuit`:
//! `phase_salts.is_empty() -> None`) and never compares a salt's length with `SALT_ELEMS`:
//! a proof with the salts of an opening removed, or with a short salt, builds a circuit (`Ok`)
//! that hashes the leaf unsalted / with the short salt.

mod common;

use p3_air::{Air, AirBuilder, BaseAir, WindowAccess};
use p3_batch_stark::{BatchProof, ProverData, StarkInstance, prove_batch, verify_batch};
use p3_circuit::CircuitBuilder;
use p3_circuit::ops::{generate_poseidon2_trace, generate_recompose_trace};
use p3_commit::ExtensionMmcs;
use p3_field::Field;
use p3_fri::{FriParameters, HidingFriPcs};
use p3_lookup::logup::LogUpGadget;
use p3_matrix::dense::RowMajorMatrix;
use p3_merkle_tree::MerkleTreeHidingMmcs;
use p3_poseidon2_circuit_air::KoalaBearD4Width16;
use p3_recursion::pcs::fri::{
    FriVerifierParams, HidingFriProofTargets, InputProofTargets, MerkleCapTargets,
    RecExtensionValMmcs, RecValHidingMmcs, Witness,
};
use p3_recursion::{
    BatchStarkVerifierInputsBuilder, Poseidon2Config, VerificationError, verify_batch_circuit,
};
use p3_test_utils::koala_bear_params::*;
use rand::SeedableRng;
use rand::rngs::SmallRng;

/// Number of random salt elements appended to each Merkle leaf by the hiding MMCS.
const SALT_ELEMS: usize = 4;

type Rng = SmallRng;

// Hiding (salted) MMCSs for the inner ZK proof.
type HidingValMmcs = MerkleTreeHidingMmcs<
    <F as Field>::Packing,
    <F as Field>::Packing,
    MyHash,
    MyCompress,
    Rng,
    2,
    DIGEST_ELEMS,
    SALT_ELEMS,
>;
type HidingChallengeMmcs = ExtensionMmcs<F, Challenge, HidingValMmcs>;

type MyPcsZk = HidingFriPcs<F, Dft, HidingValMmcs, HidingChallengeMmcs, Rng>;
type MyConfigZk = StarkConfig<MyPcsZk, Challenge, Challenger>;

type RecHidingValMmcs = RecValHidingMmcs<F, DIGEST_ELEMS, SALT_ELEMS, MyHash, MyCompress, Rng>;
type InnerFriZk = HidingFriProofTargets<
    F,
    Challenge,
    RecExtensionValMmcs<F, Challenge, DIGEST_ELEMS, RecHidingValMmcs>,
    InputProofTargets<F, Challenge, RecHidingValMmcs>,
    Witness<F>,
>;

#[derive(Clone, Copy)]
struct AddAir;

impl<Val: Field> BaseAir<Val> for AddAir {
    fn width(&self) -> usize {
        3
    }
}

impl<AB: AirBuilder> Air<AB> for AddAir
where
    AB::F: Field,
{
    fn eval(&self, builder: &mut AB) {
        let main = builder.main();
        let row = main.current_slice();
        builder.assert_zero(row[0] + row[1] - row[2]);
    }
}

fn generate_add_trace<Val: Field>(rows: usize) -> RowMajorMatrix<Val> {
    let width = 3;
    let mut values = Val::zero_vec(rows * width);
    for row in 0..rows {
        let idx = row * width;
        let a = Val::from_usize(row);
        let b = Val::from_usize(row + 1);
        values[idx] = a;
        values[idx + 1] = b;
        values[idx + 2] = a + b;
    }
    RowMajorMatrix::new(values, width)
}


/// Prove `AddAir` with hiding MMCSs, let `tamper` alter the proof, and return the result of
/// building the recursive verifier circuit (in-circuit MMCS verification enabled).
fn build_with(tamper: impl FnOnce(&mut BatchProof<MyConfigZk>)) -> Result<(), VerificationError> {
    let air = AddAir;
    let trace = generate_add_trace::<F>(1 << 6);
    let pvs = vec![vec![]];

    let perm = default_koalabear_poseidon2_16();
    let hash = MyHash::new(perm.clone());
    let compress = MyCompress::new(perm.clone());
    let val_mmcs = HidingValMmcs::new(hash, compress, 0, SmallRng::seed_from_u64(11));
    let challenge_mmcs = HidingChallengeMmcs::new(val_mmcs.clone());
    let fri_params = FriParameters::new_testing(challenge_mmcs, 0);
    let pcs_proving = MyPcsZk::new(
        Dft::default(),
        val_mmcs,
        fri_params,
        2,
        SmallRng::seed_from_u64(1),
    );
    let config_proving = MyConfigZk::new(pcs_proving, Challenger::new(perm));

    let instances = vec![StarkInstance {
        air: &air,
        trace: &trace,
        public_values: pvs[0].clone(),
    }];
    let prover_data = ProverData::from_instances(&config_proving, &instances);
    let common = &prover_data.common;
    let mut proof = prove_batch(&config_proving, &instances, &prover_data);
    verify_batch(&config_proving, &[air], &proof, &pvs, common).unwrap();

    tamper(&mut proof);

    let perm2 = default_koalabear_poseidon2_16();
    let hash2 = MyHash::new(perm2.clone());
    let compress2 = MyCompress::new(perm2.clone());
    let val_mmcs2 = HidingValMmcs::new(hash2, compress2, 0, SmallRng::seed_from_u64(22));
    let challenge_mmcs2 = HidingChallengeMmcs::new(val_mmcs2.clone());
    let fri_params2 = FriParameters::new_testing(challenge_mmcs2, 0);
    let fri_verifier_params = FriVerifierParams::with_mmcs(
        fri_params2.log_blowup,
        fri_params2.log_final_poly_len,
        fri_params2.commit_proof_of_work_bits,
        fri_params2.query_proof_of_work_bits,
        Poseidon2Config::KOALA_BEAR_D4_W16,
    );
    let pcs_verif = MyPcsZk::new(
        Dft::default(),
        val_mmcs2,
        fri_params2,
        2,
        SmallRng::seed_from_u64(2),
    );
    let config = MyConfigZk::new(pcs_verif, Challenger::new(perm2.clone()));

    let mut circuit_builder = CircuitBuilder::new();
    circuit_builder.enable_poseidon2_perm::<KoalaBearD4Width16, _>(
        generate_poseidon2_trace::<Challenge, KoalaBearD4Width16>,
        perm2,
    );
    circuit_builder.enable_recompose::<F>(generate_recompose_trace::<F, Challenge>);

    let lookup_gadget = LogUpGadget::new();
    let air_public_counts = vec![0usize; proof.opened_values.instances.len()];
    let verifier_inputs = BatchStarkVerifierInputsBuilder::<
        MyConfigZk,
        MerkleCapTargets<F, DIGEST_ELEMS>,
        InnerFriZk,
    >::allocate(&mut circuit_builder, &proof, common, &air_public_counts);
    verify_batch_circuit::<_, _, _, _, _, _, _, WIDTH, RATE>(
        &config,
        &[air],
        &mut circuit_builder,
        &verifier_inputs.proof_targets,
        &verifier_inputs.air_public_targets,
        &fri_verifier_params,
        &verifier_inputs.common_data,
        &lookup_gadget,
        Poseidon2Config::KOALA_BEAR_D4_W16,
    )
    .map(|_| ())
}

#[test]
fn honest_hiding_proof_builds() {
    build_with(|_| {}).expect("the honest hiding proof builds a verifier circuit");
}

/// The salts of one input batch opening are removed: one salt per matrix is the well-formed shape.
#[test]
fn input_opening_without_salts_is_rejected() {
    let res = build_with(|proof| {
        let opening = &mut proof.opening_proof.1.query_proofs[0].input_proof[0];
        assert!(!opening.opening_proof.0.is_empty(), "hiding openings carry salts");
        opening.opening_proof.0.clear();
    });
    assert!(
        matches!(res, Err(VerificationError::InvalidProofShape(_))),
        "an input opening with its salts removed must be rejected, got {res:?}"
    );
}

/// A salt with fewer than `SALT_ELEMS` elements.
#[test]
fn input_opening_with_a_short_salt_is_rejected() {
    let res = build_with(|proof| {
        let opening = &mut proof.opening_proof.1.query_proofs[0].input_proof[0];
        assert_eq!(opening.opening_proof.0[0].len(), SALT_ELEMS);
        opening.opening_proof.0[0].pop();
    });
    assert!(
        matches!(res, Err(VerificationError::InvalidProofShape(_))),
        "a salt of {} elements instead of {SALT_ELEMS} must be rejected, got {res:?}",
        SALT_ELEMS - 1
    );
}

/// The salts of a commit-phase opening are removed.
#[test]
fn commit_phase_opening_without_salts_is_rejected() {
    let res = build_with(|proof| {
        let step = &mut proof.opening_proof.1.query_proofs[0].commit_phase_openings[0];
        assert!(!step.opening_proof.0.is_empty(), "hiding openings carry salts");
        step.opening_proof.0.clear();
    });
    assert!(
        matches!(res, Err(VerificationError::InvalidProofShape(_))),
        "a commit-phase opening with its salts removed must be rejected, got {res:?}"
    );
}

/// Control: a salt list that is non-empty but of the wrong length IS rejected today.
#[test]
fn input_opening_with_one_salt_too_many_is_rejected() {
    let res = build_with(|proof| {
        let opening = &mut proof.opening_proof.1.query_proofs[0].input_proof[0];
        let extra = opening.opening_proof.0[0].clone();
        opening.opening_proof.0.push(extra);
    });
    assert!(
        matches!(res, Err(VerificationError::InvalidProofShape(_))),
        "a salt list longer than the matrix list must be rejected, got {res:?}"
    );
}
