//! Side observations on the UNMODIFIED code (C15): structural alterations of an honest
//! batch proof for which `verify_batch_circuit` PANICS instead of returning a typed error.
//! Every test asserts the property (typed `InvalidProofShape`), so every test that fails
//! exposes a violation. Place in `recursion/tests/` to run.

mod common;

use std::panic::{AssertUnwindSafe, catch_unwind};

use p3_air::{Air, AirBuilder, BaseAir, WindowAccess};
use p3_baby_bear::default_babybear_poseidon2_16;
use p3_batch_stark::{BatchProof, ProverData, StarkInstance, prove_batch, verify_batch};
use p3_circuit::CircuitBuilder;
use p3_circuit::ops::{generate_poseidon2_trace, generate_recompose_trace};
use p3_field::{Field, PrimeCharacteristicRing};
use p3_lookup::logup::LogUpGadget;
use p3_matrix::dense::RowMajorMatrix;
use p3_poseidon2_circuit_air::BabyBearD4Width16;
use p3_recursion::pcs::MerkleCapTargets;
use p3_recursion::{
    BatchStarkVerifierInputsBuilder, FriVerifierParams, Poseidon2Config, VerificationError,
    verify_batch_circuit,
};
use p3_symmetric::MerkleCap;
use p3_test_utils::baby_bear_params::*;
use p3_test_utils::test_fri_scalars;

use crate::common::InnerFriGeneric;

type InnerFri = InnerFriGeneric<MyConfig, MyHash, MyCompress, DIGEST_ELEMS>;

/// `a + b = c`, no preprocessed columns, no next-row access.
#[derive(Clone, Copy)]
struct AddAir {
    rows: usize,
}

impl AddAir {
    fn trace<Val: Field>(&self) -> RowMajorMatrix<Val> {
        let mut v = Val::zero_vec(self.rows * 3);
        for row in 0..self.rows {
            let a = Val::from_usize(row);
            let b = Val::from_usize(row + 1);
            v[row * 3] = a;
            v[row * 3 + 1] = b;
            v[row * 3 + 2] = a + b;
        }
        RowMajorMatrix::new(v, 3)
    }
}

impl<Val: Field> BaseAir<Val> for AddAir {
    fn width(&self) -> usize {
        3
    }
}

impl<AB: AirBuilder> Air<AB> for AddAir
where
    AB::F: Field,
{
    fn eval(&self, builder: &mut AB) {
        let main = builder.main();
        let l = main.current_slice();
        builder.assert_zero(l[0] + l[1] - l[2]);
    }
}

#[derive(Clone, Copy, Debug)]
enum Mode {
    ArithmeticOnly,
    WithMmcs,
}

fn params(mode: Mode) -> FriVerifierParams {
    let s = test_fri_scalars();
    match mode {
        Mode::ArithmeticOnly => FriVerifierParams::unsafe_arithmetic_only_for_tests(
            s.log_blowup,
            s.log_final_poly_len,
            s.commit_pow_bits,
            s.query_pow_bits,
        ),
        Mode::WithMmcs => FriVerifierParams::with_mmcs(
            s.log_blowup,
            s.log_final_poly_len,
            s.commit_pow_bits,
            s.query_pow_bits,
            Poseidon2Config::BABY_BEAR_D4_W16,
        ),
    }
}

/// `Err(None)` = the builder panicked.
fn build_verifier(
    mode: Mode,
    tamper: impl FnOnce(&mut BatchProof<MyConfig>),
) -> Result<(), Option<VerificationError>> {
    let n = 1 << 3;
    let config = make_test_config();
    let perm = default_babybear_poseidon2_16();

    let air0 = AddAir { rows: n };
    let air1 = AddAir { rows: n };
    let trace0 = air0.trace::<F>();
    let trace1 = air1.trace::<F>();
    let instances = vec![
        StarkInstance {
            air: &air0,
            trace: &trace0,
            public_values: vec![],
        },
        StarkInstance {
            air: &air1,
            trace: &trace1,
            public_values: vec![],
        },
    ];
    let prover_data = ProverData::from_instances(&config, &instances);
    let common_data = &prover_data.common;
    let mut batch_proof = prove_batch(&config, &instances, &prover_data);
    let airs = vec![air0, air1];
    let pvs: Vec<Vec<F>> = vec![vec![], vec![]];
    verify_batch(&config, &airs, &batch_proof, &pvs, common_data).expect("honest proof verifies");

    tamper(&mut batch_proof);

    let lookup_gadget = LogUpGadget::new();
    let pcs_verifier_params = params(mode);

    let res = catch_unwind(AssertUnwindSafe(|| {
        let mut cb = CircuitBuilder::new();
        cb.enable_poseidon2_perm::<BabyBearD4Width16, _>(
            generate_poseidon2_trace::<Challenge, BabyBearD4Width16>,
            perm,
        );
        cb.enable_recompose::<F>(generate_recompose_trace::<F, Challenge>);
        let counts = vec![0usize; batch_proof.opened_values.instances.len()];
        let vi = BatchStarkVerifierInputsBuilder::<
            MyConfig,
            MerkleCapTargets<F, DIGEST_ELEMS>,
            InnerFri,
        >::allocate(&mut cb, &batch_proof, common_data, &counts);
        verify_batch_circuit::<_, _, _, _, _, _, _, WIDTH, RATE>(
            &config,
            &airs,
            &mut cb,
            &vi.proof_targets,
            &vi.air_public_targets,
            &pcs_verifier_params,
            &vi.common_data,
            &lookup_gadget,
            Poseidon2Config::BABY_BEAR_D4_W16,
        )
        .map(|_| ())
    }));
    match res {
        Ok(Ok(())) => Ok(()),
        Ok(Err(e)) => Err(Some(e)),
        Err(_) => Err(None),
    }
}

fn assert_rejected(what: &str, out: Result<(), Option<VerificationError>>) {
    assert!(
        matches!(out, Err(Some(_))),
        "{what}: expected a typed error; got {out:?}  (Err(None) = PANIC, Ok = accepted)"
    );
}

#[test]
fn honest_builds() {
    for mode in [Mode::ArithmeticOnly, Mode::WithMmcs] {
        build_verifier(mode, |_| {}).unwrap_or_else(|e| panic!("{mode:?}: {e:?}"));
    }
}

/// S1: one commit-phase PoW witness removed (list shortened).
#[test]
fn s1_commit_pow_witnesses_shortened() {
    let out = build_verifier(Mode::ArithmeticOnly, |p| {
        p.opening_proof.commit_pow_witnesses.pop();
    });
    assert_rejected("commit_pow_witnesses.pop()", out);
}

/// S1b: one commit-phase PoW witness added (list lengthened) -- control.
#[test]
fn s1b_commit_pow_witnesses_lengthened() {
    let out = build_verifier(Mode::ArithmeticOnly, |p| {
        let w = p.opening_proof.commit_pow_witnesses[0];
        p.opening_proof.commit_pow_witnesses.push(w);
    });
    assert_rejected("commit_pow_witnesses.push()", out);
}

/// S2: degree_bits of an instance WITHOUT preprocessed columns raised by one.
#[test]
fn s2_degree_bits_raised_no_preprocessed() {
    for mode in [Mode::ArithmeticOnly, Mode::WithMmcs] {
        let out = build_verifier(mode, |p| p.degree_bits[0] += 1);
        assert_rejected(&format!("{mode:?} degree_bits[0] += 1"), out);
    }
}

/// S2b: degree_bits set far out of range (shift width).
#[test]
fn s2b_degree_bits_huge() {
    let out = build_verifier(Mode::ArithmeticOnly, |p| p.degree_bits[0] = 70);
    assert_rejected("degree_bits[0] = 70", out);
}

/// S4: trace commitment cap lengthened to 64 roots (more roots than the batch has leaves:
/// the tallest LDE here has 2^5 rows).
#[test]
fn s4_trace_cap_longer_than_tree() {
    let out = build_verifier(Mode::WithMmcs, |p| {
        let root = p.commitments.main.roots()[0];
        p.commitments.main = MerkleCap::new(vec![root; 64]);
    });
    assert_rejected("commitments.main cap x64", out);
}

/// S4a: trace commitment cap lengthened to 32 roots. The MMCS of the config has cap height 0
/// (one root); the circuit builder silently adopts whatever cap size the proof carries.
#[test]
fn s4a_trace_cap_lengthened_is_adopted() {
    let out = build_verifier(Mode::WithMmcs, |p| {
        let root = p.commitments.main.roots()[0];
        p.commitments.main = MerkleCap::new(vec![root; 32]);
    });
    assert_rejected("commitments.main cap x32", out);
}

/// S5: last FRI commit-phase cap lengthened to 8 roots (folded codeword has 4 rows).
#[test]
fn s5_commit_phase_cap_longer_than_tree() {
    let out = build_verifier(Mode::WithMmcs, |p| {
        let last = p.opening_proof.commit_phase_commits.len() - 1;
        let root = p.opening_proof.commit_phase_commits[last].roots()[0];
        p.opening_proof.commit_phase_commits[last] = MerkleCap::new(vec![root; 8]);
    });
    assert_rejected("last commit-phase cap x8", out);
}

/// S5a: last FRI commit-phase cap lengthened to 4 roots: adopted silently.
#[test]
fn s5a_commit_phase_cap_lengthened_is_adopted() {
    let out = build_verifier(Mode::WithMmcs, |p| {
        let last = p.opening_proof.commit_phase_commits.len() - 1;
        let root = p.opening_proof.commit_phase_commits[last].roots()[0];
        p.opening_proof.commit_phase_commits[last] = MerkleCap::new(vec![root; 4]);
    });
    assert_rejected("last commit-phase cap x4", out);
}

/// S7: all query proofs but one removed (query count is not tied to any parameter).
#[test]
fn s7_queries_truncated_to_one() {
    let out = build_verifier(Mode::WithMmcs, |p| p.opening_proof.query_proofs.truncate(1));
    assert_rejected("query_proofs.truncate(1)", out);
}
