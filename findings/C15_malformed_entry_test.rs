//! Side observations on the UNMODIFIED code (C15), top-level entry point
//! `verify_p3_batch_proof_circuit` (the function `build_next_layer_circuit` goes through).
//! Every test asserts the property (typed error); a failing test exposes a violation.
//! Place in `recursion/tests/` to run.

mod common;

use std::panic::{AssertUnwindSafe, catch_unwind};

use p3_baby_bear::default_babybear_poseidon2_16;
use p3_batch_stark::ProverData;
use p3_circuit::CircuitBuilder;
use p3_circuit::ops::{Poseidon2Config, generate_poseidon2_trace, generate_recompose_trace};
use p3_circuit_prover::common::get_airs_and_degrees_with_prep;
use p3_circuit_prover::{
    BatchStarkProof, BatchStarkProver, CircuitProverData, ConstraintProfile, TablePacking,
};
use p3_field::PrimeCharacteristicRing;
use p3_lookup::logup::LogUpGadget;
use p3_poseidon2_circuit_air::BabyBearD4Width16;
use p3_recursion::VerificationError;
use p3_recursion::pcs::fri::{FriVerifierParams, InputProofTargets, MerkleCapTargets, RecValMmcs};
use p3_recursion::verifier::verify_p3_batch_proof_circuit;
use p3_test_utils::baby_bear_params::*;
use p3_test_utils::test_fri_scalars;

use crate::common::InnerFriGeneric;

const TRACE_D: usize = 1;
type InnerFri = InnerFriGeneric<MyConfig, MyHash, MyCompress, DIGEST_ELEMS>;

fn get_circuit(n: usize) -> CircuitBuilder<F> {
    let mut builder = CircuitBuilder::<F>::new();
    let x = builder.public_input();
    let a = builder.public_input();
    let b = builder.public_input();
    let expected_result = builder.public_input();
    let mut y = builder.mul(a, x);
    y = builder.add(b, y);
    for _ in 0..n {
        y = builder.mul(a, y);
        y = builder.add(b, y);
    }
    builder.connect(y, expected_result);
    builder
}

fn repeated_arith(a: usize, b: usize, x: usize, n: usize) -> usize {
    let mut y = a * x + b;
    for _ in 0..n {
        y = a * y + b;
    }
    y
}

fn honest() -> (BatchStarkProof<MyConfig>, CircuitProverData<MyConfig>) {
    let n = 10;
    let table_packing = TablePacking::new(4, 4);
    let config_proving = make_test_config();
    let circuit = get_circuit(n).build().unwrap();
    let (airs_degrees, primitive_columns, non_primitive_columns) =
        get_airs_and_degrees_with_prep::<MyConfig, F, 1>(
            &circuit,
            &table_packing,
            &[],
            &[],
            ConstraintProfile::Standard,
        )
        .unwrap();
    let (airs, degrees): (Vec<_>, Vec<usize>) = airs_degrees.into_iter().unzip();
    let mut runner = circuit.runner();
    runner
        .set_public_inputs(&[
            F::from_usize(7),
            F::from_usize(3),
            F::from_usize(5),
            F::from_usize(repeated_arith(3, 5, 7, n)),
        ])
        .unwrap();
    let traces = runner.run().unwrap();
    let prover_data = ProverData::from_airs_and_degrees(&config_proving, &airs, &degrees);
    let cpd = CircuitProverData::new(prover_data, primitive_columns, non_primitive_columns);
    let prover = BatchStarkProver::new(config_proving).with_table_packing(table_packing);
    let proof = prover.prove_all_tables(&traces, &cpd).unwrap();
    prover
        .verify_all_tables::<F>(&proof)
        .expect("honest proof verifies natively");
    (proof, cpd)
}

/// `Err(None)` = panic.
fn build(
    tamper: impl FnOnce(&mut BatchStarkProof<MyConfig>),
) -> Result<(), Option<VerificationError>> {
    build2(|p, _| tamper(p))
}

/// Like `build`, but the companion common data can be altered too.
fn build2(
    tamper: impl FnOnce(&mut BatchStarkProof<MyConfig>, &mut p3_batch_stark::CommonData<MyConfig>),
) -> Result<(), Option<VerificationError>> {
    let (mut proof, mut cpd) = honest();
    tamper(&mut proof, &mut cpd.prover_data.common);
    let common = cpd.common_data();
    let s = test_fri_scalars();
    let params = FriVerifierParams::unsafe_arithmetic_only_for_tests(
        s.log_blowup,
        s.log_final_poly_len,
        s.commit_pow_bits,
        s.query_pow_bits,
    );
    let config = make_test_config();
    let lookup_gadget = LogUpGadget::new();
    let res = catch_unwind(AssertUnwindSafe(|| {
        let mut cb = CircuitBuilder::<Challenge>::new();
        cb.enable_poseidon2_perm::<BabyBearD4Width16, _>(
            generate_poseidon2_trace::<Challenge, BabyBearD4Width16>,
            default_babybear_poseidon2_16(),
        );
        cb.enable_recompose::<F>(generate_recompose_trace::<F, Challenge>);
        verify_p3_batch_proof_circuit::<
            MyConfig,
            MerkleCapTargets<F, DIGEST_ELEMS>,
            InputProofTargets<F, Challenge, RecValMmcs<F, DIGEST_ELEMS, MyHash, MyCompress>>,
            InnerFri,
            LogUpGadget,
            _,
            WIDTH,
            RATE,
            TRACE_D,
        >(
            &config,
            &mut cb,
            &proof,
            &params,
            common,
            &lookup_gadget,
            Poseidon2Config::BABY_BEAR_D4_W16,
            &[],
        )
        .map(|_| ())
    }));
    match res {
        Ok(Ok(())) => Ok(()),
        Ok(Err(e)) => Err(Some(e)),
        Err(_) => Err(None),
    }
}

fn assert_rejected(what: &str, out: Result<(), Option<VerificationError>>) {
    assert!(
        matches!(out, Err(Some(VerificationError::InvalidProofShape(_)))),
        "{what}: expected Err(InvalidProofShape); got {out:?}  (Err(None) = PANIC, Ok = accepted)"
    );
}

#[test]
fn honest_builds() {
    build(|_| {}).unwrap_or_else(|e| panic!("{e:?}"));
}

/// S3: one per-instance opened-values entry removed (instance list shortened).
#[test]
fn s3_instances_shortened() {
    assert_rejected(
        "opened_values.instances.pop()",
        build(|p| {
            p.proof.opened_values.instances.pop();
        }),
    );
}

/// S3b: `degree_bits` shortened instead: rejected properly (control).
#[test]
fn s3b_degree_bits_shortened() {
    assert_rejected(
        "degree_bits.pop()",
        build(|p| {
            p.proof.degree_bits.pop();
        }),
    );
}

/// S3c: lookup terminal list shortened.
#[test]
fn s3c_lookup_terminals_shortened() {
    assert_rejected(
        "lookup_terminals.pop()",
        build(|p| {
            p.proof.lookup_terminals.pop();
        }),
    );
}

/// S6: the (prover-supplied) common data lists no lookups for table `i` although its AIR
/// declares bus interactions, and the proof carries no permutation openings for it. The
/// terminal of table `i` is still summed into the cross-table check, but none of its LogUp
/// constraints would be evaluated: the circuit would check less than the well-formed shape.
#[test]
fn s6_lookups_of_one_table_emptied_with_its_permutation_openings() {
    for i in 0..3 {
        let out = build2(|p, common| {
            common.lookups[i] = p3_lookup::Lookups::default();
            p.proof.opened_values.instances[i].permutation_local.clear();
            p.proof.opened_values.instances[i].permutation_next.clear();
        });
        assert_rejected(&format!("lookups[{i}] emptied + permutation openings emptied"), out);
    }
}
