//! C15 side observation (unmodified tree): `CommonData::preprocessed.matrix_to_instance` is only
//! bounds-checked. If it is shortened, an instance that still carries preprocessed metadata
//! (`instances[i] = Some(meta)`) and whose proof still opens `meta.width` preprocessed columns
//! is never added to the preprocessed PCS round: its `preprocessed_local/next` openings feed the
//! AIR constraints but are not tied to the preprocessed commitment. With the honest proof the
//! left-over matrix in every query's batch opening is caught by `zip_eq` in `open_input`; once
//! that list is shortened accordingly, `verify_batch_circuit` returns `Ok`.
//!
//! Goes in `recursion/tests/side_matrix_to_instance_shortened.rs`. FAILS on the unmodified tree.

mod common;

use p3_baby_bear::default_babybear_poseidon2_16;
use p3_batch_stark::{BatchProof, CommonData, ProverData, StarkInstance, prove_batch, verify_batch};
use p3_circuit::CircuitBuilder;
use p3_circuit::ops::{generate_poseidon2_trace, generate_recompose_trace};
use p3_lookup::logup::LogUpGadget;
use p3_poseidon2_circuit_air::BabyBearD4Width16;
use p3_recursion::pcs::MerkleCapTargets;
use p3_recursion::{
    BatchStarkVerifierInputsBuilder, FriVerifierParams, Poseidon2Config, VerificationError,
    verify_batch_circuit,
};
use p3_test_utils::baby_bear_params::*;

use crate::common::{InnerFriGeneric, MulAir};

type InnerFri = InnerFriGeneric<MyConfig, MyHash, MyCompress, DIGEST_ELEMS>;

fn run(
    tamper: impl FnOnce(&mut CommonData<MyConfig>, &mut BatchProof<MyConfig>),
) -> (bool, Result<(), VerificationError>) {
    let n = 1 << 3;
    let scalars = test_fri_scalars();
    let fri_verifier_params = FriVerifierParams::unsafe_arithmetic_only_for_tests(
        scalars.log_blowup,
        scalars.log_final_poly_len,
        scalars.commit_pow_bits,
        scalars.query_pow_bits,
    );
    let config = make_test_config();

    // Two instances, both with preprocessed columns: matrix_to_instance = [0, 1].
    let air0 = MulAir { degree: 2, rows: n };
    let air1 = MulAir { degree: 2, rows: n };
    let trace0 = air0.random_valid_trace::<F>(true).0;
    let trace1 = air1.random_valid_trace::<F>(true).0;
    let instances = vec![
        StarkInstance {
            air: &air0,
            trace: &trace0,
            public_values: vec![],
        },
        StarkInstance {
            air: &air1,
            trace: &trace1,
            public_values: vec![],
        },
    ];

    let mut prover_data = ProverData::from_instances(&config, &instances);
    let lookup_gadget = LogUpGadget::new();
    let mut batch_proof = prove_batch(&config, &instances, &prover_data);
    let airs = vec![air0, air1];
    let pvs = vec![vec![], vec![]];
    verify_batch(&config, &airs, &batch_proof, &pvs, &prover_data.common)
        .expect("honest proof verifies natively");

    tamper(&mut prover_data.common, &mut batch_proof);
    let common_data = &prover_data.common;
    let native_rejects =
        verify_batch(&config, &airs, &batch_proof, &pvs, common_data).is_err();

    let mut circuit_builder = CircuitBuilder::new();
    circuit_builder.enable_poseidon2_perm::<BabyBearD4Width16, _>(
        generate_poseidon2_trace::<Challenge, BabyBearD4Width16>,
        default_babybear_poseidon2_16(),
    );
    circuit_builder.enable_recompose::<F>(generate_recompose_trace::<F, Challenge>);

    let air_public_counts = vec![0usize; batch_proof.opened_values.instances.len()];
    let verifier_inputs = BatchStarkVerifierInputsBuilder::<
        MyConfig,
        MerkleCapTargets<F, DIGEST_ELEMS>,
        InnerFri,
    >::allocate(
        &mut circuit_builder,
        &batch_proof,
        common_data,
        &air_public_counts,
    );

    let res = verify_batch_circuit::<_, _, _, _, _, _, _, WIDTH, RATE>(
        &config,
        &airs,
        &mut circuit_builder,
        &verifier_inputs.proof_targets,
        &verifier_inputs.air_public_targets,
        &fri_verifier_params,
        &verifier_inputs.common_data,
        &lookup_gadget,
        Poseidon2Config::BABY_BEAR_D4_W16,
    )
    .map(|_| ());
    (native_rejects, res)
}

#[test]
fn untampered_builds() {
    let (native_rejects, res) = run(|_, _| {});
    assert!(!native_rejects);
    res.expect("honest proof and common data build a circuit");
}

/// Single alteration (common data only): rejected, but only because the honest proof still
/// carries the second preprocessed matrix in every query opening.
#[test]
fn shortened_matrix_to_instance_alone_is_rejected() {
    let (_, res) = run(|common, _| {
        common
            .preprocessed
            .as_mut()
            .unwrap()
            .matrix_to_instance
            .pop();
    });
    assert!(
        matches!(res, Err(VerificationError::InvalidProofShape(_))),
        "got {res:?}"
    );
}

/// Companion alteration of the proof (the per-query batch opening of the preprocessed round
/// loses its last matrix too): instance 1 keeps `Some(meta)` and its preprocessed openings, but
/// they are never opened against the commitment. Must be an error; the unmodified tree builds.
#[test]
fn shortened_matrix_to_instance_with_matching_query_openings_is_rejected() {
    let (native_rejects, res) = run(|common, proof| {
        common
            .preprocessed
            .as_mut()
            .unwrap()
            .matrix_to_instance
            .pop();
        // Rounds (non-ZK, no lookups): trace, quotient, preprocessed.
        for query in &mut proof.opening_proof.query_proofs {
            assert_eq!(query.input_proof.len(), 3);
            query.input_proof[2].opened_values.pop();
        }
    });
    eprintln!("native verify_batch rejects the altered pair: {native_rejects}");
    assert!(
        matches!(res, Err(VerificationError::InvalidProofShape(_))),
        "instance 1 still has preprocessed metadata and openings, but no preprocessed matrix is \
         opened for it: expected InvalidProofShape, got {res:?}"
    );
}
