//! Side observations for C15 on the UNMODIFIED tree (goes into `recursion/tests/`).
//!
//! Every test builds the recursive uni-STARK verifier circuit from a structurally malformed
//! proof / parameter set and asserts the property: the result is `Err(InvalidProofShape)`,
//! never a panic and never `Ok`.

mod common;

use p3_baby_bear::default_babybear_poseidon2_16;
use p3_circuit::CircuitBuilder;
use p3_circuit::ops::{generate_poseidon2_trace, generate_recompose_trace};
use p3_circuit::test_utils::{FibonacciAir, generate_trace_rows};
use p3_field::PrimeCharacteristicRing;
use p3_matrix::Matrix;
use p3_poseidon2_circuit_air::BabyBearD4Width16;
use p3_recursion::pcs::fri::{FriVerifierParams, MerkleCapTargets};
use p3_recursion::public_inputs::StarkVerifierInputsBuilder;
use p3_recursion::{Poseidon2Config, VerificationError, verify_p3_uni_proof_circuit};
use p3_test_utils::baby_bear_params::*;
use p3_uni_stark::{
    PreprocessedVerifierKey, Proof, prove, prove_with_preprocessed, setup_preprocessed,
};
use p3_util::log2_ceil_usize;

use crate::common::{InnerFriGeneric, MulAir};

type InnerFri = InnerFriGeneric<MyConfig, MyHash, MyCompress, DIGEST_ELEMS>;

fn arithmetic_only_params() -> FriVerifierParams {
    let scalars = test_fri_scalars();
    FriVerifierParams::unsafe_arithmetic_only_for_tests(
        scalars.log_blowup,
        scalars.log_final_poly_len,
        scalars.commit_pow_bits,
        scalars.query_pow_bits,
    )
}

fn new_builder() -> CircuitBuilder<Challenge> {
    let mut circuit_builder = CircuitBuilder::new();
    circuit_builder.enable_poseidon2_perm::<BabyBearD4Width16, _>(
        generate_poseidon2_trace::<Challenge, BabyBearD4Width16>,
        default_babybear_poseidon2_16(),
    );
    circuit_builder.enable_recompose::<F>(generate_recompose_trace::<F, Challenge>);
    circuit_builder
}

/// Outcome of building the verifier circuit, with panics made observable.
fn expect_shape_error(what: &str, f: impl FnOnce() -> Result<(), VerificationError>) {
    match std::panic::catch_unwind(std::panic::AssertUnwindSafe(f)) {
        Err(_) => panic!("{what}: building the verifier circuit PANICKED"),
        Ok(Err(VerificationError::InvalidProofShape(_))) => {}
        Ok(other) => panic!("{what}: expected Err(InvalidProofShape), got {other:?}"),
    }
}

fn build_mul(
    config: &MyConfig,
    air: &MulAir,
    proof: &Proof<MyConfig>,
    vk: Option<&PreprocessedVerifierKey<MyConfig>>,
) -> Result<(), VerificationError> {
    let mut circuit_builder = new_builder();
    let verifier_inputs = StarkVerifierInputsBuilder::<
        MyConfig,
        MerkleCapTargets<F, DIGEST_ELEMS>,
        InnerFri,
    >::allocate(&mut circuit_builder, proof, vk.map(|vk| &vk.commitment), 0);
    verify_p3_uni_proof_circuit::<_, _, _, _, _, _, WIDTH, RATE>(
        config,
        air,
        &mut circuit_builder,
        &verifier_inputs.proof_targets,
        &verifier_inputs.air_public_targets,
        &verifier_inputs.preprocessed_commit,
        &arithmetic_only_params(),
        Poseidon2Config::BABY_BEAR_D4_W16,
    )
    .map(|_| ())
}

fn build_fib(
    config: &MyConfig,
    proof: &Proof<MyConfig>,
    num_public_targets: usize,
    params: &FriVerifierParams,
) -> Result<(), VerificationError> {
    let mut circuit_builder = new_builder();
    let verifier_inputs = StarkVerifierInputsBuilder::<
        MyConfig,
        MerkleCapTargets<F, DIGEST_ELEMS>,
        InnerFri,
    >::allocate(&mut circuit_builder, proof, None, num_public_targets);
    verify_p3_uni_proof_circuit::<_, _, _, _, _, _, WIDTH, RATE>(
        config,
        &FibonacciAir {},
        &mut circuit_builder,
        &verifier_inputs.proof_targets,
        &verifier_inputs.air_public_targets,
        &None,
        params,
        Poseidon2Config::BABY_BEAR_D4_W16,
    )
    .map(|_| ())
}

fn fib_proof(config: &MyConfig) -> Proof<MyConfig> {
    let trace = generate_trace_rows::<F>(0, 1, 1 << 3);
    let pis = vec![F::ZERO, F::ONE, F::from_u64(21)];
    prove(config, &FibonacciAir {}, trace, &pis)
}

/// S1: the uni-STARK verifier takes the preprocessed width from the PROOF
/// (`preprocessed_local.len()`), never from the AIR. A proof whose preprocessed openings are
/// both one column short passes `validate_proof_shape` (local == next == "width") and the AIR
/// is then evaluated symbolically over a too-narrow preprocessed row.
#[test]
fn s1_uni_preprocessed_openings_narrower_than_the_air() {
    let config = make_test_config();
    let air = MulAir { degree: 2, rows: 1 << 3 };
    let (trace, _) = air.random_valid_trace(true);
    let (prover_data, vk) =
        setup_preprocessed(&config, &air, log2_ceil_usize(trace.height())).unzip();
    let mut proof = prove_with_preprocessed(&config, &air, trace, &[], prover_data.as_ref());
    build_mul(&config, &air, &proof, vk.as_ref()).expect("honest proof builds");

    proof.opened_values.preprocessed_local.as_mut().unwrap().pop();
    proof.opened_values.preprocessed_next.as_mut().unwrap().pop();
    expect_shape_error("preprocessed openings one column short", || {
        build_mul(&config, &air, &proof, vk.as_ref())
    });
}

/// S2: a FRI proof stretched with extra commit phases (commitment + PoW witness + one more
/// arity-2 opening in EVERY query) so that `sum(log_arities) + log_final_poly_len + log_blowup`
/// lands in `TWO_ADICITY+1 ..= Val::bits()` (28..=31 for BabyBear) passes every shape check of
/// `verify_circuit` / `verify_fri_circuit` and then reaches `F::two_adic_generator(28)`.
#[test]
fn s2_fri_schedule_taller_than_the_two_adicity() {
    let config = make_test_config();
    let mut proof = fib_proof(&config);
    build_fib(&config, &proof, 3, &arithmetic_only_params()).expect("honest proof builds");

    let scalars = test_fri_scalars();
    let fri = &mut proof.opening_proof;
    let total: usize = fri.query_proofs[0]
        .commit_phase_openings
        .iter()
        .map(|o| o.log_arity as usize)
        .sum();
    let log_max_height = total + scalars.log_final_poly_len + scalars.log_blowup;
    let extra = 28 - log_max_height;
    for _ in 0..extra {
        let c = fri.commit_phase_commits.last().unwrap().clone();
        fri.commit_phase_commits.push(c);
        let w = *fri.commit_pow_witnesses.last().unwrap();
        fri.commit_pow_witnesses.push(w);
        for q in fri.query_proofs.iter_mut() {
            let mut o = q.commit_phase_openings.last().unwrap().clone();
            o.log_arity = 1;
            o.sibling_values.truncate(1);
            q.commit_phase_openings.push(o);
        }
    }
    expect_shape_error("FRI schedule of log height 28", || {
        build_fib(&config, &proof, 3, &arithmetic_only_params())
    });
}

/// S2b: same panic from the parameter side: an honest proof, `log_blowup = 25`.
#[test]
fn s2b_log_blowup_parameter_out_of_range() {
    let config = make_test_config();
    let proof = fib_proof(&config);
    let scalars = test_fri_scalars();
    let params = FriVerifierParams::unsafe_arithmetic_only_for_tests(
        25,
        scalars.log_final_poly_len,
        scalars.commit_pow_bits,
        scalars.query_pow_bits,
    );
    expect_shape_error("log_blowup = 25", || build_fib(&config, &proof, 3, &params));
}

/// S3: the number of public-value targets is never compared with the AIR's
/// `num_public_values()` (the native verifiers do: `PublicValuesLengthMismatch`).
#[test]
fn s3_fewer_public_values_than_the_air_declares() {
    let config = make_test_config();
    let proof = fib_proof(&config);
    expect_shape_error("2 public values for an AIR that declares 3", || {
        build_fib(&config, &proof, 2, &arithmetic_only_params())
    });
}

/// S3b: ... and more public values than declared are silently absorbed into the transcript.
#[test]
fn s3b_more_public_values_than_the_air_declares() {
    let config = make_test_config();
    let proof = fib_proof(&config);
    expect_shape_error("4 public values for an AIR that declares 3", || {
        build_fib(&config, &proof, 4, &arithmetic_only_params())
    });
}
