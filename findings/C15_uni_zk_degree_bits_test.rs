//! Side observation for C15 on the UNMODIFIED tree: uni-STARK recursive verifier with a hiding
//! (ZK) PCS and a proof that claims `degree_bits = 0`. Goes in `recursion/tests/`.

mod common;

use p3_circuit::CircuitBuilder;
use p3_circuit::ops::{Poseidon2Config, generate_poseidon2_trace, generate_recompose_trace};
use p3_circuit::test_utils::{FibonacciAir, generate_trace_rows};
use p3_field::PrimeCharacteristicRing;
use p3_fri::{FriParameters, HidingFriPcs};
use p3_poseidon2_circuit_air::KoalaBearD4Width16;
use p3_recursion::pcs::fri::{
    FriVerifierParams, HidingFriProofTargets, InputProofTargets, MerkleCapTargets,
    RecExtensionValMmcs, RecValMmcs, Witness,
};
use p3_recursion::public_inputs::StarkVerifierInputsBuilder;
use p3_recursion::{VerificationError, verify_p3_uni_proof_circuit};
use p3_test_utils::koala_bear_params::*;
use p3_uni_stark::{prove, verify};
use rand::SeedableRng;
use rand::rngs::SmallRng;

type MyPcsZk = HidingFriPcs<F, Dft, MyMmcs, ChallengeMmcs, SmallRng>;
type MyConfigZk = StarkConfig<MyPcsZk, Challenge, Challenger>;
type InnerFriZk = HidingFriProofTargets<
    F,
    Challenge,
    RecExtensionValMmcs<
        F,
        Challenge,
        DIGEST_ELEMS,
        RecValMmcs<F, DIGEST_ELEMS, MyHash, MyCompress>,
    >,
    InputProofTargets<F, Challenge, RecValMmcs<F, DIGEST_ELEMS, MyHash, MyCompress>>,
    Witness<F>,
>;

fn make_zk_config(seed: u64) -> MyConfigZk {
    let perm = default_koalabear_poseidon2_16();
    let hash = MyHash::new(perm.clone());
    let compress = MyCompress::new(perm);
    let val_mmcs = MyMmcs::new(hash, compress, 0);
    let challenge_mmcs = ChallengeMmcs::new(val_mmcs.clone());
    let fri_params = FriParameters::new_testing(challenge_mmcs, 0);
    let pcs = MyPcsZk::new(
        Dft::default(),
        val_mmcs,
        fri_params,
        2,
        SmallRng::seed_from_u64(seed),
    );
    MyConfigZk::new(pcs, Challenger::new(default_koalabear_poseidon2_16()))
}

fn build(
    config: &MyConfigZk,
    proof: &p3_uni_stark::Proof<MyConfigZk>,
    num_pis: usize,
) -> std::thread::Result<Result<(), VerificationError>> {
    let s = test_fri_scalars();
    let params = FriVerifierParams::with_mmcs(
        s.log_blowup,
        s.log_final_poly_len,
        s.commit_pow_bits,
        s.query_pow_bits,
        Poseidon2Config::KOALA_BEAR_D4_W16,
    );
    std::panic::catch_unwind(std::panic::AssertUnwindSafe(|| {
        let mut circuit_builder = CircuitBuilder::new();
        circuit_builder.enable_poseidon2_perm::<KoalaBearD4Width16, _>(
            generate_poseidon2_trace::<Challenge, KoalaBearD4Width16>,
            default_koalabear_poseidon2_16(),
        );
        circuit_builder.enable_recompose::<F>(generate_recompose_trace::<F, Challenge>);
        let verifier_inputs = StarkVerifierInputsBuilder::<
            MyConfigZk,
            MerkleCapTargets<F, DIGEST_ELEMS>,
            InnerFriZk,
        >::allocate(&mut circuit_builder, proof, None, num_pis);
        verify_p3_uni_proof_circuit::<
            FibonacciAir,
            MyConfigZk,
            MerkleCapTargets<F, DIGEST_ELEMS>,
            InputProofTargets<F, Challenge, RecValMmcs<F, DIGEST_ELEMS, MyHash, MyCompress>>,
            InnerFriZk,
            _,
            WIDTH,
            RATE,
        >(
            config,
            &FibonacciAir {},
            &mut circuit_builder,
            &verifier_inputs.proof_targets,
            &verifier_inputs.air_public_targets,
            &None,
            &params,
            Poseidon2Config::KOALA_BEAR_D4_W16,
        )
        .map(|_| ())
    }))
}

fn honest() -> (MyConfigZk, p3_uni_stark::Proof<MyConfigZk>, Vec<F>) {
    let n = 1 << 3;
    let trace = generate_trace_rows::<F>(0, 1, n);
    let config = make_zk_config(7);
    let pis = vec![F::ZERO, F::ONE, F::from_u64(21)];
    let proof = prove(&config, &FibonacciAir {}, trace, &pis);
    verify(&config, &FibonacciAir {}, &proof, &pis).expect("honest ZK proof verifies natively");
    (config, proof, pis)
}

#[test]
fn control_honest_zk_proof_builds() {
    let (config, proof, pis) = honest();
    assert!(matches!(build(&config, &proof, pis.len()), Ok(Ok(()))));
}

/// `degree_bits = 0` under ZK: the un-randomised trace would have 2^(0-1) rows. The batch
/// verifier rejects this ("Extended degree bits smaller than ZK adjustment"); the native
/// uni-STARK verifier returns `InvalidProofShape`.
#[test]
fn zk_proof_claiming_degree_bits_zero() {
    let (config, mut proof, pis) = honest();
    proof.degree_bits = 0;
    assert!(
        verify(&config, &FibonacciAir {}, &proof, &pis).is_err(),
        "native verifier rejects degree_bits = 0 (without panicking)"
    );
    match build(&config, &proof, pis.len()) {
        Err(_) => panic!("degree_bits = 0 under ZK: PANIC while building the verification circuit"),
        Ok(Ok(())) => panic!("degree_bits = 0 under ZK: circuit built without an error"),
        Ok(Err(_)) => {}
    }
}
