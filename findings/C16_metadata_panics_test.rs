//! Side observations for C16 on the UNMODIFIED tree (goes in circuit-prover/tests/).
//!
//! `verify_all_tables` reads the table packing and the whole preprocessed binding
//! (`stark_common`) from the proof. `BatchStarkProof::validate` only rules out zeros / non powers
//! of two, so the following well-typed metadata values reach arithmetic / indexing that panics
//! instead of producing a rejection (`Err`).
//!
//! Every test asserts the property "metadata that contradicts the proof is REJECTED": the call must
//! return `Err`, it must not unwind.

use std::panic::{AssertUnwindSafe, catch_unwind};

use p3_baby_bear::BabyBear;
use p3_batch_stark::ProverData;
use p3_circuit::builder::CircuitBuilder;
use p3_circuit::ops::NpoTypeId;
use p3_circuit_prover::ConstraintProfile;
use p3_circuit_prover::batch_stark_prover::{
    BatchStarkProof, BatchStarkProver, CircuitProverData, TablePacking,
};
use p3_circuit_prover::common::get_airs_and_degrees_with_prep;
use p3_circuit_prover::config::{self, BabyBearConfig};
use p3_field::PrimeCharacteristicRing;

fn base_proof() -> (
    BatchStarkProver<BabyBearConfig>,
    BatchStarkProof<BabyBearConfig>,
) {
    let mut builder = CircuitBuilder::<BabyBear>::new();
    let x = builder.public_input();
    let expected = builder.public_input();
    let c5 = builder.define_const(BabyBear::from_u64(5));
    let c2 = builder.define_const(BabyBear::from_u64(2));
    let m = builder.mul(c5, c2);
    let a = builder.add(x, m);
    let d = builder.sub(a, expected);
    builder.assert_zero(d);
    let circuit = builder.build().unwrap();

    let cfg = config::baby_bear();
    let (airs_degrees, primitive_columns, non_primitive_columns) =
        get_airs_and_degrees_with_prep::<BabyBearConfig, _, 1>(
            &circuit,
            &TablePacking::default(),
            &[],
            &[],
            ConstraintProfile::Standard,
        )
        .unwrap();
    let (airs, log_degrees): (Vec<_>, Vec<usize>) = airs_degrees.into_iter().unzip();
    let prover_data = ProverData::from_airs_and_degrees(&cfg, &airs, &log_degrees);
    let cpd = CircuitProverData::new(prover_data, primitive_columns, non_primitive_columns);

    let mut runner = circuit.runner();
    runner
        .set_public_inputs(&[BabyBear::from_u64(7), BabyBear::from_u64(17)])
        .unwrap();
    let traces = runner.run().unwrap();
    let prover = BatchStarkProver::new(cfg);
    let proof = prover.prove_all_tables(&traces, &cpd).unwrap();
    prover.verify_all_tables::<BabyBear>(&proof).unwrap();
    (prover, proof)
}

/// Same field order / types as `TablePacking` (postcard is not self-describing).
#[derive(serde::Serialize)]
struct PackingMirror {
    public_lanes: usize,
    alu_lanes: usize,
    npo_lanes: Vec<(NpoTypeId, usize)>,
    min_trace_height: usize,
    horner_packed_steps: usize,
}

fn packing(public_lanes: usize, alu_lanes: usize, horner_packed_steps: usize) -> TablePacking {
    let bytes = postcard::to_allocvec(&PackingMirror {
        public_lanes,
        alu_lanes,
        npo_lanes: Vec::new(),
        min_trace_height: 1,
        horner_packed_steps,
    })
    .unwrap();
    postcard::from_bytes(&bytes).unwrap()
}

fn must_reject(
    prover: &BatchStarkProver<BabyBearConfig>,
    proof: &BatchStarkProof<BabyBearConfig>,
    what: &str,
) {
    let r = catch_unwind(AssertUnwindSafe(|| {
        prover.verify_all_tables::<BabyBear>(proof)
    }));
    match r {
        Ok(Err(_)) => {}
        Ok(Ok(())) => panic!("{what}: accepted"),
        Err(_) => panic!("{what}: verify_all_tables panicked instead of rejecting"),
    }
}

/// `matrix_to_instance` names an instance the proof does not have: `verify_batch` indexes
/// `preprocessed_widths[inst_idx]` without a bound check.
#[test]
fn matrix_to_instance_out_of_range_is_rejected() {
    let (prover, mut proof) = base_proof();
    let g = proof.stark_common.preprocessed.as_mut().unwrap();
    let last = g.matrix_to_instance.len() - 1;
    g.matrix_to_instance[last] = 7;
    must_reject(&prover, &proof, "matrix_to_instance = [.., 7]");
}

/// `alu_lanes = usize::MAX`: `AluAir::preprocessed_width` computes `lanes * 13 + ..`.
#[test]
fn huge_alu_lane_count_is_rejected() {
    let (prover, proof) = base_proof();
    assert!(packing(1, usize::MAX, 2).validate().is_ok());
    let tampered = BatchStarkProof {
        table_packing: packing(1, usize::MAX, 2),
        ..proof
    };
    must_reject(&prover, &tampered, "alu_lanes = usize::MAX");
}

/// `public_lanes = usize::MAX`.
#[test]
fn huge_public_lane_count_is_rejected() {
    let (prover, proof) = base_proof();
    let tampered = BatchStarkProof {
        table_packing: packing(usize::MAX, 1, 2),
        ..proof
    };
    must_reject(&prover, &tampered, "public_lanes = usize::MAX");
}

/// `horner_packed_steps = usize::MAX`.
#[test]
fn huge_horner_pack_is_rejected() {
    let (prover, proof) = base_proof();
    let tampered = BatchStarkProof {
        table_packing: packing(1, 1, usize::MAX),
        ..proof
    };
    must_reject(&prover, &tampered, "horner_packed_steps = usize::MAX");
}
