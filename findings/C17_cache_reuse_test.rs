//! C17 demo: what happens when preparation caches (`AggregationPrepCache`,
//! `NextLayerPrepCache`) prepared for circuit A are reused for a different circuit B,
//! or for the same circuit with different params / config.
//!
//! Every test asserts the behaviour of the UNMODIFIED code, separately for
//! debug builds (p3-batch-stark self-checks compiled in) and release builds.
//!
//! Outcome vocabulary (see `Outcome`):
//!   (i)   Refused      : the API returned `Err(..)`
//!   (ii)  Panicked     : the API panicked
//!   (iii) OkRejected   : the API returned `Ok(proof)` and `verify_all_tables` rejects it
//!   (iv)  OkVerified   : the API returned `Ok(proof)` and `verify_all_tables` accepts it

use std::panic::{AssertUnwindSafe, catch_unwind};
use std::sync::Arc;

use p3_air::{Air, AirBuilder, BaseAir, WindowAccess};
use p3_circuit::ops::{generate_poseidon2_trace, generate_recompose_trace};
use p3_circuit::{Circuit, CircuitBuilder, CircuitRunner, NonPrimitiveOpId};
use p3_circuit_prover::{BatchStarkProof, BatchStarkProver, ConstraintProfile, TablePacking};
use p3_commit::Pcs;
use p3_field::{Field, PrimeCharacteristicRing};
use p3_fri::FriParameters;
use p3_lookup::logup::LogUpGadget;
use p3_matrix::dense::RowMajorMatrix;
use p3_poseidon2_circuit_air::KoalaBearD4Width16;
use p3_recursion::backend::fri::FriVerifierResult;
use p3_recursion::pcs::{
    FriProofTargets, InputProofTargets, MerkleCapTargets, RecExtensionValMmcs, RecValMmcs, Witness,
    set_fri_mmcs_private_data,
};
use p3_recursion::traits::{RecursiveAir, RecursivePcs};
use p3_recursion::{
    AggregationCircuitFingerprint, AggregationPrepCache, BatchOnly, FriRecursionBackend,
    FriRecursionBackendForExt, FriRecursionConfig, FriVerifierParams, PcsRecursionBackend,
    Poseidon2Config, ProveNextLayerParams, RecursionInput, RecursionOutput, VerificationError,
    build_and_prove_aggregation_layer, build_and_prove_next_layer, build_next_layer_circuit,
    build_next_layer_prep, prove_aggregation_layer, prove_next_layer,
};
use p3_test_utils::koala_bear_params::*;
use p3_uni_stark::{Proof, StarkGenericConfig, Val, prove, verify};

// ---------------------------------------------------------------------------------------------
// Config implementing `FriRecursionConfig` (KoalaBear, D = 4, Poseidon2 W16), modelled on
// recursion/examples/common/mod.rs `define_field_module_types!`.
// ---------------------------------------------------------------------------------------------

const LOG_BLOWUP: usize = 2;
const LOG_FINAL_POLY_LEN: usize = 0;
const COMMIT_POW: usize = 1;
const QUERY_POW: usize = 1;
const P2: Poseidon2Config = Poseidon2Config::KOALA_BEAR_D4_W16;

type RecVal = RecValMmcs<F, DIGEST_ELEMS, MyHash, MyCompress>;
type InnerFri = FriProofTargets<
    F,
    Challenge,
    RecExtensionValMmcs<F, Challenge, DIGEST_ELEMS, RecVal>,
    InputProofTargets<F, Challenge, RecVal>,
    Witness<F>,
>;

#[derive(Clone)]
struct Cfg {
    config: Arc<MyConfig>,
    fri_verifier_params: FriVerifierParams,
}

impl StarkGenericConfig for Cfg {
    type Challenge = Challenge;
    type Challenger = Challenger;
    type Pcs = MyPcs;
    fn pcs(&self) -> &MyPcs {
        self.config.pcs()
    }
    fn initialise_challenger(&self) -> Challenger {
        self.config.initialise_challenger()
    }
}

impl FriRecursionConfig for Cfg
where
    MyPcs: RecursivePcs<
            Cfg,
            InputProofTargets<F, Challenge, RecVal>,
            InnerFri,
            MerkleCapTargets<F, DIGEST_ELEMS>,
            <MyPcs as Pcs<Challenge, Challenger>>::Domain,
        >,
{
    type Commitment = MerkleCapTargets<F, DIGEST_ELEMS>;
    type InputProof = InputProofTargets<F, Challenge, RecVal>;
    type OpeningProof = InnerFri;
    type RawOpeningProof = <MyPcs as Pcs<Challenge, Challenger>>::Proof;
    const DIGEST_ELEMS: usize = DIGEST_ELEMS;

    fn with_fri_opening_proof<'a, A, R>(
        prev: &RecursionInput<'a, Self, A>,
        f: impl FnOnce(&Self::RawOpeningProof) -> R,
    ) -> R
    where
        A: RecursiveAir<Val<Self>, Self::Challenge, LogUpGadget>,
    {
        match prev {
            RecursionInput::UniStark { proof, .. } => f(&proof.opening_proof),
            RecursionInput::BatchStark { proof, .. } => f(&proof.proof.opening_proof),
        }
    }

    fn prepare_circuit_for_verification(
        &self,
        circuit: &mut CircuitBuilder<Challenge>,
    ) -> Result<(), VerificationError> {
        circuit.enable_poseidon2_perm::<KoalaBearD4Width16, _>(
            generate_poseidon2_trace::<Challenge, KoalaBearD4Width16>,
            default_koalabear_poseidon2_16(),
        );
        circuit.enable_recompose::<F>(generate_recompose_trace::<F, Challenge>);
        Ok(())
    }

    fn pcs_verifier_params(&self) -> &FriVerifierParams {
        &self.fri_verifier_params
    }

    fn set_fri_private_data(
        runner: &mut CircuitRunner<'_, Challenge>,
        op_ids: &[NonPrimitiveOpId],
        opening_proof: &Self::RawOpeningProof,
    ) -> Result<(), &'static str> {
        set_fri_mmcs_private_data::<F, Challenge, ChallengeMmcs, MyMmcs, MyHash, MyCompress, DIGEST_ELEMS>(
            runner,
            op_ids,
            opening_proof,
            P2,
        )
    }
}

/// Test config: `FriParameters::new_testing` shape, with a selectable number of FRI queries.
fn make_cfg(num_queries: usize) -> Cfg {
    let perm = default_koalabear_poseidon2_16();
    let hash = MyHash::new(perm.clone());
    let compress = MyCompress::new(perm.clone());
    let val_mmcs = MyMmcs::new(hash, compress, 0);
    let challenge_mmcs = ChallengeMmcs::new(val_mmcs.clone());
    let fri_params = FriParameters {
        log_blowup: LOG_BLOWUP,
        log_final_poly_len: LOG_FINAL_POLY_LEN,
        max_log_arity: 1,
        num_queries,
        commit_proof_of_work_bits: COMMIT_POW,
        query_proof_of_work_bits: QUERY_POW,
        mmcs: challenge_mmcs,
    };
    let pcs = MyPcs::new(Dft::default(), val_mmcs, fri_params);
    Cfg {
        config: Arc::new(MyConfig::new(pcs, Challenger::new(perm))),
        fri_verifier_params: FriVerifierParams::with_mmcs(
            LOG_BLOWUP,
            LOG_FINAL_POLY_LEN,
            COMMIT_POW,
            QUERY_POW,
            P2,
        ),
    }
}

type Backend = FriRecursionBackendForExt<4, 16, 8, Poseidon2Config>;

fn backend() -> Backend {
    FriRecursionBackend::<16, 8, _>::new(P2).for_extension_degree::<4>()
}

fn params(public_lanes: usize, alu_lanes: usize) -> ProveNextLayerParams {
    ProveNextLayerParams {
        table_packing: TablePacking::new(public_lanes, alu_lanes)
            .with_fri_params(LOG_FINAL_POLY_LEN, LOG_BLOWUP),
        constraint_profile: ConstraintProfile::Standard,
    }
}

// ---------------------------------------------------------------------------------------------
// Inner AIRs of identical shape (width 3, one constraint, no public values).
// ---------------------------------------------------------------------------------------------

#[derive(Clone, Copy, Debug, PartialEq, Eq)]
enum Kind {
    /// `a * b - c == 0`
    MulAbC,
    /// `a * c - b == 0`   (same degree, same number of symbolic nodes, different wiring)
    MulAcB,
    /// `a + K - c == 0`   (differs between instances only through the constant `K`)
    AddConst(u32),
}

#[derive(Clone, Copy, Debug)]
struct TriAir(Kind);

impl<V: Field> BaseAir<V> for TriAir {
    fn width(&self) -> usize {
        3
    }
}

impl<AB: AirBuilder> Air<AB> for TriAir
where
    AB::F: Field,
{
    fn eval(&self, builder: &mut AB) {
        let main = builder.main();
        let row = main.current_slice();
        let (a, b, c) = (row[0], row[1], row[2]);
        match self.0 {
            Kind::MulAbC => builder.assert_zero(a * b - c),
            Kind::MulAcB => builder.assert_zero(a * c - b),
            Kind::AddConst(k) => builder.assert_zero(a + AB::Expr::from_u32(k) - c),
        }
    }
}

fn tri_trace(kind: Kind, rows: usize, offset: usize) -> RowMajorMatrix<F> {
    let mut values = F::zero_vec(rows * 3);
    for r in 0..rows {
        let x = F::from_usize(r + 1 + offset);
        let y = F::from_usize(2 * r + 3 + offset);
        let (a, b, c) = match kind {
            Kind::MulAbC => (x, y, x * y),
            Kind::MulAcB => (x, x * y, y),
            Kind::AddConst(k) => (x, y, x + F::from_u32(k)),
        };
        values[3 * r] = a;
        values[3 * r + 1] = b;
        values[3 * r + 2] = c;
    }
    RowMajorMatrix::new(values, 3)
}

struct Inner {
    air: TriAir,
    proof: Proof<Cfg>,
}

fn prove_inner(cfg: &Cfg, kind: Kind, rows: usize, offset: usize) -> Inner {
    let air = TriAir(kind);
    let proof = prove(cfg, &air, tri_trace(kind, rows, offset), &[]);
    verify(cfg, &air, &proof, &[]).expect("inner uni-stark proof must verify");
    Inner { air, proof }
}

impl Inner {
    fn input(&self) -> RecursionInput<'_, Cfg, TriAir> {
        RecursionInput::UniStark {
            proof: &self.proof,
            air: &self.air,
            public_inputs: vec![],
            preprocessed_commit: None,
        }
    }
}

// ---------------------------------------------------------------------------------------------
// Helpers
// ---------------------------------------------------------------------------------------------

/// Same steps as the (private) `build_aggregation_layer_circuit` in recursion.rs, through the
/// public `PcsRecursionBackend` trait, so the test can hand the circuit to the public
/// `prove_aggregation_layer`.
#[allow(clippy::type_complexity)]
fn build_agg_circuit<A1, A2>(
    left: &RecursionInput<'_, Cfg, A1>,
    right: &RecursionInput<'_, Cfg, A2>,
    cfg: &Cfg,
    backend: &Backend,
) -> (Circuit<Challenge>, FriVerifierResult<Cfg>, FriVerifierResult<Cfg>)
where
    A1: RecursiveAir<F, Challenge, LogUpGadget>,
    A2: RecursiveAir<F, Challenge, LogUpGadget>,
{
    let mut cb = CircuitBuilder::new();
    <Backend as PcsRecursionBackend<Cfg, A1, 4>>::prepare_circuit(backend, cfg, &mut cb).unwrap();
    <Backend as PcsRecursionBackend<Cfg, A2, 4>>::prepare_circuit(backend, cfg, &mut cb).unwrap();
    let l = <Backend as PcsRecursionBackend<Cfg, A1, 4>>::build_verifier_circuit(
        backend, left, cfg, &mut cb,
    )
    .unwrap();
    let r = <Backend as PcsRecursionBackend<Cfg, A2, 4>>::build_verifier_circuit(
        backend, right, cfg, &mut cb,
    )
    .unwrap();
    (cb.build().unwrap(), l, r)
}

fn fingerprint(c: &Circuit<Challenge>) -> AggregationCircuitFingerprint {
    AggregationCircuitFingerprint {
        witness_count: c.witness_count,
        public_flat_len: c.public_flat_len,
        private_flat_len: c.private_flat_len,
        ops_len: c.ops.len(),
    }
}

fn differing_ops(a: &Circuit<Challenge>, b: &Circuit<Challenge>) -> Vec<usize> {
    a.ops
        .iter()
        .zip(b.ops.iter())
        .enumerate()
        .filter(|(_, (x, y))| x != y)
        .map(|(i, _)| i)
        .collect()
}

fn native_verify(cfg: &Cfg, packing: &TablePacking, proof: &BatchStarkProof<Cfg>) -> Result<(), String> {
    let mut v = BatchStarkProver::new(cfg.clone()).with_table_packing(packing.clone());
    v.register_poseidon2_table::<4>(P2);
    v.register_recompose_table::<4>(false);
    match catch_unwind(AssertUnwindSafe(|| v.verify_all_tables::<Challenge>(proof))) {
        Ok(Ok(())) => Ok(()),
        Ok(Err(e)) => Err(format!("{e}")),
        Err(p) => Err(format!("verifier PANIC: {}", panic_msg(&p))),
    }
}

fn panic_msg(p: &Box<dyn std::any::Any + Send>) -> String {
    let s = p
        .downcast_ref::<String>()
        .cloned()
        .or_else(|| p.downcast_ref::<&str>().map(|s| s.to_string()))
        .unwrap_or_else(|| "<non-string panic payload>".to_string());
    let first = s.lines().next().unwrap_or("").to_string();
    if first.len() > 300 { format!("{}...", &first[..300]) } else { first }
}

fn clip(s: &str) -> String {
    if s.len() > 400 { format!("{}...", &s[..400]) } else { s.to_string() }
}

#[derive(Debug, Clone, PartialEq, Eq)]
enum Outcome {
    /// (i)
    Refused(String),
    /// (ii)
    Panicked(String),
    /// (iii)
    OkRejected(String),
    /// (iv)
    OkVerified,
}

impl Outcome {
    fn tag(&self) -> &'static str {
        match self {
            Self::Refused(_) => "(i) REFUSED with Err",
            Self::Panicked(_) => "(ii) PANIC",
            Self::OkRejected(_) => "(iii) Ok(proof) that verify_all_tables REJECTS",
            Self::OkVerified => "(iv) Ok(proof) that verify_all_tables ACCEPTS",
        }
    }
}

/// Run a proving closure, catching panics, and natively verify an `Ok` result.
fn attempt(
    label: &str,
    verify_cfg: &Cfg,
    verify_packing: &TablePacking,
    f: impl FnOnce() -> Result<RecursionOutput<Cfg>, VerificationError>,
) -> (Outcome, Option<RecursionOutput<Cfg>>) {
    let (outcome, out) = match catch_unwind(AssertUnwindSafe(f)) {
        Err(p) => (Outcome::Panicked(panic_msg(&p)), None),
        Ok(Err(e)) => (Outcome::Refused(clip(&format!("{e:?}"))), None),
        Ok(Ok(out)) => match native_verify(verify_cfg, verify_packing, &out.0) {
            Ok(()) => (Outcome::OkVerified, Some(out)),
            Err(e) => (Outcome::OkRejected(clip(&e)), Some(out)),
        },
    };
    eprintln!("[C17] {label}: {} {}", outcome.tag(), match &outcome {
        Outcome::Refused(s) | Outcome::Panicked(s) | Outcome::OkRejected(s) => format!("-- {s}"),
        Outcome::OkVerified => String::new(),
    });
    (outcome, out)
}

fn prep_commit(out: &RecursionOutput<Cfg>) -> String {
    format!(
        "{:?}",
        out.0.stark_common.preprocessed.as_ref().map(|g| &g.commitment)
    )
}

fn heights(proof: &BatchStarkProof<Cfg>) -> Vec<Option<usize>> {
    proof
        .stark_common
        .preprocessed
        .as_ref()
        .map(|g| {
            g.instances
                .iter()
                .map(|m| m.as_ref().map(|m| m.degree_bits))
                .collect()
        })
        .unwrap_or_default()
}

fn profile() -> &'static str {
    if cfg!(debug_assertions) { "debug (p3 self-checks ON)" } else { "release (p3 self-checks OFF)" }
}

/// Mismatched cache reuse, expected result per build profile.
fn assert_mismatch_outcome(o: &Outcome) {
    if cfg!(debug_assertions) {
        assert!(matches!(o, Outcome::Panicked(_)), "debug build: expected a panic, got {o:?}");
    } else {
        assert!(
            matches!(o, Outcome::OkRejected(_)),
            "release build: expected Ok(proof) rejected by verify_all_tables, got {o:?}"
        );
    }
}

// ---------------------------------------------------------------------------------------------
// Case 1: aggregation cache, fingerprint collision between two different circuits
// ---------------------------------------------------------------------------------------------

#[test]
fn case1_aggregation_fingerprint_collision() {
    eprintln!("[C17] ===== Case 1 (aggregation, fingerprint collision) -- profile: {} =====", profile());
    let cfg = make_cfg(2);
    let backend = backend();
    let p = params(1, 4);

    // Pair A: two proofs of `a*b - c`; pair B: two proofs of `a*c - b`.
    let (a_l, a_r) = (prove_inner(&cfg, Kind::MulAbC, 8, 0), prove_inner(&cfg, Kind::MulAbC, 8, 50));
    let (b_l, b_r) = (prove_inner(&cfg, Kind::MulAcB, 8, 0), prove_inner(&cfg, Kind::MulAcB, 8, 50));
    let (a_li, a_ri, b_li, b_ri) = (a_l.input(), a_r.input(), b_l.input(), b_r.input());

    let (circ_a, a_lr, a_rr) = build_agg_circuit(&a_li, &a_ri, &cfg, &backend);
    let (circ_b, b_lr, b_rr) = build_agg_circuit(&b_li, &b_ri, &cfg, &backend);
    let (fp_a, fp_b) = (fingerprint(&circ_a), fingerprint(&circ_b));
    let diff = differing_ops(&circ_a, &circ_b);
    eprintln!("[C17] fingerprint A = {fp_a:?}");
    eprintln!("[C17] fingerprint B = {fp_b:?}");
    eprintln!(
        "[C17] circuits A and B differ in {} of {} ops; first differing op index {}: A={:?}  B={:?}",
        diff.len(),
        circ_a.ops.len(),
        diff[0],
        circ_a.ops[diff[0]],
        circ_b.ops[diff[0]]
    );
    assert_eq!(fp_a, fp_b, "the four counters collide");
    assert!(!diff.is_empty(), "but the circuits are different");

    // Reference: B uncached.
    let (o_ref, out_b_ref) = attempt("case1 B uncached (reference)", &cfg, &p.table_packing, || {
        prove_aggregation_layer::<Cfg, _, _, _, 4>(
            &b_li, &b_ri, &b_lr, &b_rr, &circ_b, &cfg, &backend, &p, None,
        )
    });
    assert_eq!(o_ref, Outcome::OkVerified);
    let out_b_ref = out_b_ref.unwrap();

    // Fill the cache with pair A.
    let mut slot: Option<AggregationPrepCache<Cfg>> = None;
    let (o_a, out_a) = attempt("case1 A with prep_cache=Some(&mut None) (fills slot)", &cfg, &p.table_packing, || {
        prove_aggregation_layer::<Cfg, _, _, _, 4>(
            &a_li, &a_ri, &a_lr, &a_rr, &circ_a, &cfg, &backend, &p, Some(&mut slot),
        )
    });
    assert_eq!(o_a, Outcome::OkVerified);
    let out_a = out_a.unwrap();
    assert_eq!(slot.as_ref().unwrap().circuit_fingerprint, fp_a);
    let (com_a, com_b) = (prep_commit(&out_a), prep_commit(&out_b_ref));
    eprintln!("[C17] preprocessed commitment of A      : {}", clip(&com_a));
    eprintln!("[C17] preprocessed commitment of B (ref): {}", clip(&com_b));
    assert_ne!(com_a, com_b, "A and B commit to different preprocessed columns");
    assert_ne!(out_a.1.primitive_columns, out_b_ref.1.primitive_columns);

    // Pair B with the slot filled for A: fingerprint matches => cache HIT for the wrong circuit.
    let (o_b, out_b) = attempt("case1 B with the slot prepared for A", &cfg, &p.table_packing, || {
        prove_aggregation_layer::<Cfg, _, _, _, 4>(
            &b_li, &b_ri, &b_lr, &b_rr, &circ_b, &cfg, &backend, &p, Some(&mut slot),
        )
    });
    // Not refused, not recomputed:
    assert!(!matches!(o_b, Outcome::Refused(_)));
    assert_mismatch_outcome(&o_b);
    if let Some(out_b) = out_b {
        assert_eq!(prep_commit(&out_b), com_a, "the proof for B carries A's preprocessed commitment");
        eprintln!("[C17] case1: proof returned for B carries A's preprocessed commitment (cache was used, not recomputed)");
    }
    // The slot still holds A's data (it was neither invalidated nor refilled).
    assert_eq!(
        format!("{:?}", slot.as_ref().unwrap().circuit_prover_data.common_data().preprocessed.as_ref().map(|g| &g.commitment)),
        com_a
    );

    // Same through the one-call public wrapper used by recursion/examples/recursive_aggregation.rs.
    let (o_b2, _) = attempt("case1 B via build_and_prove_aggregation_layer with A's slot", &cfg, &p.table_packing, || {
        build_and_prove_aggregation_layer::<Cfg, _, _, _, 4>(&b_li, &b_ri, &cfg, &backend, &p, Some(&mut slot))
    });
    assert_mismatch_outcome(&o_b2);
}

/// Fingerprint collision where A and B differ ONLY in a `Const` value: the collision is harmless,
/// because constant VALUES live in the main trace of the Const table; preprocessed data holds only
/// (multiplicity, witness index), so A's and B's preprocessed columns coincide.
#[test]
fn case1b_aggregation_collision_constants_only() {
    eprintln!("[C17] ===== Case 1b (aggregation, circuits differ only in a constant) -- profile: {} =====", profile());
    let cfg = make_cfg(2);
    let backend = backend();
    let p = params(1, 4);
    let (ka, kb) = (Kind::AddConst(1_234_567), Kind::AddConst(7_654_321));

    let (a_l, a_r) = (prove_inner(&cfg, ka, 8, 0), prove_inner(&cfg, ka, 8, 50));
    let (b_l, b_r) = (prove_inner(&cfg, kb, 8, 0), prove_inner(&cfg, kb, 8, 50));
    let (a_li, a_ri, b_li, b_ri) = (a_l.input(), a_r.input(), b_l.input(), b_r.input());
    let (circ_a, a_lr, a_rr) = build_agg_circuit(&a_li, &a_ri, &cfg, &backend);
    let (circ_b, b_lr, b_rr) = build_agg_circuit(&b_li, &b_ri, &cfg, &backend);
    let diff = differing_ops(&circ_a, &circ_b);
    eprintln!("[C17] fingerprint A = {:?}", fingerprint(&circ_a));
    eprintln!("[C17] fingerprint B = {:?}", fingerprint(&circ_b));
    eprintln!("[C17] differing ops: {:?}", diff.iter().map(|&i| (i, &circ_a.ops[i], &circ_b.ops[i])).collect::<Vec<_>>());
    assert_eq!(fingerprint(&circ_a), fingerprint(&circ_b));
    assert!(!diff.is_empty());

    let (o_ref, out_b_ref) = attempt("case1b B uncached (reference)", &cfg, &p.table_packing, || {
        prove_aggregation_layer::<Cfg, _, _, _, 4>(&b_li, &b_ri, &b_lr, &b_rr, &circ_b, &cfg, &backend, &p, None)
    });
    assert_eq!(o_ref, Outcome::OkVerified);
    let mut slot = None;
    let (o_a, out_a) = attempt("case1b A fills slot", &cfg, &p.table_packing, || {
        prove_aggregation_layer::<Cfg, _, _, _, 4>(&a_li, &a_ri, &a_lr, &a_rr, &circ_a, &cfg, &backend, &p, Some(&mut slot))
    });
    assert_eq!(o_a, Outcome::OkVerified);
    let (o_b, out_b) = attempt("case1b B with the slot prepared for A", &cfg, &p.table_packing, || {
        prove_aggregation_layer::<Cfg, _, _, _, 4>(&b_li, &b_ri, &b_lr, &b_rr, &circ_b, &cfg, &backend, &p, Some(&mut slot))
    });
    assert_eq!(o_b, Outcome::OkVerified);
    let (com_a, com_b_ref, com_b) = (prep_commit(&out_a.unwrap()), prep_commit(&out_b_ref.unwrap()), prep_commit(out_b.as_ref().unwrap()));
    assert_eq!(com_a, com_b_ref, "circuits differing only in constants have the SAME preprocessed commitment");
    assert_eq!(com_a, com_b);
    eprintln!("[C17] case1b: A and B have identical preprocessed commitments (constants are main-trace data), so the stale cache is indistinguishable from a fresh one");

    // observe_at: the following layer also succeeds.
    let out_b = out_b.unwrap();
    let next_in = out_b.into_recursion_input::<BatchOnly>();
    let (o_next, _) = attempt("case1b next layer over the cached-B aggregation proof", &cfg, &p.table_packing, || {
        build_and_prove_next_layer::<Cfg, BatchOnly, _, 4>(&next_in, &cfg, &backend, &p)
    });
    assert_eq!(o_next, Outcome::OkVerified);
}

// ---------------------------------------------------------------------------------------------
// Case 2: next-layer cache, no guard at all
// ---------------------------------------------------------------------------------------------

#[test]
fn case2_next_layer_prep_for_other_circuit() {
    eprintln!("[C17] ===== Case 2 (next layer, prep for A used with circuit B) -- profile: {} =====", profile());
    let cfg = make_cfg(2);
    let backend = backend();
    let p = params(1, 4);

    let a = prove_inner(&cfg, Kind::MulAbC, 8, 0);
    let b = prove_inner(&cfg, Kind::MulAcB, 8, 0);
    let (a_in, b_in) = (a.input(), b.input());
    let (circ_a, res_a) = build_next_layer_circuit::<Cfg, TriAir, _, 4>(&a_in, &cfg, &backend).unwrap();
    let (circ_b, res_b) = build_next_layer_circuit::<Cfg, TriAir, _, 4>(&b_in, &cfg, &backend).unwrap();
    eprintln!("[C17] counters A = {:?}", fingerprint(&circ_a));
    eprintln!("[C17] counters B = {:?}", fingerprint(&circ_b));
    assert!(!differing_ops(&circ_a, &circ_b).is_empty());

    let cache_a = build_next_layer_prep::<Cfg, TriAir, _, 4>(&circ_a, &cfg, &backend, &p).unwrap();

    let (o, out) = attempt("case2 A with prep(A) (intended use)", &cfg, &p.table_packing, || {
        prove_next_layer::<Cfg, TriAir, _, 4>(&a_in, &circ_a, &res_a, &cfg, &backend, &p, Some(&cache_a))
    });
    assert_eq!(o, Outcome::OkVerified);
    let h_a = heights(&out.unwrap().0);
    let (o, out) = attempt("case2 B uncached (reference)", &cfg, &p.table_packing, || {
        prove_next_layer::<Cfg, TriAir, _, 4>(&b_in, &circ_b, &res_b, &cfg, &backend, &p, None)
    });
    assert_eq!(o, Outcome::OkVerified);
    let h_b = heights(&out.unwrap().0);
    eprintln!("[C17] preprocessed table log-heights  A: {h_a:?}  B: {h_b:?}");
    assert_eq!(h_a, h_b);

    let (o, out) = attempt("case2 B (same table heights as A) with prep(A)", &cfg, &p.table_packing, || {
        prove_next_layer::<Cfg, TriAir, _, 4>(&b_in, &circ_b, &res_b, &cfg, &backend, &p, Some(&cache_a))
    });
    assert!(!matches!(o, Outcome::Refused(_)));
    assert_mismatch_outcome(&o);
    drop(out);

    // B' : a much taller inner trace => longer FRI/Merkle paths => taller verifier tables than A's.
    let b2 = prove_inner(&cfg, Kind::MulAbC, 1 << 12, 0);
    let b2_in = b2.input();
    let (circ_b2, res_b2) = build_next_layer_circuit::<Cfg, TriAir, _, 4>(&b2_in, &cfg, &backend).unwrap();
    eprintln!("[C17] counters B' = {:?}", fingerprint(&circ_b2));
    let (o, out) = attempt("case2 B' uncached (reference)", &cfg, &p.table_packing, || {
        prove_next_layer::<Cfg, TriAir, _, 4>(&b2_in, &circ_b2, &res_b2, &cfg, &backend, &p, None)
    });
    assert_eq!(o, Outcome::OkVerified);
    let h_b2 = heights(&out.unwrap().0);
    eprintln!("[C17] preprocessed table log-heights  A: {h_a:?}  B': {h_b2:?}");
    assert_ne!(h_a, h_b2, "B' has different table heights");

    let (o_tall, _) = attempt("case2 B' (TALLER tables than A) with prep(A)", &cfg, &p.table_packing, || {
        prove_next_layer::<Cfg, TriAir, _, 4>(&b2_in, &circ_b2, &res_b2, &cfg, &backend, &p, Some(&cache_a))
    });
    assert!(!matches!(o_tall, Outcome::Refused(_) | Outcome::OkVerified), "got {o_tall:?}");

    // And the other direction: prep for the tall circuit, used with the small circuit A.
    let cache_b2 = build_next_layer_prep::<Cfg, TriAir, _, 4>(&circ_b2, &cfg, &backend, &p).unwrap();
    let (o_short, _) = attempt("case2 A (SHORTER tables) with prep(B')", &cfg, &p.table_packing, || {
        prove_next_layer::<Cfg, TriAir, _, 4>(&a_in, &circ_a, &res_a, &cfg, &backend, &p, Some(&cache_b2))
    });
    assert!(!matches!(o_short, Outcome::Refused(_) | Outcome::OkVerified), "got {o_short:?}");
}

// ---------------------------------------------------------------------------------------------
// Case 3: same circuit, different params / different config
// ---------------------------------------------------------------------------------------------

#[test]
fn case3_same_circuit_different_params_or_config() {
    eprintln!("[C17] ===== Case 3 (same circuit, params/config changed between calls) -- profile: {} =====", profile());
    let cfg = make_cfg(2);
    let backend = backend();
    let p1 = params(1, 4);
    let p2 = params(2, 2);

    let (l, r) = (prove_inner(&cfg, Kind::MulAbC, 8, 0), prove_inner(&cfg, Kind::MulAbC, 8, 50));
    let (l2, r2) = (prove_inner(&cfg, Kind::MulAbC, 8, 100), prove_inner(&cfg, Kind::MulAbC, 8, 150));
    let (li, ri, l2i, r2i) = (l.input(), r.input(), l2.input(), r2.input());

    // --- 3a: aggregation, table packing changes between calls.
    let (o, out_ref) = attempt("case3a pair#2 uncached with params P2=(2,2) (reference)", &cfg, &p2.table_packing, || {
        build_and_prove_aggregation_layer::<Cfg, _, _, _, 4>(&l2i, &r2i, &cfg, &backend, &p2, None)
    });
    assert_eq!(o, Outcome::OkVerified);
    let ref_packing = format!("{:?}", out_ref.unwrap().0.table_packing);

    let mut slot = None;
    let (o, _) = attempt("case3a pair#1 with params P1=(1,4) fills slot", &cfg, &p1.table_packing, || {
        build_and_prove_aggregation_layer::<Cfg, _, _, _, 4>(&li, &ri, &cfg, &backend, &p1, Some(&mut slot))
    });
    assert_eq!(o, Outcome::OkVerified);
    let (o, out) = attempt("case3a pair#2 with params P2=(2,2) and the slot filled under P1", &cfg, &p2.table_packing, || {
        build_and_prove_aggregation_layer::<Cfg, _, _, _, 4>(&l2i, &r2i, &cfg, &backend, &p2, Some(&mut slot))
    });
    assert_eq!(o, Outcome::OkVerified);
    let got_packing = format!("{:?}", out.unwrap().0.table_packing);
    eprintln!("[C17] case3a requested packing (uncached result): {ref_packing}");
    eprintln!("[C17] case3a packing of the cached result      : {got_packing}");
    assert_ne!(got_packing, ref_packing, "the new params were silently ignored");
    assert_eq!(got_packing, format!("{:?}", p1.table_packing));

    // --- 3b: aggregation, same circuit + same params, but a different proving `config`
    // (3 FRI queries instead of 2). The verification circuit of the inputs is unchanged
    // (it depends on the input proofs' shape), so the fingerprint matches and the cache hits.
    let cfg3 = make_cfg(3);
    let (o, _) = attempt("case3b pair#2 uncached under config(num_queries=3), verified with that config (reference)", &cfg3, &p1.table_packing, || {
        build_and_prove_aggregation_layer::<Cfg, _, _, _, 4>(&l2i, &r2i, &cfg3, &backend, &p1, None)
    });
    assert_eq!(o, Outcome::OkVerified);
    let mut slot = None;
    let (o, _) = attempt("case3b pair#1 under config(num_queries=2) fills slot", &cfg, &p1.table_packing, || {
        build_and_prove_aggregation_layer::<Cfg, _, _, _, 4>(&li, &ri, &cfg, &backend, &p1, Some(&mut slot))
    });
    assert_eq!(o, Outcome::OkVerified);
    let (o, out) = attempt("case3b pair#2 under config(num_queries=3) with the slot filled under config(num_queries=2), verified with the config passed to the call", &cfg3, &p1.table_packing, || {
        build_and_prove_aggregation_layer::<Cfg, _, _, _, 4>(&l2i, &r2i, &cfg3, &backend, &p1, Some(&mut slot))
    });
    assert!(matches!(o, Outcome::OkRejected(_)), "got {o:?}");
    let out = out.unwrap();
    eprintln!(
        "[C17] case3b: the cached proof has {} FRI query proofs (the config passed to the call asks for 3); it verifies under the OLD config: {:?}",
        out.0.proof.opening_proof.query_proofs.len(),
        native_verify(&cfg, &p1.table_packing, &out.0)
    );
    assert_eq!(out.0.proof.opening_proof.query_proofs.len(), 2);
    assert!(native_verify(&cfg, &p1.table_packing, &out.0).is_ok());

    // --- 3c: next layer, prep built with P1, prove_next_layer called with P2.
    let (circ, res) = build_next_layer_circuit::<Cfg, TriAir, _, 4>(&li, &cfg, &backend).unwrap();
    let cache = build_next_layer_prep::<Cfg, TriAir, _, 4>(&circ, &cfg, &backend, &p1).unwrap();
    let (o, out) = attempt("case3c next layer: prep built under P1=(1,4), prove_next_layer called with P2=(2,2)", &cfg, &p2.table_packing, || {
        prove_next_layer::<Cfg, TriAir, _, 4>(&li, &circ, &res, &cfg, &backend, &p2, Some(&cache))
    });
    assert_eq!(o, Outcome::OkVerified);
    let got = format!("{:?}", out.unwrap().0.table_packing);
    eprintln!("[C17] case3c packing of the result: {got}  (requested: {:?})", p2.table_packing);
    assert_eq!(got, format!("{:?}", p1.table_packing));
}
