//! C17 side observations on the UNMODIFIED code (goes into recursion/tests/).
//!
//! Both tests assert the property "the proof produced for a recursion layer verifies natively and
//! is itself a valid input for a further layer" and FAIL on the unmodified tree.
#![allow(unused_imports, dead_code)]

use std::panic::{AssertUnwindSafe, catch_unwind};
use std::rc::Rc;
use std::sync::Arc;

use p3_batch_stark::ProverData;
use p3_circuit::ops::{generate_poseidon2_trace, generate_recompose_trace};
use p3_circuit::{CircuitBuilder, CircuitRunner, NonPrimitiveOpId};
use p3_circuit_prover::common::get_airs_and_degrees_with_prep;
use p3_circuit_prover::{BatchStarkProver, CircuitProverData, ConstraintProfile, TablePacking};
use p3_commit::Pcs;
use p3_lookup::logup::LogUpGadget;
use p3_poseidon2_circuit_air::KoalaBearD4Width16;
use p3_recursion::pcs::{
    FriProofTargets, InputProofTargets, MerkleCapTargets, RecExtensionValMmcs, RecValMmcs, Witness,
    set_fri_mmcs_private_data,
};
use p3_recursion::traits::{RecursiveAir, RecursivePcs};
use p3_recursion::verifier::VerificationError;
use p3_recursion::{
    BatchOnly, FriRecursionBackend, FriRecursionConfig, FriVerifierParams, Poseidon2Config,
    ProveNextLayerParams, RecursionInput, RecursionOutput, build_and_prove_next_layer,
    build_next_layer_circuit, build_next_layer_prep, prove_next_layer,
};
use p3_test_utils::koala_bear_params::*;
use p3_uni_stark::{StarkGenericConfig, Val};

const P2_CONFIG: Poseidon2Config = Poseidon2Config::KOALA_BEAR_D4_W16;

type RecMmcs = RecValMmcs<F, DIGEST_ELEMS, MyHash, MyCompress>;
type InnerFri = FriProofTargets<
    F,
    Challenge,
    RecExtensionValMmcs<F, Challenge, DIGEST_ELEMS, RecMmcs>,
    InputProofTargets<F, Challenge, RecMmcs>,
    Witness<F>,
>;

/// `MyConfig` plus the FRI verifier parameters, as the recursion examples do it.
#[derive(Clone)]
struct Cfg {
    config: Arc<MyConfig>,
    fri_verifier_params: FriVerifierParams,
    /// As in the recursion examples (`--disable-recompose-npo`): the verifier circuit is built
    /// with `noop_enable_recompose`, i.e. it contains no recompose operations.
    disable_recompose_npo: bool,
}

impl StarkGenericConfig for Cfg {
    type Challenge = Challenge;
    type Challenger = Challenger;
    type Pcs = MyPcs;
    fn pcs(&self) -> &MyPcs {
        self.config.pcs()
    }
    fn initialise_challenger(&self) -> Challenger {
        self.config.initialise_challenger()
    }
}

impl FriRecursionConfig for Cfg
where
    MyPcs: RecursivePcs<
            Cfg,
            InputProofTargets<F, Challenge, RecMmcs>,
            InnerFri,
            MerkleCapTargets<F, DIGEST_ELEMS>,
            <MyPcs as Pcs<Challenge, Challenger>>::Domain,
        >,
{
    type Commitment = MerkleCapTargets<F, DIGEST_ELEMS>;
    type InputProof = InputProofTargets<F, Challenge, RecMmcs>;
    type OpeningProof = InnerFri;
    type RawOpeningProof = <MyPcs as Pcs<Challenge, Challenger>>::Proof;
    const DIGEST_ELEMS: usize = DIGEST_ELEMS;

    fn with_fri_opening_proof<'a, A, R>(
        prev: &RecursionInput<'a, Self, A>,
        f: impl FnOnce(&Self::RawOpeningProof) -> R,
    ) -> R
    where
        A: RecursiveAir<Val<Self>, Self::Challenge, LogUpGadget>,
    {
        match prev {
            RecursionInput::UniStark { proof, .. } => f(&proof.opening_proof),
            RecursionInput::BatchStark { proof, .. } => f(&proof.proof.opening_proof),
        }
    }

    fn prepare_circuit_for_verification(
        &self,
        circuit: &mut CircuitBuilder<Challenge>,
    ) -> Result<(), VerificationError> {
        circuit.enable_poseidon2_perm::<KoalaBearD4Width16, _>(
            generate_poseidon2_trace::<Challenge, KoalaBearD4Width16>,
            default_koalabear_poseidon2_16(),
        );
        if self.disable_recompose_npo {
            circuit.noop_enable_recompose::<F>(generate_recompose_trace::<F, Challenge>);
        } else {
            circuit.enable_recompose::<F>(generate_recompose_trace::<F, Challenge>);
        }
        Ok(())
    }

    fn pcs_verifier_params(&self) -> &FriVerifierParams {
        &self.fri_verifier_params
    }

    fn set_fri_private_data(
        runner: &mut CircuitRunner<'_, Challenge>,
        op_ids: &[NonPrimitiveOpId],
        opening_proof: &Self::RawOpeningProof,
    ) -> Result<(), &'static str> {
        set_fri_mmcs_private_data::<F, Challenge, ChallengeMmcs, MyMmcs, MyHash, MyCompress, DIGEST_ELEMS>(
            runner,
            op_ids,
            opening_proof,
            P2_CONFIG,
        )
    }
}

fn cfg(disable_recompose_npo: bool) -> Cfg {
    let s = test_fri_scalars();
    Cfg {
        disable_recompose_npo,
        config: Arc::new(make_test_config()),
        fri_verifier_params: FriVerifierParams::with_mmcs(
            s.log_blowup,
            s.log_final_poly_len,
            s.commit_pow_bits,
            s.query_pow_bits,
            P2_CONFIG,
        ),
    }
}

fn packing(public_lanes: usize, alu_lanes: usize) -> TablePacking {
    let s = test_fri_scalars();
    TablePacking::new(public_lanes, alu_lanes).with_fri_params(s.log_final_poly_len, s.log_blowup)
}

/// Base layer: a Fibonacci circuit over the base field, proven with the batch prover.
fn base_proof(config: &Cfg, n: usize) -> RecursionOutput<Cfg> {
    let mut builder = CircuitBuilder::<F>::new();
    let expected = builder.alloc_public_input("expected");
    let mut a = builder.alloc_const(F::ZERO, "F(0)");
    let mut b = builder.alloc_const(F::ONE, "F(1)");
    let (mut va, mut vb) = (F::ZERO, F::ONE);
    for _ in 2..=n {
        let next = builder.add(a, b);
        a = b;
        b = next;
        let vn = va + vb;
        va = vb;
        vb = vn;
    }
    builder.connect(b, expected);
    let circuit = builder.build().unwrap();

    let table_packing = packing(1, 1);
    let (airs_degrees, prim, non_prim) = get_airs_and_degrees_with_prep::<Cfg, F, 1>(
        &circuit,
        &table_packing,
        &[],
        &[],
        ConstraintProfile::Standard,
    )
    .unwrap();
    let (airs, degrees): (Vec<_>, Vec<usize>) = airs_degrees.into_iter().unzip();
    let mut runner = circuit.runner();
    runner.set_public_inputs(&[vb]).unwrap();
    let traces = runner.run().unwrap();
    let prover_data = ProverData::from_airs_and_degrees(config, &airs, &degrees);
    let cpd = CircuitProverData::new(prover_data, prim, non_prim);
    let prover = BatchStarkProver::new(config.clone()).with_table_packing(table_packing);
    let proof = prover.prove_all_tables(&traces, &cpd).unwrap();
    prover.verify_all_tables::<F>(&proof).unwrap();
    RecursionOutput(proof, Rc::new(cpd))
}

/// Native verification of a recursion-layer proof (the observation point of the property).
fn verify_layer_natively(config: &Cfg, out: &RecursionOutput<Cfg>) -> Result<(), String> {
    let mut verifier = BatchStarkProver::new(config.clone());
    verifier.register_poseidon2_table::<D>(P2_CONFIG);
    if !config.disable_recompose_npo {
        verifier.register_recompose_table::<D>(false);
    }
    verifier
        .verify_all_tables::<Challenge>(&out.0)
        .map_err(|e| format!("{e:?}"))
}


fn params() -> ProveNextLayerParams {
    ProveNextLayerParams {
        table_packing: packing(1, 4),
        constraint_profile: ConstraintProfile::Standard,
    }
}

/// A layer proof that went through (de)serialization still verifies natively, but
/// `RecursionOutput::into_recursion_input` hands the next layer `proof.stark_common`, whose
/// lookups are not serialized: the next layer's circuit cannot be built from it.
#[test]
fn side_deserialized_layer_proof_is_a_valid_next_layer_input() {
    let config = cfg(false);
    let backend = FriRecursionBackend::<WIDTH, RATE, _>::new(P2_CONFIG).for_extension_degree::<D>();
    let base = base_proof(&config, 100);
    let input = base.into_recursion_input::<BatchOnly>();
    let layer_1 =
        build_and_prove_next_layer::<Cfg, BatchOnly, _, D>(&input, &config, &backend, &params())
            .expect("layer 1");
    verify_layer_natively(&config, &layer_1).expect("layer 1 verifies natively");

    // Ship the proof: serialize, deserialize.
    let bytes = postcard::to_allocvec(&layer_1.0).expect("serialize");
    let shipped: p3_circuit_prover::BatchStarkProof<Cfg> =
        postcard::from_bytes(&bytes).expect("deserialize");
    let shipped = RecursionOutput(shipped, Rc::clone(&layer_1.1));
    verify_layer_natively(&config, &shipped).expect("the shipped proof still verifies natively");

    // In-memory proof: accepted as input of a further layer.
    let in_memory = layer_1.into_recursion_input::<BatchOnly>();
    build_next_layer_circuit::<Cfg, BatchOnly, _, D>(&in_memory, &config, &backend)
        .map(|_| ())
        .expect("in-memory layer proof is a valid next-layer input");

    // Shipped proof: must be accepted as well.
    let from_wire = shipped.into_recursion_input::<BatchOnly>();
    build_next_layer_circuit::<Cfg, BatchOnly, _, D>(&from_wire, &config, &backend)
        .map(|_| ())
        .expect("C17: a (de)serialized layer proof must be a valid input for a further layer");
}

/// With a configuration whose verifier circuit holds no recompose operation
/// (`noop_enable_recompose`, the examples' `--disable-recompose-npo`), layer 1 proves and verifies
/// natively, but its proof has no recompose table while the backend always expects one: the
/// second layer cannot be built.
#[test]
fn side_chain_without_recompose_ops_reaches_a_second_layer() {
    let config = cfg(true);
    let backend = FriRecursionBackend::<WIDTH, RATE, _>::new(P2_CONFIG).for_extension_degree::<D>();
    let base = base_proof(&config, 100);
    let input = base.into_recursion_input::<BatchOnly>();
    let layer_1 =
        build_and_prove_next_layer::<Cfg, BatchOnly, _, D>(&input, &config, &backend, &params())
            .expect("layer 1");
    verify_layer_natively(&config, &layer_1).expect("layer 1 verifies natively");

    let input_2 = layer_1.into_recursion_input::<BatchOnly>();
    let layer_2 =
        build_and_prove_next_layer::<Cfg, BatchOnly, _, D>(&input_2, &config, &backend, &params())
            .expect("C17: the layer-1 proof must be a valid input for a second layer");
    verify_layer_natively(&config, &layer_2).expect("layer 2 verifies natively");
}
