//! Side observation (C17, unmodified tree): KoalaBear quintic chain (D = 5, D = 1 Poseidon2
//! challenger, hence the split `recompose` / `recompose/coeff` tables) with a recompose lane
//! override in the layer parameters, i.e. what
//! `cargo run --example recursive_fibonacci -- --field koala-bear --quintic --recompose-lanes 2`
//! does. Goes in `recursion/tests/`.
//!
//! `get_airs_and_degrees_with_prep` resolves the lane count of the `recompose/coeff` table as
//! `packing.npo_lanes("recompose/coeff")` or else the AIR builder's own lane count (1), whereas
//! `RecomposeProver::batch_instance_base` falls back to `packing.npo_lanes("recompose")` first.
//! With `with_npo_lanes(NpoTypeId::recompose(), 2)` the committed preprocessed data has 1 lane
//! and the proven trace/AIR 2 lanes, so no layer proof can be produced (panic in the prover).
//! The property wants: the layer proof verifies natively and feeds the next layer, for every
//! parameter choice.

use std::rc::Rc;
use std::sync::Arc;

use p3_batch_stark::ProverData;
use p3_circuit::ops::{
    KoalaBearD1Width16, NpoTypeId, generate_poseidon2_trace, generate_recompose_trace,
};
use p3_circuit::{CircuitBuilder, CircuitRunner, NonPrimitiveOpId};
use p3_circuit_prover::common::get_airs_and_degrees_with_prep;
use p3_circuit_prover::{BatchStarkProver, CircuitProverData, ConstraintProfile, TablePacking};
use p3_commit::Pcs;
use p3_lookup::logup::LogUpGadget;
use p3_recursion::pcs::{
    FriProofTargets, InputProofTargets, MerkleCapTargets, RecExtensionValMmcs, RecValMmcs, Witness,
    set_fri_mmcs_private_data,
};
use p3_recursion::traits::RecursiveAir;
use p3_recursion::{
    BatchOnly, FriRecursionBackend, FriRecursionBackendD5, FriRecursionConfig, FriVerifierParams,
    Poseidon2Config, ProveNextLayerParams, RecursionInput, RecursionOutput, VerificationError,
    build_and_prove_next_layer,
};
use p3_test_utils::koala_bear_quintic_params::*;
use p3_test_utils::test_fri_scalars;
use p3_uni_stark::{StarkGenericConfig, Val};

const P2: Poseidon2Config = Poseidon2Config::KOALA_BEAR_D1_W16;

type RecMmcs = RecValMmcs<F, DIGEST_ELEMS, MyHash, MyCompress>;
type InnerInput = InputProofTargets<F, Challenge, RecMmcs>;
type InnerFri = FriProofTargets<
    F,
    Challenge,
    RecExtensionValMmcs<F, Challenge, DIGEST_ELEMS, RecMmcs>,
    InnerInput,
    Witness<F>,
>;

/// `MyConfig` plus the FRI verifier parameters, as in the recursive examples.
#[derive(Clone)]
struct Cfg {
    config: Arc<MyConfig>,
    fri_verifier_params: FriVerifierParams,
}

impl StarkGenericConfig for Cfg {
    type Challenge = Challenge;
    type Challenger = Challenger;
    type Pcs = MyPcs;
    fn pcs(&self) -> &MyPcs {
        self.config.pcs()
    }
    fn initialise_challenger(&self) -> Challenger {
        self.config.initialise_challenger()
    }
}

impl FriRecursionConfig for Cfg {
    type Commitment = MerkleCapTargets<F, DIGEST_ELEMS>;
    type InputProof = InnerInput;
    type OpeningProof = InnerFri;
    type RawOpeningProof = <MyPcs as Pcs<Challenge, Challenger>>::Proof;
    const DIGEST_ELEMS: usize = DIGEST_ELEMS;

    fn with_fri_opening_proof<'a, A, R>(
        prev: &RecursionInput<'a, Self, A>,
        f: impl FnOnce(&Self::RawOpeningProof) -> R,
    ) -> R
    where
        A: RecursiveAir<Val<Self>, Self::Challenge, LogUpGadget>,
    {
        match prev {
            RecursionInput::UniStark { proof, .. } => f(&proof.opening_proof),
            RecursionInput::BatchStark { proof, .. } => f(&proof.proof.opening_proof),
        }
    }

    fn prepare_circuit_for_verification(
        &self,
        circuit: &mut CircuitBuilder<Challenge>,
    ) -> Result<(), VerificationError> {
        circuit.enable_poseidon2_perm_base::<KoalaBearD1Width16, _>(
            generate_poseidon2_trace::<Challenge, KoalaBearD1Width16>,
            LiftKoalaPermForQuintic::new(default_koalabear_poseidon2_16()),
        );
        circuit.enable_recompose::<F>(generate_recompose_trace::<F, Challenge>);
        // D=1 Poseidon2 inside a D=5 circuit: per-coefficient recompose links (as in the examples).
        circuit.set_recompose_coeff_ctl_for_decompose_links(true);
        Ok(())
    }

    fn pcs_verifier_params(&self) -> &FriVerifierParams {
        &self.fri_verifier_params
    }

    fn set_fri_private_data(
        runner: &mut CircuitRunner<'_, Challenge>,
        op_ids: &[NonPrimitiveOpId],
        opening_proof: &Self::RawOpeningProof,
    ) -> Result<(), &'static str> {
        set_fri_mmcs_private_data::<
            F,
            Challenge,
            ChallengeMmcs,
            MyMmcs,
            MyHash,
            MyCompress,
            DIGEST_ELEMS,
        >(runner, op_ids, opening_proof, P2)
    }
}

fn cfg() -> Cfg {
    let s = test_fri_scalars();
    Cfg {
        config: Arc::new(make_test_config()),
        fri_verifier_params: FriVerifierParams::with_mmcs(
            s.log_blowup,
            s.log_final_poly_len,
            s.commit_pow_bits,
            s.query_pow_bits,
            P2,
        ),
    }
}

fn packing(public_lanes: usize, alu_lanes: usize) -> TablePacking {
    let s = test_fri_scalars();
    TablePacking::new(public_lanes, alu_lanes).with_fri_params(s.log_final_poly_len, s.log_blowup)
}

/// Base-field Fibonacci circuit proven with the batch prover (D = 1, no NPO tables).
fn base_proof(config: &Cfg, n: usize) -> RecursionOutput<Cfg> {
    let mut builder = CircuitBuilder::<F>::new();
    let expected = builder.alloc_public_input("expected");
    let mut a = builder.alloc_const(F::ZERO, "f0");
    let mut b = builder.alloc_const(F::ONE, "f1");
    let (mut va, mut vb) = (F::ZERO, F::ONE);
    for _ in 2..=n {
        let next = builder.add(a, b);
        a = b;
        b = next;
        let vn = va + vb;
        va = vb;
        vb = vn;
    }
    builder.connect(b, expected);
    let circuit = builder.build().unwrap();

    let table_packing = packing(1, 1);
    let (airs_degrees, primitive_columns, non_primitive_columns) =
        get_airs_and_degrees_with_prep::<Cfg, F, 1>(
            &circuit,
            &table_packing,
            &[],
            &[],
            ConstraintProfile::Standard,
        )
        .unwrap();
    let (airs, degrees): (Vec<_>, Vec<usize>) = airs_degrees.into_iter().unzip();
    let mut runner = circuit.runner();
    runner.set_public_inputs(&[vb]).unwrap();
    let traces = runner.run().unwrap();
    let prover_data = ProverData::from_airs_and_degrees(config, &airs, &degrees);
    let cpd = CircuitProverData::new(prover_data, primitive_columns, non_primitive_columns);
    let prover = BatchStarkProver::new(config.clone()).with_table_packing(table_packing);
    let proof = prover.prove_all_tables(&traces, &cpd).expect("base proof");
    prover
        .verify_all_tables::<F>(&proof)
        .expect("base proof verifies natively");
    RecursionOutput(proof, Rc::new(cpd))
}

/// Native verification of a layer proof (tables looked up by op type, as in the examples).
fn verify_native(config: &Cfg, out: &RecursionOutput<Cfg>, what: &str) {
    let mut verifier = BatchStarkProver::new(config.clone());
    verifier.register_poseidon2_table::<5>(P2);
    verifier.register_recompose_table::<5>(true);
    verifier
        .verify_all_tables::<Challenge>(&out.0)
        .unwrap_or_else(|e| panic!("{what}: the layer proof does not verify natively: {e:?}"));
}

type Backend = FriRecursionBackendD5<16, 8, Poseidon2Config>;

fn run_chain(recompose_lanes: usize) {
    let config = cfg();
    let backend: Backend = FriRecursionBackend::<16, 8, _>::new_d5(P2);
    let params = ProveNextLayerParams {
        table_packing: packing(1, 4).with_npo_lanes(NpoTypeId::recompose(), recompose_lanes),
        constraint_profile: ConstraintProfile::Standard,
    };
    let base = base_proof(&config, 12);
    let input = base.into_recursion_input::<BatchOnly>();
    let layer1 =
        build_and_prove_next_layer::<Cfg, BatchOnly, _, 5>(&input, &config, &backend, &params)
            .unwrap_or_else(|e| panic!("layer 1 failed: {e:?}"));
    verify_native(&config, &layer1, "layer 1");
    let input = layer1.into_recursion_input::<BatchOnly>();
    let layer2 =
        build_and_prove_next_layer::<Cfg, BatchOnly, _, 5>(&input, &config, &backend, &params)
            .unwrap_or_else(|e| panic!("layer 2 failed: {e:?}"));
    verify_native(&config, &layer2, "layer 2");
}

/// Reference: passes on the unmodified tree.
#[test]
fn quintic_chain_recompose_lanes_1() {
    run_chain(1);
}

/// FAILS on the unmodified tree (index out of bounds in `RecomposeAir::eval`, from `prove_batch`).
#[test]
fn quintic_chain_recompose_lanes_2() {
    run_chain(2);
}
