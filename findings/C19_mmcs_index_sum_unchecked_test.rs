//! Side observation on the UNMODIFIED code (C19): the exposed `mmcs_index_sum` of a Merkle row is
//! copied from the witness into the Poseidon2 row without being compared with the direction bits
//! of the chain. The Poseidon2 table defines it by the recurrence `sum' = 2·sum + mmcs_bit`
//! (the AIR trace generator recomputes it from the bits and sends THAT value on the witness bus),
//! so a public `mmcs_index_sum` that differs from the bits conflicts with the circuit. The runner
//! reports success and returns traces for it.
//!
//! Goes in `circuit/tests/side_mmcs_index_sum_unchecked.rs`. FAILS on the unmodified tree
//! (test `wrong_index_sum_is_rejected`).
//!
//! Shape (the one of circuit-prover/examples/poseidon2_perm_merkle.rs): three arity-2 Merkle rows,
//! direction bits 0 (row 0, new_start), 1, 0, so the accumulator exposed on row 2 is 2.

use p3_circuit::ops::{
    NpoPrivateData, Poseidon2Config, Poseidon2PermCall, Poseidon2PermPrivateData,
    generate_poseidon2_trace, generate_recompose_trace,
};
use p3_circuit::{CircuitBuilder, CircuitError};
use p3_field::PrimeCharacteristicRing;
use p3_field::extension::BinomialExtensionField;
use p3_koala_bear::{KoalaBear, default_koalabear_poseidon2_16};
use p3_poseidon2_circuit_air::KoalaBearD4Width16;

type F = KoalaBear;
type EF = BinomialExtensionField<F, 4>;

fn run_with_index_sum(claimed: u64) -> Result<(), CircuitError> {
    let mut builder = CircuitBuilder::<EF>::new();
    builder.enable_poseidon2_perm::<KoalaBearD4Width16, _>(
        generate_poseidon2_trace::<EF, KoalaBearD4Width16>,
        default_koalabear_poseidon2_16(),
    );
    builder.enable_recompose::<F>(generate_recompose_trace::<F, EF>);
    let cfg = Poseidon2Config::KOALA_BEAR_D4_W16;

    let zero = builder.alloc_const(EF::ZERO, "bit0");
    let one = builder.alloc_const(EF::ONE, "bit1");
    let leaf: Vec<_> = (1..=4u64)
        .map(|i| Some(builder.alloc_const(EF::from_u64(i), "leaf")))
        .collect();

    builder
        .add_poseidon2_perm(&Poseidon2PermCall {
            config: cfg,
            new_start: true,
            merkle_path: true,
            mmcs_bit: Some(zero),
            mmcs_bit2: None,
            inputs: leaf,
            out_ctl: vec![false, false],
            return_all_outputs: false,
            mmcs_index_sum: None,
        })
        .unwrap();
    let (row1, _) = builder
        .add_poseidon2_perm(&Poseidon2PermCall {
            config: cfg,
            new_start: false,
            merkle_path: true,
            mmcs_bit: Some(one),
            mmcs_bit2: None,
            inputs: vec![None; 4],
            out_ctl: vec![false, false],
            return_all_outputs: false,
            mmcs_index_sum: None,
        })
        .unwrap();
    let index_sum = builder.public_input();
    let (row2, _) = builder
        .add_poseidon2_perm(&Poseidon2PermCall {
            config: cfg,
            new_start: false,
            merkle_path: true,
            mmcs_bit: Some(zero),
            mmcs_bit2: None,
            inputs: vec![None; 4],
            out_ctl: vec![false, false],
            return_all_outputs: false,
            mmcs_index_sum: Some(index_sum),
        })
        .unwrap();

    let circuit = builder.build().unwrap();
    let mut runner = circuit.runner();
    runner.set_public_inputs(&[EF::from_u64(claimed)])?;
    for (op, s) in [(row1, 10u64), (row2, 20)] {
        runner.set_private_data(
            op,
            NpoPrivateData::new(Poseidon2PermPrivateData {
                sibling: vec![EF::from_u64(s), EF::from_u64(s + 1)],
            }),
        )?;
    }
    runner.run().map(|_| ())
}

#[test]
fn honest_index_sum_is_accepted() {
    // bits (row1, row2) = (1, 0): 2·(2·0 + 1) + 0 = 2
    run_with_index_sum(2).expect("the index accumulator of bits 1,0 is 2");
}

#[test]
fn wrong_index_sum_is_rejected() {
    for claimed in [0u64, 1, 3, 7] {
        let res = run_with_index_sum(claimed);
        assert!(
            res.is_err(),
            "mmcs_index_sum = {claimed} conflicts with the direction bits (1, 0 -> 2): \
             run() must fail, got {res:?}"
        );
    }
}
