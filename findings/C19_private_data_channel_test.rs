//! Side observations for C19 on the UNMODIFIED tree (goes into circuit/tests/).
//!
//! Property: "Executing a circuit with missing ..., EXTRA or CONFLICTING inputs ... returns an
//! error. It never ... reports success from unset or conflicting values."
//!
//! Each test attaches private data that the row cannot consume (extra) or that contradicts the
//! value the row really uses (conflicting) and expects `set_private_data(..).and_then(run)` to be
//! an error.

use p3_circuit::ops::poseidon2_perm::Poseidon2PermCallBase;
use p3_circuit::ops::{
    KoalaBearD1Width16, NpoPrivateData, NpoTypeId, Poseidon2Config, Poseidon2PermCall,
    Poseidon2PermPrivateData, Poseidon2Trace, generate_poseidon2_trace, generate_recompose_trace,
};
use p3_circuit::{CircuitBuilder, NonPrimitiveOpId};
use p3_field::extension::BinomialExtensionField;
use p3_field::{BasedVectorSpace, PrimeCharacteristicRing};
use p3_koala_bear::{KoalaBear, default_koalabear_poseidon2_16};
use p3_poseidon2_circuit_air::KoalaBearD4Width16;
use p3_symmetric::Permutation;

type Base = KoalaBear;
type Ext4 = BinomialExtensionField<Base, 4>;

/// (a) Sibling private data attached to a D=1 sponge row (base-field circuit).
/// `execute_base` never looks at the private-data table, so the payload is silently dropped.
#[test]
fn side_a_private_data_on_a_d1_sponge_row_must_be_an_error() {
    let perm = default_koalabear_poseidon2_16();
    let mut builder = CircuitBuilder::<Base>::new();
    builder.enable_poseidon2_perm_base::<KoalaBearD1Width16, _>(
        generate_poseidon2_trace::<Base, KoalaBearD1Width16>,
        perm,
    );
    let a = builder.public_input();
    let b = builder.public_input();
    let mut inputs = [None; 16];
    inputs[0] = Some(a);
    inputs[1] = Some(b);
    let (op_id, _outs) = builder
        .add_poseidon2_perm_base(&Poseidon2PermCallBase {
            config: Poseidon2Config::KOALA_BEAR_D1_W16,
            new_start: true,
            inputs,
            out_ctl: [true; 8],
            return_all_outputs: false,
            absorb_len: 0,
        })
        .unwrap();
    let circuit = builder.build().unwrap();

    let mut runner = circuit.runner();
    runner
        .set_public_inputs(&[Base::from_u64(11), Base::from_u64(13)])
        .unwrap();
    let result = runner
        .set_private_data(
            op_id,
            NpoPrivateData::new(Poseidon2PermPrivateData {
                sibling: vec![Base::from_u64(77); 8],
            }),
        )
        .and_then(|()| runner.run());
    assert!(
        result.is_err(),
        "private data on a row that cannot consume it was accepted and run() reported success"
    );
}

/// (b) Private data attached to a Recompose row: RecomposeExecutor never reads private data and
/// `set_private_data` only checks that the op id exists.
#[test]
fn side_b_private_data_on_a_recompose_row_must_be_an_error() {
    let mut builder = CircuitBuilder::<Ext4>::new();
    builder.enable_recompose::<Base>(generate_recompose_trace::<Base, Ext4>);
    let coeffs: Vec<_> = (0..4).map(|_| builder.public_input()).collect();
    let _ext = builder
        .recompose_base_coeffs_to_ext::<Base>(&coeffs)
        .unwrap();
    let circuit = builder.build().unwrap();

    let mut runner = circuit.runner();
    let lift = |x: u64| Ext4::from_prime_subfield(Base::from_u64(x));
    runner
        .set_public_inputs(&[lift(1), lift(2), lift(3), lift(4)])
        .unwrap();
    let result = runner
        .set_private_data(
            NonPrimitiveOpId(0),
            NpoPrivateData::new(Poseidon2PermPrivateData {
                sibling: vec![lift(9), lift(9)],
            }),
        )
        .and_then(|()| runner.run());
    assert!(
        result.is_err(),
        "private data on a Recompose row was accepted and run() reported success"
    );
}

/// (c) A Merkle row whose sibling limbs are witness-fed AND which gets a private sibling with
/// different values: `fill_sibling_data` writes the private sibling, `apply_witness_values`
/// then overwrites it. Two conflicting sources for the same limbs, no error; the digest is the
/// one of the witness-fed sibling, the private payload is ignored.
#[test]
fn side_c_private_sibling_conflicting_with_witness_fed_sibling_must_be_an_error() {
    let perm = default_koalabear_poseidon2_16();
    let ext = |k: u64| {
        Ext4::from_basis_coefficients_slice(&[
            Base::from_u64(4 * k),
            Base::from_u64(4 * k + 1),
            Base::from_u64(4 * k + 2),
            Base::from_u64(4 * k + 3),
        ])
        .unwrap()
    };
    let state = [ext(1), ext(2), ext(3), ext(4)];

    // Native digest of leaf || witness-fed sibling.
    let mut flat = [Base::ZERO; 16];
    for (i, e) in state.iter().enumerate() {
        let c: &[Base] = e.as_basis_coefficients_slice();
        flat[4 * i..4 * i + 4].copy_from_slice(c);
    }
    let out = perm.permute(flat);
    let digest0 = Ext4::from_basis_coefficients_slice(&out[0..4]).unwrap();
    let digest1 = Ext4::from_basis_coefficients_slice(&out[4..8]).unwrap();

    let mut builder = CircuitBuilder::<Ext4>::new();
    builder.enable_poseidon2_perm::<KoalaBearD4Width16, _>(
        generate_poseidon2_trace::<Ext4, KoalaBearD4Width16>,
        perm,
    );
    builder.enable_recompose::<Base>(generate_recompose_trace::<Base, Ext4>);
    let bit = builder.alloc_const(Ext4::ZERO, "mmcs_bit");
    let limbs: Vec<_> = state
        .iter()
        .map(|&v| Some(builder.alloc_const(v, "limb")))
        .collect();
    let (op_id, outs) = builder
        .add_poseidon2_perm(&Poseidon2PermCall {
            config: Poseidon2Config::KOALA_BEAR_D4_W16,
            new_start: true,
            merkle_path: true,
            mmcs_bit: Some(bit),
            mmcs_bit2: None,
            inputs: limbs,
            out_ctl: vec![true, true],
            return_all_outputs: false,
            mmcs_index_sum: None,
        })
        .unwrap();
    let e0 = builder.public_input();
    let e1 = builder.public_input();
    builder.connect(outs[0].unwrap(), e0);
    builder.connect(outs[1].unwrap(), e1);
    let circuit = builder.build().unwrap();

    let mut runner = circuit.runner();
    runner.set_public_inputs(&[digest0, digest1]).unwrap();
    let result = runner
        .set_private_data(
            op_id,
            NpoPrivateData::new(Poseidon2PermPrivateData {
                // contradicts the witness-fed sibling limbs ext(3), ext(4)
                sibling: vec![ext(50), ext(60)],
            }),
        )
        .and_then(|()| runner.run());
    assert!(
        result.is_err(),
        "a private sibling that contradicts the witness-fed sibling limbs was accepted and run() \
         reported success"
    );
}

/// (d) Call history: `execute_all` is public and takes `&mut self`; calling it and then `run()`
/// executes every non-primitive row twice. The second pass is not an error (all witness writes
/// are idempotent) but the per-op execution state keeps the rows of both passes, so the traces
/// hold two Poseidon rows for a circuit with one permutation.
#[test]
fn side_d_execute_all_then_run_must_not_duplicate_rows() {
    let perm = default_koalabear_poseidon2_16();
    let mut builder = CircuitBuilder::<Base>::new();
    builder.enable_poseidon2_perm_base::<KoalaBearD1Width16, _>(
        generate_poseidon2_trace::<Base, KoalaBearD1Width16>,
        perm,
    );
    let a = builder.public_input();
    let mut inputs = [None; 16];
    inputs[0] = Some(a);
    builder
        .add_poseidon2_perm_base(&Poseidon2PermCallBase {
            config: Poseidon2Config::KOALA_BEAR_D1_W16,
            new_start: true,
            inputs,
            out_ctl: [true; 8],
            return_all_outputs: false,
            absorb_len: 0,
        })
        .unwrap();
    let circuit = builder.build().unwrap();

    let mut runner = circuit.runner();
    runner.set_public_inputs(&[Base::from_u64(11)]).unwrap();
    runner.execute_all().unwrap();
    match runner.run() {
        Err(_) => {} // refusing the second execution is fine
        Ok(traces) => {
            let t = traces
                .non_primitive_trace::<Poseidon2Trace<Base>>(&NpoTypeId::poseidon2_perm(
                    Poseidon2Config::KOALA_BEAR_D1_W16,
                ))
                .expect("poseidon2 trace");
            assert_eq!(
                t.total_rows(),
                1,
                "one permutation in the circuit, but the traces hold the rows of two executions"
            );
        }
    }
}
