//! Side observations on the UNMODIFIED code (property C19).
//!
//! Each test asserts the property as stated ("missing / wrong-length / conflicting inputs return
//! an error; success is never reported from unset values"). A FAILING test here means the
//! unmodified runner already reports success for that input.
//!
//! Drop this file into `circuit/tests/` and run
//! `cargo nextest run -p p3-circuit --test side_observations_c19 --no-fail-fast`.

use p3_baby_bear::{BabyBear, default_babybear_poseidon2_16};
use p3_circuit::ops::{
    NpoPrivateData, Poseidon2Config, Poseidon2Params, Poseidon2PermCall, Poseidon2PermPrivateData,
    generate_poseidon2_trace,
};
use p3_circuit::{Circuit, CircuitBuilder, NonPrimitiveOpId};
use p3_field::extension::BinomialExtensionField;
use p3_field::{BasedVectorSpace, PrimeCharacteristicRing};

type F = BabyBear;
type EF = BinomialExtensionField<F, 4>;

struct Params;

impl Poseidon2Params for Params {
    type BaseField = F;
    const CONFIG: Poseidon2Config = Poseidon2Config::BABY_BEAR_D4_W16;
}

fn ef(start: u64) -> EF {
    EF::from_basis_coefficients_slice(&[
        F::from_u64(start),
        F::from_u64(start + 1),
        F::from_u64(start + 2),
        F::from_u64(start + 3),
    ])
    .unwrap()
}

/// One Merkle-mode Poseidon2 row (D=4, W=16): leaf limbs public, sibling limbs via private data.
fn merkle_row_circuit() -> (Circuit<EF>, NonPrimitiveOpId) {
    let mut builder = CircuitBuilder::<EF>::new();
    builder.enable_poseidon2_perm::<Params, _>(
        generate_poseidon2_trace::<EF, Params>,
        default_babybear_poseidon2_16(),
    );
    let leaf0 = builder.public_input();
    let leaf1 = builder.public_input();
    let bit = builder.alloc_const(EF::ZERO, "mmcs_bit");
    let (op_id, outputs) = builder
        .add_poseidon2_perm(&Poseidon2PermCall {
            config: Poseidon2Config::BABY_BEAR_D4_W16,
            new_start: true,
            merkle_path: true,
            mmcs_bit: Some(bit),
            mmcs_bit2: None,
            inputs: vec![Some(leaf0), Some(leaf1), None, None],
            out_ctl: vec![true, true],
            return_all_outputs: false,
            mmcs_index_sum: None,
        })
        .unwrap();
    builder.tag(outputs[0].unwrap(), "digest0").unwrap();
    (builder.build().unwrap(), op_id)
}

/// S1: the sibling private data of a Merkle row is withheld completely.
/// `resolve_private_data` maps the `NonPrimitiveOpMissingPrivateData` error to `Ok(None)`, the
/// sibling limbs stay zero and `run` reports success.
#[test]
fn s1_missing_merkle_private_data_must_be_an_error() {
    let (circuit, _op_id) = merkle_row_circuit();
    let mut runner = circuit.runner();
    runner.set_public_inputs(&[ef(1), ef(5)]).unwrap();
    // no set_private_data at all
    assert!(
        runner.run().is_err(),
        "run() succeeded although the Merkle row's private data was never supplied"
    );
}

/// S2a: sibling private data that is too short (1 limb instead of capacity_ext = 2) is silently
/// zero-padded by `fill_sibling_data`.
#[test]
fn s2a_too_short_private_data_must_be_an_error() {
    let (circuit, op_id) = merkle_row_circuit();
    let mut runner = circuit.runner();
    runner.set_public_inputs(&[ef(1), ef(5)]).unwrap();
    let set = runner.set_private_data(
        op_id,
        NpoPrivateData::new(Poseidon2PermPrivateData {
            sibling: vec![ef(9)],
        }),
    );
    let run = runner.run();
    assert!(
        set.is_err() || run.is_err(),
        "1-limb sibling accepted for a row that needs 2 limbs"
    );
}

/// S2b: sibling private data that is too long (5 limbs) is silently truncated.
#[test]
fn s2b_too_long_private_data_must_be_an_error() {
    let (circuit, op_id) = merkle_row_circuit();
    let mut runner = circuit.runner();
    runner.set_public_inputs(&[ef(1), ef(5)]).unwrap();
    let set = runner.set_private_data(
        op_id,
        NpoPrivateData::new(Poseidon2PermPrivateData {
            sibling: vec![ef(9), ef(13), ef(17), ef(21), ef(25)],
        }),
    );
    let run = runner.run();
    assert!(
        set.is_err() || run.is_err(),
        "5-limb sibling accepted for a row that needs 2 limbs"
    );
}

/// S3: private data of the wrong concrete type (siblings typed over the base field instead of
/// the circuit field) fails the downcast in `resolve_private_data`, is treated as "none" and the
/// run succeeds with zero siblings. `set_private_data` documents a type validation it never does.
#[test]
fn s3_wrongly_typed_private_data_must_be_an_error() {
    let (circuit, op_id) = merkle_row_circuit();
    let mut runner = circuit.runner();
    runner.set_public_inputs(&[ef(1), ef(5)]).unwrap();
    let set = runner.set_private_data(
        op_id,
        NpoPrivateData::new(Poseidon2PermPrivateData::<F> {
            sibling: vec![F::from_u64(9), F::from_u64(13)],
        }),
    );
    let run = runner.run();
    assert!(
        set.is_err() || run.is_err(),
        "private data of the wrong type was accepted and ignored"
    );
}

/// S4: a private input that is withheld (set_private_inputs never called) is silently inferred
/// by the backward branch of the Add op when the sum is pinned elsewhere (`p = c - a`).
#[test]
fn s4_withheld_private_input_must_be_an_error() {
    let mut builder = CircuitBuilder::<F>::new();
    let a = builder.public_input();
    let p = builder.alloc_private_input("p");
    let sum = builder.add(a, p);
    let c = builder.define_const(F::from_u64(10));
    builder.connect(sum, c);
    let circuit = builder.build().unwrap();

    let mut runner = circuit.runner();
    runner.set_public_inputs(&[F::from_u64(3)]).unwrap();
    // set_private_inputs is never called
    assert!(
        runner.run().is_err(),
        "run() succeeded although the private input was never supplied"
    );
}

/// S5: a public input that conflicts with an `assert_bool` constraint is accepted: the BoolCheck
/// arm of `execute_alu_op` copies the value without checking `b * (b - 1) == 0`.
#[test]
fn s5_non_boolean_value_under_assert_bool_must_be_an_error() {
    let mut builder = CircuitBuilder::<F>::new();
    let b = builder.public_input();
    builder.assert_bool(b);
    let circuit = builder.build().unwrap();

    let mut runner = circuit.runner();
    runner.set_public_inputs(&[F::from_u64(5)]).unwrap();
    assert!(
        runner.run().is_err(),
        "run() succeeded with b = 5 under assert_bool(b)"
    );
}
