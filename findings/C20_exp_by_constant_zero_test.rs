//! Side observation (C20, unmodified tree): `circuit_exp_by_constant` is reached with exponent 0.
//!
//! Goes in `recursion/tests/`.
//!
//! `open_input`'s unified fast path (all matrices of one height in a batch opened at the same
//! single point) advances the per-height alpha power by `alpha^total_n`, where `total_n` is the
//! summed width of the group, via `circuit_exp_by_constant(builder, alpha, total_n)`. If the group
//! consists only of zero-width matrices, `total_n == 0`: the gadget hits `debug_assert!(n > 0)`
//! (debug) or underflows `num_bits - 1` (release) instead of returning `alpha^0 = 1`, whereas the
//! native `open_input` treats such a matrix as contributing nothing (alpha_pow *= 1, ro += 0) and
//! the circuit's own per-matrix fallback path (`compute_single_reduced_opening`) handles `n == 0`.
//!
//! The arithmetic of the proof is unchanged by the extra empty matrix, so the arithmetic-only
//! circuit is expected to accept (or at least to return an error, not to panic).

use p3_baby_bear::default_babybear_poseidon2_16;
use p3_challenger::{CanObserve, CanSampleBits, FieldChallenger, GrindingChallenger};
use p3_circuit::CircuitBuilder;
use p3_commit::Pcs;
use p3_dft::Radix2DitParallel;
use p3_field::coset::TwoAdicMultiplicativeCoset;
use p3_fri::FriParameters;
use p3_matrix::dense::RowMajorMatrix;
use p3_recursion::Recursive;
use p3_recursion::pcs::fri::{
    FriProofTargets, InputProofTargets, RecExtensionValMmcs, RecValMmcs, Witness as RecWitness,
    verify_fri_circuit,
};
use p3_recursion::public_inputs::{CommitmentOpening, FriVerifierInputs};
use p3_test_utils::baby_bear_params::*;
use rand::SeedableRng;
use rand::rngs::SmallRng;

type RecVal = RecValMmcs<F, 8, MyHash, MyCompress>;
type RecExt = RecExtensionValMmcs<F, Challenge, 8, RecVal>;
type FriTargets =
    FriProofTargets<F, Challenge, RecExt, InputProofTargets<F, Challenge, RecVal>, RecWitness<F>>;

type MyCommitment = <MyPcs as Pcs<Challenge, Challenger>>::Commitment;
type MyProverData = <MyPcs as Pcs<Challenge, Challenger>>::ProverData;
type MyProof = <MyPcs as Pcs<Challenge, Challenger>>::Proof;

struct Shape {
    log_blowup: usize,
    log_final_poly_len: usize,
    max_log_arity: usize,
    num_queries: usize,
    /// batches -> log2 degrees of the committed matrices
    groups: Vec<Vec<u8>>,
    /// (batch index, log2 degree) of an extra zero-width matrix shown to the circuit only
    extra_zero_width: Option<(usize, u8)>,
}

fn make_pcs(shape: &Shape) -> (MyPcs, Perm) {
    let perm = default_babybear_poseidon2_16();
    let hash = MyHash::new(perm.clone());
    let compress = MyCompress::new(perm.clone());
    let val_mmcs = MyMmcs::new(hash, compress, 0);
    let challenge_mmcs = ChallengeMmcs::new(val_mmcs.clone());
    let fri_params = FriParameters {
        log_blowup: shape.log_blowup,
        log_final_poly_len: shape.log_final_poly_len,
        max_log_arity: shape.max_log_arity,
        num_queries: shape.num_queries,
        commit_proof_of_work_bits: 1,
        query_proof_of_work_bits: 1,
        mmcs: challenge_mmcs,
    };
    let pcs = MyPcs::new(Radix2DitParallel::<F>::default(), val_mmcs, fri_params);
    (pcs, perm)
}

fn make_evals(sizes: &[u8], seed: u64) -> Vec<(TwoAdicMultiplicativeCoset<F>, RowMajorMatrix<F>)> {
    let mut rng = SmallRng::seed_from_u64(seed);
    sizes
        .iter()
        .map(|&deg_bits| {
            let domain = TwoAdicMultiplicativeCoset::new(F::GENERATOR, deg_bits as usize).unwrap();
            let width = 1 + (deg_bits as usize % 3);
            (
                domain,
                RowMajorMatrix::<F>::rand_nonzero(&mut rng, 1usize << deg_bits, width),
            )
        })
        .collect()
}

/// Returns `(log_arities, native_accepts, circuit_accepts)` for an honest proof of `shape`.
fn run_shape(shape: &Shape, seed: u64) -> (Vec<usize>, bool, bool) {
    let (pcs, perm) = make_pcs(shape);
    let log_blowup = shape.log_blowup;

    // ---------------- native prover ----------------
    let groups_evals: Vec<_> = shape
        .groups
        .iter()
        .enumerate()
        .map(|(i, sizes)| make_evals(sizes, seed + i as u64))
        .collect();

    let val_sizes: Vec<F> = shape
        .groups
        .iter()
        .flatten()
        .map(|&b| F::from_u8(b))
        .collect();

    let mut p_challenger = Challenger::new(perm.clone());
    p_challenger.observe_slice(&val_sizes);

    let mut commitments_and_data: Vec<(MyCommitment, MyProverData)> = Vec::new();
    for evals in &groups_evals {
        let (commitment, prover_data) =
            <MyPcs as Pcs<Challenge, Challenger>>::commit(&pcs, evals.clone());
        p_challenger.observe(commitment.clone());
        commitments_and_data.push((commitment, prover_data));
    }
    let zeta: Challenge = p_challenger.sample_algebra_element();

    let open_data: Vec<_> = groups_evals
        .iter()
        .enumerate()
        .map(|(i, evals)| (&commitments_and_data[i].1, vec![vec![zeta]; evals.len()]))
        .collect();
    let (opened_values, fri_proof): (_, MyProof) =
        <MyPcs as Pcs<Challenge, Challenger>>::open(&pcs, open_data, &mut p_challenger);

    // ---------------- native verifier (the reference) ----------------
    let native_accepts = {
        let mut challenger = Challenger::new(perm.clone());
        challenger.observe_slice(&val_sizes);
        for (commitment, _) in &commitments_and_data {
            challenger.observe(commitment.clone());
        }
        let _zeta: Challenge = challenger.sample_algebra_element();

        let coms = shape
            .groups
            .iter()
            .enumerate()
            .map(|(b, sizes)| {
                let mats = sizes
                    .iter()
                    .enumerate()
                    .map(|(m, &log_size)| {
                        let domain =
                            TwoAdicMultiplicativeCoset::new(F::GENERATOR, log_size as usize)
                                .unwrap();
                        (domain, vec![(zeta, opened_values[b][m][0].clone())])
                    })
                    .collect();
                (commitments_and_data[b].0.clone(), mats)
            })
            .collect();
        <MyPcs as Pcs<Challenge, Challenger>>::verify(&pcs, coms, &fri_proof, &mut challenger)
            .is_ok()
    };

    // ---------------- transcript replay to derive the circuit's challenges ----------------
    let mut v_challenger = Challenger::new(perm);
    v_challenger.observe_slice(&val_sizes);
    for (commitment, _) in &commitments_and_data {
        v_challenger.observe(commitment.clone());
    }
    let _zeta_v: Challenge = v_challenger.sample_algebra_element();

    let point_values_flat: Vec<Vec<Challenge>> =
        opened_values.into_iter().flatten().flatten().collect();
    for values in &point_values_flat {
        for &opening in values {
            v_challenger.observe_algebra_element(opening);
        }
    }
    let alpha: Challenge = v_challenger.sample_algebra_element();

    let mut betas: Vec<Challenge> = Vec::new();
    for (c, w) in fri_proof
        .commit_phase_commits
        .iter()
        .zip(fri_proof.commit_pow_witnesses.iter())
    {
        v_challenger.observe(c.clone());
        assert!(v_challenger.check_witness(1, *w));
        betas.push(v_challenger.sample_algebra_element());
    }
    for &c in &fri_proof.final_poly {
        v_challenger.observe_algebra_element(c);
    }
    let log_arities: Vec<usize> = fri_proof.query_proofs[0]
        .commit_phase_openings
        .iter()
        .map(|step| step.log_arity as usize)
        .collect();
    for &la in &log_arities {
        v_challenger.observe(F::from_usize(la));
    }
    assert!(v_challenger.check_witness(1, fri_proof.query_pow_witness));

    let total_log_reduction: usize = log_arities.iter().sum();
    let log_max_height = total_log_reduction + log_blowup + shape.log_final_poly_len;
    let num_queries = fri_proof.query_proofs.len();
    let index_bits_per_query: Vec<Vec<Challenge>> = (0..num_queries)
        .map(|_| {
            let index: usize = v_challenger.sample_bits(log_max_height);
            (0..log_max_height)
                .map(|k| Challenge::from_bool((index >> k) & 1 == 1))
                .collect()
        })
        .collect();

    // ---------------- circuit ----------------
    // Statement/proof seen by the circuit: batch `extra.0` additionally lists a zero-width
    // matrix of log-degree `extra.1` (its opened row is empty, its opened values at zeta too).
    let mut fri_proof = fri_proof;
    if let Some((b, _)) = shape.extra_zero_width {
        for qp in fri_proof.query_proofs.iter_mut() {
            qp.input_proof[b].opened_values.push(vec![]);
        }
    }
    let mut builder = CircuitBuilder::<Challenge>::new();
    let fri_targets = FriTargets::new(&mut builder, &fri_proof);
    let alpha_t = builder.public_input();
    let betas_t: Vec<_> = (0..betas.len()).map(|_| builder.public_input()).collect();
    let index_bits_t: Vec<Vec<_>> = (0..num_queries)
        .map(|_| {
            (0..log_max_height)
                .map(|_| builder.public_input())
                .collect()
        })
        .collect();

    let mut coms_targets = Vec::new();
    let mut commitment_openings = Vec::new();
    let mut pv_idx = 0;
    for (b, sizes) in shape.groups.iter().enumerate() {
        let commit_t = builder.public_input();
        let mut mats_targets = Vec::new();
        let mut opened_points = Vec::new();
        for &log_size in sizes {
            let domain = TwoAdicMultiplicativeCoset::new(F::GENERATOR, log_size as usize).unwrap();
            let fz = point_values_flat[pv_idx].clone();
            pv_idx += 1;
            let z_t = builder.public_input();
            let fz_t: Vec<_> = (0..fz.len()).map(|_| builder.public_input()).collect();
            mats_targets.push((domain, vec![(z_t, fz_t)]));
            opened_points.push((zeta, fz));
        }
        if let Some((eb, log_size)) = shape.extra_zero_width
            && eb == b
        {
            let domain = TwoAdicMultiplicativeCoset::new(F::GENERATOR, log_size as usize).unwrap();
            // reuse the batch's zeta target (no new public input) so the group takes the unified
            // single-point path
            let z_t = mats_targets[0].1[0].0;
            mats_targets.push((domain, vec![(z_t, vec![])]));
        }
        coms_targets.push((commit_t, mats_targets));
        commitment_openings.push(CommitmentOpening {
            commitment: Challenge::ZERO,
            opened_points,
        });
    }

    verify_fri_circuit::<F, Challenge, RecExt, RecVal, RecWitness<F>, p3_recursion::Target>(
        &mut builder,
        &fri_targets,
        alpha_t,
        &betas_t,
        &index_bits_t,
        &coms_targets,
        log_blowup,
        None, // arithmetic only: fold chain / evaluation points, no MMCS
    )
    .expect("honest proof shape must be accepted by the circuit builder");

    let circuit = builder.build().unwrap();

    let pub_inputs = FriVerifierInputs {
        fri_proof_values: FriTargets::get_values(&fri_proof),
        alpha,
        betas,
        query_index_bits: index_bits_per_query,
        commitment_openings,
    }
    .build();
    let private_inputs = <FriTargets as Recursive<Challenge>>::get_private_values(&fri_proof);

    let mut runner = circuit.runner();
    runner.set_public_inputs(&pub_inputs).unwrap();
    runner.set_private_inputs(&private_inputs).unwrap();
    let circuit_accepts = runner.run().is_ok();

    (log_arities, native_accepts, circuit_accepts)
}


/// Control: without the empty matrix the harness accepts.
#[test]
fn side_control_without_zero_width_matrix() {
    let shape = Shape {
        log_blowup: 2,
        log_final_poly_len: 0,
        max_log_arity: 1,
        num_queries: 4,
        groups: vec![vec![6u8], vec![3u8]],
        extra_zero_width: None,
    };
    let (_, native, circuit) = run_shape(&shape, 5);
    assert!(native && circuit);
}

/// Batch 1 additionally lists a zero-width matrix of degree 2^4, alone at its height.
/// Native arithmetic: contributes ro = 0 at height 6, alpha^0 = 1. Circuit: panics.
#[test]
fn side_zero_width_height_group_exponent_zero() {
    let shape = Shape {
        log_blowup: 2,
        log_final_poly_len: 0,
        max_log_arity: 1,
        num_queries: 4,
        groups: vec![vec![6u8], vec![3u8]],
        extra_zero_width: Some((1, 4)),
    };
    let (_, native, circuit) = run_shape(&shape, 5);
    assert!(native, "the underlying honest proof is accepted natively");
    assert!(circuit, "an empty matrix contributes alpha^0 = 1 and ro = 0");
}
