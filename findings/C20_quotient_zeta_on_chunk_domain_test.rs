//! Side observation (C20, unmodified tree): `recompose_quotient_from_chunks_circuit` does not
//! return the native value for EVERY evaluation point. The gadget forms
//! `L_i(zeta) = (prod_j Z_j(zeta)) / Z_i(zeta) / den_i`, i.e. it divides by `Z_i(zeta)`, whereas
//! the native verifier multiplies `prod_{j != i} Z_j(zeta) * Z_j(g_i)^{-1}` and never divides
//! by anything that depends on `zeta`. For `zeta` on one of the quotient chunk domains
//! (`Z_i(zeta) = 0`) the native value is perfectly well defined (e.g. `zeta = g_0` gives
//! `L_0 = 1`, `L_j = 0`, so `Q(zeta) = Q_0`), but the circuit asks for `0 / 0` and no witness
//! satisfies it.
//!
//! Goes in `recursion/tests/`. FAILS on the unmodified tree.

mod common;

use p3_circuit::CircuitBuilder;
use p3_commit::PolynomialSpace;
use p3_field::coset::TwoAdicMultiplicativeCoset;
use p3_field::{BasedVectorSpace, Field, PrimeCharacteristicRing};
use p3_recursion::pcs::fri::{InputProofTargets, MerkleCapTargets, RecValMmcs};
use p3_recursion::verifier::recompose_quotient_from_chunks_circuit;
use p3_test_utils::baby_bear_params::*;
use p3_uni_stark::StarkGenericConfig;

use crate::common::InnerFriGeneric;

type InnerFri = InnerFriGeneric<MyConfig, MyHash, MyCompress, DIGEST_ELEMS>;
type Domain = TwoAdicMultiplicativeCoset<F>;

/// Deterministic full-extension element.
fn ext(seed: u64) -> Challenge {
    <Challenge as BasedVectorSpace<F>>::from_basis_coefficients_fn(|j| F::from_u64(seed * 1009 + 17 * j as u64 + 3))
}

/// Native recomposition, verbatim from the p3 uni-stark / batch-stark verifiers.
fn native_quotient(domains: &[Domain], chunks: &[Vec<Challenge>], zeta: Challenge) -> Challenge {
    let zps: Vec<Challenge> = domains
        .iter()
        .enumerate()
        .map(|(i, domain)| {
            domains
                .iter()
                .enumerate()
                .filter(|(j, _)| *j != i)
                .map(|(_, other)| {
                    other.vanishing_poly_at_point(zeta)
                        * other
                            .vanishing_poly_at_point(domain.first_point())
                            .inverse()
                })
                .product::<Challenge>()
        })
        .collect();

    chunks
        .iter()
        .enumerate()
        .map(|(ch_i, ch)| {
            zps[ch_i]
                * ch.iter()
                    .enumerate()
                    .map(|(e_i, &c)| <Challenge as BasedVectorSpace<F>>::ith_basis_element(e_i).unwrap() * c)
                    .sum::<Challenge>()
        })
        .sum::<Challenge>()
}

/// Build the gadget for the given chunk domains, feed it `zeta` / `chunks`, and check that
/// the circuit is satisfied when (and only when) its output is `expected`.
fn gadget_outputs(
    pcs: &MyPcs,
    domains: &[Domain],
    chunks: &[Vec<Challenge>],
    zeta: Challenge,
    expected: Challenge,
) -> bool {
    let mut builder = CircuitBuilder::<Challenge>::new();
    let zeta_t = builder.public_input();
    let chunk_ts: Vec<Vec<_>> = chunks
        .iter()
        .map(|c| (0..c.len()).map(|_| builder.public_input()).collect())
        .collect();
    let expected_t = builder.public_input();

    let q = recompose_quotient_from_chunks_circuit::<
        MyConfig,
        InputProofTargets<F, Challenge, RecValMmcs<F, DIGEST_ELEMS, MyHash, MyCompress>>,
        InnerFri,
        MerkleCapTargets<F, DIGEST_ELEMS>,
        Domain,
    >(&mut builder, domains, &chunk_ts, zeta_t, pcs);
    builder.connect(q, expected_t);

    let circuit = builder.build().expect("circuit builds");
    let mut inputs = vec![zeta];
    inputs.extend(chunks.iter().flatten().copied());
    inputs.push(expected);

    let mut runner = circuit.runner();
    runner.set_public_inputs(&inputs).expect("public inputs");
    match runner.run() {
        Ok(_) => true,
        Err(e) => {
            std::eprintln!("runner error: {e:?}");
            false
        }
    }
}

#[test]
fn quotient_recomposition_matches_native_for_zeta_on_a_chunk_domain() {
    let config = make_test_config();
    let pcs = config.pcs();

    // 8-row trace, 2 quotient chunks (the shape of every degree-3 AIR in the test-suite).
    let trace_domain = Domain::new(F::ONE, 3).unwrap();
    let quotient_domain = trace_domain.create_disjoint_domain(1 << 4);
    let domains = quotient_domain.split_domains(2);

    let chunks: Vec<Vec<Challenge>> = (0..domains.len())
        .map(|i| (0..D).map(|e| ext((i * D + e) as u64)).collect())
        .collect();

    // Control: an ordinary out-of-domain point.
    let zeta = ext(100);
    let expected = native_quotient(&domains, &chunks, zeta);
    assert!(gadget_outputs(pcs, &domains, &chunks, zeta, expected));

    // zeta = first point of chunk domain 0 (and then the third point of chunk domain 1).
    for zeta_base in [
        domains[0].first_point(),
        domains[1].first_point() * domains[1].subgroup_generator().exp_u64(2),
    ] {
        let zeta = Challenge::from(zeta_base);
        let expected = native_quotient(&domains, &chunks, zeta);
        assert!(
            gadget_outputs(pcs, &domains, &chunks, zeta, expected),
            "gadget has no satisfying assignment for zeta = {zeta_base:?} although the native \
             recomposition is well defined there"
        );
    }
}
