//! C13 finding (interleaved emission order): the circuit produced by `RecursiveAir::eval_folded_circuit` must compute the same
//! folded constraint value as the native verifier's constraint folder, for *any* AIR -- including
//! an AIR that emits extension-field constraints itself (`ExtensionBuilder::assert_zero_ext`)
//! while declaring no lookups (empty lookup contexts).
//!
//! The native reference is `p3_lookup::folder::VerifierConstraintFolderWithLookups`, i.e. exactly
//! the folder the native batch-STARK verifier runs (`acc = acc * alpha + c` for every base and
//! extension constraint, in emission order).

use p3_air::{Air, AirBuilder, BaseAir, ExtensionBuilder, RowWindow, WindowAccess};
use p3_circuit::CircuitBuilder;
use p3_circuit::symbolic::{ColumnsTargets, RowSelectorsTargets};
use p3_field::{BasedVectorSpace, PrimeCharacteristicRing};
use p3_lookup::folder::VerifierConstraintFolderWithLookups;
use p3_lookup::logup::LogUpGadget;
use p3_matrix::dense::RowMajorMatrixView;
use p3_matrix::stack::VerticalPair;
use p3_recursion::traits::{LookupMetadata, RecursiveAir};
use p3_recursion::types::RecursiveLagrangeSelectors;
use p3_test_utils::baby_bear_params::*;
use p3_uni_stark::VerifierConstraintFolder;
use rand::rngs::SmallRng;
use rand::{RngExt, SeedableRng};

const WIDTH_AIR: usize = 3;

/// Coordinates of a genuine (non base-field) extension constant used by the AIR.
const GAMMA: [u32; 4] = [5, 7, 11, 13];

/// An AIR with two base-field constraints followed by two extension-field constraints that it
/// emits itself. It declares no bus interaction, so it is verified with empty lookup contexts.
///
/// * base: `transition * (next[0] - local[0] - local[1])`
/// * base: `local[0] * local[1] - local[2]`
/// * ext : `gamma * local[0] + local[1] - local[2]`   (gamma in EF \ F)
/// * ext : `first_row * (gamma - next[1])`
struct ExtConstraintAir;

impl<T> BaseAir<T> for ExtConstraintAir {
    fn width(&self) -> usize {
        WIDTH_AIR
    }
}

impl<AB: ExtensionBuilder> Air<AB> for ExtConstraintAir {
    fn eval(&self, builder: &mut AB) {
        let main = builder.main();
        let l0: AB::Expr = main.current(0).unwrap().into();
        let l1: AB::Expr = main.current(1).unwrap().into();
        let l2: AB::Expr = main.current(2).unwrap().into();
        let n0: AB::Expr = main.next(0).unwrap().into();
        let n1: AB::Expr = main.next(1).unwrap().into();

        // an extension-field constraint emitted BEFORE the base-field ones (interleaved emission order)
        let gamma = AB::EF::from_basis_coefficients_fn(|i| AB::F::from_u32(GAMMA[i]));
        let lift = |e: AB::Expr| -> AB::ExprEF { e.into() };
        let gamma_e: AB::ExprEF = gamma.into();

        builder.assert_zero_ext(gamma_e.clone() * lift(l0.clone()) + lift(l1.clone()) - lift(l2.clone()));
        // Base-field constraints first ...
        builder
            .when_transition()
            .assert_eq(n0, l0.clone() + l1.clone());
        builder.assert_zero(l0.clone() * l1.clone() - l2.clone());

        let first = lift(builder.is_first_row());
        builder.assert_zero_ext(first * (gamma_e - lift(n1)));
    }
}

fn random_ext(rng: &mut SmallRng) -> Challenge {
    Challenge::from_basis_coefficients_fn(|_| rng.random::<F>())
}

/// Native folded value: the folder used by the native (batch) verifier.
fn native_folded(
    air: &ExtConstraintAir,
    local: &[Challenge],
    next: &[Challenge],
    sels: [Challenge; 3],
    alpha: Challenge,
) -> Challenge {
    let main = VerticalPair::new(
        RowMajorMatrixView::new_row(local),
        RowMajorMatrixView::new_row(next),
    );
    let preprocessed = VerticalPair::new(
        RowMajorMatrixView::new(&[], 0),
        RowMajorMatrixView::new(&[], 0),
    );
    let preprocessed_window =
        RowWindow::from_two_rows(preprocessed.top.values, preprocessed.bottom.values);
    let inner: VerifierConstraintFolder<'_, MyConfig> = VerifierConstraintFolder {
        main,
        preprocessed,
        preprocessed_window,
        periodic_values: &[],
        public_values: &[],
        is_first_row: sels[0],
        is_last_row: sels[1],
        is_transition: sels[2],
        alpha,
        accumulator: Challenge::ZERO,
    };
    let mut folder = VerifierConstraintFolderWithLookups {
        inner,
        permutation: VerticalPair::new(
            RowMajorMatrixView::new(&[], 0),
            RowMajorMatrixView::new(&[], 0),
        ),
        permutation_challenges: &[],
        permutation_values: &[],
    };
    air.eval(&mut folder);
    folder.inner.accumulator
}

/// Build the recursive circuit for the AIR's folded constraints, constrain its output to
/// `claimed`, and run it on the given opened values. `Ok` iff the circuit computes `claimed`.
fn circuit_folds_to(
    air: &ExtConstraintAir,
    local: &[Challenge],
    next: &[Challenge],
    sels: [Challenge; 3],
    alpha: Challenge,
    claimed: Challenge,
) -> bool {
    let mut circuit = CircuitBuilder::<Challenge>::new();
    let sel_t = [
        circuit.public_input(),
        circuit.public_input(),
        circuit.public_input(),
    ];
    let alpha_t = circuit.public_input();
    // Not used by the constraint fold itself.
    let inv_vanishing = circuit.define_const(Challenge::ONE);
    let local_t: Vec<_> = (0..WIDTH_AIR).map(|_| circuit.public_input()).collect();
    let next_t: Vec<_> = (0..WIDTH_AIR).map(|_| circuit.public_input()).collect();

    let selectors = RecursiveLagrangeSelectors {
        row_selectors: RowSelectorsTargets {
            is_first_row: sel_t[0],
            is_last_row: sel_t[1],
            is_transition: sel_t[2],
        },
        inv_vanishing,
    };
    let columns = ColumnsTargets {
        challenges: &[],
        public_values: &[],
        permutation_local_values: &[],
        permutation_next_values: &[],
        permutation_values: &[],
        local_prep_values: &[],
        next_prep_values: &[],
        periodic_values: &[],
        local_values: &local_t,
        next_values: &next_t,
    };

    // No lookups: empty contexts, exactly as the recursive verifiers call it for such an AIR.
    let lookup_metadata = LookupMetadata::<F> { contexts: &[] };
    let folded = RecursiveAir::<F, Challenge, LogUpGadget>::eval_folded_circuit(
        air,
        &mut circuit,
        &selectors,
        &alpha_t,
        &lookup_metadata,
        columns,
        &LogUpGadget::new(),
    );

    let claimed_t = circuit.define_const(claimed);
    circuit.connect(folded, claimed_t);

    let mut inputs = sels.to_vec();
    inputs.push(alpha);
    inputs.extend_from_slice(local);
    inputs.extend_from_slice(next);

    let built = circuit.build().unwrap();
    let mut runner = built.runner();
    runner.set_public_inputs(&inputs).unwrap();
    runner.run().is_ok()
}

#[test]
fn folded_circuit_matches_native_folder_for_air_emitted_ext_constraints() {
    let air = ExtConstraintAir;
    let mut rng = SmallRng::seed_from_u64(13);

    for round in 0..4 {
        // Opened row values at an out-of-domain point are arbitrary extension elements.
        let local: Vec<Challenge> = (0..WIDTH_AIR).map(|_| random_ext(&mut rng)).collect();
        let next: Vec<Challenge> = (0..WIDTH_AIR).map(|_| random_ext(&mut rng)).collect();
        let sels = [
            random_ext(&mut rng),
            random_ext(&mut rng),
            random_ext(&mut rng),
        ];
        let alpha = random_ext(&mut rng);

        let native = native_folded(&air, &local, &next, sels, alpha);

        // Sanity of the reference: recompute the fold by hand (Horner in alpha, in the order
        // the AIR emits its constraints).
        let gamma = Challenge::from_basis_coefficients_fn(|i| F::from_u32(GAMMA[i]));
        let cs = [
            gamma * local[0] + local[1] - local[2],
            sels[2] * (next[0] - (local[0] + local[1])),
            local[0] * local[1] - local[2],
            sels[0] * (gamma - next[1]),
        ];
        let by_hand = cs.iter().fold(Challenge::ZERO, |acc, c| acc * alpha + *c);
        assert_eq!(native, by_hand, "round {round}: native folder reference");

        // The property: the circuit computes the native folded value ...
        assert!(
            circuit_folds_to(&air, &local, &next, sels, alpha, native),
            "round {round}: eval_folded_circuit does not compute the native folded constraint value"
        );
        // ... and nothing else (the check above is not vacuous).
        assert!(
            !circuit_folds_to(&air, &local, &next, sels, alpha, native + Challenge::ONE),
            "round {round}: circuit accepted a value different from the native one"
        );
    }
}

/// Soundness flavour of the same property: a row pair that satisfies both base constraints but
/// violates an extension constraint must NOT fold to zero in the circuit (it does not natively).
#[test]
fn violated_ext_constraint_is_visible_in_the_folded_circuit_value() {
    let air = ExtConstraintAir;
    let mut rng = SmallRng::seed_from_u64(1313);

    // local[2] = local[0] * local[1]; next[0] = local[0] + local[1]  => base constraints hold.
    let l0 = random_ext(&mut rng);
    let l1 = random_ext(&mut rng);
    let local = vec![l0, l1, l0 * l1];
    let next = vec![l0 + l1, random_ext(&mut rng), random_ext(&mut rng)];
    let sels = [
        random_ext(&mut rng),
        random_ext(&mut rng),
        random_ext(&mut rng),
    ];
    let alpha = random_ext(&mut rng);

    let native = native_folded(&air, &local, &next, sels, alpha);
    assert_ne!(
        native,
        Challenge::ZERO,
        "native folder sees the violated ext constraints"
    );
    assert!(
        !circuit_folds_to(&air, &local, &next, sels, alpha, Challenge::ZERO),
        "circuit folds to zero although the extension constraints are violated"
    );
    assert!(circuit_folds_to(&air, &local, &next, sels, alpha, native));
}
