//! Finding F11 (C09 / C11 / C12): the BoolCheck row of the ALU table constrains only its `a` column
//! (`a * (a - 1) = 0`); nothing ties `a` to the `out` column, and when the checked slot is a hint
//! output or private input at its first use (`assert_bool(x)` lowers to `BoolCheck { a: w, out: w }`)
//! the `a` column is in bus state "skip": the slot's value travels on the bus through `out` only.
//! A prover can therefore put a genuine boolean in `a` and ANY value in `out`: "bits" 3,1,0,1 of 13.

use std::panic::{AssertUnwindSafe, catch_unwind};

use p3_circuit::tables::Traces;
use p3_circuit::{AluOpKind, CircuitBuilder, WitnessId};
use p3_circuit_prover::batch_stark_prover::{BatchStarkProver, CircuitProverData, TablePacking};
use p3_circuit_prover::common::get_airs_and_degrees_with_prep;
use p3_circuit_prover::config::BabyBearConfig;
use p3_circuit_prover::field_params::ExtractBinomialW;
use p3_circuit_prover::{ConstraintProfile, config};
use p3_field::extension::BinomialExtensionField;
use p3_field::{BasedVectorSpace, Field, PrimeCharacteristicRing};
use p3_test_utils::baby_bear_params::BabyBear;

type Ext4 = BinomialExtensionField<BabyBear, 4>;


/// Re-evaluates the ALU trace with the decomposition hint outputs `digits` replaced by `forged`
/// (not necessarily boolean). Each BoolCheck row keeps a boolean in its `a` column and carries the
/// forged slot value in `c` / `out`.
fn forge_bits<EF: Field>(honest: &Traces<EF>, digits: &[WitnessId], forged: &[EF]) -> Traces<EF> {
    let mut t = honest.clone();
    let mut w: Vec<EF> = honest
        .witness_trace
        .index
        .iter()
        .map(|&id| *honest.witness_trace.get_value(id).expect("witness set"))
        .collect();
    for (&d, &v) in digits.iter().zip(forged) {
        w[d.0 as usize] = v;
    }
    for i in 0..t.alu_trace.values.len() {
        let [a, b, c, out] = t.alu_trace.indices[i];
        match t.alu_trace.op_kind[i] {
            AluOpKind::BoolCheck => {
                let v = w[out.0 as usize];
                let a_col = if v == EF::ZERO || v == EF::ONE { v } else { EF::ONE };
                t.alu_trace.values[i] = [a_col, EF::ZERO, v, v];
            }
            AluOpKind::MulAdd => {
                let (a_val, b_val, c_val) = (w[a.0 as usize], w[b.0 as usize], w[c.0 as usize]);
                let out_val = a_val * b_val + c_val;
                w[out.0 as usize] = out_val;
                t.alu_trace.values[i] = [a_val, b_val, c_val, out_val];
            }
            kind => panic!("only BoolCheck/MulAdd expected, got {kind:?}"),
        }
    }
    for (pos, id) in t.public_trace.index.clone().into_iter().enumerate() {
        t.public_trace.values[pos] = w[id.0 as usize];
    }
    t
}

/// Proves `traces` and verifies the proof. A panic / error anywhere counts as a rejection.
fn accepted<EF, const D: usize>(
    prover: &BatchStarkProver<BabyBearConfig>,
    data: &CircuitProverData<BabyBearConfig>,
    traces: &Traces<EF>,
) -> bool
where
    EF: Field + BasedVectorSpace<BabyBear> + ExtractBinomialW<BabyBear>,
{
    catch_unwind(AssertUnwindSafe(|| {
        prover
            .prove_all_tables(traces, data)
            .is_ok_and(|proof| prover.verify_all_tables::<EF>(&proof).is_ok())
    }))
    .unwrap_or(false)
}


#[test]
fn a_non_boolean_bit_of_a_bit_decomposition_is_rejected() {
    type F = BabyBear;
    const N_BITS: usize = 4;

    let mut builder = CircuitBuilder::<F>::new();
    let x = builder.public_input();
    let bits = builder.decompose_to_bits::<F>(x, N_BITS).unwrap();
    let circuit = builder.build().unwrap();
    let bit_wids: Vec<WitnessId> = bits.iter().map(|b| circuit.expr_to_widx[b]).collect();

    let cfg = config::baby_bear();
    let (airs_degrees, prim_cols, npo_cols) = get_airs_and_degrees_with_prep::<BabyBearConfig, _, 1>(
        &circuit,
        &TablePacking::default(),
        &[],
        &[],
        ConstraintProfile::Standard,
    )
    .unwrap();
    let (airs, degrees): (Vec<_>, Vec<usize>) = airs_degrees.into_iter().unzip();
    let prover_data = p3_batch_stark::ProverData::from_airs_and_degrees(&cfg, &airs, &degrees);
    let data = CircuitProverData::new(prover_data, prim_cols, npo_cols);
    let prover = BatchStarkProver::new(cfg);

    // honest: x = 13 = 0b1101
    let mut runner = circuit.runner();
    runner.set_public_inputs(&[F::from_u64(13)]).unwrap();
    let honest = runner.run().unwrap();
    assert!(accepted::<F, 1>(&prover, &data, &honest), "honest proof must verify");

    // dishonest: 13 = 3*1 + 1*2 + 0*4 + 1*8 with the "bit" 3
    let forged_bits = [F::from_u64(3), F::ONE, F::ZERO, F::ONE];
    let forged = forge_bits(&honest, &bit_wids, &forged_bits);
    assert!(
        !accepted::<F, 1>(&prover, &data, &forged),
        "a proof whose bit decomposition of 13 contains the digit 3 was accepted"
    );
}
