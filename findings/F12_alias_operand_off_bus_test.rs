//! Finding (C09, third clause): an ALU operand that aliases the slot its own row creates is taken off the witness bus
//! ("skip"), so the AIR relation is evaluated on a column nothing binds. `y = x + b; connect(y, x)` with a private `x` at its
//! first use lowers to `Add { a: w, b, out: w }`: the program asserts `b == 0`, the table accepts any `b`.

use std::panic::{AssertUnwindSafe, catch_unwind};

use p3_circuit::tables::Traces;
use p3_circuit::{AluOpKind, CircuitBuilder};
use p3_circuit_prover::batch_stark_prover::{BatchStarkProver, CircuitProverData, TablePacking};
use p3_circuit_prover::common::get_airs_and_degrees_with_prep;
use p3_circuit_prover::config::BabyBearConfig;
use p3_circuit_prover::field_params::ExtractBinomialW;
use p3_circuit_prover::{ConstraintProfile, config};
use p3_field::extension::BinomialExtensionField;
use p3_field::{BasedVectorSpace, Field, PrimeCharacteristicRing};
use p3_test_utils::baby_bear_params::BabyBear;

type Ext4 = BinomialExtensionField<BabyBear, 4>;


/// Proves `traces` and verifies the proof. A panic / error anywhere counts as a rejection.
fn accepted<EF, const D: usize>(
    prover: &BatchStarkProver<BabyBearConfig>,
    data: &CircuitProverData<BabyBearConfig>,
    traces: &Traces<EF>,
) -> bool
where
    EF: Field + BasedVectorSpace<BabyBear> + ExtractBinomialW<BabyBear>,
{
    catch_unwind(AssertUnwindSafe(|| {
        prover
            .prove_all_tables(traces, data)
            .is_ok_and(|proof| prover.verify_all_tables::<EF>(&proof).is_ok())
    }))
    .unwrap_or(false)
}



#[test]
fn an_add_whose_result_is_connected_to_its_own_operand_forces_the_other_operand_to_zero() {
    type F = BabyBear;
    let mut builder = CircuitBuilder::<F>::new();
    let x = builder.alloc_private_input("x");
    let b = builder.public_input();
    let y = builder.add(x, b);
    builder.connect(y, x);
    let circuit = builder.build().unwrap();

    let cfg = config::baby_bear();
    let (airs_degrees, prim_cols, npo_cols) = get_airs_and_degrees_with_prep::<BabyBearConfig, _, 1>(
        &circuit,
        &TablePacking::default(),
        &[],
        &[],
        ConstraintProfile::Standard,
    )
    .unwrap();
    let (airs, degrees): (Vec<_>, Vec<usize>) = airs_degrees.into_iter().unzip();
    let prover_data = p3_batch_stark::ProverData::from_airs_and_degrees(&cfg, &airs, &degrees);
    let data = CircuitProverData::new(prover_data, prim_cols, npo_cols);
    let prover = BatchStarkProver::new(cfg);

    // honest: b = 0
    let mut runner = circuit.runner();
    runner.set_public_inputs(&[F::ZERO]).unwrap();
    runner.set_private_inputs(&[F::from_u64(7)]).unwrap();
    let honest = runner.run().unwrap();
    assert!(accepted::<F, 1>(&prover, &data, &honest), "honest proof must verify");
    // the program rejects b = 5
    let mut runner = circuit.runner();
    runner.set_public_inputs(&[F::from_u64(5)]).unwrap();
    runner.set_private_inputs(&[F::from_u64(7)]).unwrap();
    assert!(runner.run().is_err(), "x + 5 == x has no solution");

    // dishonest: claim b = 5; the Add row carries a = 2, b = 5, out = 7 (the slot of x holds 7)
    let mut t = honest.clone();
    println!("ops: {:?}", t.alu_trace.op_kind);
    println!("indices: {:?}", t.alu_trace.indices);
    assert_eq!(t.alu_trace.values.len(), 1);
    assert_eq!(t.alu_trace.op_kind[0], AluOpKind::Add);
    t.alu_trace.values[0] = [F::from_u64(2), F::from_u64(5), F::ZERO, F::from_u64(7)];
    for (pos, id) in t.public_trace.index.clone().into_iter().enumerate() {
        let _ = id;
        t.public_trace.values[pos] = F::from_u64(5);
    }
    assert!(
        !accepted::<F, 1>(&prover, &data, &t),
        "a proof of `x + 5 == x` was accepted"
    );
}
