//! Findings around the FRI input batches (C07 / C15), reproduced on the unmodified tree by the round-12 C07 mutation agent's probes:
//!  (1) a batch whose tallest matrix is shorter than the global max height: the in-circuit MMCS opening used ALL index bits (path of the
//!      global depth, low bits first) where native uses `index >> (log_global_max_height - log_batch_max_height)`;
//!  (2) the number of query proofs is taken from the proof: dropping a query proof is rejected natively, accepted in-circuit.
use std::panic::{AssertUnwindSafe, catch_unwind};

use p3_baby_bear::default_babybear_poseidon2_16;
use p3_challenger::{CanObserve, CanSampleBits, FieldChallenger, GrindingChallenger};
use p3_circuit::CircuitBuilder;
use p3_circuit::ops::{generate_poseidon2_trace, generate_recompose_trace};
use p3_commit::Pcs;
use p3_dft::Radix2DitParallel;
use p3_field::coset::TwoAdicMultiplicativeCoset;
use p3_fri::FriParameters;
use p3_matrix::dense::RowMajorMatrix;
use p3_poseidon2_circuit_air::BabyBearD4Width16;
use p3_recursion::pcs::fri::{
    FriProofTargets, InputProofTargets, MerkleCapTargets, RecExtensionValMmcs, RecValMmcs,
    Witness as RecWitness, verify_fri_circuit,
};
use p3_recursion::pcs::set_fri_mmcs_private_data;
use p3_recursion::{Poseidon2Config, Recursive};
use p3_test_utils::baby_bear_params::*;
use rand::SeedableRng;
use rand::rngs::SmallRng;

type RecVal = RecValMmcs<F, 8, MyHash, MyCompress>;
type RecExt = RecExtensionValMmcs<F, Challenge, 8, RecVal>;
type FriTargets =
    FriProofTargets<F, Challenge, RecExt, InputProofTargets<F, Challenge, RecVal>, RecWitness<F>>;

type Commitment = <MyPcs as Pcs<Challenge, Challenger>>::Commitment;
type ProverData = <MyPcs as Pcs<Challenge, Challenger>>::ProverData;
type Proof = <MyPcs as Pcs<Challenge, Challenger>>::Proof;
type Domain = TwoAdicMultiplicativeCoset<F>;
type ComsWithPoints = Vec<(Commitment, Vec<(Domain, Vec<(Challenge, Vec<Challenge>)>)>)>;

#[derive(Clone, Copy, Debug)]
struct Shape {
    log_blowup: usize,
    log_final_poly_len: usize,
    max_log_arity: usize,
    num_queries: usize,
    commit_pow_bits: usize,
    query_pow_bits: usize,
}

struct Instance {
    pcs: MyPcs,
    perm: Perm,
    shape: Shape,
    /// Base-field log sizes, observed first in the transcript (as `tests/fri.rs` does).
    val_sizes: Vec<F>,
    coms: ComsWithPoints,
    proof: Proof,
}

fn make_pcs(shape: Shape) -> (MyPcs, Perm) {
    let perm = default_babybear_poseidon2_16();
    let hash = MyHash::new(perm.clone());
    let compress = MyCompress::new(perm.clone());
    let val_mmcs = MyMmcs::new(hash, compress, 0);
    let challenge_mmcs = ChallengeMmcs::new(val_mmcs.clone());
    let fri_params = FriParameters {
        log_blowup: shape.log_blowup,
        log_final_poly_len: shape.log_final_poly_len,
        max_log_arity: shape.max_log_arity,
        num_queries: shape.num_queries,
        commit_proof_of_work_bits: shape.commit_pow_bits,
        query_proof_of_work_bits: shape.query_pow_bits,
        mmcs: challenge_mmcs,
    };
    let pcs = MyPcs::new(Radix2DitParallel::<F>::default(), val_mmcs, fri_params);
    (pcs, perm)
}

/// Commit to `groups` (one batch per group, `(log_size, width)` per matrix), open everything at
/// one `zeta`, and return the honest instance.
fn prove(shape: Shape, groups: &[Vec<(usize, usize)>], seed: u64) -> Instance {
    let (pcs, perm) = make_pcs(shape);
    let mut rng = SmallRng::seed_from_u64(seed);

    let val_sizes: Vec<F> = groups
        .iter()
        .flatten()
        .map(|&(log_size, _)| F::from_usize(log_size))
        .collect();

    let mut challenger = Challenger::new(perm.clone());
    challenger.observe_slice(&val_sizes);

    let mut committed: Vec<(Commitment, ProverData)> = Vec::new();
    for group in groups {
        let evals: Vec<(Domain, RowMajorMatrix<F>)> = group
            .iter()
            .map(|&(log_size, width)| {
                let domain = Domain::new(F::GENERATOR, log_size).expect("valid two-adic size");
                (
                    domain,
                    RowMajorMatrix::<F>::rand_nonzero(&mut rng, 1 << log_size, width),
                )
            })
            .collect();
        let (commitment, data) = <MyPcs as Pcs<Challenge, Challenger>>::commit(&pcs, evals);
        challenger.observe(commitment.clone());
        committed.push((commitment, data));
    }

    let zeta: Challenge = challenger.sample_algebra_element();

    let open_data: Vec<_> = committed
        .iter()
        .zip(groups)
        .map(|((_, data), group)| (data, vec![vec![zeta]; group.len()]))
        .collect();
    let (opened_values, proof) =
        <MyPcs as Pcs<Challenge, Challenger>>::open(&pcs, open_data, &mut challenger);

    let coms: ComsWithPoints = committed
        .iter()
        .zip(groups)
        .zip(opened_values)
        .map(|(((commitment, _), group), batch_values)| {
            let mats = group
                .iter()
                .zip(batch_values)
                .map(|(&(log_size, _), mat_values)| {
                    let domain = Domain::new(F::GENERATOR, log_size).unwrap();
                    assert_eq!(mat_values.len(), 1);
                    (domain, vec![(zeta, mat_values[0].clone())])
                })
                .collect();
            (commitment.clone(), mats)
        })
        .collect();

    Instance {
        pcs,
        perm,
        shape,
        val_sizes,
        coms,
        proof,
    }
}

/// Verdict of the native verifier.
fn native_accepts(inst: &Instance) -> bool {
    let mut challenger = Challenger::new(inst.perm.clone());
    challenger.observe_slice(&inst.val_sizes);
    for (commitment, _) in &inst.coms {
        challenger.observe(commitment.clone());
    }
    let _zeta: Challenge = challenger.sample_algebra_element();
    <MyPcs as Pcs<Challenge, Challenger>>::verify(
        &inst.pcs,
        inst.coms.clone(),
        &inst.proof,
        &mut challenger,
    )
    .is_ok()
}

struct Challenges {
    alpha: Challenge,
    betas: Vec<Challenge>,
    log_arities: Vec<usize>,
    log_max_height: usize,
    indices: Vec<usize>,
}

/// Replay the verifier transcript to obtain the challenges that `verify_fri_circuit` takes
/// as inputs (exactly what the native verifier derives for the same proof).
fn replay_transcript(inst: &Instance) -> Challenges {
    let mut ch = Challenger::new(inst.perm.clone());
    ch.observe_slice(&inst.val_sizes);
    for (commitment, _) in &inst.coms {
        ch.observe(commitment.clone());
    }
    let _zeta: Challenge = ch.sample_algebra_element();
    for (_, mats) in &inst.coms {
        for (_, points) in mats {
            for (_, values) in points {
                for &v in values {
                    ch.observe_algebra_element(v);
                }
            }
        }
    }
    let alpha: Challenge = ch.sample_algebra_element();

    let mut betas = Vec::new();
    for (c, w) in inst
        .proof
        .commit_phase_commits
        .iter()
        .zip(&inst.proof.commit_pow_witnesses)
    {
        ch.observe(c.clone());
        let _ = ch.check_witness(inst.shape.commit_pow_bits, *w);
        betas.push(ch.sample_algebra_element());
    }
    for &c in &inst.proof.final_poly {
        ch.observe_algebra_element(c);
    }
    let log_arities: Vec<usize> = inst.proof.query_proofs[0]
        .commit_phase_openings
        .iter()
        .map(|o| o.log_arity as usize)
        .collect();
    for &la in &log_arities {
        ch.observe(F::from_usize(la));
    }
    let _ = ch.check_witness(inst.shape.query_pow_bits, inst.proof.query_pow_witness);

    let log_max_height =
        log_arities.iter().sum::<usize>() + inst.shape.log_blowup + inst.shape.log_final_poly_len;
    let indices = (0..inst.proof.query_proofs.len())
        .map(|_| ch.sample_bits(log_max_height))
        .collect();

    Challenges {
        alpha,
        betas,
        log_arities,
        log_max_height,
        indices,
    }
}

/// Verdict of the circuit: build `verify_fri_circuit` for this proof shape, feed the proof and
/// the transcript challenges, and report whether the runner finds the circuit satisfied.
fn circuit_accepts(inst: &Instance, with_mmcs: bool) -> bool {
    let ch = replay_transcript(inst);
    let num_queries = inst.proof.query_proofs.len();

    let mut builder = CircuitBuilder::<Challenge>::new();
    if with_mmcs {
        builder.enable_poseidon2_perm::<BabyBearD4Width16, _>(
            generate_poseidon2_trace::<Challenge, BabyBearD4Width16>,
            default_babybear_poseidon2_16(),
        );
        builder.enable_recompose::<F>(generate_recompose_trace::<F, Challenge>);
    }

    let fri_targets = FriTargets::new(&mut builder, &inst.proof);
    let alpha_t = builder.public_input();
    let betas_t: Vec<_> = (0..ch.betas.len())
        .map(|_| builder.public_input())
        .collect();
    let index_bits_t: Vec<Vec<_>> = (0..num_queries)
        .map(|_| {
            (0..ch.log_max_height)
                .map(|_| builder.public_input())
                .collect()
        })
        .collect();

    // Public input values, in allocation order.
    let mut public_inputs: Vec<Challenge> = FriTargets::get_values(&inst.proof);
    public_inputs.push(ch.alpha);
    public_inputs.extend(&ch.betas);
    for &index in &ch.indices {
        for k in 0..ch.log_max_height {
            public_inputs.push(Challenge::from_bool((index >> k) & 1 == 1));
        }
    }

    let build_result = if with_mmcs {
        let mut coms_t = Vec::new();
        for (commitment, mats) in &inst.coms {
            let cap_t = <MerkleCapTargets<F, DIGEST_ELEMS> as Recursive<Challenge>>::new(
                &mut builder,
                commitment,
            );
            for entry in commitment.roots() {
                public_inputs.extend(entry.iter().map(|&c| Challenge::from(c)));
            }
            let mut mats_t = Vec::new();
            for (domain, points) in mats {
                let mut points_t = Vec::new();
                for (z, values) in points {
                    let z_t = builder.public_input();
                    let v_t: Vec<_> = (0..values.len()).map(|_| builder.public_input()).collect();
                    public_inputs.push(*z);
                    public_inputs.extend(values);
                    points_t.push((z_t, v_t));
                }
                mats_t.push((*domain, points_t));
            }
            coms_t.push((cap_t, mats_t));
        }
        verify_fri_circuit::<
            F,
            Challenge,
            RecExt,
            RecVal,
            RecWitness<F>,
            MerkleCapTargets<F, DIGEST_ELEMS>,
        >(
            &mut builder,
            &fri_targets,
            alpha_t,
            &betas_t,
            &index_bits_t,
            &coms_t,
            inst.shape.log_blowup,
            Some(Poseidon2Config::BABY_BEAR_D4_W16.into()),
        )
    } else {
        let mut coms_t = Vec::new();
        for (_, mats) in &inst.coms {
            let commit_t = builder.public_input();
            public_inputs.push(Challenge::ZERO);
            let mut mats_t = Vec::new();
            for (domain, points) in mats {
                let mut points_t = Vec::new();
                for (z, values) in points {
                    let z_t = builder.public_input();
                    let v_t: Vec<_> = (0..values.len()).map(|_| builder.public_input()).collect();
                    public_inputs.push(*z);
                    public_inputs.extend(values);
                    points_t.push((z_t, v_t));
                }
                mats_t.push((*domain, points_t));
            }
            coms_t.push((commit_t, mats_t));
        }
        verify_fri_circuit::<F, Challenge, RecExt, RecVal, RecWitness<F>, p3_recursion::Target>(
            &mut builder,
            &fri_targets,
            alpha_t,
            &betas_t,
            &index_bits_t,
            &coms_t,
            inst.shape.log_blowup,
            None,
        )
    };

    let Ok(mmcs_op_ids) = build_result else {
        return false;
    };
    let circuit = builder.build().expect("circuit must build");

    let private_inputs = <FriTargets as Recursive<Challenge>>::get_private_values(&inst.proof);
    catch_unwind(AssertUnwindSafe(|| {
        let mut runner = circuit.runner();
        runner.set_public_inputs(&public_inputs).unwrap();
        runner.set_private_inputs(&private_inputs).unwrap();
        if with_mmcs {
            set_fri_mmcs_private_data::<
                F,
                Challenge,
                ChallengeMmcs,
                MyMmcs,
                MyHash,
                MyCompress,
                DIGEST_ELEMS,
            >(
                &mut runner,
                &mmcs_op_ids,
                &inst.proof,
                Poseidon2Config::BABY_BEAR_D4_W16,
            )
            .unwrap();
        }
        runner.run().is_ok()
    }))
    .unwrap_or(false)
}

fn assert_agreement(inst: &Instance, expect_native: bool, what: &str) {
    let native = native_accepts(inst);
    assert_eq!(
        native, expect_native,
        "{what}: unexpected native verdict (test set-up problem)"
    );
    let with_mmcs = circuit_accepts(inst, true);
    let arithmetic_only = circuit_accepts(inst, false);
    assert_eq!(
        (with_mmcs, arithmetic_only),
        (native, native),
        "{what}: native p3_fri verifier says accept={native}, but the in-circuit FRI verifier \
         says accept={with_mmcs} (MMCS verification enabled) / accept={arithmetic_only} \
         (arithmetic only)"
    );
}

const fn shape(max_log_arity: usize, log_final_poly_len: usize) -> Shape {
    Shape {
        log_blowup: 2,
        log_final_poly_len,
        max_log_arity,
        num_queries: 6,
        commit_pow_bits: 1,
        query_pow_bits: 1,
    }
}

/// Control: schedules the rest of the suite already covers (arity 2 / 4 / 8 / 16, mixed).

#[test]
fn a_batch_shorter_than_the_global_max_height_verifies_with_mmcs() {
    let inst = prove(shape(1, 0), &[vec![(6, 2)], vec![(3, 5)]], 3);
    assert!(native_accepts(&inst), "native accepts the honest proof");
    assert!(circuit_accepts(&inst, false), "arithmetic-only circuit accepts the honest proof");
    let mmcs = catch_unwind(AssertUnwindSafe(|| circuit_accepts(&inst, true))).unwrap_or(false);
    assert!(mmcs, "the circuit with MMCS verification rejects an honest proof whose second batch is shorter than the global max height");
}

#[test]
fn a_dropped_query_proof_is_rejected() {
    let mut inst = prove(shape(1, 0), &[vec![(5, 2)]], 3);
    inst.proof.query_proofs.pop();
    let native = catch_unwind(AssertUnwindSafe(|| native_accepts(&inst))).unwrap_or(false);
    assert!(!native, "native rejects a proof with fewer query proofs than configured");
    let circ = catch_unwind(AssertUnwindSafe(|| circuit_accepts(&inst, true))).unwrap_or(false);
    assert!(!circ, "the circuit accepts a proof with fewer query proofs than the configured number");
}
