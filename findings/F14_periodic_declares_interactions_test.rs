//! Finding F14: `RecursiveAir::declares_interactions` evaluates the AIR on a symbolic builder whose layout declares no periodic columns,
//! so ANY AIR that reads a periodic column panics ("index out of bounds") before a recursive verifier circuit can be built.
use p3_air::{Air, AirBuilder, BaseAir, WindowAccess};
use p3_field::PrimeCharacteristicRing;
use p3_lookup::logup::LogUpGadget;
use p3_recursion::traits::RecursiveAir;
use p3_test_utils::baby_bear_params::*;

struct PeriodicAir;
impl<T: PrimeCharacteristicRing> BaseAir<T> for PeriodicAir {
    fn width(&self) -> usize { 1 }
    fn num_periodic_columns(&self) -> usize { 1 }
    fn periodic_columns(&self) -> Vec<Vec<T>> { vec![vec![T::ZERO, T::ONE]] }
}
impl<AB: AirBuilder> Air<AB> for PeriodicAir {
    fn eval(&self, builder: &mut AB) {
        let main = builder.main();
        let x: AB::Expr = main.current(0).unwrap().into();
        let p: AB::Expr = builder.periodic_values()[0].into();
        builder.assert_eq(x, p);
    }
}

#[test]
fn an_air_with_a_periodic_column_can_be_asked_whether_it_declares_interactions() {
    let air = PeriodicAir;
    let declares = RecursiveAir::<F, Challenge, LogUpGadget>::declares_interactions(&air, 0);
    assert!(!declares, "the AIR declares no bus interaction");
}
