//! Side observation on the UNMODIFIED code (C18): with the generic `poseidon2_air_builders()`
//! (a single `Poseidon2AirBuilder`, which accepts every `poseidon2_perm/*` op type) and a circuit
//! that uses TWO Poseidon2 configs, `get_airs_and_degrees_with_prep` picks the Poseidon2 table it
//! builds an AIR for by iterating the `non_primitive_base` hash map and `break`ing on the first
//! match (circuit-prover/src/common.rs, final loop). Which of the two tables that is depends on the
//! per-instance hash seed, so repeated key generation for the SAME circuit disagrees on the AIR
//! list (kind / width / degree), hence on the preprocessed commitment.
//!
//! This test asserts determinism and is EXPECTED TO FAIL on the unmodified code.

use p3_air::BaseAir;
use p3_circuit::CircuitBuilder;
use p3_circuit::ops::{
    Poseidon2Config, Poseidon2PermCall, generate_poseidon2_trace, generate_recompose_trace,
};
use p3_circuit_prover::batch_stark_prover::{poseidon2_air_builders, recompose_air_builders};
use p3_circuit_prover::common::{NpoPreprocessor, get_airs_and_degrees_with_prep};
use p3_circuit_prover::config::KoalaBearConfig;
use p3_circuit_prover::{
    ConstraintProfile, Poseidon2Preprocessor, RecomposePreprocessor, TablePacking,
};
use p3_field::extension::BinomialExtensionField;
use p3_koala_bear::{KoalaBear, default_koalabear_poseidon2_16, default_koalabear_poseidon2_32};
use p3_poseidon2_circuit_air::{KoalaBearD4Width16, KoalaBearD4Width32};

type F = KoalaBear;
type EF = BinomialExtensionField<F, 4>;

fn one_sponge_row(builder: &mut CircuitBuilder<EF>, config: Poseidon2Config) {
    let width_ext = config.width_ext();
    let rate_ext = config.rate_ext();
    let x = builder.public_input();
    let mut inputs = vec![None; width_ext];
    inputs[0] = Some(x);
    let (_id, outputs) = builder
        .add_poseidon2_perm(&Poseidon2PermCall {
            config,
            new_start: true,
            merkle_path: false,
            mmcs_bit: None,
            mmcs_bit2: None,
            inputs,
            out_ctl: vec![true; rate_ext],
            return_all_outputs: false,
            mmcs_index_sum: None,
        })
        .unwrap();
    // Give the exposed outputs a reader so the WitnessChecks bus is balanced.
    let mut acc = outputs[0].unwrap();
    for o in outputs.iter().take(rate_ext).skip(1) {
        acc = builder.add(acc, o.unwrap());
    }
    let sink = builder.public_input();
    builder.connect(acc, sink);
}

#[test]
fn generic_poseidon2_builder_with_two_configs_is_deterministic() {
    let mut builder = CircuitBuilder::<EF>::new();
    builder.enable_poseidon2_perm::<KoalaBearD4Width16, _>(
        generate_poseidon2_trace::<EF, KoalaBearD4Width16>,
        default_koalabear_poseidon2_16(),
    );
    builder.enable_poseidon2_perm_width_32::<KoalaBearD4Width32, _>(
        generate_poseidon2_trace::<EF, KoalaBearD4Width32>,
        default_koalabear_poseidon2_32(),
    );
    builder.enable_recompose::<F>(generate_recompose_trace::<F, EF>);
    one_sponge_row(&mut builder, Poseidon2Config::KOALA_BEAR_D4_W16);
    one_sponge_row(&mut builder, Poseidon2Config::KOALA_BEAR_D4_W32);
    let circuit = builder.build().unwrap();

    let table_packing = TablePacking::new(1, 1);
    let signature = || -> Vec<(usize, usize, usize)> {
        let npo_prep: Vec<Box<dyn NpoPreprocessor<F>>> = vec![
            Box::new(Poseidon2Preprocessor),
            Box::new(RecomposePreprocessor::default()),
        ];
        let mut air_builders = poseidon2_air_builders::<KoalaBearConfig, 4>();
        air_builders.extend(recompose_air_builders(1, false));
        let (airs_degrees, _prim, _npo) = get_airs_and_degrees_with_prep::<KoalaBearConfig, EF, 4>(
            &circuit,
            &table_packing,
            &npo_prep,
            &air_builders,
            ConstraintProfile::Standard,
        )
        .unwrap();
        airs_degrees
            .iter()
            .map(|(air, degree)| {
                (
                    BaseAir::<F>::width(air),
                    BaseAir::<F>::preprocessed_width(air),
                    *degree,
                )
            })
            .collect()
    };

    let reference = signature();
    let mut distinct = vec![reference.clone()];
    for _ in 0..31 {
        let s = signature();
        if !distinct.contains(&s) {
            distinct.push(s);
        }
    }
    assert_eq!(
        distinct.len(),
        1,
        "key generation for the same circuit produced {} different AIR lists \
         (main width, preprocessed width, degree): {:?}",
        distinct.len(),
        distinct
    );
}
