use p3_baby_bear::BabyBear;
use p3_circuit::CircuitBuilder;
use p3_field::PrimeCharacteristicRing;

type F = BabyBear;

#[test]
fn horner_steps_with_different_accumulators_keep_their_own_values() {
    let mut b = CircuitBuilder::<F>::new();
    let acc1 = b.public_input();
    let acc2 = b.public_input();
    let alpha = b.public_input();
    let z = b.public_input();
    let x = b.public_input();
    let h1 = b.horner_acc_step(acc1, alpha, z, x);
    let h2 = b.horner_acc_step(acc2, alpha, z, x);
    let exp1 = b.public_input();
    let exp2 = b.public_input();
    b.connect(h1, exp1);
    b.connect(h2, exp2);
    let circuit = b.build().unwrap();
    let f = |v: u64| F::from_u64(v);
    // h1 = 2*5+7-3 = 14 ; h2 = 4*5+7-3 = 24
    let mut runner = circuit.runner();
    runner
        .set_public_inputs(&[f(2), f(4), f(5), f(7), f(3), f(14), f(24)])
        .unwrap();
    let res = runner.run();
    assert!(res.is_ok(), "honest satisfying inputs rejected: {:?}", res.err());
}
