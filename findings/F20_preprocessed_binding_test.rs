//! Side observations on the UNMODIFIED code (not part of the demo for the change).
//!
//! `verify_all_tables` takes the preprocessed binding (`stark_common`) from the proof itself.
//! A proof whose `stark_common.preprocessed` is `None` (a perfectly well-formed value: it is what
//! `serde_stark_common::deserialize` produces for a serialized `None`) is not rejected with an
//! `Err`: the verifier panics while evaluating the AIRs on empty preprocessed rows.

use std::panic::{AssertUnwindSafe, catch_unwind};

use p3_baby_bear::BabyBear;
use p3_batch_stark::{CommonData, ProverData};
use p3_circuit::builder::CircuitBuilder;
use p3_circuit_prover::ConstraintProfile;
use p3_circuit_prover::batch_stark_prover::{
    BatchStarkProof, BatchStarkProver, CircuitProverData, TablePacking,
};
use p3_circuit_prover::common::get_airs_and_degrees_with_prep;
use p3_circuit_prover::config::{self, BabyBearConfig};
use p3_field::PrimeCharacteristicRing;

fn honest() -> (BatchStarkProver<BabyBearConfig>, BatchStarkProof<BabyBearConfig>) {
    let mut b = CircuitBuilder::<BabyBear>::new();
    let x = b.public_input();
    let y = b.public_input();
    let z = b.mul(x, y);
    let c = b.define_const(BabyBear::from_u64(6));
    let d = b.sub(z, c);
    b.assert_zero(d);
    let circuit = b.build().unwrap();
    let cfg = config::baby_bear();
    let (ad, prim, npo) = get_airs_and_degrees_with_prep::<BabyBearConfig, _, 1>(
        &circuit,
        &TablePacking::default(),
        &[],
        &[],
        ConstraintProfile::Standard,
    )
    .unwrap();
    let (airs, degs): (Vec<_>, Vec<usize>) = ad.into_iter().unzip();
    let pd = ProverData::from_airs_and_degrees(&cfg, &airs, &degs);
    let cpd = CircuitProverData::new(pd, prim, npo);
    let mut r = circuit.runner();
    r.set_public_inputs(&[BabyBear::from_u64(2), BabyBear::from_u64(3)])
        .unwrap();
    let traces = r.run().unwrap();
    let prover = BatchStarkProver::new(cfg);
    let proof = prover.prove_all_tables(&traces, &cpd).unwrap();
    (prover, proof)
}

#[test]
fn missing_preprocessed_binding_is_an_error_not_a_panic() {
    let (prover, proof) = honest();
    prover.verify_all_tables::<BabyBear>(&proof).unwrap();
    let tampered = BatchStarkProof {
        stark_common: CommonData::new(None, Vec::new()),
        ..proof
    };
    let r = catch_unwind(AssertUnwindSafe(|| {
        prover.verify_all_tables::<BabyBear>(&tampered)
    }));
    match r {
        Ok(Err(_)) => {}
        Ok(Ok(())) => panic!("proof without preprocessed binding was ACCEPTED"),
        Err(_) => panic!("verify_all_tables PANICKED instead of returning Err"),
    }
}
