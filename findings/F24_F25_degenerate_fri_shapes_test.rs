//! C07 side observations on the UNMODIFIED tree (goes in recursion/tests/).
//!
//! Each test asserts the property "the circuit built by `verify_fri_circuit` accepts exactly
//! when the native `p3_fri` verifier accepts" on one input and FAILS on the unmodified code.
//! The harness is the one of demo_c07.rs (arithmetic-only circuit, as in tests/fri.rs).

#![allow(dead_code)]

use p3_baby_bear::default_babybear_poseidon2_16;
use p3_challenger::{CanObserve, CanSampleBits, FieldChallenger, GrindingChallenger};
use p3_circuit::CircuitBuilder;
use p3_commit::Pcs;
use p3_dft::Radix2DitParallel;
use p3_field::coset::TwoAdicMultiplicativeCoset;
use p3_field::{BasedVectorSpace, Field, PrimeCharacteristicRing};
use p3_fri::FriParameters;
use p3_matrix::dense::RowMajorMatrix;
use p3_recursion::Recursive;
use p3_recursion::pcs::fri::{
    FriProofTargets, InputProofTargets, RecExtensionValMmcs, RecValMmcs, Witness as RecWitness,
    verify_fri_circuit,
};
use p3_recursion::public_inputs::{CommitmentOpening, FriVerifierInputs};
use p3_test_utils::baby_bear_params::*;
use rand::SeedableRng;
use rand::rngs::SmallRng;

type RecVal = RecValMmcs<F, 8, MyHash, MyCompress>;
type RecExt = RecExtensionValMmcs<F, Challenge, 8, RecVal>;
type FriTargets =
    FriProofTargets<F, Challenge, RecExt, InputProofTargets<F, Challenge, RecVal>, RecWitness<F>>;

type MyProof = <MyPcs as Pcs<Challenge, Challenger>>::Proof;
type MyCommitment = <MyPcs as Pcs<Challenge, Challenger>>::Commitment;
type MyProverData = <MyPcs as Pcs<Challenge, Challenger>>::ProverData;

type Rounds = Vec<(
    MyCommitment,
    Vec<(
        TwoAdicMultiplicativeCoset<F>,
        Vec<(Challenge, Vec<Challenge>)>,
    )>,
)>;

struct Instance {
    pcs: MyPcs,
    perm: Perm,
    log_blowup: usize,
    log_final_poly_len: usize,
    commit_pow_bits: usize,
    query_pow_bits: usize,
    val_sizes: Vec<F>,
    /// (commitment, [(domain, [(zeta, values at zeta)])]) per batch: the PCS claim.
    rounds: Rounds,
    proof: MyProof,
}

fn make_instance(
    group_sizes: &[Vec<u8>],
    log_final_poly_len: usize,
    seed: u64,
    // (batch, matrix) pairs that are committed but opened at NO point
    unopened: &[(usize, usize)],
) -> Instance {
    let perm = default_babybear_poseidon2_16();
    let hash = MyHash::new(perm.clone());
    let compress = MyCompress::new(perm.clone());
    let val_mmcs = MyMmcs::new(hash, compress, 0);
    let challenge_mmcs = ChallengeMmcs::new(val_mmcs.clone());
    let dft = Radix2DitParallel::<F>::default();
    let fri_params = FriParameters::new_testing(challenge_mmcs, log_final_poly_len);
    let log_blowup = fri_params.log_blowup;
    let log_final_poly_len = fri_params.log_final_poly_len;
    let query_pow_bits = fri_params.query_proof_of_work_bits;
    let commit_pow_bits = fri_params.commit_proof_of_work_bits;
    let pcs = MyPcs::new(dft, val_mmcs, fri_params);

    let val_sizes: Vec<F> = group_sizes
        .iter()
        .flat_map(|s| s.iter().map(|&b| F::from_u8(b)))
        .collect();

    let mut p_challenger = Challenger::new(perm.clone());
    p_challenger.observe_slice(&val_sizes);

    let mut commitments_and_data: Vec<(MyCommitment, MyProverData)> = Vec::new();
    for (i, sizes) in group_sizes.iter().enumerate() {
        let mut rng = SmallRng::seed_from_u64(seed + i as u64);
        let evals: Vec<_> = sizes
            .iter()
            .map(|&deg_bits| {
                let domain = TwoAdicMultiplicativeCoset::new(F::GENERATOR, deg_bits as usize)
                    .expect("valid two-adic size");
                let width = core::cmp::max(1, (deg_bits as usize).saturating_sub(4));
                (
                    domain,
                    RowMajorMatrix::<F>::rand_nonzero(&mut rng, 1usize << deg_bits, width),
                )
            })
            .collect();
        let (commitment, prover_data) = <MyPcs as Pcs<Challenge, Challenger>>::commit(&pcs, evals);
        p_challenger.observe(commitment.clone());
        commitments_and_data.push((commitment, prover_data));
    }

    let zeta: Challenge = p_challenger.sample_algebra_element();

    let open_data: Vec<_> = group_sizes
        .iter()
        .enumerate()
        .map(|(i, sizes)| {
            let points = (0..sizes.len())
                .map(|m| {
                    if unopened.contains(&(i, m)) {
                        vec![]
                    } else {
                        vec![zeta]
                    }
                })
                .collect::<Vec<_>>();
            (&commitments_and_data[i].1, points)
        })
        .collect();
    let (opened_values, proof): (_, MyProof) =
        <MyPcs as Pcs<Challenge, Challenger>>::open(&pcs, open_data, &mut p_challenger);

    let rounds: Rounds = group_sizes
        .iter()
        .zip(opened_values)
        .enumerate()
        .map(|(i, (sizes, batch_values))| {
            let mats = sizes
                .iter()
                .zip(batch_values)
                .map(|(&log_size, mat_values)| {
                    let domain = TwoAdicMultiplicativeCoset::new(F::GENERATOR, log_size as usize)
                        .expect("valid domain");
                    // one opening point (zeta) per matrix, or none at all
                    let points = mat_values.iter().map(|v| (zeta, v.clone())).collect();
                    (domain, points)
                })
                .collect();
            (commitments_and_data[i].0.clone(), mats)
        })
        .collect();

    Instance {
        pcs,
        perm,
        log_blowup,
        log_final_poly_len,
        commit_pow_bits,
        query_pow_bits,
        val_sizes,
        rounds,
        proof,
    }
}

/// Verifier-side challenger, positioned right after sampling zeta.
fn verifier_challenger(inst: &Instance) -> Challenger {
    let mut ch = Challenger::new(inst.perm.clone());
    ch.observe_slice(&inst.val_sizes);
    for (commitment, _) in &inst.rounds {
        ch.observe(commitment.clone());
    }
    let _zeta: Challenge = ch.sample_algebra_element();
    ch
}

/// The reference: does the native `p3_fri` verifier accept `proof` for the claim of `inst`?
fn native_accepts(inst: &Instance, proof: &MyProof) -> bool {
    let mut ch = verifier_challenger(inst);
    <MyPcs as Pcs<Challenge, Challenger>>::verify(&inst.pcs, inst.rounds.clone(), proof, &mut ch)
        .is_ok()
}

/// Fiat-Shamir challenges handed to `verify_fri_circuit` (public inputs of the circuit).
#[derive(Clone)]
struct Challenges {
    alpha: Challenge,
    betas: Vec<Challenge>,
    /// little-endian index bits per query
    index_bits: Vec<Vec<Challenge>>,
}

/// Fiat-Shamir replay for `proof` (same transcript as tests/fri.rs and the native verifier).
fn replay(inst: &Instance, proof: &MyProof) -> Challenges {
    let mut ch = verifier_challenger(inst);
    for (_, mats) in &inst.rounds {
        for (_, points) in mats {
            for (_, values) in points {
                for &v in values {
                    ch.observe_algebra_element(v);
                }
            }
        }
    }
    let alpha: Challenge = ch.sample_algebra_element();
    let mut betas: Vec<Challenge> = Vec::new();
    for (c, w) in proof
        .commit_phase_commits
        .iter()
        .zip(proof.commit_pow_witnesses.iter())
    {
        ch.observe(c.clone());
        assert!(ch.check_witness(inst.commit_pow_bits, *w));
        betas.push(ch.sample_algebra_element());
    }
    for &c in &proof.final_poly {
        ch.observe_algebra_element(c);
    }
    for step in &proof.query_proofs[0].commit_phase_openings {
        ch.observe(F::from_usize(step.log_arity as usize));
    }
    assert!(ch.check_witness(inst.query_pow_bits, proof.query_pow_witness));

    let log_max_height: usize = proof.query_proofs[0]
        .commit_phase_openings
        .iter()
        .map(|s| s.log_arity as usize)
        .sum::<usize>()
        + inst.log_blowup
        + inst.log_final_poly_len;
    let index_bits: Vec<Vec<Challenge>> = (0..proof.query_proofs.len())
        .map(|_| {
            let index = ch.sample_bits(log_max_height);
            (0..log_max_height)
                .map(|k| Challenge::from_bool((index >> k) & 1 == 1))
                .collect()
        })
        .collect();
    Challenges {
        alpha,
        betas,
        index_bits,
    }
}

/// Does the circuit built by `verify_fri_circuit` for `proof` accept it?
fn circuit_accepts(inst: &Instance, proof: &MyProof) -> bool {
    circuit_accepts_with(inst, proof, replay(inst, proof))
}

/// Does the circuit built by `verify_fri_circuit` for `proof` accept it, with the given
/// challenges as public inputs?
///
/// The targets are allocated with `FriProofTargets::new` (which sizes every step from its
/// `log_arity`); any sibling values the proof carries beyond `2^log_arity - 1` are then
/// mirrored into the step's `sibling_coefficients` as additional private inputs, so that
/// the targets describe exactly the proof that is being checked.
fn circuit_accepts_with(inst: &Instance, proof: &MyProof, challenges: Challenges) -> bool {
    let Challenges {
        alpha,
        betas,
        index_bits,
    } = challenges;
    let num_phases = betas.len();
    let num_queries = index_bits.len();
    let log_max_height = index_bits[0].len();

    // ---- Circuit ----
    let mut builder = CircuitBuilder::<Challenge>::new();
    let mut fri_targets = FriTargets::new(&mut builder, proof);

    // Mirror surplus sibling values of the proof into the targets.
    let mut private_inputs = <FriTargets as Recursive<Challenge>>::get_private_values(&{
        // private values of the proof with the surplus siblings stripped: these are the
        // values of the targets allocated by `FriTargets::new`, in allocation order.
        let mut stripped = proof.clone();
        for qp in &mut stripped.query_proofs {
            for step in &mut qp.commit_phase_openings {
                step.sibling_values.truncate((1usize << step.log_arity) - 1);
            }
        }
        stripped
    });
    for (q, qp) in proof.query_proofs.iter().enumerate() {
        for (p, step) in qp.commit_phase_openings.iter().enumerate() {
            let expected = (1usize << step.log_arity) - 1;
            for surplus in step.sibling_values.iter().skip(expected) {
                let coeffs: &[F] = surplus.as_basis_coefficients_slice();
                let extra =
                    builder.alloc_private_inputs(coeffs.len(), "surplus sibling coefficients");
                fri_targets.query_proofs[q].commit_phase_openings[p]
                    .sibling_coefficients
                    .extend(extra);
                private_inputs.extend(coeffs.iter().map(|&c| Challenge::from(c)));
            }
        }
    }

    let alpha_t = builder.public_input();
    let betas_t: Vec<_> = (0..num_phases).map(|_| builder.public_input()).collect();
    let index_bits_t: Vec<Vec<_>> = (0..num_queries)
        .map(|_| {
            (0..log_max_height)
                .map(|_| builder.public_input())
                .collect()
        })
        .collect();

    let mut coms_t = Vec::new();
    for (_, mats) in &inst.rounds {
        let commit_t = builder.public_input();
        let mut mats_t = Vec::new();
        for (domain, points) in mats {
            let mut pv_t = Vec::new();
            for (_z, fz) in points {
                let z_t = builder.public_input();
                let fz_t: Vec<_> = (0..fz.len()).map(|_| builder.public_input()).collect();
                pv_t.push((z_t, fz_t));
            }
            mats_t.push((*domain, pv_t));
        }
        coms_t.push((commit_t, mats_t));
    }

    let built =
        verify_fri_circuit::<F, Challenge, RecExt, RecVal, RecWitness<F>, p3_recursion::Target>(
            &mut builder,
            &fri_targets,
            alpha_t,
            &betas_t,
            &index_bits_t,
            &coms_t,
            inst.log_blowup,
            None, // arithmetic-only, as in tests/fri.rs
        );
    if built.is_err() {
        // shape rejected before any constraint was generated
        return false;
    }
    let circuit = builder.build().unwrap();

    let commitment_openings = inst
        .rounds
        .iter()
        .map(|(_, mats)| CommitmentOpening {
            commitment: Challenge::ZERO, // placeholder, unused in arithmetic-only mode
            opened_points: mats
                .iter()
                .flat_map(|(_, points)| points.iter().cloned())
                .collect(),
        })
        .collect();
    let public_inputs = FriVerifierInputs {
        fri_proof_values: FriTargets::get_values(proof),
        alpha,
        betas,
        query_index_bits: index_bits,
        commitment_openings,
    }
    .build();

    let mut runner = circuit.runner();
    runner.set_public_inputs(&public_inputs).unwrap();
    runner.set_private_inputs(&private_inputs).unwrap();
    runner.run().is_ok()
}

#[test]
fn side_c07_zero_arity_phase_accepted_by_circuit_only() {
    // An extra commit phase with log_arity = 0 (no siblings, identity fold) is inserted in front
    // of an honest proof. The native verifier rejects any step with log_arity = 0
    // (`InvalidLogArity`, before any challenge-dependent work); the circuit has no such check.
    let inst = make_instance(&[vec![3u8, 4], vec![5u8]], 0, 7, &[]);
    let honest = replay(&inst, &inst.proof);

    let mut altered = inst.proof.clone();
    let c0 = altered.commit_phase_commits[0].clone();
    altered.commit_phase_commits.insert(0, c0);
    let w0 = altered.commit_pow_witnesses[0];
    altered.commit_pow_witnesses.insert(0, w0);
    for qp in &mut altered.query_proofs {
        let mut step = qp.commit_phase_openings[0].clone();
        step.log_arity = 0;
        step.sibling_values.clear();
        qp.commit_phase_openings.insert(0, step);
    }
    // The arithmetic-only circuit takes the challenges as public inputs: keep the honest ones and
    // give the extra phase an arbitrary beta.
    let mut challenges = honest;
    challenges.betas.insert(0, Challenge::TWO);

    let native = native_accepts(&inst, &altered);
    let circuit = circuit_accepts_with(&inst, &altered, challenges);
    assert!(!native, "native verifier rejects a log_arity = 0 step");
    assert_eq!(
        circuit, native,
        "circuit (accepts = {circuit}) vs native (accepts = {native}) on a proof with a \
         log_arity = 0 commit phase"
    );
}

#[test]
fn side_c07_matrix_without_opening_points_accepted_by_circuit_only() {
    // Matrix (batch 0, matrix 0) is committed but opened at no point. The native verifier
    // rejects the claim (`MatrixWithoutOpeningPoints`); the circuit is built and satisfied.
    let inst = make_instance(&[vec![3u8, 4], vec![5u8]], 0, 7, &[(0, 0)]);
    assert!(inst.rounds[0].1[0].1.is_empty());
    let native = native_accepts(&inst, &inst.proof);
    let circuit = circuit_accepts(&inst, &inst.proof);
    assert!(
        !native,
        "native verifier rejects a matrix without opening points"
    );
    assert_eq!(
        circuit, native,
        "circuit (accepts = {circuit}) vs native (accepts = {native}) on a claim with a \
         matrix that has no opening point"
    );
}
