use std::collections::BTreeMap;

use hashbrown::HashMap;
use p3_baby_bear::BabyBear;
use p3_circuit::ops::ExecutionContext;
use p3_circuit::{NonPrimitiveOpId, WitnessId};

type F = BabyBear;

/// Must hold identically in debug and optimized builds (run with and without --release).
#[test]
fn get_witness_on_unset_or_out_of_range_slot_is_an_error() {
    let mut witness: Vec<Option<F>> = vec![None, None];
    let private_data = vec![];
    let configs = HashMap::new();
    let mut op_states = BTreeMap::new();
    let ctx = ExecutionContext::new(&mut witness, &private_data, &configs, NonPrimitiveOpId(0), &mut op_states);
    assert!(ctx.get_witness(WitnessId(0)).is_err(), "unset slot read as Ok");
    assert!(ctx.get_witness(WitnessId(7)).is_err(), "out-of-range slot read as Ok");
}

#[test]
fn set_witness_out_of_range_is_an_error() {
    let mut witness: Vec<Option<F>> = vec![None, None];
    let private_data = vec![];
    let configs = HashMap::new();
    let mut op_states = BTreeMap::new();
    let mut ctx = ExecutionContext::new(&mut witness, &private_data, &configs, NonPrimitiveOpId(0), &mut op_states);
    assert!(ctx.set_witness(WitnessId(1_000_000), F::default()).is_err(), "out-of-range write accepted");
}
