mod common;

use p3_batch_stark::ProverData;
use p3_circuit::CircuitBuilder;
use p3_circuit::ops::{generate_poseidon2_trace, generate_recompose_trace};
use p3_circuit_prover::batch_stark_prover::{poseidon2_air_builders, recompose_air_builders};
use p3_circuit_prover::common::{NpoPreprocessor, get_airs_and_degrees_with_prep};
use p3_circuit_prover::{
    BatchStarkProver, CircuitProverData, ConstraintProfile, Poseidon2Preprocessor,
    RecomposePreprocessor, TablePacking,
};
use p3_lookup::logup::LogUpGadget;
use p3_poseidon2_circuit_air::KoalaBearD4Width16;
use p3_recursion::Poseidon2Config;
use p3_recursion::pcs::fri::{FriVerifierParams, InputProofTargets, MerkleCapTargets, RecValMmcs};
use p3_recursion::pcs::set_fri_mmcs_private_data;
use p3_recursion::verifier::verify_p3_batch_proof_circuit;
use p3_test_utils::koala_bear_params::*;
use tracing_forest::ForestLayer;
use tracing_forest::util::LevelFilter;
use tracing_subscriber::layer::SubscriberExt;
use tracing_subscriber::util::SubscriberInitExt;
use tracing_subscriber::{EnvFilter, Registry};

use crate::common::InnerFriGeneric;

type InnerFri = InnerFriGeneric<MyConfig, MyHash, MyCompress, DIGEST_ELEMS>;

fn init_logger() {
    let env_filter = EnvFilter::builder()
        .with_default_directive(LevelFilter::INFO.into())
        .from_env_lossy();

    Registry::default()
        .with(env_filter)
        .with(ForestLayer::default())
        .init();
}

#[test]
fn truncated_lookup_terminals_is_an_error_not_a_panic() {

    let n: usize = 100;

    let mut builder = CircuitBuilder::new();

    // Public input: expected F(n)
    let expected_result = builder.alloc_public_input("expected_result");

    // Compute F(n) iteratively
    let mut a = builder.alloc_const(F::ZERO, "F(0)");
    let mut b = builder.alloc_const(F::ONE, "F(1)");

    for _i in 2..=n {
        let next = builder.add(a, b);
        a = b;
        b = next;
    }

    // Assert computed F(n) equals expected result
    builder.connect(b, expected_result);

    builder.dump_allocation_log();

    let table_packing = TablePacking::new(2, 4);

    // Use the default permutation for proving to match circuit's Fiat-Shamir challenger
    let config_proving = make_test_config();

    let circuit = builder.build().unwrap();
    let (airs_degrees, primitive_columns, non_primitive_columns) =
        get_airs_and_degrees_with_prep::<MyConfig, _, 1>(
            &circuit,
            &table_packing,
            &[],
            &[],
            ConstraintProfile::Standard,
        )
        .unwrap();
    let (airs, degrees): (Vec<_>, Vec<usize>) = airs_degrees.into_iter().unzip();
    let mut runner = circuit.runner();

    // Set public input
    let expected_fib = compute_fibonacci_classical(n);
    runner.set_public_inputs(&[expected_fib]).unwrap();

    let traces = runner.run().unwrap();

    // Create prover data for proving and verifying.
    let prover_data = ProverData::from_airs_and_degrees(&config_proving, &airs, &degrees);
    let circuit_prover_data =
        CircuitProverData::new(prover_data, primitive_columns, non_primitive_columns);

    let prover = BatchStarkProver::new(config_proving).with_table_packing(table_packing);

    let lookup_gadget = LogUpGadget::new();
    let batch_stark_proof = prover
        .prove_all_tables(&traces, &circuit_prover_data)
        .unwrap();

    let common = circuit_prover_data.common_data();
    prover.verify_all_tables::<F>(&batch_stark_proof).unwrap();

    // Now verify the batch STARK proof recursively
    // Use same permutation as proving to ensure Fiat-Shamir transcript compatibility
    let scalars = test_fri_scalars();
    let fri_verifier_params = FriVerifierParams::with_mmcs(
        scalars.log_blowup,
        scalars.log_final_poly_len,
        scalars.commit_pow_bits,
        scalars.query_pow_bits,
        Poseidon2Config::KOALA_BEAR_D4_W16,
    );
    let config = make_test_config();

    // Extract proof components
    let batch_proof = &batch_stark_proof.proof;

    const TRACE_D: usize = 1; // Proof traces are in base field

    // Public values (empty for all 5 circuit tables: Witness, Const, Public, Alu, Poseidon2)
    let num_tables = common
        .preprocessed
        .as_ref()
        .map(|g| g.instances.len())
        .unwrap_or(0);
    let pis: Vec<Vec<F>> = vec![vec![]; num_tables];

    // Build the recursive verification circuit
    let mut circuit_builder = CircuitBuilder::new();
    let poseidon2_perm = default_koalabear_poseidon2_16();
    circuit_builder.enable_poseidon2_perm::<KoalaBearD4Width16, _>(
        generate_poseidon2_trace::<Challenge, KoalaBearD4Width16>,
        poseidon2_perm,
    );
    circuit_builder.enable_recompose::<F>(generate_recompose_trace::<F, Challenge>);


    // Structural alteration of an honest proof: drop the last lookup-terminal entry.
    let mut bad = batch_stark_proof;
    assert!(!bad.proof.lookup_terminals.is_empty());
    bad.proof.lookup_terminals.pop();

    let res = std::panic::catch_unwind(std::panic::AssertUnwindSafe(|| {
        verify_p3_batch_proof_circuit::<
            MyConfig,
            MerkleCapTargets<F, DIGEST_ELEMS>,
            InputProofTargets<F, Challenge, RecValMmcs<F, DIGEST_ELEMS, MyHash, MyCompress>>,
            InnerFri,
            LogUpGadget,
            _,
            WIDTH,
            RATE,
            TRACE_D,
        >(
            &config,
            &mut circuit_builder,
            &bad,
            &fri_verifier_params,
            common,
            &lookup_gadget,
            Poseidon2Config::KOALA_BEAR_D4_W16,
            &[],
        )
        .map(|_| ())
    }));
    match res {
        Err(_) => panic!("building the verification circuit PANICKED on a malformed proof (expected Err(InvalidProofShape))"),
        Ok(Ok(())) => panic!("malformed proof accepted"),
        Ok(Err(e)) => println!("rejected with error: {e:?}"),
    }
}

fn compute_fibonacci_classical(n: usize) -> F {
    if n == 0 {
        return F::ZERO;
    }
    if n == 1 {
        return F::ONE;
    }

    let mut a = F::ZERO;
    let mut b = F::ONE;

    for _i in 2..=n {
        let next = a + b;
        a = b;
        b = next;
    }

    b
}
