//! Does a short packed Horner group at the very end of the ALU op list make trace generation index past the trace?
use p3_baby_bear::BabyBear;
use p3_batch_stark::ProverData;
use p3_circuit::builder::CircuitBuilder;
use p3_circuit_prover::ConstraintProfile;
use p3_circuit_prover::batch_stark_prover::{BatchStarkProver, CircuitProverData, TablePacking};
use p3_circuit_prover::common::get_airs_and_degrees_with_prep;
use p3_circuit_prover::config::{self, BabyBearConfig};
use p3_field::PrimeCharacteristicRing;
type F = BabyBear;

fn run(chain_len: usize, k: usize) {
    let mut builder = CircuitBuilder::<F>::new();
    let zero = builder.define_const(F::ZERO);
    let mut pis: Vec<F> = Vec::new();
    let x_val = F::from_u64(3);
    let x = builder.public_input(); pis.push(x_val);
    let mut acc = zero; let mut nat = F::ZERO;
    for step in 0..chain_len {
        let c_val = F::from_u64(10 + step as u64); let a_val = F::from_u64(1 + 2 * step as u64);
        let c = builder.public_input(); pis.push(c_val);
        let a = builder.public_input(); pis.push(a_val);
        acc = builder.horner_acc_step(acc, x, c, a);
        nat = nat * x_val + c_val - a_val;
    }
    let expected = builder.public_input(); pis.push(nat);
    builder.connect(acc, expected);          // no ALU op after the chain: the chain is the end of the ALU op list
    let circuit = builder.build().unwrap();
    let packing = TablePacking::new(1, 1).with_horner_pack_k(k);
    let cfg = config::baby_bear();
    let (airs_degrees, pc, npc) = get_airs_and_degrees_with_prep::<BabyBearConfig, _, 1>(&circuit, &packing, &[], &[], ConstraintProfile::Standard).unwrap();
    let (airs, degs): (Vec<_>, Vec<usize>) = airs_degrees.into_iter().unzip();
    let pd = ProverData::from_airs_and_degrees(&cfg, &airs, &degs);
    let cpd = CircuitProverData::new(pd, pc, npc);
    let mut runner = circuit.runner();
    runner.set_public_inputs(&pis).unwrap();
    let traces = runner.run().expect("run");
    let prover = BatchStarkProver::new(cfg).with_table_packing(packing);
    let proof = prover.prove_all_tables(&traces, &cpd).expect("prove");
    prover.verify_all_tables::<F>(&proof).expect("verify");
}
#[test] fn chain7_k5_tail_group_at_the_end() { run(7, 5); }
#[test] fn chain7_k3_control() { run(7, 3); }
#[test] fn chain9_k7_tail_group_at_the_end() { run(9, 7); }
