//! F8 (fixed by /repo ba1bfe9): ALU de-duplication rewrote the output slot of a duplicate op although a kept op already
//! mentions that slot.  Two manifestations, both FAIL at 068607d and PASS at ba1bfe9:
//!  (C03) the equality between the two slots disappears from the emitted op list (was the open finding C03-alias);
//!  (C02) when the slot is a public input, Op::Public keeps pointing at a slot set_public_inputs no longer fills:
//!        the run fails with PublicInputNotSet on satisfying inputs.
//! Place in circuit/tests/ and run `cargo test -p p3-circuit --test F8_dedup_mentioned_out_test`.
use p3_circuit::CircuitBuilder;
use p3_circuit::ops::{AluOpKind, Op};
use p3_test_utils::baby_bear_params::{BabyBear, PrimeCharacteristicRing};
type F = BabyBear;
fn f(x: u64) -> F { F::from_u64(x) }

/// publics x, y, z; s = y + z; r = x - y; connect(r, z); inputs with x = y + z
#[test]
fn c02_dedup_of_backwards_add_onto_a_public_input_keeps_the_run_working() {
    let mut b = CircuitBuilder::<F>::new();
    let x = b.public_input();
    let y = b.public_input();
    let z = b.public_input();
    let s = b.add(y, z);
    let r = b.sub(x, y);
    b.connect(r, z);
    b.tag(s, "s").unwrap();
    b.tag(r, "r").unwrap();
    let circuit = b.build().unwrap();
    let mut runner = circuit.runner();
    runner.set_public_inputs(&[f(12), f(5), f(7)]).unwrap();
    let traces = runner.run().expect("x = y + z holds, so r = x - y = z: every asserted relation holds, the run must succeed");
    assert_eq!(*traces.probe("s").unwrap(), f(12));
    assert_eq!(*traces.probe("r").unwrap(), f(7));
    // and a violating input is still rejected
    let mut runner = circuit.runner();
    runner.set_public_inputs(&[f(13), f(5), f(7)]).unwrap();
    assert!(runner.run().is_err());
}

/// source asserts a*b == c*d through connect; the emitted op list alone must reject an assignment with a*b != c*d
#[test]
fn c03_emitted_ops_keep_the_equality_of_a_connected_duplicate() {
    let mut bld = CircuitBuilder::<F>::new();
    let c = bld.public_input();
    let d = bld.public_input();
    let a = bld.public_input();
    let b = bld.public_input();
    let _y = bld.mul(c, d);
    let x = bld.mul(a, b);
    let c2 = bld.alloc_private_input("c2");
    bld.connect(c2, c);
    let x2 = bld.mul(c2, d);
    bld.connect(x2, x);
    let circuit = bld.build().unwrap();
    // assignment violating the source program: a*b = 6, c*d = 35; evaluate every emitted relation forward
    let vals = [5u64, 7, 2, 3];
    let mut w: Vec<Option<F>> = vec![None; circuit.witness_count as usize];
    let mut violated = false;
    for op in &circuit.ops {
        match op {
            Op::Const { out, val } => w[out.0 as usize] = Some(*val),
            Op::Public { out, public_pos } => w[out.0 as usize] = Some(F::from_u64(vals[*public_pos])),
            Op::Alu { kind: AluOpKind::Mul, a, b, out, .. } => {
                let v = w[a.0 as usize].unwrap() * w[b.0 as usize].unwrap();
                if let Some(e) = w[out.0 as usize] {
                    if e != v { violated = true; }
                }
                w[out.0 as usize] = Some(v);
            }
            _ => {}
        }
    }
    assert!(violated, "the emitted ops are satisfied by an assignment with a*b != c*d: the asserted equality is gone from the op list");
}
