//! F9 (fixed by /repo 0ed2fc1; was the finding C02-fusion-onto-private-input): C02, a satisfying program must run.
//! `x - a*b` with `x` a PRIVATE input and `a*b` used once: lowering emits Mul(a,b)->m and the backwards add Add(m, r, x)
//! (r = x - m).  Private inputs have no defining op, so MulAddFusion does not see that the add's out slot is already given and
//! fuses the pair into MulAdd(a, b, c = r, out = x): the fused op needs r, which nothing computes any more -> WitnessNotSet.
//! The same program with x a public input runs (control).  Place in circuit/tests/ and run
//! `cargo test -p p3-circuit --test C02_fusion_private_out_test`: the first test FAILS at ba1bfe9 and PASSES at 0ed2fc1.
use p3_circuit::CircuitBuilder;
use p3_test_utils::baby_bear_params::{BabyBear, PrimeCharacteristicRing};
type F = BabyBear;
fn f(x: u64) -> F { F::from_u64(x) }

#[test]
fn sub_of_single_use_product_from_private_input() {
    let mut b = CircuitBuilder::<F>::new();
    let a = b.public_input();
    let bb = b.public_input();
    let x = b.alloc_private_input("x");
    let m = b.mul(a, bb);
    let r = b.sub(x, m);
    b.tag(r, "r").unwrap();
    let circuit = b.build().unwrap();
    let mut runner = circuit.runner();
    runner.set_public_inputs(&[f(3), f(5)]).unwrap();
    runner.set_private_inputs(&[f(100)]).unwrap();
    let traces = runner.run().expect("no relation is asserted and there is no division: the run must succeed");
    assert_eq!(*traces.probe("r").unwrap(), f(100) - f(15));
}

#[test]
fn control_same_program_with_a_public_input() {
    let mut b = CircuitBuilder::<F>::new();
    let a = b.public_input();
    let bb = b.public_input();
    let x = b.public_input();
    let m = b.mul(a, bb);
    let r = b.sub(x, m);
    b.tag(r, "r").unwrap();
    let circuit = b.build().unwrap();
    let mut runner = circuit.runner();
    runner.set_public_inputs(&[f(3), f(5), f(100)]).unwrap();
    let traces = runner.run().expect("must succeed");
    assert_eq!(*traces.probe("r").unwrap(), f(100) - f(15));
}
