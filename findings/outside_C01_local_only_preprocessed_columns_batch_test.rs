//! Side observation (goes in recursion/tests/): `verify_batch_circuit` gates the main-trace
//! next-row opening on the AIR (`opens_trace_next`) but not the preprocessed one. An AIR with
//! preprocessed columns that overrides `preprocessed_next_row_columns()` to `vec![]` makes the
//! native p3-batch-stark prover omit `preprocessed_next` (and open the preprocessed matrix at
//! `zeta` only); the native verifier accepts, the recursive batch verifier rejects the honest
//! proof while building the circuit ("Instance has incorrect preprocessed width: expected w,
//! got w / 0"). The circuit-prover tables (`PublicAir`, `RecomposeAir`) do declare exactly this,
//! and only get through because the `CircuitTableAir`/`DynamicAirEntry`/`CircuitTablesAir`
//! wrappers forward `main_next_row_columns` but not `preprocessed_next_row_columns`.
//!
//! Asserts the property (native accepts => circuit accepts); FAILS on the unmodified tree.

mod common;

use p3_air::{Air, AirBuilder, BaseAir, WindowAccess};
use p3_baby_bear::default_babybear_poseidon2_16;
use p3_batch_stark::{ProverData, StarkInstance, prove_batch, verify_batch};
use p3_circuit::CircuitBuilder;
use p3_circuit::ops::{generate_poseidon2_trace, generate_recompose_trace};
use p3_field::Field;
use p3_lookup::logup::LogUpGadget;
use p3_matrix::dense::RowMajorMatrix;
use p3_poseidon2_circuit_air::BabyBearD4Width16;
use p3_recursion::pcs::MerkleCapTargets;
use p3_recursion::{
    BatchStarkVerifierInputsBuilder, FriVerifierParams, Poseidon2Config, VerificationError,
    verify_batch_circuit,
};
use p3_test_utils::baby_bear_params::*;

use crate::common::InnerFriGeneric;

type InnerFri = InnerFriGeneric<MyConfig, MyHash, MyCompress, DIGEST_ELEMS>;

const ROWS: usize = 1 << 3;

/// main = [m], preprocessed = [p], constraint `m = p + 1` on every row. Single-row only.
#[derive(Clone, Copy)]
struct PrepLocalOnlyAir;

impl<Val: Field> BaseAir<Val> for PrepLocalOnlyAir {
    fn width(&self) -> usize {
        1
    }
    fn preprocessed_width(&self) -> usize {
        1
    }
    fn preprocessed_trace(&self) -> Option<RowMajorMatrix<Val>> {
        Some(RowMajorMatrix::new(
            (0..ROWS).map(|r| Val::from_usize(7 * r + 3)).collect(),
            1,
        ))
    }
    fn main_next_row_columns(&self) -> Vec<usize> {
        vec![]
    }
    fn preprocessed_next_row_columns(&self) -> Vec<usize> {
        vec![]
    }
}

impl<AB: AirBuilder> Air<AB> for PrepLocalOnlyAir
where
    AB::F: Field,
{
    fn eval(&self, builder: &mut AB) {
        let main = builder.main();
        let m = main.current_slice()[0];
        let prep = builder.preprocessed().clone();
        let p = prep.current_slice()[0];
        builder.assert_zero(p.into() + AB::Expr::ONE - m.into());
    }
}

#[test]
fn batch_air_with_local_only_preprocessed_columns() -> Result<(), VerificationError> {
    let scalars = test_fri_scalars();
    let fri_verifier_params = FriVerifierParams::unsafe_arithmetic_only_for_tests(
        scalars.log_blowup,
        scalars.log_final_poly_len,
        scalars.commit_pow_bits,
        scalars.query_pow_bits,
    );
    let config = make_test_config();
    let air = PrepLocalOnlyAir;
    let trace = RowMajorMatrix::new(
        (0..ROWS).map(|r| F::from_usize(7 * r + 4)).collect::<Vec<F>>(),
        1,
    );
    let pvs: Vec<Vec<F>> = vec![vec![]];

    let instances = vec![StarkInstance {
        air: &air,
        trace: &trace,
        public_values: vec![],
    }];
    let prover_data = ProverData::from_instances(&config, &instances);
    let common = &prover_data.common;
    let proof = prove_batch(&config, &instances, &prover_data);
    assert!(
        proof.opened_values.instances[0]
            .base_opened_values
            .preprocessed_next
            .is_none(),
        "preprocessed next-row opening is suppressed"
    );
    verify_batch(&config, &[air], &proof, &pvs, common).expect("native verifier accepts");

    let lookup_gadget = LogUpGadget::new();
    let mut cb = CircuitBuilder::new();
    cb.enable_poseidon2_perm::<BabyBearD4Width16, _>(
        generate_poseidon2_trace::<Challenge, BabyBearD4Width16>,
        default_babybear_poseidon2_16(),
    );
    cb.enable_recompose::<F>(generate_recompose_trace::<F, Challenge>);

    let vi = BatchStarkVerifierInputsBuilder::<MyConfig, MerkleCapTargets<F, DIGEST_ELEMS>, InnerFri>::allocate(
        &mut cb, &proof, common, &[0usize],
    );
    verify_batch_circuit::<_, _, _, _, _, _, _, WIDTH, RATE>(
        &config,
        &[air],
        &mut cb,
        &vi.proof_targets,
        &vi.air_public_targets,
        &fri_verifier_params,
        &vi.common_data,
        &lookup_gadget,
        Poseidon2Config::BABY_BEAR_D4_W16,
    )?;
    let circuit = cb.build()?;
    let (public_inputs, private_inputs) = vi.pack_values(&pvs, &proof, common);
    assert_eq!(public_inputs.len(), circuit.public_flat_len);
    assert_eq!(private_inputs.len(), circuit.private_flat_len);
    let mut runner = circuit.runner();
    runner.set_public_inputs(&public_inputs).map_err(VerificationError::Circuit)?;
    runner.set_private_inputs(&private_inputs).map_err(VerificationError::Circuit)?;
    runner.run().map_err(VerificationError::Circuit)?;
    Ok(())
}
