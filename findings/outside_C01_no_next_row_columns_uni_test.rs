//! Side observation (goes in recursion/tests/): `verify_p3_uni_proof_circuit` has no notion of a
//! suppressed next-row opening. A single-row AIR that overrides `main_next_row_columns()` to
//! `vec![]` makes the native p3-uni-stark prover omit `opened_values.trace_next`; the native
//! verifier accepts that proof, but the recursive uni-STARK verifier rejects it while the circuit
//! is being built (`validate_proof_shape` insists on `trace_next.len() == air.width()`), so for
//! this proof shape no packed input vector is ever accepted. The batch verifier handles the very
//! same shape (`opens_trace_next`).
//!
//! Asserts the property (native accepts => circuit accepts); FAILS on the unmodified tree.

mod common;

use p3_air::{Air, AirBuilder, BaseAir, WindowAccess};
use p3_baby_bear::default_babybear_poseidon2_16;
use p3_circuit::CircuitBuilder;
use p3_circuit::ops::{generate_poseidon2_trace, generate_recompose_trace};
use p3_field::Field;
use p3_matrix::dense::RowMajorMatrix;
use p3_poseidon2_circuit_air::BabyBearD4Width16;
use p3_recursion::pcs::fri::{FriVerifierParams, MerkleCapTargets};
use p3_recursion::public_inputs::StarkVerifierInputsBuilder;
use p3_recursion::{Poseidon2Config, VerificationError, verify_p3_uni_proof_circuit};
use p3_test_utils::baby_bear_params::*;
use p3_uni_stark::{prove, verify};

use crate::common::InnerFriGeneric;

type InnerFri = InnerFriGeneric<MyConfig, MyHash, MyCompress, DIGEST_ELEMS>;

/// `a + b = c` on every row; never looks at the next row and says so.
#[derive(Clone, Copy)]
struct SingleRowAddAir;

impl<Val: Field> BaseAir<Val> for SingleRowAddAir {
    fn width(&self) -> usize {
        3
    }
    fn main_next_row_columns(&self) -> Vec<usize> {
        vec![]
    }
}

impl<AB: AirBuilder> Air<AB> for SingleRowAddAir
where
    AB::F: Field,
{
    fn eval(&self, builder: &mut AB) {
        let main = builder.main();
        let row = main.current_slice();
        builder.assert_zero(row[0] + row[1] - row[2]);
    }
}

fn trace(rows: usize) -> RowMajorMatrix<F> {
    let mut v = F::zero_vec(rows * 3);
    for r in 0..rows {
        let (a, b) = (F::from_usize(r), F::from_usize(r + 1));
        v[3 * r] = a;
        v[3 * r + 1] = b;
        v[3 * r + 2] = a + b;
    }
    RowMajorMatrix::new(v, 3)
}

#[test]
fn uni_stark_single_row_air_without_next_row_opening() -> Result<(), VerificationError> {
    let scalars = test_fri_scalars();
    let fri_verifier_params = FriVerifierParams::unsafe_arithmetic_only_for_tests(
        scalars.log_blowup,
        scalars.log_final_poly_len,
        scalars.commit_pow_bits,
        scalars.query_pow_bits,
    );
    let config = make_test_config();
    let air = SingleRowAddAir;
    let pis: Vec<F> = vec![];

    let proof = prove(&config, &air, trace(1 << 3), &pis);
    assert!(proof.opened_values.trace_next.is_none(), "next-row opening is suppressed");
    verify(&config, &air, &proof, &pis).expect("native verifier accepts");

    let mut cb = CircuitBuilder::new();
    cb.enable_poseidon2_perm::<BabyBearD4Width16, _>(
        generate_poseidon2_trace::<Challenge, BabyBearD4Width16>,
        default_babybear_poseidon2_16(),
    );
    cb.enable_recompose::<F>(generate_recompose_trace::<F, Challenge>);

    let vi = StarkVerifierInputsBuilder::<MyConfig, MerkleCapTargets<F, DIGEST_ELEMS>, InnerFri>::allocate(
        &mut cb, &proof, None, pis.len(),
    );
    verify_p3_uni_proof_circuit::<_, _, _, _, _, _, WIDTH, RATE>(
        &config,
        &air,
        &mut cb,
        &vi.proof_targets,
        &vi.air_public_targets,
        &None,
        &fri_verifier_params,
        Poseidon2Config::BABY_BEAR_D4_W16,
    )?;
    let circuit = cb.build()?;
    let (public_inputs, private_inputs) = vi.pack_values(&pis, &proof, &None);
    assert_eq!(public_inputs.len(), circuit.public_flat_len);
    assert_eq!(private_inputs.len(), circuit.private_flat_len);
    let mut runner = circuit.runner();
    runner.set_public_inputs(&public_inputs).map_err(VerificationError::Circuit)?;
    runner.set_private_inputs(&private_inputs).map_err(VerificationError::Circuit)?;
    runner.run().map_err(VerificationError::Circuit)?;
    Ok(())
}
