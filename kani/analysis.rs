// Kani harnesses for circuit/src/builder/compiler/optimizer/analysis.rs (C02/C03).
// Loop-free over the full u32 domain => complete.
use super::*;

fn any_kind() -> AluOpKind {
    match kani::any::<u8>() % 5 {
        0 => AluOpKind::Add,
        1 => AluOpKind::Mul,
        2 => AluOpKind::BoolCheck,
        3 => AluOpKind::MulAdd,
        _ => AluOpKind::HornerAcc,
    }
}
fn any_opt() -> Option<WitnessId> {
    if kani::any() { Some(WitnessId(kani::any())) } else { None }
}

/// Equal dedup keys identify the same relation: same kind; same operand pair (unordered only for the
/// commutative kinds Add/Mul; BoolCheck's relation only reads `a`); same third operand for MulAdd /
/// HornerAcc (lowering always supplies it); same accumulator (intermediate_out).
#[kani::proof]
fn c03_equal_keys_same_relation() {
    let (k1, k2) = (any_kind(), any_kind());
    let (a1, b1, a2, b2) = (WitnessId(kani::any()), WitnessId(kani::any()), WitnessId(kani::any()), WitnessId(kani::any()));
    let (c1, c2, io1, io2) = (any_opt(), any_opt(), any_opt(), any_opt());
    // shape produced by Op::add/mul/bool_check/mul_add/horner_acc
    let needs_c = |k: AluOpKind| matches!(k, AluOpKind::MulAdd | AluOpKind::HornerAcc);
    kani::assume(needs_c(k1) == c1.is_some());
    kani::assume(needs_c(k2) == c2.is_some());
    let key1 = AluKey::new(k1, a1, b1, c1).with_acc(io1);
    let key2 = AluKey::new(k2, a2, b2, c2).with_acc(io2);
    if key1 == key2 {
        assert!(k1 == k2);
        assert!(io1 == io2);
        assert!(c1 == c2);
        match k1 {
            AluOpKind::Add | AluOpKind::Mul => {
                assert!((a1 == a2 && b1 == b2) || (a1 == b2 && b1 == a2));
            }
            AluOpKind::BoolCheck => assert!(a1 == a2),
            AluOpKind::MulAdd | AluOpKind::HornerAcc => {
                // a*b is commutative, so either order denotes the same relation
                assert!((a1 == a2 && b1 == b2) || (a1 == b2 && b1 == a2));
            }
        }
    }
}

/// reachability behind the implication above (vacuity guard): equal keys do occur
#[kani::proof]
fn c03_equal_keys_reachable() {
    let k = any_kind();
    let (a, b) = (WitnessId(kani::any()), WitnessId(kani::any()));
    let key1 = AluKey::new(k, a, b, None);
    let key2 = AluKey::new(k, a, b, None);
    kani::cover!(key1 == key2);
    assert!(key1 == key2);
}
