// Kani harnesses for circuit/src/ops/context.rs (C19).  Included through the
// `#[cfg(all(kani, p3r_verif))] mod verif_kani` hook, so private items are reachable.
// All harnesses are loop-free over fully symbolic inputs => complete proofs, not bounded.
use core::mem::MaybeUninit;

use p3_baby_bear::BabyBear;
use p3_field::PrimeCharacteristicRing;

use super::*;

type F = BabyBear;
const N: usize = 3;

fn any_slot() -> Option<F> {
    if kani::any() { Some(F::from_u8(kani::any())) } else { None }
}

/// get_witness: total; Ok exactly for an in-range, set slot; returns that slot's value.
/// (Run under both profiles: `-C debug-assertions=off` selects the optimized code.)
#[kani::proof]
fn c19_get_witness_contract() {
    let mut witness: [Option<F>; N] = [any_slot(), any_slot(), any_slot()];
    let snapshot = witness;
    let private_data: [Option<NpoPrivateData>; 0] = [];
    // never read by get_witness/set_witness; a real hashbrown map cannot be built under CBMC
    let configs = MaybeUninit::<HashMap<NpoTypeId, NpoConfig>>::uninit();
    let mut op_states: OpStateMap = OpStateMap::new();
    let ctx = ExecutionContext::new(
        &mut witness,
        &private_data,
        unsafe { configs.assume_init_ref() },
        NonPrimitiveOpId(0),
        &mut op_states,
    );
    let idx: u32 = kani::any();
    let r = ctx.get_witness(WitnessId(idx));
    let expect_ok = (idx as usize) < N && snapshot[idx as usize % N].is_some();
    assert!(r.is_ok() == expect_ok);
    if let Ok(v) = r {
        assert!(Some(v) == snapshot[idx as usize]);
    }
}

/// set_witness: out of range => Err, nothing changes; unset slot => Ok and only that slot changes;
/// set slot => Ok iff equal value, and nothing changes.
#[kani::proof]
#[kani::stub(alloc::fmt::format, stub_format)]
fn c19_set_witness_contract() {
    let mut witness: [Option<F>; N] = [any_slot(), any_slot(), any_slot()];
    let snapshot = witness;
    let private_data: [Option<NpoPrivateData>; 0] = [];
    let configs = MaybeUninit::<HashMap<NpoTypeId, NpoConfig>>::uninit();
    let mut op_states: OpStateMap = OpStateMap::new();
    let idx: u32 = kani::any();
    let value = F::from_u8(kani::any());
    let r = {
        let mut ctx = ExecutionContext::new(
            &mut witness,
            &private_data,
            unsafe { configs.assume_init_ref() },
            NonPrimitiveOpId(0),
            &mut op_states,
        );
        ctx.set_witness(WitnessId(idx), value).is_ok()
    };
    let i = idx as usize;
    if i >= N {
        assert!(!r);
        assert!(witness == snapshot);
    } else {
        match snapshot[i] {
            None => {
                assert!(r);
                assert!(witness[i] == Some(value));
            }
            Some(e) => {
                assert!(r == (e == value));
                assert!(witness[i] == snapshot[i]);
            }
        }
        // frame: every other slot is untouched
        assert!(witness[(i + 1) % N] == snapshot[(i + 1) % N]);
        assert!(witness[(i + 2) % N] == snapshot[(i + 2) % N]);
    }
}

fn stub_format(_args: core::fmt::Arguments<'_>) -> alloc::string::String {
    alloc::string::String::new()
}
