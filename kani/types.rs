// Kani harnesses for circuit/src/types.rs.
use super::*;

/// WitnessAllocator hands out consecutive, distinct ids (C02 lowering relies on it).
#[kani::proof]
fn c02_allocator_monotone() {
    let mut al = WitnessAllocator::new();
    let n: u32 = kani::any();
    kani::assume(n < u32::MAX - 2);
    al.next_idx = n;
    let x = al.alloc();
    let y = al.alloc();
    assert!(x.0 == n && y.0 == n + 1 && al.witness_count() == n + 2);
}
