#!/bin/sh
# Offline setup: nothing to download. Warm the Verus cache and check the tools are there.
set -e
cd "$(dirname "$0")"
command -v verus >/dev/null
command -v cargo-kani >/dev/null || command -v cargo >/dev/null
python3 -c "import json,sys; json.load(open('MANIFEST.json'))"
mkdir -p .build evidence replays
echo setup ok
