#!/bin/sh
# confirm a seeded change: existing suite passes with it, demo fails with it and passes without it.
# usage: confirm_seed.sh <seed dir> <demo dest path relative to repo> <crate of demo> [scratch worktree]
SEED=$(realpath $1); DEST=$2; CRATE=$3; WT=${4:-/tmp/wt_confirm}
export CARGO_TARGET_DIR=/tmp/p3target_full CARGO_NET_OFFLINE=true
[ -d $WT ] || git -C /repo worktree add -f $WT main >/dev/null 2>&1
cd $WT && git reset -q --hard && git clean -fdq && git checkout -q --detach main
DEMO=$(ls $SEED/demo_*.rs | head -1)
mkdir -p $(dirname $DEST) && cp $DEMO $DEST
T=$(basename $DEST .rs)
echo "== demo WITHOUT change (must pass)"; cargo test -p $CRATE --offline --test $T 2>&1 | grep -E "^test result|error(\[|:)" | head -5
git apply $SEED/patch.diff || { echo "PATCH DOES NOT APPLY"; exit 1; }
echo "== demo WITH change (must fail)"; cargo test -p $CRATE --offline --test $T 2>&1 | grep -E "^test result|error(\[|:)" | head -5
rm -f $DEST
echo "== existing suite WITH change (must pass)"
cargo nextest run --workspace --no-fail-fast --tool-config-file pb:/w/lib/nextest.toml --profile pb --test-threads 8 --offline 2>&1 | grep -E "Summary|FAIL|failed" | head -10
git checkout -q -- . ; git clean -fdq
