#!/usr/bin/env python3
"""regenerate /verif/MANIFEST.json from vf/registry.py (single source of truth)"""
import json, os, sys
HERE = os.path.dirname(os.path.dirname(os.path.abspath(__file__)))
sys.path.insert(0, HERE)
from vf.registry import PROPS, META, NOT_APPLICABLE

checks = []
for pid in sorted(PROPS):
    m = META[pid]
    checks.append({
        'property_id': pid,
        'quick_cmd': f'./check {pid} quick',
        'thorough_cmd': f'./check {pid} thorough',
        'evidence_file': f'/verif/evidence/{pid}.json',
        'replay_cmd_template': './check --replay {path}',
        'engine': 'contracts',
        'level_claimed': {'category': 'proof', 'text': m['text'], 'design_ref': m.get('design_ref', 'DESIGN.md §5 ' + pid)},
        'level_note': m['note'],
        'technique': m['technique'],
    })
man = {
    'version': 1,
    'setup_cmd': './setup.sh',
    'hooks': {
        'guard': 'p3r_verif',
        'enable': 'RUSTFLAGS="--cfg p3r_verif" P3R_VERIF_DIR=/verif cargo kani -p <crate> --harness <name>  (harness modules are #[cfg(all(kani, p3r_verif))]; the Verus route reads source files and needs no hook)',
        'baseline_off_cmd': 'cd /repo && cargo nextest run --workspace --no-fail-fast --tool-config-file pb:/w/lib/nextest.toml --profile pb --test-threads 8 --offline',
        'source_commits': json.load(open(os.path.join(HERE, 'hooks.json')))['hook_commits'],
        'add_only': True,
    },
    'engines': [{'name': 'contracts', 'path': '/verif/check', 'serves_properties': sorted(PROPS),
                 'kind_free_text': 'contract-based deductive verification: Verus on real functions extracted from /repo on every run (vf/extract.py, units/*.py), Kani function-level harnesses compiled inside the real crates'}],
    'checks': checks,
    'notes': 'exit 0 held / 1 violation / 2 undecided (lost anchor, unit does not build, resource limit, vacuity guard). known_findings.json lists genuine defects (open and fixed).',
    'not_applicable': [{'property_id': k, 'reason': v} for k, v in sorted(NOT_APPLICABLE.items()) if k not in PROPS],
}
json.dump(man, open(os.path.join(HERE, 'MANIFEST.json'), 'w'), indent=1)
print('MANIFEST.json:', len(checks), 'checks,', len(man['not_applicable']), 'not applicable')
