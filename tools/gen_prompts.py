#!/usr/bin/env python3
"""write /tmp/prompt_<ID>.txt for the given property ids from tools/mutation_prompt.txt, with the list of places earlier seeded changes touched (from seeded/*/meta.json)"""
import glob, json, os, sys
HERE = os.path.dirname(os.path.abspath(__file__))
tpl = open(os.path.join(HERE, 'mutation_prompt.txt')).read()
for pid in sys.argv[1:]:
    prev = []
    for mf in sorted(glob.glob(os.path.join(HERE, '..', 'seeded', '*', 'meta.json'))):
        m = json.load(open(mf))
        if m.get('property') == pid:
            prev.append(f"{m.get('file', '?')}: {m.get('breaks', '')[:140]}")
    t = tpl.replace('@ID@', pid).replace('@id@', pid.lower())
    if prev:
        hint = 'This is a later round: earlier changes already touched ' + '; '.join(f'({i + 1}) {p}' for i, p in enumerate(prev)) + '. Pick a DIFFERENT function and mechanism.\n\n'
        t = t.replace('Deliverables in', hint + 'Deliverables in', 1)
    kf = json.load(open(os.path.join(HERE, '..', 'known_findings.json')))['findings']
    known = [f"{f['id']} ({f['status']}): {f['what'][:160]}" for f in kf if f.get('property') == pid]
    if known:
        t = t.replace('Deliverables in', 'Already known about the unmodified code for this property (do not report these again as side observations; new inputs only): ' + ' | '.join(known) + '\n\n' + 'Deliverables in', 1)
    open(f'/tmp/prompt_{pid}.txt', 'w').write(t)
    print(pid, len(prev), 'earlier changes')
