#!/bin/sh
# regression over every seeded change, on a scratch worktree of /repo (VERIF_REPO) with a private build directory, so that it can run next to other work.
# usage: regress_seeds.sh [seed name pattern]   -> one line per seed and property: the first VIOLATION / held / UNDECIDED line
WT=/tmp/wt_seed; export VERIF_BUILD=/tmp/verif_build_seed VERIF_SCRATCH=1
[ -d $WT ] || git -C /repo worktree add -f --detach $WT main >/dev/null 2>&1
cd $WT && git reset -q --hard && git clean -fdq && git checkout -q --detach main
export VERIF_REPO=$WT
for d in /verif/seeded/${1:-*}/; do
  s=$(basename $d); [ -f $d/meta.json ] || continue
  props=$(python3 -c "
import json,re,sys
m=json.load(open('$d/meta.json')); ps=[m['property']]
ps+= [p for p in re.findall(r'\bC\d\d\b', m.get('detected_by','')) if p not in ps]
print(' '.join(ps))")
  git -C $WT apply $d/patch.diff 2>/dev/null || { echo "$s: PATCH DOES NOT APPLY"; continue; }
  for p in $props; do
    r=$(/verif/check $p quick 2>&1 | grep -E "VIOLATION|held|UNDECIDED" | head -1 | cut -c1-150)
    echo "$s [$p]: $r"
  done
  git -C $WT checkout -q -- . ; git -C $WT clean -fdq
done
echo ALLDONE
