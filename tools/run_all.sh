#!/bin/sh
# run every claimed check (quick) on the current /repo tree, validate manifest + evidence
cd "$(dirname "$0")/.."
python3 tools/gen_manifest.py || exit 1
rc=0
for p in $(python3 -c "import json;print(' '.join(c['property_id'] for c in json.load(open('MANIFEST.json'))['checks']))"); do
  ./check $p ${1:-quick} > .build/run_$p.log 2>&1; r=$?
  echo "$p exit=$r $(tail -1 .build/run_$p.log | cut -c1-160)"
  [ $r -ne 0 ] && rc=1
done
python3-vt - <<'PY'
import json,jsonschema,glob
jsonschema.validate(json.load(open('MANIFEST.json')), json.load(open('/root/.vp/MANIFEST.schema.json')))
sch=json.load(open('/root/.vp/EVIDENCE.schema.json'))
for c in json.load(open('MANIFEST.json'))['checks']:
    e=json.load(open(c['evidence_file'])); jsonschema.validate(e, sch)
    assert e['coverage']['obligations']==e['coverage']['discharged'], c['property_id']
print('manifest + evidence valid')
PY
exit $rc
