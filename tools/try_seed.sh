#!/bin/sh
# apply a seeded change to /repo, run the given property checks WITHOUT touching committed evidence, undo the change
# usage: try_seed.sh <seed dir> <property id>...
SEED=$1; shift
git -C /repo apply $(realpath $SEED)/patch.diff || exit 2
for p in "$@"; do VERIF_SCRATCH=1 /verif/check $p quick | grep -E "VIOLATION|held|UNDECIDED" | cut -c1-220; done
git -C /repo checkout -- .
