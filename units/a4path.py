"""Unit `a4path` (C08): the arity-4 Merkle path walk -- recursion/src/pcs/mmcs.rs {add_arity4_compression_row, arity4_emit_path, verify_batch_circuit_arity4}.
Value-level log of permutation-table rows (ghost `a4`: every `add_perm` call by value).  Proved:
 * add_arity4_compression_row emits exactly one chained Merkle-path row: direction bits (low, high), chunk 1 = the injected digest on an injection row, every unused
   chunk (>= 2 on an injection row / a step-2 bridge, none on a step-4 level) pinned to the given zero, every other limb omitted (free sibling / chained running hash), outputs exposed iff final;
 * arity4_emit_path emits, level by level, the rows of the native walk: level i uses index bits [c_i] (and [c_i + 1] for a 4-ary level; missing high bits are zero), c_i = sum of log2(step)
   of the earlier levels; a level that injects matrices is followed by an injection row carrying the NEXT precomputed digest; only the last row exposes its outputs; the recovered root is
   connected limb by limb to the selected cap entry; the op ids are those of the main rows, each repeated once per sibling;
 * verify_batch_circuit_arity4: one injected digest per injecting level, in schedule order, hashed from the rows of that level's matrices (not a chain seed); the leaf layer is hashed LAST
   as the chain seed, from the rows of the leaf-layer matrices in schedule order; the walk uses the index bits and the prepared root."""
import re

from vf.extract import ExtractError, match_brace
from vf.unit import Unit, unget_copied_unwrap_or, unfor_zip_pairs

PRELUDE = r'''
#![allow(unused_imports, unused_variables, dead_code, unused_mut, unused_parens)]
use vstd::prelude::*;
verus! {
global size_of usize == 8;
pub trait Field: Sized + Copy { spec fn fzero() -> Self; }
pub trait FieldX: Field { fn zero_() -> (r: Self) ensures r == Self::fzero(); }
#[derive(Clone, Copy, PartialEq, Eq, Structural)] pub struct ExprId(pub u32);
pub type Target = ExprId;
#[derive(Clone, Copy, PartialEq, Eq, Structural)] pub struct NonPrimitiveOpId(pub u32);
pub struct CircuitBuilderError { pub _p: () }
impl CircuitBuilderError {
    #[verifier::external_body] pub fn mismatch() -> Self { unimplemented!() }
    #[verifier::external_body] pub fn missing_output() -> Self { unimplemented!() }
    #[verifier::external_body] pub fn wrong_batch_size(expected: usize, got: usize) -> Self { unimplemented!() }
}
#[derive(Clone, Copy)] pub struct PermConfig { pub wext: usize, pub rext: usize, pub cext: usize }
impl PermConfig {
    pub fn width_ext(&self) -> (r: usize) ensures r == self.wext { self.wext }
    pub fn rate_ext(&self) -> (r: usize) ensures r == self.rext { self.rext }
    pub fn capacity_ext(&self) -> (r: usize) ensures r == self.cext { self.cext }
    pub open spec fn a4_shape(&self) -> bool { self.wext == 4 * self.cext && self.cext >= 1 && self.rext <= self.wext && self.cext <= self.rext && self.wext < 0x1000 }
}
pub struct Dimensions { pub width: usize, pub height: usize }
pub struct PermCall { pub new_start: bool, pub merkle_path: bool, pub mmcs_bit: Option<ExprId>, pub mmcs_bit2: Option<ExprId>,
    pub inputs: Vec<Option<ExprId>>, pub out_ctl: Vec<bool>, pub return_all_outputs: bool, pub mmcs_index_sum: Option<ExprId> }
/// a permutation-table row by value, as the AIR / the runner see it
pub struct RowV<F> { pub new_start: bool, pub merkle_path: bool, pub bit: Option<F>, pub bit2: Option<F>, pub given: Seq<Option<F>>, pub out_ctl: Seq<bool>, pub return_all: bool, pub index_sum: Option<F> }

pub struct CircuitBuilder<F> {
    pub vals: Ghost<Map<ExprId, F>>,
    pub sat: Ghost<bool>,
    /// output state (values) of the latest permutation-table row
    pub row: Ghost<Seq<F>>,
    /// every permutation-table row added so far, by value, in table order
    pub a4: Ghost<Seq<RowV<F>>>,
    /// the leaf digest recorded as the seed of the Merkle chain (latest `merkle_seed` sponge), if no row was added since
    pub seed: Ghost<Option<Seq<F>>>,
}
impl<F: Field> CircuitBuilder<F> {
    pub open spec fn has(&self, e: ExprId) -> bool { self.vals@.dom().contains(e) }
    pub open spec fn val(&self, e: ExprId) -> F { self.vals@[e] }
    pub open spec fn has_all(&self, s: Seq<ExprId>) -> bool { forall|i: int| 0 <= i < s.len() ==> self.has(#[trigger] s[i]) }
    pub open spec fn vals_of(&self, s: Seq<ExprId>) -> Seq<F> { Seq::new(s.len(), |i: int| self.val(s[i])) }
    pub open spec fn oval(&self, o: Option<ExprId>) -> Option<F> { match o { Some(t) => Some(self.val(t)), None => None } }
    pub open spec fn ovals_of(&self, s: Seq<Option<ExprId>>) -> Seq<Option<F>> { Seq::new(s.len(), |i: int| self.oval(s[i])) }
    pub open spec fn ohas_all(&self, s: Seq<Option<ExprId>>) -> bool { forall|i: int| 0 <= i < s.len() ==> ((#[trigger] s[i]) matches Some(t) ==> self.has(t)) }
    pub open spec fn extends(&self, old: &Self) -> bool {
        &&& forall|e: ExprId| #[trigger] old.has(e) ==> self.has(e) && self.val(e) == old.val(e)
        &&& (self.sat@ ==> old.sat@)
    }
    /// no row and no constraint added
    pub open spec fn extends_pure(&self, old: &Self) -> bool { self.extends(old) && self.sat@ == old.sat@ && self.row@ == old.row@ && self.a4@ == old.a4@ && self.seed@ == old.seed@ }
    #[verifier::external_body]
    pub fn define_const(&mut self, v: F) -> (r: ExprId) ensures final(self).extends_pure(old(self)), final(self).has(r), final(self).val(r) == v { unimplemented!() }
    #[verifier::external_body]
    pub fn connect(&mut self, a: ExprId, b: ExprId)
        ensures final(self).extends(old(self)), final(self).sat@ == (old(self).sat@ && old(self).val(a) == old(self).val(b)), final(self).row@ == old(self).row@, final(self).a4@ == old(self).a4@, final(self).seed@ == old(self).seed@
    { unimplemented!() }
    pub open spec fn row_of(&self, call: &PermCall) -> RowV<F> {
        RowV { new_start: call.new_start, merkle_path: call.merkle_path, bit: self.oval(call.mmcs_bit), bit2: self.oval(call.mmcs_bit2), given: self.ovals_of(call.inputs@),
               out_ctl: call.out_ctl@, return_all: call.return_all_outputs, index_sum: self.oval(call.mmcs_index_sum) }
    }
    /// ASSUMED (circuit/src/ops/poseidon_perm): one table row; the returned targets expose the row's output limbs selected by out_ctl
    #[verifier::external_body]
    pub fn add_perm(&mut self, cfg: PermConfig, call: &PermCall) -> (r: Result<(NonPrimitiveOpId, Vec<Option<ExprId>>), CircuitBuilderError>)
        ensures final(self).extends(old(self)), final(self).sat@ == old(self).sat@,
                r is Err ==> final(self).a4@ == old(self).a4@ && final(self).row@ == old(self).row@ && final(self).seed@ == old(self).seed@,
                r matches Ok(p) ==> ({
                    &&& final(self).a4@ == old(self).a4@.push(old(self).row_of(call)) && final(self).seed@ == None::<Seq<F>>
                    &&& p.0 == a4_opid(old(self).a4@.len() as int)
                    &&& p.1@.len() == cfg.wext && final(self).row@.len() == cfg.wext
                    &&& forall|i: int| 0 <= i < cfg.wext ==> ((#[trigger] p.1@[i]) is Some <==> (if i < cfg.rext { i < call.out_ctl@.len() && call.out_ctl@[i] } else { call.return_all_outputs }))
                    &&& forall|i: int| 0 <= i < cfg.wext ==> ((#[trigger] p.1@[i]) matches Some(t) ==> final(self).has(t) && final(self).val(t) == final(self).row@[i])
                })
    { unimplemented!() }
}
/// the op id of the k-th row of the table (a naming device: ids are positions)
pub uninterp spec fn a4_opid(k: int) -> NonPrimitiveOpId;
pub proof fn lemma_vals_ext<F: Field>(a: &CircuitBuilder<F>, b: &CircuitBuilder<F>, s: Seq<ExprId>)
    requires b.extends(a), a.has_all(s) ensures b.has_all(s), b.vals_of(s) == a.vals_of(s)
{ assert forall|i: int| 0 <= i < s.len() implies b.has(#[trigger] s[i]) && b.val(s[i]) == a.val(s[i]) by { assert(a.has(s[i])); }  assert(b.vals_of(s) =~= a.vals_of(s)); }
pub proof fn lemma_opened_ext<F: Field>(a: &CircuitBuilder<F>, b: &CircuitBuilder<F>, vv: Seq<Vec<Target>>)
    requires b.extends(a), forall|k: int| 0 <= k < vv.len() ==> a.has_all(#[trigger] vv[k]@)
    ensures forall|k: int| 0 <= k < vv.len() ==> b.has_all(#[trigger] vv[k]@) && b.vals_of(vv[k]@) == a.vals_of(vv[k]@)
{ assert forall|k: int| 0 <= k < vv.len() implies b.has_all(#[trigger] vv[k]@) && b.vals_of(vv[k]@) == a.vals_of(vv[k]@) by { lemma_vals_ext(a, b, vv[k]@); } }
pub proof fn lemma_ext_trans<F: Field>(a: &CircuitBuilder<F>, b: &CircuitBuilder<F>, c: &CircuitBuilder<F>) requires b.extends(a), c.extends(b) ensures c.extends(a) {}
#[verifier::external_body] pub fn vec_none(n: usize) -> (r: Vec<Option<ExprId>>) ensures r@.len() == n, forall|i: int| 0 <= i < n ==> (#[trigger] r@[i]) is None { unimplemented!() }
#[verifier::external_body] pub fn vec_bool(b: bool, n: usize) -> (r: Vec<bool>) ensures r@ == Seq::new(n as nat, |i: int| b) { unimplemented!() }

// ---------------------------------------------------------------- the native walk, row by row
/// chunk k of a 4-to-1 compression spans limbs [k*cext, (k+1)*cext).  One chained Merkle-path row: the running hash is placed by the AIR at chunk (bit + 2*bit2) (limbs omitted),
/// free siblings are omitted (private data), an injected digest sits at chunk 1, unused chunks are pinned to zero
pub open spec fn a4_given<F: Field>(step: int, inj: Option<Seq<F>>, z: F, cext: int, wext: int) -> Seq<Option<F>> {
    let active = if inj is Some { 2 } else { step };
    Seq::new(wext as nat, |j: int| if inj is Some && cext <= j < 2 * cext { Some(inj->Some_0[j - cext]) } else if j >= active * cext && j < 4 * cext { Some(z) } else { None })
}
pub open spec fn a4_row<F: Field>(d0: F, d1: F, step: int, inj: Option<Seq<F>>, is_final: bool, z: F, cfg: PermConfig) -> RowV<F> {
    RowV { new_start: false, merkle_path: true, bit: Some(d0), bit2: Some(d1), given: a4_given(step, inj, z, cfg.cext as int, cfg.wext as int),
           out_ctl: Seq::new(cfg.rext as nat, |i: int| is_final), return_all: false, index_sum: None }
}
} // verus!
'''

SPEC2 = r'''
verus! {
/// `xs.into_iter().take(n).map(|x| x.ok_or(MissingOutput)).collect::<Result<Vec<_>, _>>()`
#[verifier::external_body]
pub fn take_outputs(xs: &Vec<Option<ExprId>>, n: usize) -> (r: Result<Vec<ExprId>, CircuitBuilderError>)
    ensures r matches Ok(v) ==> v@.len() == imin(n as int, xs@.len() as int) && forall|i: int| 0 <= i < v@.len() ==> xs@[i] == Some(#[trigger] v@[i]),
            r is Err ==> exists|i: int| 0 <= i < n && i < xs@.len() && (#[trigger] xs@[i]) is None
{ unimplemented!() }
/// `xs.iter().copied().map(Some).collect()`
#[verifier::external_body]
pub fn all_some(xs: &[ExprId]) -> (r: Vec<Option<ExprId>>) ensures r@.len() == xs@.len(), forall|i: int| 0 <= i < xs@.len() ==> (#[trigger] r@[i]) == Some(xs@[i]) { unimplemented!() }
pub open spec fn imin(a: int, b: int) -> int { if a < b { a } else { b } }
pub open spec fn vals2<F: Field>(b: &CircuitBuilder<F>, vv: Seq<Vec<Target>>) -> Seq<Seq<F>> { Seq::new(vv.len(), |i: int| b.vals_of(vv[i]@)) }
// ---- the native arity-4 walk (p3-merkle-tree verify_batch with N = 4): level i consumes log2(step_i) index bits, low bit first; index bits beyond the proof's are zero
pub open spec fn sbits(s: Arity4PathStep) -> int { if s.step == 4 { 2 } else { 1 } }
pub open spec fn consumed(s: Seq<Arity4PathStep>, i: int) -> int decreases i { if i <= 0 { 0 } else { consumed(s, i - 1) + sbits(s[i - 1]) } }
pub open spec fn injects(s: Arity4PathStep) -> bool { s.injection_rows@.len() > 0 }
/// number of injecting levels before level i = which precomputed digest level i injects
pub open spec fn injs(s: Seq<Arity4PathStep>, i: int) -> int decreases i { if i <= 0 { 0 } else { injs(s, i - 1) + if injects(s[i - 1]) { 1int } else { 0 } } }
pub open spec fn bit_at<F: Field>(bits: Seq<F>, k: int) -> F { if 0 <= k < bits.len() { bits[k] } else { F::fzero() } }
pub open spec fn level_rows<F: Field>(s: Seq<Arity4PathStep>, bits: Seq<F>, inj: Seq<Seq<F>>, cfg: PermConfig, i: int) -> Seq<RowV<F>> {
    let c = consumed(s, i); let st = s[i]; let last = i == s.len() - 1;
    let main = a4_row(bit_at(bits, c), if st.step == 4 { bit_at(bits, c + 1) } else { F::fzero() }, st.step as int, None, last && !injects(st), F::fzero(), cfg);
    if injects(st) { seq![main, a4_row(F::fzero(), F::fzero(), st.step as int, Some(inj[injs(s, i)]), last, F::fzero(), cfg)] } else { seq![main] }
}
pub open spec fn a4_rows<F: Field>(s: Seq<Arity4PathStep>, bits: Seq<F>, inj: Seq<Seq<F>>, cfg: PermConfig, n: int) -> Seq<RowV<F>> decreases n {
    if n <= 0 { Seq::empty() } else { a4_rows(s, bits, inj, cfg, n - 1) + level_rows(s, bits, inj, cfg, n - 1) }
}
/// the private-data handles: the main row of level i (table position base + i + injs(i)), once per sibling
pub open spec fn level_ids(base: int, s: Seq<Arity4PathStep>, i: int) -> Seq<NonPrimitiveOpId> { Seq::new((s[i].step - 1) as nat, |k: int| a4_opid(base + i + injs(s, i))) }
pub open spec fn a4_ids(base: int, s: Seq<Arity4PathStep>, n: int) -> Seq<NonPrimitiveOpId> decreases n { if n <= 0 { Seq::empty() } else { a4_ids(base, s, n - 1) + level_ids(base, s, n - 1) } }
pub proof fn lemma_rows_len<F: Field>(s: Seq<Arity4PathStep>, bits: Seq<F>, inj: Seq<Seq<F>>, cfg: PermConfig, n: int)
    requires 0 <= n <= s.len() ensures a4_rows(s, bits, inj, cfg, n).len() == n + injs(s, n), 0 <= injs(s, n) <= n, 0 <= consumed(s, n) <= 2 * n decreases n
{ if n > 0 { lemma_rows_len(s, bits, inj, cfg, n - 1); } }
pub proof fn lemma_injs_mono(s: Seq<Arity4PathStep>, i: int, n: int) requires 0 <= i <= n ensures injs(s, i) <= injs(s, n) decreases n - i { if i < n { lemma_injs_mono(s, i + 1, n); } }
} // verus!
'''

SPEC3 = r'''
verus! {
// ---------------------------------------------------------------- the arity-4 batch driver
pub open spec fn tseq_(opened: Seq<Vec<Target>>) -> Seq<Seq<ExprId>> { Seq::new(opened.len(), |i: int| opened[i]@) }
pub open spec fn flat_rows<F>(ov: Seq<Seq<F>>, idxs: Seq<usize>, n: int) -> Seq<F> decreases n { if n <= 0 { Seq::empty() } else { flat_rows(ov, idxs, n - 1) + ov[idxs[n - 1] as int] } }
/// `idxs.iter().flat_map(|&m| opened[m].iter().copied()).collect()`: the opened rows of the listed matrices, concatenated in list order
#[verifier::external_body]
pub fn gather_rows(idxs: &Vec<usize>, opened: &[Vec<Target>]) -> (r: Vec<Target>)
    requires forall|k: int| 0 <= k < idxs@.len() ==> (#[trigger] idxs@[k]) < opened@.len()
    ensures r@ == flat_rows(tseq_(opened@), idxs@, idxs@.len() as int)
{ unimplemented!() }
/// the wide leaf sponge by value: digest and the table rows it adds (ASSUMED callee; internals: units hash / vbatch)
pub uninterp spec fn leaf_digest_val<F: Field>(cfg: PermConfig, data: Seq<F>) -> Seq<F>;
pub uninterp spec fn sponge_rows<F: Field>(cfg: PermConfig, data: Seq<F>, merkle_seed: bool) -> Seq<RowV<F>>;
#[verifier::external_body]
pub fn add_arity4_leaf_digest_from_base<EF: FieldX>(circuit: &mut CircuitBuilder<EF>, permutation_config: PermConfig, leaf_data: &[Target], merkle_seed: bool) -> (ret: Result<Vec<Target>, CircuitBuilderError>)
    requires old(circuit).has_all(leaf_data@)
    ensures final(circuit).extends(old(circuit)), final(circuit).sat@ == old(circuit).sat@,
            ret matches Ok(d) ==> ({
                let dv = leaf_digest_val(permutation_config, old(circuit).vals_of(leaf_data@));
                &&& final(circuit).has_all(d@) && final(circuit).vals_of(d@) == dv && d@.len() == permutation_config.cext
                &&& final(circuit).a4@ == old(circuit).a4@ + sponge_rows(permutation_config, old(circuit).vals_of(leaf_data@), merkle_seed)
                &&& final(circuit).seed@ == (if merkle_seed { Some(dv) } else { None::<Seq<EF>> })
            })
{ unimplemented!() }
/// arity4_prepare by value (ASSUMED here; its schedule is unit a4sched, the cap selection unit mmcs): no table row, no constraint
pub uninterp spec fn sp_schedule(dims: Seq<Dimensions>, num_roots: int) -> Seq<Arity4PathStep>;
pub uninterp spec fn sp_leaf_rows(dims: Seq<Dimensions>) -> Seq<usize>;
/// native MerkleTreeHidingMmcs is generic over the arity; fri/verifier.rs drops the salt targets for arity-4 configurations
pub uninterp spec fn arity4_route_covers_hiding_commitments() -> bool;
pub uninterp spec fn sp_selected_root<F: Field>(cap: Seq<Seq<F>>, bits: Seq<F>, dims: Seq<Dimensions>) -> Seq<F>;
#[verifier::external_body]
pub fn arity4_prepare<EF: FieldX>(circuit: &mut CircuitBuilder<EF>, permutation_config: PermConfig, commitment_cap: &[Vec<Target>], dimensions: &[Dimensions], index_bits: &[Target])
    -> (ret: Result<(Vec<Target>, Vec<Arity4PathStep>, Vec<usize>), CircuitBuilderError>)
    requires old(circuit).has_all(index_bits@), forall|k: int| 0 <= k < commitment_cap@.len() ==> old(circuit).has_all(#[trigger] commitment_cap@[k]@)
    ensures final(circuit).extends_pure(old(circuit)),
            ret matches Ok(t) ==> ({
                &&& permutation_config.a4_shape()
                &&& final(circuit).has_all(t.0@) && final(circuit).vals_of(t.0@) == sp_selected_root(vals2(old(circuit), commitment_cap@), old(circuit).vals_of(index_bits@), dimensions@)
                &&& t.1@ == sp_schedule(dimensions@, commitment_cap@.len() as int) && t.1@.len() < 0x1000_0000 && t.2@ == sp_leaf_rows(dimensions@)
                &&& forall|l: int| 0 <= l < t.1@.len() ==> ((#[trigger] t.1@[l]).step == 2 || t.1@[l].step == 4)
                &&& forall|l: int, k: int| 0 <= l < t.1@.len() && 0 <= k < t.1@[l].injection_rows@.len() ==> (#[trigger] t.1@[l].injection_rows@[k]) < dimensions@.len()
                &&& forall|k: int| 0 <= k < t.2@.len() ==> (#[trigger] t.2@[k]) < dimensions@.len()
            })
{ unimplemented!() }
/// digests of the injected levels before level i, in level order, by value
pub open spec fn inj_digests<F: Field>(s: Seq<Arity4PathStep>, ov: Seq<Seq<F>>, cfg: PermConfig, i: int) -> Seq<Seq<F>> decreases i {
    if i <= 0 { Seq::empty() } else { let p = inj_digests(s, ov, cfg, i - 1);
        if injects(s[i - 1]) { p.push(leaf_digest_val(cfg, flat_rows(ov, s[i - 1].injection_rows@, s[i - 1].injection_rows@.len() as int))) } else { p } }
}
/// the table rows those digests cost, in level order (none of them is a chain seed)
pub open spec fn inj_sponges<F: Field>(s: Seq<Arity4PathStep>, ov: Seq<Seq<F>>, cfg: PermConfig, i: int) -> Seq<RowV<F>> decreases i {
    if i <= 0 { Seq::empty() } else { let p = inj_sponges(s, ov, cfg, i - 1);
        if injects(s[i - 1]) { p + sponge_rows(cfg, flat_rows(ov, s[i - 1].injection_rows@, s[i - 1].injection_rows@.len() as int), false) } else { p } }
}
pub proof fn lemma_gather<F: Field>(c: &CircuitBuilder<F>, opened: Seq<Vec<Target>>, idxs: Seq<usize>, n: int)
    requires 0 <= n <= idxs.len(), forall|k: int| 0 <= k < idxs.len() ==> (#[trigger] idxs[k]) < opened.len(), forall|k: int| 0 <= k < opened.len() ==> c.has_all(#[trigger] opened[k]@)
    ensures c.has_all(flat_rows(tseq_(opened), idxs, n)), c.vals_of(flat_rows(tseq_(opened), idxs, n)) == flat_rows(vals2(c, opened), idxs, n)
    decreases n
{
    if n > 0 {
        lemma_gather(c, opened, idxs, n - 1);
        let a = flat_rows(tseq_(opened), idxs, n - 1); let b = opened[idxs[n - 1] as int]@;
        assert(c.has_all(b));
        assert forall|i: int| 0 <= i < (a + b).len() implies c.has(#[trigger] (a + b)[i]) by { if i < a.len() { assert(c.has(a[i])); } else { assert(c.has(b[i - a.len()])); } }
        assert(c.vals_of(a + b) =~= c.vals_of(a) + c.vals_of(b));
    } else {
        assert(c.vals_of(Seq::<ExprId>::empty()) =~= Seq::<F>::empty());
    }
}
pub proof fn lemma_vals2_push<F: Field>(a: &CircuitBuilder<F>, b: &CircuitBuilder<F>, vv: Seq<Vec<Target>>, d: Vec<Target>)
    requires b.extends(a), forall|k: int| 0 <= k < vv.len() ==> a.has_all(#[trigger] vv[k]@)
    ensures vals2(b, vv.push(d)) == vals2(a, vv).push(b.vals_of(d@)), forall|k: int| 0 <= k < vv.len() ==> b.has_all(#[trigger] vv[k]@)
{
    lemma_opened_ext(a, b, vv);
    assert(vals2(b, vv.push(d)) =~= vals2(a, vv).push(b.vals_of(d@)));
}
pub proof fn lemma_inj_digests_len<F: Field>(s: Seq<Arity4PathStep>, ov: Seq<Seq<F>>, cfg: PermConfig, i: int) requires 0 <= i ensures inj_digests(s, ov, cfg, i).len() == injs(s, i) decreases i
{ if i > 0 { lemma_inj_digests_len(s, ov, cfg, i - 1); } }
} // verus!
'''

SPEC4 = r'''
verus! {
pub open spec fn pow2i(k: int) -> int decreases k { if k <= 0 { 1 } else { 2 * pow2i(k - 1) } }
pub open spec fn is_pow2i(n: int) -> bool { exists|k: int| 0 <= k < 64 && #[trigger] pow2i(k) == n }
/// log2 of the cap length (0 for a single root)
pub uninterp spec fn log2u(n: int) -> int;
pub open spec fn cap_log_of(n: int) -> int { if n == 1 { 0 } else { log2u(n) } }
#[verifier::external_body]
pub fn log2_strict_usize(n: usize) -> (r: usize) requires is_pow2i(n as int) ensures r == log2u(n as int), r < 64 { unimplemented!() }
/// witness predicate: `root` is what select_cap_entry returned for exactly these selector-bit VALUES (the selection itself is proved in unit mmcs)
pub uninterp spec fn cap_selected_with<F: Field>(c: &CircuitBuilder<F>, cap: Seq<Vec<Target>>, bits: Seq<F>, root: Seq<ExprId>) -> bool;
#[verifier::external_body]
pub fn select_cap_entry<EF: FieldX>(circuit: &mut CircuitBuilder<EF>, cap: &[Vec<Target>], index_bits: &Vec<Target>) -> (ret: Vec<Target>)
    requires old(circuit).has_all(index_bits@)
    ensures final(circuit).extends_pure(old(circuit)), cap_selected_with(final(circuit), cap@, old(circuit).vals_of(index_bits@), ret@)
{ unimplemented!() }
/// arity4_leaf_rows / arity4_path_schedule (the latter is unit a4sched): opaque here
#[verifier::external_body] pub fn arity4_leaf_rows(dimensions: &[Dimensions], max_height: usize) -> Vec<usize> { unimplemented!() }
#[verifier::external_body] pub fn arity4_path_schedule(dimensions: &[Dimensions], max_height: usize, num_roots: usize) -> (r: Vec<Arity4PathStep>) ensures r@.len() < 0x1000_0000 { unimplemented!() }
} // verus!
'''

# contract of add_arity4_compression_row: proved on the real function, assumed (same text) at its call sites in arity4_emit_path
ROW_REQ = '''old(circuit).has(direction[0]) && old(circuit).has(direction[1]) && old(circuit).has(zero) && permutation_config.a4_shape() && (step == 2 || step == 4)
        && (injected_digest matches Some(d) ==> old(circuit).has_all(d@))'''
ROW_ENS = ['final(circuit).extends(old(circuit)) && final(circuit).sat@ == old(circuit).sat@',
           'ret is Err ==> final(circuit).a4@ == old(circuit).a4@ && final(circuit).row@ == old(circuit).row@ && final(circuit).seed@ == old(circuit).seed@',
           '''ret matches Ok(p) ==> ({
            let c0 = old(circuit);
            let inj = match injected_digest { Some(d) => Some(c0.vals_of(d@)), None => None };
            &&& final(circuit).a4@ == c0.a4@.push(a4_row(c0.val(direction[0]), c0.val(direction[1]), step as int, inj, is_final, c0.val(zero), permutation_config))
            &&& final(circuit).seed@ == None::<Seq<EF>>
            &&& p.0 == a4_opid(c0.a4@.len() as int)
            &&& p.1@.len() == permutation_config.wext && final(circuit).row@.len() == permutation_config.wext
            &&& forall|i: int| 0 <= i < permutation_config.rext ==> ((#[trigger] p.1@[i]) is Some <==> is_final)
            &&& forall|i: int| 0 <= i < permutation_config.wext ==> ((#[trigger] p.1@[i]) matches Some(t) ==> final(circuit).has(t) && final(circuit).val(t) == final(circuit).row@[i])
        })''']
ROW_SIG = 'fn add_arity4_compression_row<EF: FieldX>(circuit: &mut CircuitBuilder<EF>, permutation_config: PermConfig, direction: [Target; 2], step: usize, injected_digest: Option<&[Target]>, is_final: bool, zero: Target) -> Result<(NonPrimitiveOpId, Vec<Option<Target>>), CircuitBuilderError>'


def build():
    u = Unit('a4path', ['C08'])
    u.rlimit = 120
    u.assume('CircuitBuilder::add_perm adds one permutation-table row whose by-value content is the call (ghost log a4); the exposed outputs are the row\'s output limbs; op ids name table positions; '
             'define_const / connect add no table row')
    u.assume('the row layout of an arity-4 Merkle-path row (a4_row: chained running hash placed by the AIR at chunk bit + 2*bit2, free siblings omitted, injected digest at chunk 1, unused chunks pinned to zero) '
             'is the specification restated from the Poseidon AIR\'s 4-to-1 MMCS mode; the compression itself is the table\'s (C06/C08 findings on unbound limbs apply)')
    u.text(PRELUDE)
    M = 'recursion/src/pcs/mmcs.rs'
    from vf.extract import extract_item
    st = extract_item(M, r'struct Arity4PathStep')
    st = re.sub(r'(\n\s+)(\w+):', r'\1pub \2:', st)
    st = re.sub(r'#\[derive\([^)]*\)\]\s*', '', st)
    u.text('verus! {\npub ' + st.lstrip().removeprefix('pub ') + '\n}')

    # ---------------------------------------------------------------- add_arity4_compression_row
    r = u.extract(M, '', 'add_arity4_compression_row', 'add_arity4_compression_row')
    r.set_sig('R11', ROW_SIG)
    r.rewrite_re('R7', r'vec!\[None; width_ext\]', 'vec_none(width_ext)', min_count=0)
    r.rewrite_re('R7', r'vec!\[is_final; rate_ext\]', 'vec_bool(is_final, rate_ext)', min_count=0)
    r.erase_struct_error('CircuitBuilderError::Poseidon2ConfigMismatch', 'CircuitBuilderError::mismatch()')
    r.rewrite_re('R5', r'for \((\w+), &(\w+)\) in (\w+)\.iter\(\)\.enumerate\(\) \{', r'for \1 in 0..\3.len() { let \2 = \3[\1];', min_count=0)
    r.rewrite_re('R5', r'for (\w+) in (\w+)\[([^\]]+?)\.\.([^\]]+?)\]\.iter_mut\(\) \{\s*\*\1 = ([^;]+);', r'for ix_ in \3..\4 { \2[ix_] = \5;', min_count=0)
    r.rewrite_re('R7', r'(\w+)\[([^\]]+)\] = (Some\(\w+\));', r'\1.set(\2, \3);', min_count=0)
    r.requires('well_formed_call', ROW_REQ)
    for k, e in enumerate(ROW_ENS):
        r.ensures(['frame', 'no_row_on_error', 'one_native_merkle_path_row'][k], e)
    L1 = re.search(r'for (\w+) in 0\.\.digest\.len\(\)', r.body)
    if L1:
        j = L1.group(1)
        r.loop(L1.group(0), invariants=[('injected_chunk_so_far', f'''inputs@.len() == width_ext && digest@.len() == capacity_ext && base == capacity_ext && width_ext == 4 * capacity_ext
            && (forall|q: int| 0 <= q < width_ext ==> ((#[trigger] inputs@[q]) == (if base <= q < base + {j} {{ Some(digest@[q - base]) }} else {{ None::<ExprId> }})))''')])
    L2 = re.search(r'for chunk_k in active_chunks\.\.4', r.body)
    L3 = re.search(r'for ix_ in base\.\.base \+ capacity_ext', r.body)
    if L2 and L3:
        r.before(L2.group(0), '''let ghost in1 = inputs@; let ghost lo_ = (active_chunks * capacity_ext) as int; let ghost mut done_ = lo_;
        proof { assert(active_chunks * capacity_ext <= 4 * capacity_ext && active_chunks * capacity_ext >= 2 * capacity_ext) by (nonlinear_arith) requires 2 <= active_chunks <= 4, capacity_ext >= 1; }''')
        r.loop(L2.group(0), invariants=[('zero_pads_so_far', '''inputs@.len() == width_ext && width_ext == 4 * capacity_ext && capacity_ext >= 1 && width_ext < 0x1000 && active_chunks >= 2 && active_chunks <= 4 && in1.len() == width_ext
            && done_ == chunk_k * capacity_ext && lo_ == active_chunks * capacity_ext && lo_ <= done_ <= width_ext
            && (forall|q: int| 0 <= q < width_ext ==> ((#[trigger] inputs@[q]) == (if lo_ <= q < done_ { Some(zero) } else { in1[q] })))''')])
        r.loop(L3.group(0), invariants=[('zero_pads_of_this_chunk', '''inputs@.len() == width_ext && width_ext == 4 * capacity_ext && capacity_ext >= 1 && width_ext < 0x1000 && in1.len() == width_ext
            && base == done_ && lo_ <= done_ && base + capacity_ext <= width_ext
            && (forall|q: int| 0 <= q < width_ext ==> ((#[trigger] inputs@[q]) == (if lo_ <= q < ix_ { Some(zero) } else { in1[q] })))''')])
        lo = r._loop_open(L2.group(0))
        r.body = r.body[:lo + 1] + ' proof { assert(chunk_k * capacity_ext < 0x4000 && chunk_k * capacity_ext + capacity_ext <= 4 * capacity_ext) by (nonlinear_arith) requires chunk_k < 4, capacity_ext >= 1, capacity_ext < 0x1000; }' + r.body[lo + 1:]
        r.at_loop_end(L2.group(0), 'proof { assert((chunk_k + 1) * capacity_ext == chunk_k * capacity_ext + capacity_ext) by (nonlinear_arith); done_ = done_ + capacity_ext as int; }')
    m = re.search(r'circuit\.add_perm\(', r.body)
    if m and '&PermCall {' in r.body[m.start():]:
        op = r.body.index('&PermCall {', m.start())
        from vf.extract import match_brace
        cl = match_brace(r.body, r.body.index('{', op))
        lit = r.body[op + 1:cl + 1]
        r.body = r.body[:m.start()] + 'let ghost in2 = inputs@; let call_ = ' + lit + ';\n' + '''proof {
            let c0 = old(circuit);
            let inj = match injected_digest { Some(d) => Some(c0.vals_of(d@)), None => None };
            assert(active_chunks * capacity_ext <= 4 * capacity_ext) by (nonlinear_arith) requires active_chunks <= 4, capacity_ext >= 1;
            assert(lo_ == active_chunks * capacity_ext && done_ == 4 * capacity_ext);
            assert(c0.ovals_of(in2) =~= a4_given(step as int, inj, c0.val(zero), capacity_ext as int, width_ext as int));
            assert(c0.row_of(&call_) == a4_row(c0.val(direction[0]), c0.val(direction[1]), step as int, inj, is_final, c0.val(zero), permutation_config));
        }
        ''' + r.body[m.start():op] + '&call_' + r.body[cl + 1:]
        r.rewrites.append(('SPEC-bind-arg', 'PermCall literal bound to a local before the call', ''))
    # ---------------------------------------------------------------- arity4_emit_path
    e = u.extract(M, '', 'arity4_emit_path', 'arity4_emit_path')
    e.set_sig('R11', 'fn arity4_emit_path<EF: FieldX>(circuit: &mut CircuitBuilder<EF>, permutation_config: PermConfig, schedule: &[Arity4PathStep], index_bits: &[Target], leaf_digest: &[Target], injected_digests: &[Vec<Target>], selected_root: &[Target]) -> Result<Vec<NonPrimitiveOpId>, CircuitBuilderError>')
    e.rewrite_re('R11', r'EF::ZERO', 'EF::zero_()', min_count=0)
    e.rewrite_re('R6', r'leaf_digest\.iter\(\)\.copied\(\)\.map\(Some\)\.collect\(\)', 'all_some(leaf_digest)', min_count=0)
    e.rewrite_re('R7', r'let mut op_ids = Vec::new\(\);', 'let mut op_ids: Vec<NonPrimitiveOpId> = Vec::new();', min_count=0)
    e.rewrite_re('R5', r'for \((\w+), (\w+)\) in (\w+)\.iter\(\)\.enumerate\(\) \{', r'for \1 in 0..\3.len() { let \2 = &\3[\1];', min_count=0)
    unget_copied_unwrap_or(e)
    e.rewrite_re('R6', r'(\w+)\s*\.(?:iter|into_iter)\(\)\s*\.take\(([^;]+?)\)\s*\.map\(\|x\| x\.ok_or\(CircuitBuilderError::MissingOutput\)\)\s*\.collect::<Result<Vec<_>, _>>\(\)', r'take_outputs(&\1, \2)', flags_dotall=True, min_count=0)
    e.rewrite_re('R8', r'CircuitBuilderError::MissingOutput', 'CircuitBuilderError::missing_output()', min_count=0)
    e.rewrite_re('R5', r'for _ in 0\.\.\(step - 1\) \{', 'for rp_ in 0..(step - 1) {', min_count=0)
    e.rewrite_re('R7', r'Some\(injected_digest\)(?!\s*=)', 'Some(injected_digest.as_slice())', min_count=0)
    e.erase_struct_error('CircuitBuilderError::InvalidDimension', 'CircuitBuilderError::mismatch()')
    unfor_zip_pairs(e)
    e.requires('well_formed_walk', """permutation_config.a4_shape() && schedule@.len() < 0x1000_0000 && old(circuit).has_all(index_bits@) && old(circuit).has_all(leaf_digest@) && old(circuit).has_all(selected_root@)
        && (forall|k: int| 0 <= k < injected_digests@.len() ==> old(circuit).has_all(#[trigger] injected_digests@[k]@))
        && injected_digests@.len() >= injs(schedule@, schedule@.len() as int)
        && (forall|l: int| 0 <= l < schedule@.len() ==> ((#[trigger] schedule@[l]).step == 2 || schedule@[l].step == 4))""")
    e.ensures('frame', 'final(circuit).extends(old(circuit))')
    e.ensures('rows_of_the_native_walk', 'ret is Ok ==> final(circuit).a4@ == old(circuit).a4@ + a4_rows(schedule@, old(circuit).vals_of(index_bits@), vals2(old(circuit), injected_digests@), permutation_config, schedule@.len() as int)')
    e.ensures('sibling_handles_are_the_main_rows', 'ret matches Ok(ids) ==> ids@ == a4_ids(old(circuit).a4@.len() as int, schedule@, schedule@.len() as int)')
    # restated from the property (native compares the whole digest): a cap entry with fewer limbs than a digest must not be accepted with the missing limbs unchecked
    e.ensures('an_accepted_walk_compares_every_digest_limb_of_the_cap_entry', 'ret is Ok ==> selected_root@.len() == permutation_config.cext')
    e.ensures('recovered_root_is_the_selected_cap_entry', """ret is Ok ==> ({
            let c0 = old(circuit); let n = schedule@.len() as int; let cext = permutation_config.cext as int;
            let outv = if n == 0 { c0.vals_of(leaf_digest@) } else { final(circuit).row@ };
            let cnt = imin(if n == 0 { imin(cext, leaf_digest@.len() as int) } else { cext }, selected_root@.len() as int);
            final(circuit).sat@ == (c0.sat@ && forall|k: int| 0 <= k < cnt ==> outv[k] == c0.val(#[trigger] selected_root@[k]))
        })""")
    LP = re.search(r'for (\w+) in 0\.\.schedule\.len\(\)', e.body)
    if LP:
        i = LP.group(1)
        e.before(LP.group(0), """let ghost c0 = *old(circuit); let ghost sch = schedule@; let ghost bv = c0.vals_of(index_bits@); let ghost iv = vals2(&c0, injected_digests@); let ghost base = c0.a4@.len() as int;
        proof { assert(circuit.a4@ =~= c0.a4@ + a4_rows(sch, bv, iv, permutation_config, 0)); assert(op_ids@ =~= a4_ids(base, sch, 0)); lemma_rows_len(sch, bv, iv, permutation_config, 0); }""")
        e.loop(LP.group(0), invariants=[
            ('req', '''permutation_config.a4_shape() && sch.len() < 0x1000_0000 && c0.has_all(index_bits@) && c0.has_all(leaf_digest@) && c0.has_all(selected_root@)
                && (forall|k: int| 0 <= k < injected_digests@.len() ==> c0.has_all(#[trigger] injected_digests@[k]@)) && injected_digests@.len() >= injs(sch, sch.len() as int)
                && (forall|l: int| 0 <= l < sch.len() ==> ((#[trigger] sch[l]).step == 2 || sch[l].step == 4))'''),
            ('frame', 'c0 == *old(circuit) && circuit.extends(&c0) && circuit.sat@ == c0.sat@ && sch == schedule@ && n_steps == sch.len() && bv == c0.vals_of(index_bits@) && iv == vals2(&c0, injected_digests@) && base == c0.a4@.len() && circuit.has(zero) && circuit.val(zero) == EF::fzero()'),
            ('walk_so_far', f'bits_consumed == consumed(sch, {i} as int) && injected_digest_idx == injs(sch, {i} as int) && circuit.a4@ == c0.a4@ + a4_rows(sch, bv, iv, permutation_config, {i} as int) && op_ids@ == a4_ids(base, sch, {i} as int)'),
            ('running_hash', f'output@.len() == (if {i} == 0 {{ leaf_digest@.len() as int }} else {{ permutation_config.wext as int }}) && ({i} == 0 ==> forall|q: int| 0 <= q < leaf_digest@.len() ==> (#[trigger] output@[q]) == Some(leaf_digest@[q]))'
                             f' && ({i} > 0 ==> circuit.row@.len() == permutation_config.wext && (forall|q: int| 0 <= q < permutation_config.wext ==> ((#[trigger] output@[q]) matches Some(t) ==> circuit.has(t) && circuit.val(t) == circuit.row@[q]))'
                             f' && (forall|q: int| 0 <= q < permutation_config.rext ==> ((#[trigger] output@[q]) is Some <==> {i} == n_steps)))'),
        ])
        lo = e._loop_open(LP.group(0))
        e.body = e.body[:lo + 1] + f""" let ghost cb0 = *circuit; let ghost ids0 = op_ids@;
            proof {{ lemma_rows_len(sch, bv, iv, permutation_config, {i} as int); lemma_injs_mono(sch, {i} as int + 1, sch.len() as int); lemma_vals_ext(&c0, circuit, index_bits@); assert(sch[{i} as int].step == 2 || sch[{i} as int].step == 4); }}""" + e.body[lo + 1:]
        RP = re.search(r'for rp_ in 0\.\.\(step - 1\)', e.body)
        if RP:
            e.loop(RP.group(0), invariants=[('one_handle_per_sibling', 'op_ids@ == ids0 + Seq::new(rp_ as nat, |k: int| op_id)')])
            e.before(RP.group(0), 'proof { assert(op_ids@ =~= ids0 + Seq::new(0 as nat, |k: int| op_id)); }')
            e.at_loop_end(RP.group(0), 'proof { assert(op_ids@ =~= ids0 + Seq::new((rp_ + 1) as nat, |k: int| op_id)); }')
        if 'if has_injection {' in e.body and 'output = maybe_output;' in e.body:
            e.after('output = maybe_output;', 'let ghost c1 = *circuit;', nth=0)
            e.after('if has_injection {', 'proof { lemma_ext_trans(&c0, &cb0, circuit); assert(c0.has_all(injected_digests@[injected_digest_idx as int]@)); lemma_vals_ext(&c0, circuit, injected_digests@[injected_digest_idx as int]@); }')
        e.at_loop_end(LP.group(0), f"""proof {{
            lemma_rows_len(sch, bv, iv, permutation_config, {i} as int + 1);
            lemma_ext_trans(&c0, &cb0, circuit);
            let st = sch[{i} as int]; let c = consumed(sch, {i} as int); let z = EF::fzero(); let last = {i} == sch.len() - 1;
            let main = a4_row(bit_at(bv, c), if st.step == 4 {{ bit_at(bv, c + 1) }} else {{ z }}, st.step as int, None, last && !injects(st), z, permutation_config);
            assert(c1.a4@ == cb0.a4@.push(main));
            if injects(st) {{
                let ir = a4_row(z, z, st.step as int, Some(iv[injs(sch, {i} as int)]), last, z, permutation_config);
                assert(circuit.a4@ == c1.a4@.push(ir));
                assert(level_rows(sch, bv, iv, permutation_config, {i} as int) =~= seq![main, ir]);
            }} else {{
                assert(level_rows(sch, bv, iv, permutation_config, {i} as int) =~= seq![main]);
            }}
            assert(circuit.a4@ =~= c0.a4@ + a4_rows(sch, bv, iv, permutation_config, {i} as int + 1));
            assert(op_ids@ =~= a4_ids(base, sch, {i} as int + 1));
        }}""")
    ZL = re.search(r'for (z\d+_) in 0\.\.(n_z\d+_)', e.body)
    if ZL and LP:
        z, nz = ZL.group(1), ZL.group(2)
        e.before('let ' + nz + ' =', """let ghost cz = *circuit; let ghost outt = output@;
        proof {
            lemma_vals_ext(&c0, circuit, selected_root@); lemma_vals_ext(&c0, circuit, leaf_digest@);
            assert(cz.has_all(outt));
        }""")
        e.loop(ZL.group(0), invariants=[
            ('root_limbs_so_far', f'c0 == *old(circuit) && cz.extends(&c0) && circuit.extends(&cz) && circuit.row@ == cz.row@ && circuit.a4@ == cz.a4@ && output@ == outt && {nz} == imin(outt.len() as int, selected_root@.len() as int) && cz.has_all(outt) && cz.has_all(selected_root@)'
                                  f' && circuit.sat@ == (cz.sat@ && forall|k: int| 0 <= k < {z} ==> cz.val(outt[k]) == cz.val(#[trigger] selected_root@[k]))'),
        ])
        lo = e._loop_open(ZL.group(0))
        e.body = e.body[:lo + 1] + f' let ghost cq = *circuit; proof {{ assert(cz.has(outt[{z} as int])); assert(cz.has(selected_root@[{z} as int])); }}' + e.body[lo + 1:]
        e.at_loop_end(ZL.group(0), 'proof { lemma_ext_trans(&cz, &cq, circuit); }')
        e.before('Ok(op_ids)', """proof {
            lemma_ext_trans(&c0, &cz, circuit);
            assert(forall|k: int| 0 <= k < outt.len() ==> cz.val(#[trigger] outt[k]) == (if sch.len() == 0 { c0.vals_of(leaf_digest@)[k] } else { circuit.row@[k] }));
        }""")
    u.text(SPEC2)
    # ---------------------------------------------------------------- verify_batch_circuit_arity4 (the driver)
    d = u.extract(M, '', 'verify_batch_circuit_arity4', 'verify_batch_circuit_arity4')
    d.set_sig('R11', 'fn verify_batch_circuit_arity4<EF: FieldX>(circuit: &mut CircuitBuilder<EF>, permutation_config: PermConfig, commitment_cap: &[Vec<Target>], dimensions: &[Dimensions], index_bits: &[Target], opened_base_coeffs: &[Vec<Target>]) -> Result<Vec<NonPrimitiveOpId>, CircuitBuilderError>')
    d.rewrite_re('R11', r'let permutation_config: PermConfig = permutation_config\.into\(\);', '', min_count=0)
    d.rewrite_re('R11', r'::<F, EF>\(', '(', min_count=0)
    d.rewrite_re('R11', r'::<EF>\(', '(', min_count=0)
    d.erase_struct_error('CircuitBuilderError::WrongBatchSize', 'CircuitBuilderError::wrong_batch_size(0, 0)')
    d.rewrite_re('R6', r'(\w+(?:\s*\.\s*\w+)*)\s*\.iter\(\)\s*\.flat_map\(\|&mat_idx\| opened_base_coeffs\[mat_idx\]\.iter\(\)\.copied\(\)\)\s*\.collect\(\)', lambda m: f'gather_rows(&{"".join(m.group(1).split())}, opened_base_coeffs)', min_count=0)
    d.rewrite_re('R5', r'for step in &schedule \{', 'for si_ in 0..schedule.len() { let step = &schedule[si_];', min_count=0)
    d.rewrite_re('R7', r'let mut injected_digests = Vec::new\(\);', 'let mut injected_digests: Vec<Vec<Target>> = Vec::new();', min_count=0)
    d.rewrite_re('R6', r'injected_digests\.push\((add_arity4_leaf_digest_from_base\([^;]*?\)\?)\);', r'let dg_ = \1; injected_digests.push(dg_);', min_count=0, flags_dotall=True)
    d.rewrite_re('R11', r'\(&(\w+), opened_base_coeffs\)', r'(&\1, opened_base_coeffs)', min_count=0)
    d.attr('#[verifier::loop_isolation(false)]')
    d.requires('allocated', '''old(circuit).has_all(index_bits@) && (forall|k: int| 0 <= k < commitment_cap@.len() ==> old(circuit).has_all(#[trigger] commitment_cap@[k]@))
        && (forall|k: int| 0 <= k < opened_base_coeffs@.len() ==> old(circuit).has_all(#[trigger] opened_base_coeffs@[k]@))''')
    OV = 'vals2(old(circuit), opened_base_coeffs@)'
    SCH = 'sp_schedule(dimensions@, commitment_cap@.len() as int)'
    # open finding (round 17): the arity-4 route takes no salts: an opening of a hiding (salted) arity-4 commitment is hashed without them and every honest opening is rejected in-circuit
    d.ensures('H_the_arity4_route_hashes_the_salts_of_a_hiding_commitment', 'ret is Ok ==> arity4_route_covers_hiding_commitments()')
    d.ensures('a_batch_of_another_size_is_an_error', 'dimensions@.len() != opened_base_coeffs@.len() ==> ret is Err')
    d.ensures('injected_levels_hashed_in_level_order_then_the_leaf_layer_as_the_chain_seed_then_the_native_walk', f'''ret is Ok ==> ({{
            let c0 = old(circuit); let ov = {OV}; let sch = {SCH}; let n = sch.len() as int; let lr = sp_leaf_rows(dimensions@);
            final(circuit).a4@ == c0.a4@ + inj_sponges(sch, ov, permutation_config, n) + sponge_rows(permutation_config, flat_rows(ov, lr, lr.len() as int), true)
                + a4_rows(sch, c0.vals_of(index_bits@), inj_digests(sch, ov, permutation_config, n), permutation_config, n)
        }})''')
    d.ensures('recovered_root_is_the_selected_cap_entry', f'''ret is Ok ==> ({{
            let c0 = old(circuit); let ov = {OV}; let sch = {SCH}; let n = sch.len() as int; let lr = sp_leaf_rows(dimensions@); let cext = permutation_config.cext as int;
            let rootv = sp_selected_root(vals2(c0, commitment_cap@), c0.vals_of(index_bits@), dimensions@);
            let outv = if n == 0 {{ leaf_digest_val(permutation_config, flat_rows(ov, lr, lr.len() as int)) }} else {{ final(circuit).row@ }};
            final(circuit).sat@ == (c0.sat@ && forall|k: int| 0 <= k < imin(cext, rootv.len() as int) ==> outv[k] == #[trigger] rootv[k])
        }})''')
    SL = 'for si_ in 0..schedule.len()'
    if SL in d.body and 'let dg_ =' in d.body:
        d.before(SL, f'''let ghost c0 = *old(circuit); let ghost ov = vals2(&c0, opened_base_coeffs@); let ghost sch = schedule@; let ghost cp = *circuit;
        proof {{ assert(circuit.a4@ =~= c0.a4@ + inj_sponges(sch, ov, permutation_config, 0)); assert(vals2(circuit, injected_digests@) =~= inj_digests(sch, ov, permutation_config, 0)); }}''')
        d.loop(SL, invariants=[
            ('frame', 'circuit.extends(&c0) && circuit.extends(&cp) && circuit.sat@ == c0.sat@ && sch == schedule@'),
            ('injected_digests_so_far', '''injected_digests@.len() == injs(sch, si_ as int) && vals2(circuit, injected_digests@) == inj_digests(sch, ov, permutation_config, si_ as int)
                && (forall|k: int| 0 <= k < injected_digests@.len() ==> circuit.has_all(#[trigger] injected_digests@[k]@))
                && circuit.a4@ == c0.a4@ + inj_sponges(sch, ov, permutation_config, si_ as int)'''),
        ])
        lo = d._loop_open(SL)
        d.body = d.body[:lo + 1] + ' let ghost cb = *circuit; let ghost ids0 = injected_digests@; proof { lemma_opened_ext(&c0, circuit, opened_base_coeffs@); lemma_gather(circuit, opened_base_coeffs@, schedule@[si_ as int].injection_rows@, schedule@[si_ as int].injection_rows@.len() as int); assert(vals2(circuit, opened_base_coeffs@) =~= ov); }' + d.body[lo + 1:]
        d.rewrite_re('SPEC', r'(injected_digests\.push\(dg_\);)', r'''\1 proof {
                lemma_ext_trans(&c0, &cb, circuit);
                lemma_vals2_push(&cb, circuit, ids0, dg_);
                assert(cb.vals_of(injected_leaf_data@) == flat_rows(ov, sch[si_ as int].injection_rows@, sch[si_ as int].injection_rows@.len() as int));
            }''')
        d.at_loop_end(SL, '''proof {
            if !injects(sch[si_ as int]) { assert(circuit.a4@ == cb.a4@); }
            assert(circuit.a4@ =~= c0.a4@ + inj_sponges(sch, ov, permutation_config, si_ as int + 1));
        }''')
    if 'let leaf_data' in d.body:
        d.before('let leaf_data', 'let ghost ci = *circuit; proof { lemma_opened_ext(&c0, circuit, opened_base_coeffs@); lemma_inj_digests_len(sch, ov, permutation_config, sch.len() as int); lemma_gather(circuit, opened_base_coeffs@, leaf_rows@, leaf_rows@.len() as int); assert(vals2(circuit, opened_base_coeffs@) =~= ov); }')
    if re.search(r'arity4_emit_path\(', d.body):
        d.rewrite_re('SPEC', r'(arity4_emit_path\()', r'''{ let ghost cl = *circuit; proof {
            lemma_ext_trans(&c0, &ci, circuit);
            lemma_vals_ext(&c0, circuit, index_bits@);
            lemma_ext_trans(&cp, &ci, circuit); lemma_vals_ext(&cp, circuit, selected_root@);
            assert forall|k: int| 0 <= k < injected_digests@.len() implies circuit.has_all(#[trigger] injected_digests@[k]@) by { lemma_vals_ext(&ci, circuit, injected_digests@[k]@); }
            assert(vals2(circuit, injected_digests@) =~= vals2(&ci, injected_digests@)) by { assert forall|k: int| 0 <= k < injected_digests@.len() implies circuit.vals_of(#[trigger] injected_digests@[k]@) == ci.vals_of(injected_digests@[k]@) by { lemma_vals_ext(&ci, circuit, injected_digests@[k]@); } }
        } let r_ = \1''', min_count=0)
        # close the block opened above after the call's closing parenthesis
        m_ = re.search(r'let r_ = arity4_emit_path\(', d.body)
        c_ = match_brace(d.body, m_.end() - 1)
        d.body = d.body[:c_ + 1] + '''; proof {
            if r_ is Ok {
                let n = sch.len() as int; let lr = leaf_rows@; let cext = permutation_config.cext as int;
                let ld = flat_rows(ov, lr, lr.len() as int);
                assert(ci.vals_of(leaf_data@) == ld);
                assert(ci.a4@ == c0.a4@ + inj_sponges(sch, ov, permutation_config, n));
                assert(cl.a4@ == ci.a4@ + sponge_rows(permutation_config, ld, true));
                assert(vals2(&cl, injected_digests@) == inj_digests(sch, ov, permutation_config, n));
                assert(cl.vals_of(index_bits@) == c0.vals_of(index_bits@));
                assert(circuit.a4@ =~= c0.a4@ + inj_sponges(sch, ov, permutation_config, n) + sponge_rows(permutation_config, ld, true)
                    + a4_rows(sch, c0.vals_of(index_bits@), inj_digests(sch, ov, permutation_config, n), permutation_config, n));
                // the root
                let rootv = sp_selected_root(vals2(&c0, commitment_cap@), c0.vals_of(index_bits@), dimensions@);
                assert(cl.vals_of(selected_root@) == rootv);
                assert(rootv.len() == selected_root@.len());
                let outv = if n == 0 { cl.vals_of(leaf_digest@) } else { circuit.row@ };
                assert(cl.vals_of(leaf_digest@) == leaf_digest_val(permutation_config, ld));
                let cnt = imin(cext, selected_root@.len() as int);
                assert((forall|k: int| 0 <= k < cnt ==> outv[k] == cl.val(#[trigger] selected_root@[k])) == (forall|k: int| 0 <= k < cnt ==> outv[k] == #[trigger] rootv[k])) by {
                    if forall|k: int| 0 <= k < cnt ==> outv[k] == cl.val(#[trigger] selected_root@[k]) {
                        assert forall|k: int| 0 <= k < cnt implies outv[k] == #[trigger] rootv[k] by { assert(rootv[k] == cl.val(selected_root@[k])); }
                    }
                    if forall|k: int| 0 <= k < cnt ==> outv[k] == #[trigger] rootv[k] {
                        assert forall|k: int| 0 <= k < cnt implies outv[k] == cl.val(#[trigger] selected_root@[k]) by { assert(rootv[k] == cl.val(selected_root@[k])); }
                    }
                }
            }
        } r_ }''' + d.body[c_ + 1:]
    # ---------------------------------------------------------------- arity4_prepare[cap_selection] (R13 slice): which index bits select the cap entry
    pz = u.extract(M, '', 'arity4_prepare', 'arity4_prepare[cap_selection]')
    m1 = re.search(r'let num_roots = commitment_cap\.len\(\);', pz.body)
    if not m1:
        raise ExtractError('lost anchor in arity4_prepare[cap_selection]: `let num_roots = commitment_cap.len();`')
    pz.body = '{\n' + pz.body[m1.start():]
    pz.rewrites.append(('R13', 'function body := from `let num_roots = commitment_cap.len();` to the end', 'prefix: the arity-4 shape check of the configuration, the non-empty-cap assertion, the height-compatibility check and max_height (a parameter here)'))
    pz.set_sig('R11', 'fn arity4_prepare_cap<EF: FieldX>(circuit: &mut CircuitBuilder<EF>, commitment_cap: &[Vec<Target>], dimensions: &[Dimensions], index_bits: &[Target], max_height: usize) -> Result<(Vec<Target>, Vec<Arity4PathStep>, Vec<usize>), CircuitBuilderError>', sliced=True)
    pz.rewrite_re('R11', r'EF::ZERO', 'EF::zero_()', min_count=0)
    pz.rewrite_re('R6', r'let (\w+): usize = schedule\s*\.iter\(\)\s*\.map\(\|s\| ([^;]+?)\)\s*\.sum\(\);', r'let mut \1: usize = 0; for ps_ in 0..schedule.len() { let s = &schedule[ps_]; \1 = \1 + (\2); }', min_count=0, flags_dotall=True)
    unget_copied_unwrap_or(pz)
    pz.rewrite_re('R6', r'\(0\.\.cap_log2\)\s*\.map\(\|i\| ([^;]+?)\)\s*\.collect\(\)', r'{ let mut cb_: Vec<Target> = Vec::new(); for i in 0..cap_log2 { let x_ = \1; cb_.push(x_); } cb_ }', min_count=0, flags_dotall=True)
    pz.attr('#[verifier::loop_isolation(false)]')
    pz.requires('cap_and_bits', 'commitment_cap@.len() >= 1 && (commitment_cap@.len() == 1 || is_pow2i(commitment_cap@.len() as int)) && old(circuit).has_all(index_bits@) && index_bits@.len() < 0x1000_0000')
    pz.ensures('the_cap_entry_is_selected_by_the_index_bits_that_follow_the_bits_the_walk_consumes', '''ret matches Ok(t) ==> ({
            let c0 = old(circuit); let sch = t.1@; let n = sch.len() as int; let cl = cap_log_of(commitment_cap@.len() as int);
            cap_selected_with(final(circuit), commitment_cap@, Seq::new(cl as nat, |i: int| bit_at(c0.vals_of(index_bits@), consumed(sch, n) + i)), t.0@)
        })''')
    PL = 'for ps_ in 0..schedule.len()'
    if PL in pz.body:
        pz.loop(PL, invariants=[('bits_consumed_by_the_levels_so_far', 'path_bit_total == consumed(schedule@, ps_ as int) && schedule@.len() < 0x1000_0000 && path_bit_total <= 2 * ps_')])
    CL = 'for i in 0..cap_log2'
    if CL in pz.body and PL in pz.body:
        pz.before(CL, 'let ghost cz = *circuit;')
        pz.loop(CL, invariants=[('selector_bits_so_far', '''cb_@.len() == i && circuit.has_all(cb_@) && circuit.has(zero) && circuit.val(zero) == EF::fzero() && cz.extends(old(circuit)) && circuit.vals == cz.vals
            && forall|q: int| 0 <= q < i ==> circuit.val(#[trigger] cb_@[q]) == bit_at(old(circuit).vals_of(index_bits@), path_bit_total + q)''')])
        lo = pz._loop_open(CL)
        pz.body = pz.body[:lo + 1] + ' proof { if path_bit_total + i < index_bits@.len() { assert(old(circuit).has(index_bits@[path_bit_total + i as int])); } }' + pz.body[lo + 1:]
    pz.rewrite_re('SPEC', r'(let selected_root = select_cap_entry\()', r'''proof {
            let bv = circuit.vals_of(cap_index_bits@);
            assert(bv =~= Seq::new(cap_index_bits@.len(), |i: int| bit_at(old(circuit).vals_of(index_bits@), consumed(schedule@, schedule@.len() as int) + i)));
        }
        \1''', min_count=0)
    u.text(SPEC3)
    u.text(SPEC4)
    u.text('verus! {')
    u.emit(r)
    u.emit(e)
    u.emit(d)
    u.emit(pz)
    u.text('}')
    return u
