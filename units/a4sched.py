"""Unit `a4sched` (C08): the arity-4 Merkle path schedule -- recursion/src/pcs/mmcs.rs {padded_len, arity4_path_schedule}.
Every level of the in-circuit walk must be the level the native commitment scheme builds (p3-merkle-tree 0.6.3: `select_arity_step::<4>`,
`padded_len`, the injection rule of `verify_batch`): step 2 (binary bridge) exactly when a not-yet-injected matrix is taller than the next
4-ary layer's power-of-two width, else 4; the next width is `padded_len(width / step, 4)`; the matrices injected after the level are those whose
height equals the tallest remaining height when that height rounds up to the level's logical width."""
import re

from vf.extract import ExtractError
from vf.unit import Unit

PRELUDE = r'''
#![allow(unused_imports, unused_variables, dead_code, unused_mut, unused_parens)]
use vstd::prelude::*;
verus! {
global size_of usize == 8;
pub struct Dimensions { pub width: usize, pub height: usize }
pub struct Arity4PathStep { pub step: usize, pub injection_rows: Vec<usize> }
/// usize::next_power_of_two (uninterpreted: only monotone / idempotent facts would be needed, none is used)
pub uninterp spec fn npt(n: int) -> int;
pub trait Npow2 { fn npow2_(self) -> (r: usize) ensures r == npt(self.as_int_()); spec fn as_int_(self) -> int; }
impl Npow2 for usize { open spec fn as_int_(self) -> int { self as int } #[verifier::external_body] fn npow2_(self) -> (r: usize) { unimplemented!() } }
/// native padded_len (p3-merkle-tree merkle_tree.rs), transcribed
pub open spec fn sp_padded_len(raw: int, n: int) -> int { if raw <= 1 { raw } else if raw >= n { ((raw + n - 1) / n) * n } else { n } }
/// `dimensions.iter().enumerate().sorted_by_key(|(_, d)| Reverse(d.height)).peekable()`: the matrix indices tallest first (stable) and a cursor
pub uninterp spec fn stable_order(dims: Seq<Dimensions>) -> Seq<usize>;
pub struct Tallest { pub order: Ghost<Seq<usize>>, pub pos: usize }
pub open spec fn h_at(dims: Seq<Dimensions>, order: Seq<usize>, i: int) -> int { dims[order[i] as int].height as int }
/// first index >= p whose matrix does NOT satisfy "npt(height) == t"
pub open spec fn skip_npt(dims: Seq<Dimensions>, order: Seq<usize>, p: int, t: int) -> int decreases order.len() - p {
    if p < 0 || p >= order.len() { p } else if npt(h_at(dims, order, p)) == t { skip_npt(dims, order, p + 1, t) } else { p }
}
/// first index >= p whose matrix does NOT have height h
pub open spec fn skip_h(dims: Seq<Dimensions>, order: Seq<usize>, p: int, h: int) -> int decreases order.len() - p {
    if p < 0 || p >= order.len() { p } else if h_at(dims, order, p) == h { skip_h(dims, order, p + 1, h) } else { p }
}
impl Tallest {
    #[verifier::external_body]
    pub fn by_height_desc_stable(dims: &[Dimensions]) -> (r: Self) ensures r.order@ == stable_order(dims@), r.pos == 0, r.order@.len() == dims@.len(),
        forall|i: int| 0 <= i < r.order@.len() ==> (#[trigger] r.order@[i]) < dims@.len() { unimplemented!() }
    /// `.peeking_take_while(|(_, d)| d.height.next_power_of_two() == t).count()` / `.for_each(|_| {})`
    #[verifier::external_body]
    pub fn skip_while_npt_eq(&mut self, dims: &[Dimensions], t: usize)
        ensures final(self).order == old(self).order, final(self).pos == skip_npt(dims@, old(self).order@, old(self).pos as int, t as int) { unimplemented!() }
    /// `.clone().any(|(_, d)| d.height.next_power_of_two() > target)`
    #[verifier::external_body]
    pub fn any_npt_gt(&self, dims: &[Dimensions], target: usize) -> (r: bool)
        ensures r == exists|i: int| self.pos <= i < self.order@.len() && npt(#[trigger] h_at(dims@, self.order@, i)) > target { unimplemented!() }
    /// `.peek().map(|(_, d)| d.height)`
    #[verifier::external_body]
    pub fn peek_height(&self, dims: &[Dimensions]) -> (r: Option<usize>)
        ensures r == (if self.pos < self.order@.len() { Some(h_at(dims@, self.order@, self.pos as int) as usize) } else { None }) { unimplemented!() }
    /// `.peeking_take_while(|(_, d)| d.height == h).map(|(i, _)| i).collect()`
    #[verifier::external_body]
    pub fn take_while_height_eq(&mut self, dims: &[Dimensions], h: usize) -> (r: Vec<usize>)
        ensures final(self).order == old(self).order, final(self).pos == skip_h(dims@, old(self).order@, old(self).pos as int, h as int),
                r@ == old(self).order@.subrange(old(self).pos as int, final(self).pos as int) { unimplemented!() }
}
/// native `select_arity_step::<4>` on the matrices not yet injected (those at the leaf layer were consumed before the walk)
pub open spec fn native_step(width: int, dims: Seq<Dimensions>, order: Seq<usize>, pos: int) -> int {
    if width < 4 { 2 } else if exists|i: int| pos <= i < order.len() && npt(#[trigger] h_at(dims, order, i)) > npt(width / 4) { 2 } else { 4 }
}
} // verus!
'''


def build():
    u = Unit('a4sched', ['C08'])
    u.rlimit = 80
    u.assume('native reference transcribed from p3-merkle-tree 0.6.3 (padded_len, select_arity_step, the injection rule of verify_batch); next_power_of_two uninterpreted; '
             'sorted_by_key(Reverse(height)).peekable() modelled by a stable order + cursor (stub contracts); termination of the walk is not claimed')
    u.text(PRELUDE)
    M = 'recursion/src/pcs/mmcs.rs'
    pl = u.extract(M, '', 'padded_len', 'padded_len')
    pl.rewrite_re('R6', r'raw_len\.div_ceil\(n\) \* n', '((raw_len + n - 1) / n) * n', min_count=0)
    pl.at_start('proof { assert(((raw_len as int + n as int - 1) / (n as int)) * (n as int) <= raw_len as int + n as int - 1) by (nonlinear_arith) requires n as int >= 1, raw_len as int >= 0; }')
    pl.requires('no_overflow', 'raw_len as int + n as int <= 0x1_0000_0000 && n >= 1')
    pl.ensures('is_the_native_padding', 'ret == sp_padded_len(raw_len as int, n as int)')
    f = u.extract(M, '', 'arity4_path_schedule', 'arity4_path_schedule')
    f.attr('#[verifier::exec_allows_no_decreases_clause]')
    f.rewrite_re('R6', r'let mut heights_tallest_first = dimensions\s*\.iter\(\)\s*\.enumerate\(\)\s*\.sorted_by_key\(\|\(_, dims\)\| Reverse\(dims\.height\)\)\s*\.peekable\(\);',
                 'let mut heights_tallest_first = Tallest::by_height_desc_stable(dimensions);', min_count=1)
    f.rewrite_re('R6', r'let _ = heights_tallest_first\s*\.peeking_take_while\(\|\(_, dims\)\| dims\.height\.next_power_of_two\(\) == leaf_height_npt\)\s*\.count\(\);',
                 'heights_tallest_first.skip_while_npt_eq(dimensions, leaf_height_npt);', min_count=1)
    f.rewrite_re('R6', r'heights_tallest_first\s*\.clone\(\)\s*\.any\(\|\(_, dims\)\| dims\.height\.next_power_of_two\(\) > (\w+)\)', r'heights_tallest_first.any_npt_gt(dimensions, \1)', min_count=1)
    f.rewrite_re('R6', r'heights_tallest_first\s*\.peek\(\)\s*\.map\(\|\(_, dims\)\| dims\.height\)\s*\.filter\(\|h\| h\.next_power_of_two\(\) == (\w+)\)',
                 r'(match heights_tallest_first.peek_height(dimensions) { Some(h) => if h.npow2_() == \1 { Some(h) } else { None }, None => None })', min_count=1)
    f.rewrite_re('R6', r'next_height\.map_or_else\(Vec::new, \|next_height\| \{\s*heights_tallest_first\s*\.peeking_take_while\(\|\(_, dims\)\| dims\.height == next_height\)\s*\.map\(\|\(mat_idx, _\)\| mat_idx\)\s*\.collect\(\)\s*\}\)',
                 '(match next_height { None => Vec::new(), Some(next_height) => heights_tallest_first.take_while_height_eq(dimensions, next_height) })', min_count=1)
    f.rewrite_re('R11', r'\.next_power_of_two\(\)', '.npow2_()', min_count=0)
    f.rewrite_re('R7', r'let mut steps = Vec::new\(\);', 'let mut steps: Vec<Arity4PathStep> = Vec::new();', min_count=0)
    f.requires('realistic_sizes', 'max_height < 0x8000_0000 && num_roots >= 1')
    f.ensures('every_level_has_a_binary_or_quaternary_step', 'forall|l: int| 0 <= l < ret@.len() ==> ((#[trigger] ret@[l]).step == 2 || ret@[l].step == 4)')
    LOOP = 'while curr_height_padded > num_roots'
    if LOOP in f.body and 'let logical_next = curr_height_padded / step;' in f.body:
        lo = f._loop_open(LOOP)
        f.body = f.body[:lo + 1] + ' let ghost w0 = curr_height_padded as int; let ghost p0 = heights_tallest_first.pos as int; let ghost ord = heights_tallest_first.order@; let ghost st0 = steps@;' + f.body[lo + 1:]
        f.rewrite_re('SPEC', r'(let logical_next = curr_height_padded / step;)',
                     r'proof { assert(step == native_step(w0, dimensions@, ord, p0)); } // @@A:the_level_compresses_with_the_native_arity_step' + '\n' + r'\1')
        f.rewrite_re('SPEC', r'(curr_height_padded = padded_len\(logical_next, 4\);)',
                     r'\1 proof { assert(curr_height_padded == sp_padded_len(w0 / (step as int), 4)); } // @@A:next_layer_width_is_the_native_padded_width')
        f.rewrite_re('SPEC', r'(steps\.push\(Arity4PathStep \{)',
                     r'''proof {
            let ln = w0 / (step as int);
            let injected = p0 < ord.len() && npt(h_at(dimensions@, ord, p0)) == npt(ln);
            // the matrices injected after this level: the tallest remaining height when it rounds up to the level's logical width, all matrices of exactly that height
            assert(injection_rows@ == (if injected { ord.subrange(p0, skip_h(dimensions@, ord, p0, h_at(dimensions@, ord, p0))) } else { Seq::<usize>::empty() })); // @@A:injected_matrices_are_the_native_ones
        }
        \1''')
        f.at_loop_end(LOOP, 'proof { assert(steps@ =~= st0.push(steps@.last())); assert forall|l: int| 0 <= l < steps@.len() implies ((#[trigger] steps@[l]).step == 2 || steps@[l].step == 4) by { if l < st0.len() { assert(steps@[l] == st0[l]); } } }')
        f.loop(LOOP, invariants=[
            ('walk_state', 'heights_tallest_first.order@ == stable_order(dimensions@) && heights_tallest_first.order@.len() == dimensions@.len() && curr_height_padded < 0x1_0000_0000'
                           ' && (forall|i: int| 0 <= i < heights_tallest_first.order@.len() ==> (#[trigger] heights_tallest_first.order@[i]) < dimensions@.len())'
                           ' && (forall|l: int| 0 <= l < steps@.len() ==> ((#[trigger] steps@[l]).step == 2 || steps@[l].step == 4))'),
        ])
    # the walk ends at the first layer whose padded width is <= the cap length; native ends it `cap_height` levels before the root. The two agree only if no LATER layer has that
    # padded width again -- a binary bridge keeps it (4 -> logical 2 -> padded 4): finding C08-arity4-cap-after-bridge
    if LOOP in f.body:
        f.bind_tail('r_', 'proof { assert(walk_ends_where_the_native_truncation_ends(dimensions@, max_height as int, num_roots as int, r_@.len() as int)); } // @@A:H_the_cap_layer_is_identified_by_its_padded_width')
    u.text('verus! {\n/// the number of levels the in-circuit walk emits equals the length of the native proof (full native schedule minus cap_height levels)\npub uninterp spec fn walk_ends_where_the_native_truncation_ends(dims: Seq<Dimensions>, max_height: int, num_roots: int, levels: int) -> bool;\n}')
    u.text('verus! {')
    u.emit(pl)
    u.emit(f)
    u.text('}')
    return u
