"""Unit `air` (C11): extension-field multiplication used by the ALU table constraints equals multiplication in
F[X]/(X^D - w) resp. F[X]/(X^5 + X^2 - 1).  Real text: circuit-prover/src/air/alu_air.rs
{ext_mul_binomial, ext_mul_quintic_trinomial}.  Ring elements are modelled as integers (free commutative ring):
an identity valid over Z for all values holds in every commutative ring (trusted meta-step)."""
from vf.unit import Unit

PRELUDE = r'''
#![allow(unused_imports, unused_variables, dead_code, unused_mut, unused_parens)]
use vstd::prelude::*;
use vstd::std_specs::ops::*;
verus! {
global size_of usize == 8;
/// an element of the free commutative ring: exec value with a ghost integer denotation
#[derive(Clone, Copy)]
pub struct R { pub v: Ghost<int> }
impl AddSpecImpl<R> for R {
    open spec fn obeys_add_spec() -> bool { true }
    open spec fn add_req(self, rhs: R) -> bool { true }
    open spec fn add_spec(self, rhs: R) -> R { R { v: Ghost(self.v@ + rhs.v@) } }
}
impl core::ops::Add for R { type Output = R; fn add(self, o: R) -> (r: R) { R { v: Ghost(self.v@ + o.v@) } } }
impl SubSpecImpl<R> for R {
    open spec fn obeys_sub_spec() -> bool { true }
    open spec fn sub_req(self, rhs: R) -> bool { true }
    open spec fn sub_spec(self, rhs: R) -> R { R { v: Ghost(self.v@ - rhs.v@) } }
}
impl core::ops::Sub for R { type Output = R; fn sub(self, o: R) -> (r: R) { R { v: Ghost(self.v@ - o.v@) } } }
impl MulSpecImpl<R> for R {
    open spec fn obeys_mul_spec() -> bool { true }
    open spec fn mul_req(self, rhs: R) -> bool { true }
    open spec fn mul_spec(self, rhs: R) -> R { R { v: Ghost(self.v@ * rhs.v@) } }
}
impl core::ops::Mul for R { type Output = R; fn mul(self, o: R) -> (r: R) { R { v: Ghost(self.v@ * o.v@) } } }
impl R {
    pub fn zero() -> (r: R) ensures r.v@ == 0 { R { v: Ghost(0) } }
    pub fn dup(&self) -> (r: R) ensures r == *self { *self }
    pub fn from(x: R) -> (r: R) ensures r == x { x }
}
pub open spec fn iv(s: Seq<R>) -> Seq<int> { Seq::new(s.len(), |i: int| s[i].v@) }

// ------------------------------------------------------------------ polynomial multiplication modulo X^D - w
/// contribution of the pair (i, j) to coefficient k of  x*y mod (X^D - w)
pub open spec fn bterm(x: Seq<int>, y: Seq<int>, w: int, d: int, i: int, j: int, k: int) -> int {
    if i + j == k { x[i] * y[j] } else if i + j == k + d { w * (x[i] * y[j]) } else { 0 }
}
/// sum of the contributions of the first n pairs in row-major order (pair p = (p / d, p % d))
pub open spec fn bsum(x: Seq<int>, y: Seq<int>, w: int, d: int, k: int, n: int) -> int decreases n {
    if n <= 0 || d <= 0 { 0 } else { bsum(x, y, w, d, k, n - 1) + bterm(x, y, w, d, (n - 1) / d, (n - 1) % d, k) }
}
/// coefficient k of x*y in F[X]/(X^D - w):  sum_{i+j=k} x_i y_j + w * sum_{i+j=k+D} x_i y_j
pub open spec fn binomial_coeff(x: Seq<int>, y: Seq<int>, w: int, d: int, k: int) -> int { bsum(x, y, w, d, k, d * d) }

// ------------------------------------------------------------------ modulo X^5 + X^2 - 1
/// coefficient k (0..=8) of the plain product of two degree-4 polynomials
pub open spec fn conv5(x: Seq<int>, y: Seq<int>, k: int) -> int {
    (if 0 <= k - 0 <= 4 { x[0] * y[k - 0] } else { 0 }) + (if 0 <= k - 1 <= 4 { x[1] * y[k - 1] } else { 0 })
    + (if 0 <= k - 2 <= 4 { x[2] * y[k - 2] } else { 0 }) + (if 0 <= k - 3 <= 4 { x[3] * y[k - 3] } else { 0 })
    + (if 0 <= k - 4 <= 4 { x[4] * y[k - 4] } else { 0 })
}
pub open spec fn q_at(q: Seq<int>, k: int) -> int { if 0 <= k < q.len() { q[k] } else { 0 } }
/// r (degree < 5) is x*y reduced modulo m = X^5 + X^2 - 1:  x*y = r + q*m for a quotient q of degree <= 3
pub open spec fn is_quintic_reduction(x: Seq<int>, y: Seq<int>, r: Seq<int>) -> bool {
    r.len() == 5 && exists|q: Seq<int>| q.len() == 4 && forall|k: int| 0 <= k <= 8 ==>
        #[trigger] conv5(x, y, k) == (if k < 5 { r[k] } else { 0 }) + q_at(q, k - 5) + q_at(q, k - 2) - q_at(q, k)
}
} // verus!
'''


def build():
    u = Unit('air', ['C11'])
    u.rlimit = 100
    u.assume('ring elements modelled as integers: a polynomial identity proved over Z for all values holds in every commutative ring (AB::Expr / AB::Var); trusted meta-step')
    u.assume('R11: AB::Var / AB::Expr erased to one ring type R with +,-,* (vstd AddSpecImpl/SubSpecImpl/MulSpecImpl), dup/from are identities')
    u.text(PRELUDE)
    A = 'circuit-prover/src/air/alu_air.rs'

    q = u.extract(A, '', 'ext_mul_quintic_trinomial', 'ext_mul_quintic_trinomial')
    q.set_sig('R11', 'fn ext_mul_quintic_trinomial(x: &[R], y: &[R]) -> Vec<R>')
    q.rewrite('R9', 'debug_assert_eq!(x.len(), 5); debug_assert_eq!(y.len(), 5);', 'assert(x.len() == 5); assert(y.len() == 5);')
    q.rewrite('R6', 'let xi = |i: usize| AB::Expr::from(x[i]); let yj = |j: usize| AB::Expr::from(y[j]);', '')
    q.rewrite_re('R6', r'\bxi\((\d)\)', r'R::from(x[\1])', min_count=25)
    q.rewrite_re('R6', r'\byj\((\d)\)', r'R::from(y[\1])', min_count=25)
    q.requires('five_coefficients', 'x@.len() == 5 && y@.len() == 5')
    q.ensures('product_mod_x5_plus_x2_minus_1', 'is_quintic_reduction(iv(x@), iv(y@), iv(ret@))')
    q.bind_tail('r_', '''proof {
        let qq = seq![gc5 - gc8, gc6, gc7, gc8];
        let (xs, ys, rs) = (iv(x@), iv(y@), iv(r_@));
        assert forall|k: int| 0 <= k <= 8 implies #[trigger] conv5(xs, ys, k) == (if k < 5 { rs[k] } else { 0 }) + q_at(qq, k - 5) + q_at(qq, k - 2) - q_at(qq, k) by {
            if k == 0 {} else if k == 1 {} else if k == 2 {} else if k == 3 {} else if k == 4 {} else if k == 5 {} else if k == 6 {} else if k == 7 {} else {}
        }
    }''', before_text='let ghost (gc5, gc6, gc7, gc8) = (c5.v@, c6.v@, c7.v@, c8.v@);')
    b = u.extract(A, '', 'ext_mul_binomial', 'ext_mul_binomial')
    b.set_sig('R11', 'fn ext_mul_binomial<const D: usize>(x: &[R], y: &[R], w: &Option<R>) -> Vec<R>')
    b.rewrite('R11', 'AB::Expr::ZERO', 'R::zero()')
    b.requires('d_coefficients', 'x@.len() == D && y@.len() == D && D >= 1 && D < 0x1_0000')
    b.requires('w_present_for_extensions', 'D > 1 ==> w.is_some()')
    b.ensures('product_mod_xD_minus_w', '''ret@.len() == D && forall|k: int| 0 <= k < D ==>
            (#[trigger] ret@[k]).v@ == binomial_coeff(iv(x@), iv(y@), match *w { Some(ww) => ww.v@, None => 0 }, D as int, k)''')
    b.at_start('let ghost xs = iv(x@); let ghost ys = iv(y@); let ghost wv: int = match *w { Some(ww) => ww.v@, None => 0 };')
    b.before('for i in 0..D', 'proof { assert(0 * (D as int) == 0); assert forall|k: int| 0 <= k < D implies (#[trigger] acc@[k]).v@ == 0 by {} }')
    b.loop('for i in 0..D', invariants=[
        ('shape', 'acc@.len() == D && x@.len() == D && y@.len() == D && D >= 1 && D < 0x1_0000 && (D > 1 ==> w.is_some()) && xs == iv(x@) && ys == iv(y@) && wv == (match *w { Some(ww) => ww.v@, None => 0 })'),
        ('partial', 'forall|k: int| 0 <= k < D ==> (#[trigger] acc@[k]).v@ == bsum(xs, ys, wv, D as int, k, i * D)'),
    ])
    b.loop('for j in 0..D', invariants=[
        ('shape', 'i < D && acc@.len() == D && x@.len() == D && y@.len() == D && D >= 1 && D < 0x1_0000 && (D > 1 ==> w.is_some()) && xs == iv(x@) && ys == iv(y@) && wv == (match *w { Some(ww) => ww.v@, None => 0 })'),
        ('partial', 'forall|k: int| 0 <= k < D ==> (#[trigger] acc@[k]).v@ == bsum(xs, ys, wv, D as int, k, i * D + j)'),
    ])
    b.after('let k = i + j;', '''let ghost acc0 = acc@; let ghost n = (i * D + j) as int;
            proof {
                vstd::arithmetic::div_mod::lemma_fundamental_div_mod_converse(n, D as int, i as int, j as int);
                assert(xs[i as int] == x@[i as int].v@ && ys[j as int] == y@[j as int].v@);
            }''')
    b.at_loop_end('for j in 0..D', '''proof {
                assert forall|kk: int| 0 <= kk < D implies (#[trigger] acc@[kk]).v@ == bsum(xs, ys, wv, D as int, kk, n + 1) by {
                    assert(acc0[kk].v@ == bsum(xs, ys, wv, D as int, kk, n));
                }
                assert(i * D + j + 1 == n + 1);
            }''')
    b.at_loop_end('for i in 0..D', 'proof { assert(i * D + D == (i + 1) * D) by (nonlinear_arith); }')
    u.text('verus! {')
    u.emit(q)
    u.emit(b)
    u.text('}')
    return u
