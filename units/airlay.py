"""Unit `airlay` (C13, C20): the AirLayout that the blanket `RecursiveAir` impl hands to the symbolic evaluation of an AIR
(recursion/src/traits/air.rs: declares_interactions, get_log_num_quotient_chunks, eval_folded_circuit[layout prefix]).
`Air::eval` on a symbolic builder reads the columns the AIR declares (main, preprocessed, public values, periodic columns), so the
layout must declare at least those: every field the AIR determines is set from the AIR (otherwise eval indexes past the builder's
columns -- the panic of finding F14)."""
import re

from vf.extract import ExtractError
from vf.unit import Unit, project_on

PRELUDE = r'''
#![allow(unused_imports, unused_variables, dead_code, unused_mut, unused_parens)]
use vstd::prelude::*;
verus! {
global size_of usize == 8;
/// p3_air::symbolic::AirLayout
#[derive(Clone, Copy)]
pub struct AirLayout { pub preprocessed_width: usize, pub main_width: usize, pub num_public_values: usize, pub permutation_width: usize,
                       pub num_permutation_challenges: usize, pub num_permutation_values: usize, pub num_periodic_columns: usize }
impl AirLayout {
    #[verifier::external_body]
    pub fn default() -> (r: Self) ensures r.preprocessed_width == 0, r.main_width == 0, r.num_public_values == 0, r.permutation_width == 0,
        r.num_permutation_challenges == 0, r.num_permutation_values == 0, r.num_periodic_columns == 0 { unimplemented!() }
}
pub struct Lookups { pub empty: bool }
impl Lookups { pub fn is_empty(&self) -> (r: bool) ensures r == self.empty { self.empty } }
pub struct Gadget { pub _p: () }
pub struct SymBuilder { pub layout: AirLayout, pub has_interactions: bool }
pub struct Interactions { pub empty: bool }
impl Interactions { pub fn is_empty(&self) -> (r: bool) ensures r == self.empty { self.empty } }
impl SymBuilder {
    pub fn new(layout: AirLayout) -> (r: Self) ensures r.layout == layout { SymBuilder { layout, has_interactions: false } }
    #[verifier::external_body] pub fn global_interactions(&self) -> (r: Interactions) { unimplemented!() }
    #[verifier::external_body] pub fn local_interactions(&self) -> (r: Interactions) { unimplemented!() }
}
/// the AIR as the blanket impl sees it
pub struct AirStub { pub width: usize, pub num_public_values: usize, pub num_periodic_columns: usize }
/// the layout exposes the columns the AIR declares: what `Air::eval` indexes
pub open spec fn layout_covers(a: &AirStub, l: AirLayout, preprocessed_width: usize) -> bool {
    l.main_width == a.width && l.num_public_values == a.num_public_values && l.num_periodic_columns == a.num_periodic_columns && l.preprocessed_width == preprocessed_width
}
impl AirStub {
    pub fn width(&self) -> (r: usize) ensures r == self.width { self.width }
    pub fn num_public_values(&self) -> (r: usize) ensures r == self.num_public_values { self.num_public_values }
    pub fn num_periodic_columns(&self) -> (r: usize) ensures r == self.num_periodic_columns { self.num_periodic_columns }
    /// PRECONDITION of the dependency (`Air::eval` on a symbolic builder): the builder exposes the columns the AIR declares
    #[verifier::external_body]
    pub fn eval(&self, b: &mut SymBuilder) requires layout_covers(self, old(b).layout, old(b).layout.preprocessed_width) ensures final(b).layout == old(b).layout { unimplemented!() }
}
/// p3_batch_stark::symbolic::{get_symbolic_constraints, get_constraint_layout, get_log_num_quotient_chunks}: evaluate the AIR on a builder with `layout` (+ the permutation fields)
pub struct Streams { pub _p: () }
#[verifier::external_body] pub fn get_symbolic_constraints(a: &AirStub, layout: AirLayout, contexts: &Lookups, g: &Gadget) -> (r: (Streams, Streams)) requires layout_covers(a, layout, layout.preprocessed_width) { unimplemented!() }
#[verifier::external_body] pub fn get_constraint_layout(a: &AirStub, layout: AirLayout, contexts: &Lookups, g: &Gadget) -> (r: Streams) requires layout_covers(a, layout, layout.preprocessed_width) { unimplemented!() }
#[verifier::external_body] pub fn get_log_num_quotient_chunks(a: &AirStub, layout: AirLayout, contexts: &Lookups, is_zk: usize, g: &Gadget) -> (r: usize) requires layout_covers(a, layout, layout.preprocessed_width) { unimplemented!() }
} // verus!
'''


def common(f):
    f.rewrite_re('R11', r'p3_air::BaseAir::<F>::num_periodic_columns\(self\)', 'self.num_periodic_columns()', min_count=0)
    f.rewrite_re('R11', r'InteractionSymbolicBuilder::<F, EF>::new\(', 'SymBuilder::new(', min_count=0)
    f.rewrite_re('R11', r'\.\.Default::default\(\)', '..AirLayout::default()', min_count=0)
    f.rewrite_re('R11', r'get_constraint_layout::<F, EF, _, LG>\(', 'get_constraint_layout(', min_count=0)
    return f


def build():
    u = Unit('airlay', ['C13', 'C20'])
    u.rlimit = 30
    u.assume('`Air::eval` / the p3_batch_stark symbolic helpers require a layout that declares the columns the AIR declares (dependency precondition); the AIR is seen through width / num_public_values / num_periodic_columns')
    u.text(PRELUDE)
    A = 'recursion/src/traits/air.rs'
    IMPL = r'RecursiveAir<F, EF, LG> for A'
    di = common(u.extract(A, IMPL, 'declares_interactions', 'RecursiveAir::declares_interactions'))
    di.set_sig('R11', 'fn declares_interactions(&self, preprocessed_width: usize) -> bool')
    gq = common(u.extract(A, IMPL, 'get_log_num_quotient_chunks', 'RecursiveAir::get_log_num_quotient_chunks'))
    gq.set_sig('R11', 'fn get_log_num_quotient_chunks(&self, preprocessed_width: usize, contexts: &Lookups, is_zk: usize, lookup_gadget: &Gadget) -> usize')
    ef = common(u.extract(A, IMPL, 'eval_folded_circuit', 'RecursiveAir::eval_folded_circuit[layout prefix]'))
    project_on(ef, r'let ', {'layout', 'num_permutation_values', 'num_preprocessed', 'contexts'}, 'everything after the symbolic evaluation (the fold: unit sym)')
    ef.rewrite_re('R13', r'let LookupMetadata \{ contexts \} = lookup_metadata;', '', min_count=0)
    ef.rewrite_re('R11', r'let num_preprocessed = columns\.local_prep_values\.len\(\);', '', min_count=0)
    ef.rewrite_re('R9', r'debug_assert_eq!\([^;]*\);', '', min_count=0)
    ef.rewrite_re('R11', r'usize::from\(!contexts\.is_empty\(\)\)', '(if !contexts.is_empty() { 1usize } else { 0usize })', min_count=0)
    ef.body = re.sub(r'\n\s*acc\s*\}\s*$', '\n}', ef.body.rstrip())   # the tail expression (the folded target) belongs to the dropped part
    ef.set_sig('R11', 'fn eval_folded_circuit_layout(&self, num_preprocessed: usize, contexts: &Lookups, lookup_gadget: &Gadget)', sliced=True)
    u.text('verus! {\nimpl AirStub {')
    for f in (di, gq, ef):
        u.emit(f)
    u.text('}\n}')
    return u
