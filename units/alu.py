"""Unit `alu` (C11): the constraint set emitted by AluAir::eval for one two-row window is EXACTLY the selector-gated
runner relations (execute_alu_op: Add a+b, Mul a*b, BoolCheck, MulAdd a*b+c, HornerAcc acc*b + c - a), including the
packed-Horner forms (pairs of steps folded through b^2, odd tail step, single-step fallback).

Real text: circuit-prover/src/air/alu_air.rs  `<AluAir as Air>::eval`  from `for lane in 0..self.lanes` to the end
(R13 slice: the prefix binds the row windows, lane_width and the ext_mul_lane closure, which are parameters / a stub
here), plus alu_columns.rs {num_horner_intermediates, extra_prep_sel_k_idx, horner_extra_prep_width}.
The column views (AluMainLaneCols / AluPrepLaneCols `.borrow()`) are GENERATED from the real struct definitions
(repr(C): field order = column order).  Ring elements are integers (free commutative ring, as in unit `air`); the
extension product is an uninterpreted function emul whose coefficient formulas are the subject of unit `air`."""
import os
import re

from vf.extract import extract_item, match_brace
from vf.unit import Unit, _find_all
from units.air import PRELUDE as AIR_PRELUDE

SPEC = r'''
verus! {
impl R { pub fn one() -> (r: R) ensures r.v@ == 1 { R { v: Ghost(1) } } }

/// the constraint builder: `ok` is the conjunction "every polynomial asserted so far evaluates to zero"
pub struct AB { pub ok: Ghost<bool> }
impl AB {
    #[verifier::external_body]
    pub fn assert_zero(&mut self, e: R) ensures final(self).ok@ == (old(self).ok@ && e.v@ == 0) {}
}
pub struct AluAir<const D: usize> { pub lanes: usize, pub horner_packed_steps: usize }

/// product in the extension ring on coefficient vectors (formulas: unit `air`)
pub uninterp spec fn emul(x: Seq<int>, y: Seq<int>) -> Seq<int>;
/// the runner's Horner step  out = acc*b + c - a   (coefficient i)
pub open spec fn estep(acc: Seq<int>, a: Seq<int>, c: Seq<int>, b: Seq<int>, i: int) -> int { emul(acc, b)[i] + c[i] - a[i] }
/// two runner steps folded through bsq (= b*b, constrained separately):  (acc*b + c0 - a0)*b + c1 - a1
pub open spec fn estep2(acc: Seq<int>, bsq: Seq<int>, a0: Seq<int>, c0: Seq<int>, a1: Seq<int>, c1: Seq<int>, b: Seq<int>, i: int) -> int {
    emul(acc, bsq)[i] + emul(c0, b)[i] - emul(a0, b)[i] + c1[i] - a1[i]
}
pub open spec fn sub(s: Seq<int>, off: int, d: int) -> Seq<int> { s.subrange(off, off + d) }

pub struct Row { pub l: Seq<int>, pub n: Seq<int>, pub pl: Seq<int>, pub pn: Seq<int>, pub d: int, pub lanes: int, pub k: int }
impl Row {
    pub open spec fn lw(self) -> int { NMAIN * self.d }
    pub open spec fn a(self, l: int) -> Seq<int> { sub(self.l, l * self.lw() + M_A * self.d, self.d) }
    pub open spec fn b(self, l: int) -> Seq<int> { sub(self.l, l * self.lw() + M_B * self.d, self.d) }
    pub open spec fn c(self, l: int) -> Seq<int> { sub(self.l, l * self.lw() + M_C * self.d, self.d) }
    pub open spec fn out(self, l: int) -> Seq<int> { sub(self.l, l * self.lw() + M_OUT * self.d, self.d) }
    pub open spec fn na(self, l: int) -> Seq<int> { sub(self.n, l * self.lw() + M_A * self.d, self.d) }
    pub open spec fn nb(self, l: int) -> Seq<int> { sub(self.n, l * self.lw() + M_B * self.d, self.d) }
    pub open spec fn nc(self, l: int) -> Seq<int> { sub(self.n, l * self.lw() + M_C * self.d, self.d) }
    pub open spec fn nout(self, l: int) -> Seq<int> { sub(self.n, l * self.lw() + M_OUT * self.d, self.d) }
    pub open spec fn pf(self, l: int, f: int) -> int { self.pl[l * NPREP + f] }
    pub open spec fn nf(self, l: int, f: int) -> int { self.pn[l * NPREP + f] }
    /// residual selector: active - every other selector, active = -mult_a
    pub open spec fn sel_mul(self, l: int) -> int {
        (0 - self.pf(l, P_MULT_A)) - self.pf(l, P_SEL_BOOL) - self.pf(l, P_SEL_MULADD) - self.pf(l, P_SEL_HORNER) - self.pf(l, P_SEL_ADD)
    }
    pub open spec fn em(self) -> int { self.lanes * self.lw() }
    pub open spec fn ep(self) -> int { self.lanes * NPREP }
    pub open spec fn selk(self, s: Seq<int>, kk: int) -> int { s[self.ep() + kk - 2] }
    /// sum of the arity selectors sel_lo .. sel_{n-1}
    pub open spec fn sum_sel(self, s: Seq<int>, lo: int, n: int) -> int decreases n - lo {
        if n <= lo { 0 } else { self.sum_sel(s, lo, n - 1) + self.selk(s, n - 1) }
    }
    pub open spec fn nint(self) -> int { (self.k - 1) / 2 }
    pub open spec fn acb(self) -> int { self.em() + self.nint() * self.d }
    pub open spec fn bsqb(self) -> int { self.acb() + 2 * (self.k - 1) * self.d }
    pub open spec fn xw(self) -> int { (self.nint() + 2 * (self.k - 1) + 1) * self.d }
    pub open spec fn xpw(self) -> int { (self.k - 1) + NSTEP * (self.k - 1) }
    pub open spec fn has_extra(self) -> bool {
        self.em() + self.xw() <= self.l.len() && self.ep() + self.xpw() <= self.pl.len() && self.ep() + self.xpw() <= self.pn.len()
    }
    pub open spec fn bsq(self) -> Seq<int> { sub(self.l, self.bsqb(), self.d) }
    pub open spec fn bsqn(self) -> Seq<int> { sub(self.n, self.bsqb(), self.d) }
    pub open spec fn iv_(self, t: int) -> Seq<int> { sub(self.l, self.em() + t * self.d, self.d) }
    pub open spec fn av(self, s: int) -> Seq<int> { sub(self.l, self.acb() + 2 * (s - 1) * self.d, self.d) }
    pub open spec fn cv(self, s: int) -> Seq<int> { sub(self.l, self.acb() + 2 * (s - 1) * self.d + self.d, self.d) }
    pub open spec fn a1n(self) -> Seq<int> { sub(self.n, self.acb(), self.d) }
    pub open spec fn c1n(self) -> Seq<int> { sub(self.n, self.acb() + self.d, self.d) }
    pub open spec fn int0n(self) -> Seq<int> { sub(self.n, self.em(), self.d) }

    // ------------------------------------------------ the polynomials the table must assert (selector x runner residual)
    pub open spec fn p_add(self, l: int, i: int) -> int { rmul(self.pf(l, P_SEL_ADD), self.a(l)[i] + self.b(l)[i] - self.out(l)[i]) }
    pub open spec fn p_mul(self, l: int, i: int) -> int { rmul(self.sel_mul(l), emul(self.a(l), self.b(l))[i] - self.out(l)[i]) }
    pub open spec fn p_bool0(self, l: int) -> int { rmul(rmul(self.pf(l, P_SEL_BOOL), self.a(l)[0]), self.a(l)[0] - 1) }
    pub open spec fn p_booli(self, l: int, i: int) -> int { rmul(self.pf(l, P_SEL_BOOL), self.a(l)[i]) }
    /// runner BoolCheck: `out := a` (the checked value is what the row puts on the bus through `out`)
    pub open spec fn p_boolout(self, l: int, i: int) -> int { rmul(self.pf(l, P_SEL_BOOL), self.a(l)[i] - self.out(l)[i]) }
    pub open spec fn p_muladd(self, l: int, i: int) -> int { rmul(self.pf(l, P_SEL_MULADD), emul(self.a(l), self.b(l))[i] + self.c(l)[i] - self.out(l)[i]) }
    /// one runner Horner step from this row's out to the next row's out
    pub open spec fn p_single(self, l: int, i: int) -> int {
        rmul(self.nf(l, P_SEL_HORNER), estep(self.out(l), self.na(l), self.nc(l), self.nb(l), i) - self.nout(l)[i])
    }
    pub open spec fn p_bsq(self, i: int) -> int { rmul(self.sum_sel(self.pl, 2, self.k + 1), self.bsq()[i] - emul(self.b(0), self.b(0))[i]) }
    pub open spec fn poly2(self, i: int) -> int { estep2(self.out(0), self.bsqn(), self.na(0), self.nc(0), self.a1n(), self.c1n(), self.nb(0), i) }
    pub open spec fn p_k2(self, i: int) -> int { rmul(self.selk(self.pn, 2), self.poly2(i) - self.nout(0)[i]) }
    pub open spec fn p_ge3(self, i: int) -> int { rmul(self.sum_sel(self.pn, 3, self.k + 1), self.poly2(i) - self.int0n()[i]) }
    pub open spec fn p_fallback(self, i: int) -> int {
        rmul(self.nf(0, P_SEL_HORNER) - self.sum_sel(self.pn, 2, self.k + 1), estep(self.out(0), self.na(0), self.nc(0), self.nb(0), i) - self.nout(0)[i])
    }
    /// pair of steps s = 2+2t, s+1 of an arity-kk row, from intermediate t into `target`
    pub open spec fn p_pair(self, kk: int, t: int, target: Seq<int>, i: int) -> int {
        let s = 2 + 2 * t;
        rmul(self.selk(self.pl, kk), estep2(self.iv_(t), self.bsq(), self.av(s), self.cv(s), self.av(s + 1), self.cv(s + 1), self.b(0), i) - target[i])
    }
    /// odd tail step s = 2+2t of an arity-kk row: one runner step from intermediate t into out
    pub open spec fn p_tail(self, kk: int, t: int, i: int) -> int {
        let s = 2 + 2 * t;
        rmul(self.selk(self.pl, kk), estep(self.iv_(t), self.av(s), self.cv(s), self.b(0), i) - self.out(0)[i])
    }
    pub open spec fn pair_ok(self, kk: int, t: int, target: Seq<int>) -> bool { forall|i: int| 0 <= i < self.d ==> #[trigger] self.p_pair(kk, t, target, i) == 0 }
    pub open spec fn tail_ok(self, kk: int, t: int) -> bool { forall|i: int| 0 <= i < self.d ==> #[trigger] self.p_tail(kk, t, i) == 0 }
    pub open spec fn leg_ok(self, kk: int, t: int) -> bool {
        let s = 2 + 2 * t;
        if s >= kk { true }
        else if s + 1 < kk { if s + 2 >= kk { self.pair_ok(kk, t, self.out(0)) } else { self.pair_ok(kk, t, self.iv_(t + 1)) } }
        else { self.tail_ok(kk, t) }
    }
    pub open spec fn legs_ok(self, kk: int) -> bool { forall|t: int| 0 <= t < kk ==> #[trigger] self.leg_ok(kk, t) }
    pub open spec fn packed_ok(self) -> bool {
        &&& forall|i: int| 0 <= i < self.d ==> #[trigger] self.p_bsq(i) == 0
        &&& forall|i: int| 0 <= i < self.d ==> #[trigger] self.p_k2(i) == 0
        &&& forall|i: int| 0 <= i < self.d ==> #[trigger] self.p_ge3(i) == 0
        &&& forall|i: int| 0 <= i < self.d ==> #[trigger] self.p_fallback(i) == 0
        &&& forall|kk: int| 3 <= kk <= self.k ==> #[trigger] self.legs_ok(kk)
    }
    pub open spec fn single_ok(self, l: int) -> bool { forall|i: int| 0 <= i < self.d ==> #[trigger] self.p_single(l, i) == 0 }
    pub open spec fn lane_ok(self, l: int) -> bool {
        &&& forall|i: int| 0 <= i < self.d ==> #[trigger] self.p_add(l, i) == 0
        &&& forall|i: int| 0 <= i < self.d ==> #[trigger] self.p_mul(l, i) == 0
        &&& self.p_bool0(l) == 0
        &&& forall|i: int| 1 <= i < self.d ==> #[trigger] self.p_booli(l, i) == 0
        &&& forall|i: int| 0 <= i < self.d ==> #[trigger] self.p_boolout(l, i) == 0
        &&& forall|i: int| 0 <= i < self.d ==> #[trigger] self.p_muladd(l, i) == 0
        &&& (if l == 0 && self.has_extra() { self.packed_ok() } else { self.single_ok(l) })
    }
    pub open spec fn row_ok(self) -> bool { forall|l: int| 0 <= l < self.lanes ==> #[trigger] self.lane_ok(l) }
    pub open spec fn wf(self) -> bool {
        &&& 1 <= self.d < 0x1_0000 && 1 <= self.lanes < 0x1_0000 && 2 <= self.k < 0x1_0000
        &&& self.l.len() == self.n.len() && self.l.len() < 0x1_0000_0000 && self.pl.len() < 0x1_0000_0000 && self.pn.len() < 0x1_0000_0000
        &&& self.em() <= self.l.len() && self.ep() <= self.pl.len() && self.ep() <= self.pn.len()
    }
}

// ------------------------------------------------ meaning of the packed form: two folded steps ARE two runner steps
/// ASSUMED ring laws of the extension product (quotient of a polynomial ring is a commutative ring)
#[verifier::external_body]
pub proof fn ax_emul_linear(x: Seq<int>, c: Seq<int>, a: Seq<int>, b: Seq<int>, y: Seq<int>, d: int)
    requires y.len() == d, forall|j: int| 0 <= j < d ==> #[trigger] y[j] == x[j] + c[j] - a[j]
    ensures forall|i: int| 0 <= i < d ==> #[trigger] emul(y, b)[i] == emul(x, b)[i] + emul(c, b)[i] - emul(a, b)[i] {}
#[verifier::external_body]
pub proof fn ax_emul_assoc(x: Seq<int>, b: Seq<int>)
    ensures emul(emul(x, b), b) == emul(x, emul(b, b)) {}
pub proof fn lemma_two_steps(acc: Seq<int>, a0: Seq<int>, c0: Seq<int>, a1: Seq<int>, c1: Seq<int>, b: Seq<int>, mid: Seq<int>, d: int)
    requires d >= 0, mid.len() == d, forall|j: int| 0 <= j < d ==> #[trigger] mid[j] == estep(acc, a0, c0, b, j)
    ensures forall|i: int| 0 <= i < d ==> #[trigger] estep2(acc, emul(b, b), a0, c0, a1, c1, b, i) == estep(mid, a1, c1, b, i)
{
    ax_emul_linear(emul(acc, b), c0, a0, b, mid, d);
    ax_emul_assoc(acc, b);
}

pub proof fn lemma_xw(r: Row)
    requires r.wf()
    ensures 0 <= r.nint() < 0x8000, 0 <= r.nint() * r.d < 0x8000_0000, 0 <= 2 * (r.k - 1) * r.d < 0x2_0000_0000,
            r.xw() == r.nint() * r.d + 2 * (r.k - 1) * r.d + r.d, 0 <= r.xw() < 0x4_0000_0000, r.em() >= 0, r.ep() >= 0, r.xpw() >= r.k - 1,
            r.bsqb() + r.d == r.em() + r.xw(), r.acb() >= r.em(), r.bsqb() >= r.acb()
{
    let (n, k, d) = (r.nint(), r.k, r.d);
    assert(0 <= n * d < 0x8000_0000) by (nonlinear_arith) requires 0 <= n < 0x8000, 1 <= d < 0x1_0000;
    assert(0 <= 2 * (k - 1) * d < 0x2_0000_0000) by (nonlinear_arith) requires 2 <= k < 0x1_0000, 1 <= d < 0x1_0000;
    assert((n + 2 * (k - 1) + 1) * d == n * d + 2 * (k - 1) * d + d) by (nonlinear_arith);
    assert(r.lanes * r.lw() >= 0) by (nonlinear_arith) requires r.lanes >= 1, r.lw() >= 0;
    assert(r.lanes * NPREP >= 0) by (nonlinear_arith) requires r.lanes >= 1;
}
pub proof fn lemma_slot(r: Row, t: int)
    requires r.wf(), 0 <= t < r.nint()
    ensures 0 <= t * r.d, r.em() + t * r.d + r.d <= r.acb(), (t + 1) * r.d == t * r.d + r.d
{
    lemma_mul_mono(t + 1, r.nint(), r.d); lemma_mul_dist(t, 1, r.d); lemma_mul_mono(t, t + 1, r.d);
}
pub proof fn lemma_ac(r: Row, s: int)
    requires r.wf(), 1 <= s <= r.k - 1
    ensures 0 <= 2 * (s - 1) * r.d, r.acb() + 2 * (s - 1) * r.d + 2 * r.d <= r.bsqb(), 2 * s * r.d == 2 * (s - 1) * r.d + 2 * r.d
{
    let d = r.d;
    assert(0 <= 2 * (s - 1) * d) by (nonlinear_arith) requires s >= 1, d >= 1;
    assert(2 * s * d == 2 * (s - 1) * d + 2 * d) by (nonlinear_arith);
    assert(2 * s * d <= 2 * (r.k - 1) * d) by (nonlinear_arith) requires s <= r.k - 1, d >= 1;
}
pub proof fn lemma_mul_mono(x: int, y: int, d: int) requires 0 <= x <= y, d >= 0 ensures x * d <= y * d, 0 <= x * d { assert(x * d <= y * d && 0 <= x * d) by (nonlinear_arith) requires 0 <= x <= y, d >= 0; }
pub proof fn lemma_mul_dist(x: int, y: int, d: int) ensures (x + y) * d == x * d + y * d { assert((x + y) * d == x * d + y * d) by (nonlinear_arith); }
} // verus!
'''


def gen_views():
    """column views generated from the real struct definitions (field order = column order, repr(C))"""
    C = 'circuit-prover/src/air/alu_columns.rs'
    def fields(item):
        body = item[item.index('{') + 1:item.rindex('}')]
        return re.findall(r'pub\s+(\w+)\s*:', body)
    prep = fields(extract_item(C, r'pub\(crate\) struct AluPrepLaneCols<T>'))
    step = fields(extract_item(C, r'pub\(crate\) struct AluPackedHornerStepPrepCols<T>'))
    main = fields(extract_item(C, r'pub\(crate\) struct AluMainLaneCols<T, const D: usize>'))
    t = ['verus! {', f'pub spec const NPREP: int = {len(prep)};', f'pub spec const NSTEP: int = {len(step)};', f'pub spec const NMAIN: int = {len(main)};',
         f'pub const PREP_LANE_WIDTH: usize = {len(prep)};', f'pub const PACKED_HORNER_STEP_PREP_WIDTH: usize = {len(step)};']
    for k, f in enumerate(prep):
        t.append(f'pub spec const P_{f.upper()}: int = {k};')
    for k, f in enumerate(main):
        t.append(f'pub spec const M_{f.upper()}: int = {k};')
    t.append('pub struct AluPrepLaneCols { ' + ' '.join(f'pub {f}: R,' for f in prep) + ' }')
    t.append("pub struct AluMainLaneCols<'a> { " + ' '.join(f"pub {f}: &'a [R]," for f in main) + ' }')
    t.append('#[verifier::external_body]\npub fn borrow_prep(s: &[R]) -> (r: AluPrepLaneCols)\n    requires s@.len() == NPREP\n    ensures ' +
             ', '.join(f'r.{f} == s@[{k}]' for k, f in enumerate(prep)) + '\n{ unimplemented!() }')
    t.append("#[verifier::external_body]\npub fn borrow_main<'a, const D: usize>(s: &'a [R]) -> (r: AluMainLaneCols<'a>)\n    requires s@.len() == NMAIN * D\n    ensures " +
             ', '.join(f'r.{f}@ == s@.subrange({k} * D as int, {k + 1} * D as int)' for k, f in enumerate(main)) + '\n{ unimplemented!() }')
    t.append('}')
    return '\n'.join(t), (prep, step, main)


ROW = 'Row { l: iv(local@), n: iv(next@), pl: iv(prep_local@), pn: iv(prep_next@), d: D as int, lanes: self.lanes as int, k: self.horner_packed_steps as int }'


def build():
    u = Unit('alu', ['C11'])
    u.rlimit = 200
    u.assume('ring elements modelled as integers (free commutative ring); AB::Var / AB::Expr erased to one ring type R (as in unit air)')
    u.assume('emul = product of the extension ring on coefficient vectors: returned by the ext_mul_lane closure (dispatch to ext_mul_binomial / ext_mul_quintic_trinomial, whose formulas unit `air` proves); '
             'the closure itself (4 lines in the dropped prefix) is a stub')
    u.assume('column views: `slice.borrow()` into AluMainLaneCols / AluPrepLaneCols reads fields in declaration order (repr(C)); views generated from the real struct text')
    u.assume('row windows: local/next have equal length; all lengths < 2^32; D, lanes, K < 2^16; K >= 2 (TablePacking::validate, unit meta)')
    u.assume('lemma_two_steps only: ring laws of emul (linearity in the first argument, associativity) -- ASSUMED axioms, not used by the eval proof')
    # R11: ring multiplication is an uninterpreted binary operation here (no theory needed: every obligation is an equality of terms)
    u.text(AIR_PRELUDE.replace('self.v@ * rhs.v@', 'rmul(self.v@, rhs.v@)').replace('self.v@ * o.v@', 'rmul(self.v@, o.v@)').replace('verus! {\nglobal size_of usize == 8;', 'verus! {\nglobal size_of usize == 8;\npub uninterp spec fn rmul(a: int, b: int) -> int;'))
    views, (prep, step, main) = gen_views()
    u.text(views)
    u.text(SPEC)

    C = 'circuit-prover/src/air/alu_columns.rs'
    h1 = u.extract(C, '', 'num_horner_intermediates', 'num_horner_intermediates')
    h1.requires('k', 'k_max >= 1')
    h1.ensures('def', 'ret == (k_max - 1) / 2')
    h2 = u.extract(C, '', 'extra_prep_sel_k_idx', 'extra_prep_sel_k_idx')
    h2.requires('k', 'k >= 2')
    h2.ensures('def', 'ret == k - 2')
    h3 = u.extract(C, '', 'horner_extra_prep_width', 'horner_extra_prep_width')
    h3.requires('k', '1 <= k < 0x1_0000')
    h3.ensures('def', 'ret == (k - 1) + NSTEP * (k - 1)')
    u.text('verus! {')
    for h in (h1, h2, h3):
        u.emit(h)
    u.text('}')

    A = 'circuit-prover/src/air/alu_air.rs'
    e = u.extract(A, r'Air<AB> for AluAir<AB::F, D>', 'eval', 'AluAir::eval[constraints]')
    e.drop_prefix_before('for lane in 0..self.lanes {',
                         'prefix emits the bus interactions (eval_alu_interactions, separate function), binds the row windows local/next/prep_local/prep_next and lane_width '
                         '(parameters here), debug-asserts the width and defines the ext_mul_lane closure (stub here)')
    e.set_sig('R11', 'fn eval(&self, builder: &mut AB, local: &[R], next: &[R], prep_local: &[R], prep_next: &[R], lane_width: usize)', sliced=True)
    e.rewrite_re('R11', r'let (\w+): &AluMainLaneCols<_, D> = (\w+)\[([^\]]+)\]\.borrow\(\);', r'let \1 = borrow_main::<D>(&\2[\3]);', min_count=2)
    e.rewrite_re('R11', r'let (\w+): &AluPrepLaneCols<_> = (\w+)\[([^\]]+)\]\.borrow\(\);', r'let \1 = borrow_prep(&\2[\3]);', min_count=2)
    e.rewrite_re('R11', r'= &(lane_local|lane_next)\.(\w+);', r'= \1.\2;', min_count=8)
    e.rewrite_re('R11', r'\bext_mul_lane\(', 'self.ext_mul_lane(', min_count=8)
    e.rewrite_re('R11', r'AB::Expr::ZERO', 'R::zero()', min_count=1)
    e.rewrite_re('R11', r'AB::Expr::ONE', 'R::one()', min_count=1)
    e.rewrite_re('R11', r'\bAB::(Var|Expr)\b(?!::)', 'R', min_count=0)
    e.rewrite_re('R6', r'(\w+) \+= ([^;]+);', r'\1 = \1 + \2;', min_count=3)
    e.rewrite_re('R5', r'for kk in (\d)\.\.=k_max \{', r'for kk in \1..k_max + 1 {', min_count=4)
    # R5 (general): `for (A, B) in (LO..HI).step_by(K).enumerate() {` -> counting while loop (body verbatim; the increments are appended at the end of the body)
    while True:
        m_ = re.search(r'for \((\w+), (\w+)\) in \(([^;{]+?)\.\.([^;{]+?)\)\.step_by\(([^;{]+?)\)\.enumerate\(\) (\{)', e.body)
        if not m_:
            break
        c_ = match_brace(e.body, m_.start(6))
        a_, b_, lo_, hi_, k_ = m_.group(1), m_.group(2), m_.group(3).strip(), m_.group(4).strip(), m_.group(5).strip()
        e.body = (e.body[:m_.start()] + f'let mut {a_}_c: usize = 0; let mut {b_}_c: usize = {lo_}; while {b_}_c < {hi_} {{ let {a_} = {a_}_c; let {b_} = {b_}_c;' + e.body[m_.start(6) + 1:c_]
                  + f' {a_}_c = {a_}_c + 1; {b_}_c = {b_}_c + {k_}; }}' + e.body[c_ + 1:])
        e.rewrites.append(('R5', '`for (i, x) in (LO..HI).step_by(K).enumerate()` -> counting while loop', ''))
    e.rewrite_re('R11', r'&(\w+)\[\.\.\]', r'\1', min_count=0)

    e.requires('wf', f'({ROW}).wf() && lane_width == NMAIN * D')
    e.ensures('constraints_are_exactly_the_selector_gated_runner_relations', f'final(builder).ok@ == (old(builder).ok@ && ({ROW}).row_ok())')

    PINS = [
        ('add_row_is_runner_add', r'^sel_add\b', 'e_.v@ == r.p_add(lane as int, i as int)'),
        ('mul_row_is_runner_mul', r'^sel_mul\b', 'e_.v@ == r.p_mul(lane as int, i as int)'),
        ('bool_row_first_coefficient', r'^sel_bool\b[^\[]*\[0\]', 'e_.v@ == r.p_bool0(lane as int)'),
        ('bool_row_out_is_the_checked_value', r'^sel_bool\b.*\bout\[i\]', 'e_.v@ == r.p_boolout(lane as int, i as int)'),
        ('bool_row_higher_coefficients_zero', r'^sel_bool\b[^\[]*\[i\]', 'e_.v@ == r.p_booli(lane as int, i as int)'),
        ('muladd_row_is_runner_muladd', r'^sel_muladd\b', 'e_.v@ == r.p_muladd(lane as int, i as int)'),
        ('b_squared_column', r'^any_packed_cur\b', 'e_.v@ == r.p_bsq(i as int)'),
        ('packed_k2_is_two_runner_steps', r'^next_sel_k2\b', 'e_.v@ == r.p_k2(i as int)'),
        ('packed_ge3_first_intermediate_is_two_runner_steps', r'^sel_ge3_next\b', 'e_.v@ == r.p_ge3(i as int)'),
        ('unpacked_horner_row_is_one_runner_step', r'^next_sel_single\b', 'e_.v@ == r.p_fallback(i as int)'),
        ('last_pair_leg_is_two_runner_steps_into_out', r'^sel_kk\b.*\bprod\b.*\bout\[i\]', 'e_.v@ == r.p_pair(kk as int, t_, r.out(0), i as int)'),
        ('middle_pair_leg_is_two_runner_steps_into_next_intermediate', r'^sel_kk\b.*\bprod\b.*\bint_next\[i\]', 'e_.v@ == r.p_pair(kk as int, t_, r.iv_(t_ + 1), i as int)'),
        ('odd_tail_leg_is_one_runner_step_into_out', r'^sel_kk\b.*\bint_b\[i\]', 'e_.v@ == r.p_tail(kk as int, t_, i as int)'),
        ('lane_horner_row_is_one_runner_step', r'^next_sel_horner\b', 'e_.v@ == r.p_single(lane as int, i as int)'),
    ]
    # the leg scaffolding (ghost step counter t_) hangs on the `while s < kk` walk; a restructured walk gets no scaffolding and is judged by the postcondition alone
    HAS_W = 'while s < kk' in e.body
    if not HAS_W:
        PINS = [p_ for p_ in PINS if 't_' not in p_[2]]
        e.attr('#[verifier::exec_allows_no_decreases_clause]')     # termination is not claimed for a restructured walk
    PINNED = e.pin_call_args_keyed('builder.assert_zero(', PINS)

    # ------------------------------------------------------------------ ghost scaffolding (every loop carries its own context: small queries)
    def vec(name, spec):
        return f'{name}@.len() == D && iv({name}@) == {spec}'
    G = f'r == ({ROW}) && r.wf() && lane_width == NMAIN * D'
    L = 'ln == lane as int && 0 <= ln < r.lanes && ' + ' && '.join([vec('a', 'r.a(ln)'), vec('b', 'r.b(ln)'), vec('c', 'r.c(ln)'), vec('out', 'r.out(ln)')])
    N = ' && '.join([vec('next_a', 'r.na(ln)'), vec('next_b', 'r.nb(ln)'), vec('next_c', 'r.nc(ln)'), vec('next_out', 'r.nout(ln)'),
                     'next_sel_horner.v@ == r.nf(ln, P_SEL_HORNER)', vec('out_next_b', 'emul(r.out(ln), r.nb(ln))')])
    AB_ = vec('ab', 'emul(r.a(ln), r.b(ln))')
    P = ('ln == 0 && r.has_extra() && extra_main == r.em() && extra_prep == r.ep() && k_max == r.k && num_int == r.nint() && ac_base == r.acb() && b_sq_base == r.bsqb() && '
         + vec('b_sq', 'r.bsq()'))

    # loop-end proof steps first (loop headers are located textually; invariants added later contain braces)
    if HAS_W:
        e.at_loop_end('while s < kk', 'proof { assert(builder.ok@ == (ok_leg && r.leg_ok(kk as int, t_))); t_ = t_ + 1; }')
    if HAS_W:
        e.at_loop_end('for kk in 3..k_max + 1', 'proof { assert(builder.ok@ == (ok_kk && r.legs_ok(kk as int))); }', nth=1)
    e.at_loop_end('for lane in 0..self.lanes', 'proof { assert(builder.ok@ == (okl && r.lane_ok(ln))); }')
    e.at_start(f'let ghost r = {ROW}; let ghost ok0 = builder.ok@;')
    e.loop('for lane in 0..self.lanes', invariants=[('ctx', G), ('lanes_done', 'builder.ok@ == (ok0 && forall|l: int| 0 <= l < lane ==> #[trigger] r.lane_ok(l))')])
    e.before('let m = lane * lane_width;', """let ghost okl = builder.ok@; let ghost ln = lane as int;
            proof { lemma_mul_mono(ln + 1, r.lanes, r.lw()); lemma_mul_dist(ln, 1, r.lw()); lemma_mul_mono(ln + 1, r.lanes, NPREP); lemma_mul_dist(ln, 1, NPREP);
                    lemma_mul_mono(ln, ln + 1, r.lw()); lemma_mul_mono(ln, ln + 1, NPREP); }""")
    e.before('let mult_a = prep_cur.mult_a;', """proof {
                assert(iv(a@) =~= r.a(ln)); assert(iv(b@) =~= r.b(ln)); assert(iv(c@) =~= r.c(ln)); assert(iv(out@) =~= r.out(ln));
            }""")

    def coef_loop(label, okname, pexpr, ctx, hdr='for i in ', lo='0'):
        """the loop is located by the pinned call it contains (not by its ordinal); absent call => no loop contract attached"""
        nth = e.loop_ordinal_enclosing(hdr, f'// @@A:{label}\n')
        if nth is None:
            return
        e.before(hdr, f'let ghost {okname} = builder.ok@;', nth=nth)
        e.loop(hdr, invariants=[('ctx', ctx), ('coefficients_done', f'builder.ok@ == ({okname} && forall|j: int| {lo} <= j < i ==> #[trigger] ({pexpr}) == 0)')], nth=nth)

    SK = 'sel_kk.v@ == r.selk(r.pl, kk as int) && 3 <= kk <= k_max && s == 2 + 2 * t_ && 0 <= t_ && s < kk'
    LEG = f'{G} && {L} && {P} && {SK} && ' + ' && '.join([vec('a_s', 'r.av(s as int)'), vec('c_s', 'r.cv(s as int)')])
    PAIR = LEG + ' && ' + ' && '.join([vec('a_sp1', 'r.av(s as int + 1)'), vec('c_sp1', 'r.cv(s as int + 1)'), vec('int_b_sq', 'emul(r.iv_(t_), r.bsq())'),
                                       vec('c_s_b', 'emul(r.cv(s as int), r.b(0))'), vec('a_s_b', 'emul(r.av(s as int), r.b(0))')])
    # loops in textual order; the later ones first so that earlier `nth` indices stay valid
    coef_loop('lane_horner_row_is_one_runner_step', 'ok_single', 'r.p_single(ln, j)', f'{G} && {L} && {N}')
    if HAS_W: coef_loop('odd_tail_leg_is_one_runner_step_into_out', 'ok_tail', 'r.p_tail(kk as int, t_, j)', LEG + ' && ' + vec('int_b', 'emul(r.iv_(t_), r.b(0))'))
    if HAS_W: coef_loop('middle_pair_leg_is_two_runner_steps_into_next_intermediate', 'ok_mid', 'r.p_pair(kk as int, t_, r.iv_(t_ + 1), j)', PAIR + ' && ' + vec('int_next', 'r.iv_(t_ + 1)'))
    if HAS_W: coef_loop('last_pair_leg_is_two_runner_steps_into_out', 'ok_last', 'r.p_pair(kk as int, t_, r.out(0), j)', PAIR)
    coef_loop('unpacked_horner_row_is_one_runner_step', 'ok_fb', 'r.p_fallback(j)', f'{G} && {L} && {N} && ln == 0 && next_sel_single.v@ == r.nf(0, P_SEL_HORNER) - r.sum_sel(r.pn, 2, r.k + 1)')
    n_k2 = e.loop_ordinal_enclosing('for i in ', '// @@A:packed_k2_is_two_runner_steps\n')
    if n_k2 is not None:
      e.before('for i in ', 'let ghost ok_k2 = builder.ok@;', nth=n_k2)
      e.loop('for i in ', invariants=[
        ('ctx', f'{G} && {L} && {N} && {P} && next_sel_k2.v@ == r.selk(r.pn, 2) && sel_ge3_next.v@ == r.sum_sel(r.pn, 3, r.k + 1) && ' + ' && '.join([
            vec('out_b_sq', 'emul(r.out(0), r.bsqn())'), vec('c0_b_next', 'emul(r.nc(0), r.nb(0))'), vec('a0_b_next', 'emul(r.na(0), r.nb(0))'),
            vec('a1_next', 'r.a1n()'), vec('c1_next', 'r.c1n()'), vec('next_int0', 'r.int0n()')])),
        ('coefficients_done', 'builder.ok@ == (ok_k2 && (forall|j: int| 0 <= j < i ==> #[trigger] r.p_k2(j) == 0) && (forall|j: int| 0 <= j < i ==> #[trigger] r.p_ge3(j) == 0))')], nth=n_k2)
    coef_loop('b_squared_column', 'ok_bsq', 'r.p_bsq(j)', f'{G} && {L} && {P} && any_packed_cur.v@ == r.sum_sel(r.pl, 2, r.k + 1) && ' + vec('bb', 'emul(r.b(0), r.b(0))'))
    coef_loop('muladd_row_is_runner_muladd', 'ok_ma', 'r.p_muladd(ln, j)', f'{G} && {L} && {AB_} && sel_muladd.v@ == r.pf(ln, P_SEL_MULADD)')
    coef_loop('bool_row_out_is_the_checked_value', 'ok_bo', 'r.p_boolout(ln, j)', f'{G} && {L} && sel_bool.v@ == r.pf(ln, P_SEL_BOOL)')
    coef_loop('bool_row_higher_coefficients_zero', 'ok_bi', 'r.p_booli(ln, j)', f'{G} && {L} && sel_bool.v@ == r.pf(ln, P_SEL_BOOL)', lo='1')
    coef_loop('mul_row_is_runner_mul', 'ok_mul', 'r.p_mul(ln, j)', f'{G} && {L} && {AB_} && sel_mul.v@ == r.sel_mul(ln)')
    coef_loop('add_row_is_runner_add', 'ok_add', 'r.p_add(ln, j)', f'{G} && {L} && sel_add.v@ == r.pf(ln, P_SEL_ADD)')

    # facts about the next row / extra region, established once per lane
    e.before('let extra_main = self.lanes * lane_width;', """proof {
                assert(iv(next_a@) =~= r.na(ln)); assert(iv(next_b@) =~= r.nb(ln)); assert(iv(next_c@) =~= r.nc(ln)); assert(iv(next_out@) =~= r.nout(ln));
                lemma_xw(r);
            }""")
    e.after('let extra_coeff_width = (num_int + 2 * (k_max - 1) + 1) * D;', 'proof { assert(extra_main == r.em() && extra_prep == r.ep() && num_int == r.nint() && extra_coeff_width == r.xw()); }')
    e.after('let has_extra_cols = extra_main + extra_coeff_width <= local.len() && extra_prep + horner_extra_prep_width(k_max) <= prep_local.len() && extra_prep + horner_extra_prep_width(k_max) <= prep_next.len();',
            'proof { assert(has_extra_cols == r.has_extra()); }')
    e.after('let b_sq_next = &next[b_sq_base..b_sq_base + D];', 'proof { assert(ac_base == r.acb() && b_sq_base == r.bsqb()); assert(iv(b_sq@) =~= r.bsq()); assert(iv(b_sq_next@) =~= r.bsqn()); assert(iv(next_int0@) =~= r.int0n()); }')
    e.before('let off1 = ac_base_next;', 'proof { lemma_ac(r, 1); }')
    e.after('let c1_next = &next[off1 + D..off1 + 2 * D];', 'proof { assert(iv(a1_next@) =~= r.a1n()); assert(iv(c1_next@) =~= r.c1n()); }')

    # selector sums
    SUMCTX = f'{G} && r.has_extra() && extra_prep == r.ep() && k_max == r.k && r.xpw() >= r.k - 1 && r.ep() >= 0'
    e.loop('for kk in 2..k_max + 1', invariants=[('ctx', SUMCTX), ('sum', 'any_packed_cur.v@ == r.sum_sel(r.pl, 2, kk as int)')], nth=0)
    e.loop('for kk in 2..k_max + 1', invariants=[('ctx', SUMCTX), ('sum', 'any_packed_next.v@ == r.sum_sel(r.pn, 2, kk as int)')], nth=1)
    e.loop('for kk in 3..k_max + 1', invariants=[('ctx', SUMCTX), ('sum', 'sel_ge3_next.v@ == r.sum_sel(r.pn, 3, kk as int)')], nth=0)
    # legs
    LEGS = f'{G} && {L} && {P} && r.xpw() >= r.k - 1 && r.ep() >= 0'
    e.before('for kk in 3..k_max + 1', 'let ghost ok_legs = builder.ok@;', nth=1)
    e.loop('for kk in 3..k_max + 1', invariants=[('ctx', LEGS), ('legs_done', 'builder.ok@ == (ok_legs && forall|q: int| 3 <= q < kk ==> #[trigger] r.legs_ok(q))')], nth=1)
    if HAS_W:
        e.before('while s < kk', 'let ghost ok_kk = builder.ok@; let ghost mut t_: int = 0;')
        e.loop('while s < kk', invariants=[
            ('ctx', LEGS + ' && sel_kk.v@ == r.selk(r.pl, kk as int) && 3 <= kk <= k_max'),
            ('position', '2 <= s && 0 <= t_ && s <= 2 + 2 * t_ && (s < kk ==> s == 2 + 2 * t_ && curr_int_slot == t_)'),
            ('legs_of_this_arity_done', 'builder.ok@ == (ok_kk && forall|q: int| 0 <= q < t_ ==> #[trigger] r.leg_ok(kk as int, q))'),
        ], decreases='kk - s')
        e.before('let int_curr = &local', 'let ghost ok_leg = builder.ok@; proof { lemma_xw(r); lemma_slot(r, t_); lemma_ac(r, s as int); }')
        e.after('let c_s = &local[off_s + D..off_s + 2 * D];', 'proof { assert(iv(int_curr@) =~= r.iv_(t_)); assert(iv(a_s@) =~= r.av(s as int)); assert(iv(c_s@) =~= r.cv(s as int)); }')
        e.before('let off_sp1 = ac_base + 2 * s * D;', 'proof { lemma_ac(r, s as int + 1); }')
        e.after('let c_sp1 = &local[off_sp1 + D..off_sp1 + 2 * D];', 'proof { assert(iv(a_sp1@) =~= r.av(s as int + 1)); assert(iv(c_sp1@) =~= r.cv(s as int + 1)); }')
        if 'let int_next = &local' in e.body:
            e.before('let int_next = &local', 'proof { lemma_slot(r, t_ + 1); }')
        if len(_find_all('let int_next = &local[extra_main + (curr_int_slot + 1) * D ..extra_main + (curr_int_slot + 2) * D];', e.body)) > 0:
            e.after('let int_next = &local[extra_main + (curr_int_slot + 1) * D ..extra_main + (curr_int_slot + 2) * D];', 'proof { assert(iv(int_next@) =~= r.iv_(t_ + 1)); }')
    return finish(u, e)


def finish(u, e):
    u.text('verus! {\nimpl<const D: usize> AluAir<D> {')
    u.text('''    /// the ext_mul_lane closure of the dropped prefix (dispatch by ext_mul_kind): extension product of two coefficient vectors
    #[verifier::external_body]
    pub fn ext_mul_lane(&self, x: &[R], y: &[R]) -> (r: Vec<R>)
        requires x@.len() == D, y@.len() == D
        ensures r@.len() == D, iv(r@) == emul(iv(x@), iv(y@))
    { unimplemented!() }''')
    u.emit(e)
    u.text('}\n}')
    return u
