"""Unit `backcfg` (C17, layers chain): recursion/src/backend/fri.rs FriRecursionBackend::{extra_poseidon2_table_configs_for_degree, poseidon2_air_configs_for_degree}.
The table provers of a layer are [challenger permutation, one prover per extra config, recompose ..] (non_primitive_provers pushes the extra list as it is) and the
AIR builders are built for `poseidon2_air_configs_for_degree`: the two lists line up one-to-one -- and a layer can be proved at all -- exactly when
 * the extra list has no duplicate, only configs of the requested degree, and never the challenger's own config (it already has its table), and
 * the AIR config list is the challenger's config followed by exactly that extra list."""
import re

from vf.extract import ExtractError
from vf.unit import Unit

PRELUDE = r'''
#![allow(unused_imports, unused_variables, dead_code, unused_mut, unused_parens)]
use vstd::prelude::*;
verus! {
global size_of usize == 8;
#[derive(Clone, Copy, PartialEq, Eq, Structural)] pub struct Poseidon2Config { pub id: u32, pub dd: usize }
impl Poseidon2Config { pub fn d(&self) -> (r: usize) ensures r == self.dd { self.dd } }
/// the challenger's permutation configuration: a Poseidon2 one or not (Poseidon1)
pub struct ChallengerCfg { pub p2: Option<Poseidon2Config> }
impl ChallengerCfg {
    pub fn as_poseidon2(&self) -> (r: Option<&Poseidon2Config>) ensures r == (match self.p2 { Some(c) => Some(&c), None => None::<&Poseidon2Config> })
    { match &self.p2 { Some(c) => Some(c), None => None } }
}
pub struct FriRecursionBackend { pub challenger_perm_config: ChallengerCfg, pub extra_poseidon2_table_configs: Vec<Poseidon2Config> }
/// `v.contains(&x)`
#[verifier::external_body]
pub fn vec_contains(v: &Vec<Poseidon2Config>, x: &Poseidon2Config) -> (r: bool) ensures r == v@.contains(*x) { unimplemented!() }
/// `opt.copied()`
pub fn copied_(o: Option<&Poseidon2Config>) -> (r: Option<Poseidon2Config>) ensures r == (match o { Some(c) => Some(*c), None => None::<Poseidon2Config> }) { match o { Some(c) => Some(*c), None => None } }
/// the extra tables a layer of extension degree `deg` needs next to the challenger's: the registered extras of that degree, first occurrence of each, without the challenger's own config
pub open spec fn extras_for(extras: Seq<Poseidon2Config>, ch: Option<Poseidon2Config>, deg: usize, n: int) -> Seq<Poseidon2Config> decreases n {
    if n <= 0 { Seq::empty() } else {
        let p = extras_for(extras, ch, deg, n - 1); let c = extras[n - 1];
        if c.dd == deg && Some(c) != ch && !p.contains(c) { p.push(c) } else { p }
    }
}
} // verus!
'''


def build():
    u = Unit('backcfg', ['C17'])
    u.rlimit = 30
    u.assume('type erasure R11: the challenger configuration is "a Poseidon2 config or not"; Vec::contains / Option::copied / Vec::extend have their standard meaning (stubs)')
    u.assume('non_primitive_provers / non_primitive_air_builders (three impls, trait objects) are not under contract: they push one prover per element of the extra list and build the AIRs for poseidon2_air_configs_for_degree')
    u.text(PRELUDE)
    B = 'recursion/src/backend/fri.rs'
    IMPL = r'impl<const WIDTH: usize, const RATE: usize, C: ChallengerPermConfig> FriRecursionBackend<WIDTH, RATE, C>'
    ex = u.extract(B, IMPL, 'extra_poseidon2_table_configs_for_degree', 'FriRecursionBackend::extra_poseidon2_table_configs_for_degree')
    ex.rewrite_re('R6', r'self\.challenger_perm_config\.as_poseidon2\(\)\.copied\(\)', 'copied_(self.challenger_perm_config.as_poseidon2())', min_count=0)
    ex.rewrite_re('R7', r'let mut configs = Vec::new\(\);', 'let mut configs: Vec<Poseidon2Config> = Vec::new();', min_count=0)
    ex.rewrite_re('R5', r'for &(\w+) in &self\.extra_poseidon2_table_configs \{', r'for xi_ in 0..self.extra_poseidon2_table_configs.len() { let \1 = self.extra_poseidon2_table_configs[xi_];', min_count=0)
    ex.rewrite_re('R6', r'(\w+)\.contains\(&(\w+)\)', r'vec_contains(&\1, &\2)', min_count=0)
    SPEC = 'extras_for(self.extra_poseidon2_table_configs@, self.challenger_perm_config.p2, table_degree, self.extra_poseidon2_table_configs@.len() as int)'
    ex.ensures('extras_of_the_degree_once_each_and_never_the_challengers_own_config', f'ret@ == {SPEC}')
    if 'for xi_ in 0..self.extra_poseidon2_table_configs.len()' in ex.body:
        ex.loop('for xi_ in 0..self.extra_poseidon2_table_configs.len()', invariants=[
            ('extras_so_far', 'configs@ == extras_for(self.extra_poseidon2_table_configs@, self.challenger_perm_config.p2, table_degree, xi_ as int)' + (' && challenger == self.challenger_perm_config.p2' if re.search(r'let challenger\b', ex.body) else ''))])
    ac = u.extract(B, IMPL, 'poseidon2_air_configs_for_degree', 'FriRecursionBackend::poseidon2_air_configs_for_degree')
    ac.rewrite_re('R7', r'let mut configs = Vec::new\(\);', 'let mut configs: Vec<Poseidon2Config> = Vec::new();', min_count=0)
    ac.rewrite_re('R6', r'configs\.extend\((self\.extra_poseidon2_table_configs_for_degree\(\w+\))\);', r'let mut ex_ = \1; configs.append(&mut ex_);', min_count=0)
    ac.rewrite_re('R5', r'for (\w+) in (self\.extra_poseidon2_table_configs_for_degree\(\w+\)) \{', r'let ex_ = \2; for xj_ in 0..ex_.len() { let \1 = ex_[xj_];', min_count=0)
    ac.rewrite_re('R6', r'(\w+)\.contains\(&(\w+)\)', r'vec_contains(&\1, &\2)', min_count=0)
    ac.ensures('the_challengers_config_followed_by_exactly_the_extra_list', f'ret@ == (match self.challenger_perm_config.p2 {{ Some(c) => seq![c], None => Seq::<Poseidon2Config>::empty() }}) + {SPEC}')
    u.text('verus! {\nimpl FriRecursionBackend {')
    u.emit(ex)
    u.emit(ac)
    u.text('}\n}')
    # ---------------------------------------------------------------- build_verifier_circuit[child_provers] x3: for which extension degree the child's table provers are requested (C17)
    # the in-circuit verifier requires the proof's non-primitive entries to equal the prover list: a batch child proven over ANOTHER degree (the usual first step: a base-field application
    # circuit, ext_degree 1, no non-primitive tables) must get the provers of ITS degree, not of the backend's
    from units.order import _stmt_at
    u.text('''verus! {
pub struct ChildProof { pub ext_degree: usize }
pub enum RecursionInput<'a> { UniStark { w: usize }, BatchStark { proof: &'a ChildProof, w: usize } }
pub struct ProverList { pub for_degree: Ghost<Option<usize>> }
impl ProverList { pub fn none() -> (r: ProverList) ensures r.for_degree@ is None { ProverList { for_degree: Ghost(None) } } }
/// PcsRecursionBackend::<SC, A, D>::non_primitive_provers(backend, ext_degree): the backend's table provers for a child of that degree
#[verifier::external_body] pub fn non_primitive_provers_(ext_degree: usize) -> (r: ProverList) ensures r.for_degree@ == Some(ext_degree) { unimplemented!() }
}''')
    bvs = []
    for dnum in ('2', '4', '5'):
        bv = u.extract(B, r'PcsRecursionBackend<SC, A, ' + dnum + r'>', 'build_verifier_circuit', f'PcsRecursionBackend<{dnum}>::build_verifier_circuit[child_provers]')
        st_ = _stmt_at(bv.body, r'let provers = match prev')
        if st_ is None:
            raise ExtractError(f'lost anchor in PcsRecursionBackend<{dnum}>::build_verifier_circuit: `let provers = match prev ..;`')
        bv.rewrites.append(('R13', 'function body := the statement `let provers = match prev { .. };`, then the local provers', 'the call of build_verifier_circuit_impl'))
        bv.body = '{\n' + st_ + '\nprovers\n}'
        bv.set_sig('R11', f"fn build_verifier_circuit_d{dnum}<'a>(prev: &RecursionInput<'a>) -> ProverList", sliced=True)
        bv.rewrite_re('R11', r'PcsRecursionBackend::<SC, A, \d>::non_primitive_provers\(self, ', 'non_primitive_provers_(', min_count=1)
        bv.rewrite_re('R11', r'Vec::new\(\)', 'ProverList::none()', min_count=0)
        bv.ensures('a_batch_child_gets_the_table_provers_of_its_own_extension_degree', 'prev matches RecursionInput::BatchStark { proof, .. } ==> ret.for_degree@ == Some(proof.ext_degree)')
        bvs.append(bv)
    u.text('verus! {')
    for bv in bvs:
        u.emit(bv)
    u.text('}')
    return u
