"""Unit `bind` (C06): "sampled challenges are bound to the entire transcript" as a taint invariant.

`bound(t)` (ghost set in the builder stub): the value of target t is pinned, in every accepted proof, by constants,
public values and relation-checked operations over pinned operands.  The representation invariant `tinv` says that
every target the sponge will feed into its next permutation, and every buffered output, is pinned; it must hold
after every public operation for every history.  Real text under contract:
  circuit/src/builder/circuit_builder.rs  add_poseidon{2,1}_perm_for_challenger{,_base}      (4 wrappers)
  recursion/src/challenger/circuit.rs     duplexing_ext, duplexing_ext_p1, duplexing_base, duplexing_base_p1,
                                          duplexing, init, observe, sample, clear
Assumed (trusted, derived from ops/poseidon_perm/builder.rs + executor.rs preprocess_outputs/num_exposed_outputs +
poseidon2-circuit-air output interactions): which outputs of one permutation row are created on the witness bus."""
import os
import re

from vf.extract import extract_item
from vf.unit import Unit
from units.chal import STUBS as CHAL_STUBS, common, rw_duplexing

HERE = os.path.dirname(os.path.abspath(__file__))

PERM = r'''
verus! {
pub struct NonPrimitiveOpId(pub u32);
pub struct Poseidon2PermCall { pub config: Poseidon2Config, pub new_start: bool, pub merkle_path: bool, pub mmcs_bit: Option<ExprId>,
    pub mmcs_bit2: Option<ExprId>, pub inputs: Vec<Option<ExprId>>, pub out_ctl: Vec<bool>, pub return_all_outputs: bool, pub mmcs_index_sum: Option<ExprId> }
pub struct Poseidon1PermCall { pub config: Poseidon1Config, pub new_start: bool, pub merkle_path: bool, pub mmcs_bit: Option<ExprId>,
    pub mmcs_bit2: Option<ExprId>, pub inputs: Vec<Option<ExprId>>, pub out_ctl: Vec<bool>, pub return_all_outputs: bool, pub mmcs_index_sum: Option<ExprId> }
pub struct Poseidon2PermCallBase { pub config: Poseidon2Config, pub new_start: bool, pub inputs: [Option<ExprId>; 16], pub out_ctl: [bool; 8],
    pub return_all_outputs: bool, pub absorb_len: usize }
pub struct Poseidon1PermCallBase { pub config: Poseidon1Config, pub new_start: bool, pub inputs: [Option<ExprId>; 16], pub out_ctl: [bool; 8],
    pub return_all_outputs: bool, pub absorb_len: usize }
impl CircuitBuilderError {
    #[verifier::external_body]
    pub fn missing_output() -> Self { unimplemented!() }
}
/// the permutation tables are enabled in the builder configuration (otherwise the challenger panics)
pub uninterp spec fn perm_ops_enabled() -> bool;

/// every limb a permutation row reads is pinned: given limbs through the witness bus, omitted limbs by zero
/// (`new_start`) or by the in-table chain to the previous row
pub open spec fn ext_inputs_pinned<F: Field>(cb: &CircuitBuilder<F>, inputs: Seq<Option<ExprId>>, new_start: bool, merkle: bool) -> bool {
    &&& forall|j: int| 0 <= j < inputs.len() ==> ((#[trigger] inputs[j]) matches Some(t) ==> cb.bound(t))
    &&& ((exists|j: int| 0 <= j < inputs.len() && (#[trigger] inputs[j]) is None) ==> !merkle && (new_start || cb.chain@))
}
/// what one extension-mode permutation row gives back (ASSUMED; poseidon_perm/builder.rs add_poseidon_perm_inner:
/// rate limb i is returned and exposed iff out_ctl[i]; capacity limbs are returned iff return_all_outputs and are
/// NEVER exposed: executor.rs preprocess_outputs `take(rate_ext)`, num_exposed_outputs() = rate_ext)
pub open spec fn ext_perm_post<F: Field>(old: &CircuitBuilder<F>, new: &CircuitBuilder<F>, wext: usize, rext: usize, new_start: bool, merkle: bool,
        inputs: Seq<Option<ExprId>>, out_ctl: Seq<bool>, return_all: bool, outs: Seq<Option<ExprId>>) -> bool {
    &&& outs.len() == wext
    &&& forall|i: int| 0 <= i < wext ==> ((#[trigger] outs[i]) is Some <==> (if i < rext { i < out_ctl.len() && out_ctl[i] } else { return_all }))
    &&& forall|i: int| 0 <= i < wext ==> ((#[trigger] outs[i]) matches Some(t) ==> new.has(t))
    &&& (ext_inputs_pinned(old, inputs, new_start, merkle) ==>
            forall|i: int| 0 <= i < rext && i < out_ctl.len() && out_ctl[i] ==> ((#[trigger] outs[i]) matches Some(t) ==> new.bound(t)))
}
/// base-mode (D=1, compact 16-limb row): rate outputs 0..8 exposed iff out_ctl[i]; capacity 8..16 returned iff
/// return_all_outputs, never exposed, but carried to the next row by the chain constraint
pub open spec fn base_inputs_pinned<F: Field>(cb: &CircuitBuilder<F>, inputs: Seq<Option<ExprId>>, new_start: bool) -> bool {
    &&& forall|j: int| 0 <= j < 16 ==> ((#[trigger] inputs[j]) matches Some(t) ==> cb.bound(t))
    // an omitted CAPACITY limb is zero on a chain start (asserted by the compact AIR) or chained to the previous row
    &&& ((exists|j: int| 8 <= j < 16 && (#[trigger] inputs[j]) is None) ==> (new_start || cb.chain@))
    // an omitted RATE limb is chained to the previous row; on a chain start it is a FREE input (no bus read, no zero assertion)
    &&& ((exists|j: int| 0 <= j < 8 && (#[trigger] inputs[j]) is None) ==> (!new_start && cb.chain@))
}
pub open spec fn base_perm_post<F: Field>(old: &CircuitBuilder<F>, new: &CircuitBuilder<F>, new_start: bool,
        inputs: Seq<Option<ExprId>>, out_ctl: Seq<bool>, return_all: bool, outs: Seq<Option<ExprId>>) -> bool {
    &&& outs.len() == 16
    &&& forall|i: int| 0 <= i < 16 ==> ((#[trigger] outs[i]) is Some <==> (if i < 8 { out_ctl[i] } else { return_all }))
    &&& forall|i: int| 0 <= i < 16 ==> ((#[trigger] outs[i]) matches Some(t) ==> new.has(t))
    &&& (base_inputs_pinned(old, inputs, new_start) ==> new.chain@ &&
            forall|i: int| 0 <= i < 8 && out_ctl[i] ==> ((#[trigger] outs[i]) matches Some(t) ==> new.bound(t)))
}

/// cr is a builder state between a and b (the state right after the permutation row was emitted)
pub open spec fn row_emitted<F: Field>(a: &CircuitBuilder<F>, cr: &CircuitBuilder<F>, b: &CircuitBuilder<F>) -> bool { cr.extends(a) && b.extends(cr) }
/// the extension-mode permutation row emitted last: (its input limbs, its output limbs); a witness function like last_base_row
pub uninterp spec fn last_ext_row<F: Field>(cb: &CircuitBuilder<F>) -> (Seq<Option<ExprId>>, Seq<Option<ExprId>>);
/// the base-mode (D=1) permutation row emitted last: (new_start, the 16 input limbs, the committed length tag absorb_len, the 16 output limbs).
/// A witness function: only add_poseidonN_perm_base says anything about it, so a caller can establish a fact about it only by making that call with those arguments.
pub uninterp spec fn last_base_row<F: Field>(cb: &CircuitBuilder<F>) -> (bool, Seq<Option<ExprId>>, int, Seq<Option<ExprId>>);
impl<F: Field> CircuitBuilder<F> {
    #[verifier::external_body]
    pub fn push_scope(&mut self, s: &'static str) ensures *final(self) == *old(self) {}
    #[verifier::external_body]
    pub fn pop_scope(&mut self) ensures *final(self) == *old(self) {}

    #[verifier::external_body]
    pub fn add_poseidon2_perm(&mut self, call: &Poseidon2PermCall) -> (r: Result<(NonPrimitiveOpId, Vec<Option<ExprId>>), CircuitBuilderError>)
        ensures final(self).extends(old(self)),
                perm_ops_enabled() && !call.merkle_path && call.mmcs_bit is None && call.mmcs_bit2 is None ==> r is Ok,
                r matches Ok(p) ==> ext_perm_post(old(self), final(self), call.config.wext, call.config.rext, call.new_start, call.merkle_path,
                                                   call.inputs@, call.out_ctl@, call.return_all_outputs, p.1@),
                r matches Ok(p) ==> last_ext_row(final(self)) == (call.inputs@, p.1@)
    { unimplemented!() }
    #[verifier::external_body]
    pub fn add_poseidon1_perm(&mut self, call: &Poseidon1PermCall) -> (r: Result<(NonPrimitiveOpId, Vec<Option<ExprId>>), CircuitBuilderError>)
        ensures final(self).extends(old(self)),
                perm_ops_enabled() && !call.merkle_path && call.mmcs_bit is None && call.mmcs_bit2 is None ==> r is Ok,
                r matches Ok(p) ==> ext_perm_post(old(self), final(self), call.config.wext, call.config.rext, call.new_start, call.merkle_path,
                                                   call.inputs@, call.out_ctl@, call.return_all_outputs, p.1@),
                r matches Ok(p) ==> last_ext_row(final(self)) == (call.inputs@, p.1@)
    { unimplemented!() }
    #[verifier::external_body]
    pub fn add_poseidon2_perm_base(&mut self, call: &Poseidon2PermCallBase) -> (r: Result<(NonPrimitiveOpId, [Option<ExprId>; 16]), CircuitBuilderError>)
        ensures final(self).extends(old(self)),
                perm_ops_enabled() && call.config.dd == 1 ==> r is Ok,
                r matches Ok(p) ==> base_perm_post(old(self), final(self), call.new_start, call.inputs@, call.out_ctl@, call.return_all_outputs, p.1@),
                r matches Ok(p) ==> last_base_row(final(self)) == (call.new_start, call.inputs@, call.absorb_len as int, p.1@)
    { unimplemented!() }
    #[verifier::external_body]
    pub fn add_poseidon1_perm_base(&mut self, call: &Poseidon1PermCallBase) -> (r: Result<(NonPrimitiveOpId, [Option<ExprId>; 16]), CircuitBuilderError>)
        ensures final(self).extends(old(self)),
                perm_ops_enabled() && call.config.dd == 1 ==> r is Ok,
                r matches Ok(p) ==> base_perm_post(old(self), final(self), call.new_start, call.inputs@, call.out_ctl@, call.return_all_outputs, p.1@),
                r matches Ok(p) ==> last_base_row(final(self)) == (call.new_start, call.inputs@, call.absorb_len as int, p.1@)
    { unimplemented!() }
}

// ---------------------------------------------------------------------------------- the sponge's taint invariant
pub open spec fn cfg_base<C: ChallengerPermConfig>(c: &C) -> bool {
    match c.sp_p2() { Some(p) => p.dd == 1, None => match c.sp_p1() { Some(p) => p.dd == 1, None => false } }
}
/// the permutation configuration fits the sponge geometry (true for every shipped instantiation)
pub open spec fn geom_ok<F: Field>(width: int, rate: int, dd: int, wext: int, rext: int) -> bool {
    if dd == 1 { width == 16 && rate == 8 }
    else { wext * sp_dim::<F>() <= width && rate <= rext * sp_dim::<F>() && rext <= wext && wext * sp_dim::<F>() < 0x1_0000_0000 }
}
impl<const WIDTH: usize, const RATE: usize, C: ChallengerPermConfig> CircuitChallenger<WIDTH, RATE, C> {
    pub open spec fn geom<F: Field>(&self) -> bool {
        &&& RATE < WIDTH && RATE > 0 && RATE <= 255
        &&& (self.config.sp_p2() matches Some(p) ==> geom_ok::<F>(WIDTH as int, RATE as int, p.dd as int, p.wext as int, p.rext as int))
        &&& (self.config.sp_p2() is None ==> (self.config.sp_p1() matches Some(p) ==> geom_ok::<F>(WIDTH as int, RATE as int, p.dd as int, p.wext as int, p.rext as int)))
    }
    /// everything the sponge holds that can reach a permutation input or a sampled value is pinned
    pub open spec fn tinv<F: Field>(&self, cb: &CircuitBuilder<F>, full: bool) -> bool {
        &&& self.geom::<F>() && perm_ops_enabled()
        &&& (self.initialized ==> self.state@.len() == WIDTH)
        &&& (!self.initialized ==> self.input_buffer@.len() == 0 && self.output_buffer@.len() == 0 && !self.duplexed_once)
        &&& (if full { self.input_buffer@.len() <= RATE && self.initialized } else { self.input_buffer@.len() < RATE })
        &&& self.output_buffer@.len() <= RATE
        &&& cb.all_bound(self.input_buffer@) && cb.all_bound(self.output_buffer@)
        &&& (self.initialized ==> self.state_pinned(cb))
    }
    pub open spec fn state_pinned<F: Field>(&self, cb: &CircuitBuilder<F>) -> bool {
        if cfg_base(&self.config) {
            // D=1: only the rate part is ever read through the bus; the capacity lives in the table
            (forall|i: int| 0 <= i < RATE && i < self.state@.len() ==> cb.bound(#[trigger] self.state@[i])) && (self.duplexed_once ==> cb.chain@)
        } else {
            cb.all_bound(self.state@)
        }
    }
}
pub proof fn lemma_bound_extends<F: Field>(a: &CircuitBuilder<F>, b: &CircuitBuilder<F>, s: Seq<ExprId>)
    requires b.extends(a), a.all_bound(s) ensures b.all_bound(s)
{
    assert forall|i: int| 0 <= i < s.len() implies b.bound(#[trigger] s[i]) by { assert(a.bound(s[i])); }
}
pub proof fn lemma_vals_has_ext<F: Field>(a: &CircuitBuilder<F>, b: &CircuitBuilder<F>, s: Seq<ExprId>)
    requires b.extends(a), a.has_all(s)
    ensures b.has_all(s), b.vals_of(s) == a.vals_of(s)
{
    assert forall|i: int| 0 <= i < s.len() implies b.has(#[trigger] s[i]) && b.val(s[i]) == a.val(s[i]) by { assert(a.has(s[i])); }
    assert(b.vals_of(s) =~= a.vals_of(s));
}
pub proof fn lemma_limb(i: int, n: int, d: int, w: int)
    requires 0 <= i < n, d >= 1, n == w / d, w >= 0
    ensures 0 <= i * d, i * d + d <= w, (i + 1) * d == i * d + d
{
    assert(n * d <= w) by (nonlinear_arith) requires n == w / d, d >= 1, w >= 0;
    assert(i * d + d <= n * d) by (nonlinear_arith) requires 0 <= i < n, d >= 1;
    assert((i + 1) * d == i * d + d) by (nonlinear_arith);
    assert(0 <= i * d) by (nonlinear_arith) requires 0 <= i, d >= 1;
}
pub proof fn lemma_limb2(i: int, n: int, d: int)
    requires 0 <= i < n, d >= 1
    ensures 0 <= i * d, i * d + d <= n * d
{
    assert(i * d + d <= n * d) by (nonlinear_arith) requires 0 <= i < n, d >= 1;
    assert(0 <= i * d) by (nonlinear_arith) requires 0 <= i, d >= 1;
}
pub proof fn lemma_limb_of(k: int, d: int, n: int) -> (i: int)
    requires 0 <= k < n * d, d >= 1, n >= 0
    ensures 0 <= i < n, i * d <= k < i * d + d, i == k / d
{
    let i = k / d;
    assert(i * d <= k < i * d + d && 0 <= i) by (nonlinear_arith) requires i == k / d, d >= 1, k >= 0;
    assert(i < n) by (nonlinear_arith) requires i * d <= k, k < n * d, d >= 1;
    i
}
} // verus!
'''


def ext_wrapper(u, CB, IMPL, name, call_ty):
    w = u.extract(CB, IMPL, name, 'CircuitBuilder::' + name)
    w.sig_rewrite('R11', 'crate::ops::', '')
    w.rewrite('R6', 'inputs.iter().map(|&x| Some(x)).collect()', 'inputs_')
    w.rewrite_re('R6', r'let \(_op_id, outputs\) = self', min_count=1, repl='''let mut inputs_: Vec<Option<ExprId>> = Vec::new();
        for k_ in 0..inputs.len()
            invariant inputs_@.len() == k_, forall|j: int| 0 <= j < k_ ==> inputs_@[j] == Some(inputs@[j]),
        { inputs_.push(Some(inputs[k_])); }
        let ghost circ0 = *self;
        let (_op_id, outputs) = self''')
    w.rewrite('R6', 'let output_exprs: Vec<ExprId> = (0..width_ext) .map(|i| outputs[i].ok_or(CircuitBuilderError::MissingOutput)) .collect::<Result<Vec<_>, _>>()?;',
                 '''let mut output_exprs: Vec<ExprId> = Vec::new();
        for i in 0..width_ext
            invariant output_exprs@.len() == i, outputs@.len() == width_ext,
                      forall|j: int| 0 <= j < i ==> outputs@[j] == Some(output_exprs@[j]),
        { match outputs[i] { Some(t_) => { output_exprs.push(t_); } None => { return Err(CircuitBuilderError::missing_output()); } } }''')
    w.rewrite_re('R11', call_ty + r' \{', call_ty + ' {', min_count=0)
    w.attr('#[verifier::loop_isolation(false)]')
    w.ensures('frame', 'final(self).extends(old(self))')
    w.ensures('succeeds_when_enabled', 'perm_ops_enabled() ==> ret is Ok')
    w.ensures('shape', 'ret matches Ok(v) ==> v@.len() == config.wext && final(self).has_all(v@)')
    w.ensures('rate_outputs_pinned', 'ret matches Ok(v) ==> (old(self).all_bound(inputs@) ==> forall|i: int| 0 <= i < config.rext && i < config.wext ==> final(self).bound(#[trigger] v@[i]))')
    # C06 proper: every limb handed back to the sponge is pinned -- the capacity limbs too
    w.ensures('capacity_outputs_pinned', 'ret matches Ok(v) ==> (old(self).all_bound(inputs@) ==> forall|i: int| config.rext <= i < config.wext ==> final(self).bound(#[trigger] v@[i]))')
    # value level (C05): the row reads exactly the caller's limbs, in order, and hands back its outputs in order
    w.ensures('emits_one_row_over_the_callers_limbs_and_returns_its_outputs_in_order',
              '''ret matches Ok(v) ==> last_ext_row(final(self)).0.len() == inputs@.len() && (forall|j: int| 0 <= j < inputs@.len() ==> (#[trigger] last_ext_row(final(self)).0[j]) == Some(inputs@[j]))
                && (forall|i: int| 0 <= i < v@.len() ==> (#[trigger] last_ext_row(final(self)).1[i]) == Some(v@[i]))''')
    w.before('self.pop_scope();', '''proof {
            assert forall|j: int| 0 <= j < output_exprs@.len() implies self.has(#[trigger] output_exprs@[j]) by { assert(outputs@[j] is Some); }
            if old(self).all_bound(inputs@) {
                assert forall|j: int| 0 <= j < inputs_@.len() implies ((#[trigger] inputs_@[j]) matches Some(t) ==> circ0.bound(t)) by { assert(old(self).bound(inputs@[j])); }
                assert(!(exists|j: int| 0 <= j < inputs_@.len() && (#[trigger] inputs_@[j]) is None));
                assert(ext_inputs_pinned(&circ0, inputs_@, true, false));
                assert forall|i: int| 0 <= i < config.rext && i < config.wext implies self.bound(#[trigger] output_exprs@[i]) by { assert(outputs@[i] is Some); }
            }
        }''')
    return w


def base_wrapper(u, CB, IMPL, name):
    w = u.extract(CB, IMPL, name, 'CircuitBuilder::' + name)
    w.sig_rewrite('R11', 'crate::ops::', '')
    w.rewrite('R6', 'let output_exprs: [ExprId; 16] = core::array::from_fn(|i| outputs[i].expect("output should exist"));',
                 '''let mut output_exprs: [ExprId; 16] = [ExprId(0); 16];
        for i in 0..16usize
            invariant forall|j: int| 0 <= j < 16 ==> (#[trigger] outputs@[j]) is Some, forall|j: int| 0 <= j < i ==> outputs@[j] == Some(output_exprs@[j]),
        { output_exprs[i] = outputs[i].expect("output should exist"); }''')
    w.rewrite_re('R6', r'let \(_op_id, outputs\) = self', 'let ghost circ0 = *self;\n        let (_op_id, outputs) = self', min_count=1)
    w.attr('#[verifier::loop_isolation(false)]')
    w.ensures('frame', 'final(self).extends(old(self))')
    w.ensures('succeeds_when_enabled', 'perm_ops_enabled() && config.dd == 1 ==> ret is Ok')
    w.ensures('shape', 'ret matches Ok(v) ==> final(self).has_all(v@)')
    w.ensures('rate_outputs_pinned_and_capacity_chained',
              'ret matches Ok(v) ==> (base_inputs_pinned(old(self), inputs@, new_start) ==> final(self).chain@ && forall|i: int| 0 <= i < 8 ==> final(self).bound(#[trigger] v@[i]))')
    # value level (C05 / C06): the row is emitted with the caller's chain flag, input limbs and LENGTH TAG, and its outputs come back in order
    w.ensures('emits_one_row_with_the_callers_flag_inputs_and_length_tag',
              'ret matches Ok(v) ==> last_base_row(final(self)).0 == new_start && last_base_row(final(self)).1 == inputs@ && last_base_row(final(self)).2 == absorb_len')
    w.ensures('returns_the_rows_outputs_in_order', 'ret matches Ok(v) ==> forall|i: int| 0 <= i < 16 ==> (#[trigger] last_base_row(final(self)).3[i]) == Some(v@[i])')
    w.before('self.pop_scope();', '''proof {
            assert forall|j: int| 0 <= j < 16 implies self.has(#[trigger] output_exprs@[j]) by { assert(outputs@[j] is Some); }
            if base_inputs_pinned(old(self), inputs@, new_start) {
                assert forall|j: int| 0 <= j < 8 implies self.bound(#[trigger] output_exprs@[j]) by { assert(outputs@[j] is Some); }
            }
        }''')
    return w


def duplex_ext(u, F, IMPL, name, cfgname, cfgty, wrapper):
    d = common(u.extract(F, IMPL, name, 'CircuitChallenger::' + name))
    d.set_sig('R11', f'fn {name}<EF: ExtX>(&mut self, circuit: &mut CircuitBuilder<EF>, {cfgname}: {cfgty})')
    d.rewrite_re('R11', r'::<BF>', '::<EF>', min_count=2)  # BF is a phantom parameter of the builder stubs
    d.rewrite('R5', 'for (limb, &ext_out) in ext_outputs.iter().enumerate() {', 'for limb in 0..ext_outputs.len() { let ext_out = ext_outputs[limb];')
    d.rewrite('R5', 'for (i, coeff) in coeffs.into_iter().enumerate() {', 'for i in 0..coeffs.len() { let coeff = coeffs[i];')
    d.requires('inv', f'''old(self).initialized && old(self).state@.len() == WIDTH && perm_ops_enabled() && old(circuit).all_bound(old(self).state@)
            && {cfgname}.dd != 1 && geom_ok::<EF>(WIDTH as int, RATE as int, {cfgname}.dd as int, {cfgname}.wext as int, {cfgname}.rext as int)''')
    d.ensures('every_limb_fed_back_is_pinned', 'final(circuit).all_bound(final(self).state@)')
    d.ensures('shape', 'final(self).state@.len() == WIDTH && final(self).initialized')
    d.ensures('frame', '''final(circuit).extends(old(circuit)) && final(self).input_buffer == old(self).input_buffer && final(self).output_buffer == old(self).output_buffer
            && final(self).config == old(self).config && final(self).duplexed_once == old(self).duplexed_once''')
    # ---- value level (C05): the row reads the D-packings of the state chunk by chunk, and the state becomes the coefficients of the row's outputs limb by limb
    DIM = 'sp_dim::<EF>() as int'
    READS = lambda cr: f"""(c00_.has_all(st00_) ==> ({{ let row = last_ext_row(&{cr}); row.0.len() == WIDTH as int / dim_ && forall|j: int| 0 <= j < row.0.len() ==> ((#[trigger] row.0[j]) matches Some(t) && {cr}.val(t) == ext_of(sv00_.subrange(j * dim_, j * dim_ + dim_))) }}))"""
    d.ensures('one_row_over_the_packed_state_whose_output_coefficients_become_the_state', f'''({{
            let dim_ = {DIM}; let c00_ = old(circuit); let st00_ = old(self).state@; let sv00_ = old(circuit).vals_of(old(self).state@);
            exists|cr: CircuitBuilder<EF>| #[trigger] row_emitted(old(circuit), &cr, final(circuit)) && {READS('cr')}
                && (forall|l: int| 0 <= l < {cfgname}.wext ==> ((#[trigger] last_ext_row(&cr).1[l]) matches Some(t) && final(circuit).has_all(final(self).state@.subrange(l * dim_, l * dim_ + dim_))
                        && final(circuit).vals_of(final(self).state@.subrange(l * dim_, l * dim_ + dim_)) == coeffs_of(cr.val(t))))
        }})''')
    d.at_start(f'let ghost sv0 = circuit.vals_of(self.state@); let ghost c00 = *circuit; let ghost dim0 = {DIM};')
    d.at_end('proof { assert(row_emitted(&c00, &cr_, circuit)); }')
    d.loop('for i in 0..num_ext_limbs', invariants=[
        ('shape', 'ext_inputs@.len() == i && num_ext_limbs == WIDTH as int / sp_dim::<EF>() as int && *self == *old(self) && self.state@.len() == WIDTH && sp_dim::<EF>() >= 1'),
        ('pinned', 'circuit.all_bound(ext_inputs@) && circuit.all_bound(self.state@) && circuit.extends(old(circuit))'),
        ('packed', 'c00 == *old(circuit) && sv0 == c00.vals_of(old(self).state@) && dim0 == sp_dim::<EF>() && (c00.has_all(old(self).state@) ==> forall|k: int| 0 <= k < i ==> circuit.has(#[trigger] ext_inputs@[k]) && circuit.val(ext_inputs@[k]) == ext_of(sv0.subrange(k * dim0, k * dim0 + dim0)))'),
    ])
    d.before('let start = i * EF::dimension();', 'proof { lemma_limb(i as int, num_ext_limbs as int, sp_dim::<EF>() as int, WIDTH as int); }', nth=0)
    d.before('let ext = circuit', '''let ghost circ_b = *circuit; let ghost sl = self.state@.subrange(start as int, end as int);
            proof { assert forall|k: int| 0 <= k < sl.len() implies circuit.bound(#[trigger] sl[k]) by { assert(circuit.bound(self.state@[start + k])); } }''')
    d.after('ext_inputs.push(ext);', '''proof {
                if c00.has_all(old(self).state@) {
                    assert(circ_b.vals_of(sl) =~= sv0.subrange(start as int, end as int)) by {
                        assert forall|k: int| 0 <= k < sl.len() implies circ_b.val(#[trigger] sl[k]) == sv0[start + k] by { assert(c00.has(old(self).state@[start + k])); }
                    }
                    assert forall|k: int| 0 <= k < ext_inputs@.len() implies circuit.has(#[trigger] ext_inputs@[k]) && circuit.val(ext_inputs@[k]) == ext_of(sv0.subrange(k * dim0, k * dim0 + dim0)) by {
                        if k < i { assert(circ_b.has(ext_inputs@[k])); }
                    }
                }
                lemma_bound_extends(&circ_b, circuit, self.state@);
                assert forall|k: int| 0 <= k < ext_inputs@.len() implies circuit.bound(#[trigger] ext_inputs@[k]) by {
                    if k < i { assert(circ_b.bound(ext_inputs@[k])); }
                }
            }''')
    d.before('let ext_outputs = circuit', 'let ghost circ_p = *circuit;')
    d.before('for limb in 0..ext_outputs.len()', '''proof { lemma_bound_extends(&circ_p, circuit, self.state@); }
        let ghost dim = sp_dim::<EF>() as int; let ghost cr_ = *circuit;
        proof {
            if c00.has_all(old(self).state@) {
                assert forall|j: int| 0 <= j < last_ext_row(&cr_).0.len() implies ((#[trigger] last_ext_row(&cr_).0[j]) matches Some(t) && cr_.val(t) == ext_of(sv0.subrange(j * dim, j * dim + dim))) by {
                    assert(circ_p.has(ext_inputs@[j]));
                }
            }
        }''')
    d.loop('for limb in 0..ext_outputs.len()', invariants=[
        ('shape', f'ext_outputs@.len() == {cfgname}.wext && self.state@.len() == WIDTH && dim == sp_dim::<EF>() && dim >= 1 && {cfgname}.wext * dim <= WIDTH && self.initialized'),
        ('outs', 'circuit.has_all(ext_outputs@) && circuit.all_bound(ext_outputs@)'),
        ('adopted', '''circuit.extends(&cr_) && cr_.has_all(ext_outputs@) && forall|l: int| 0 <= l < limb ==> circuit.has_all(#[trigger] self.state@.subrange(l * dim, l * dim + dim))
                && circuit.vals_of(self.state@.subrange(l * dim, l * dim + dim)) == coeffs_of(cr_.val(ext_outputs@[l]))'''),
        ('pinned', 'circuit.all_bound(self.state@) && circuit.extends(old(circuit))'),
        ('frame', 'self.input_buffer == old(self).input_buffer && self.output_buffer == old(self).output_buffer && self.config == old(self).config && self.duplexed_once == old(self).duplexed_once'),
    ])
    d.at_loop_end('for limb in 0..ext_outputs.len()', '''proof {
            assert forall|l: int| 0 <= l < limb + 1 implies circuit.has_all(#[trigger] self.state@.subrange(l * dim, l * dim + dim))
                && circuit.vals_of(self.state@.subrange(l * dim, l * dim + dim)) == coeffs_of(cr_.val(ext_outputs@[l])) by {
                if l < limb {
                    assert(l * dim + dim <= limb * dim) by (nonlinear_arith) requires l < limb, dim >= 1;
                    assert(0 <= l * dim) by (nonlinear_arith) requires 0 <= l, dim >= 1;
                    assert(self.state@.subrange(l * dim, l * dim + dim) =~= st_l0.subrange(l * dim, l * dim + dim));
                    lemma_vals_has_ext(&circ_d, circuit, st_l0.subrange(l * dim, l * dim + dim));
                } else {
                    assert(self.state@.subrange(l * dim, l * dim + dim) =~= coeffs@);
                    assert(cr_.has(ext_outputs@[l]));
                }
            }
        }''')
    d.before('let coeffs = circuit', 'let ghost circ_d = *circuit; proof { assert(circuit.bound(ext_outputs@[limb as int])); }')
    d.after('let start = limb * EF::dimension();', ' let ghost st_l0 = self.state@; let ghost circ_l = *circuit;')
    d.before('let start = limb * EF::dimension();', '''proof {
                lemma_limb2(limb as int, ext_outputs@.len() as int, dim);
                assert(coeffs@.len() == dim) by { assert(circuit.vals_of(coeffs@).len() == dim); }
                lemma_bound_extends(&circ_d, circuit, self.state@);
                lemma_bound_extends(&circ_d, circuit, ext_outputs@);
                assert forall|k: int| 0 <= k < ext_outputs@.len() implies circuit.has(#[trigger] ext_outputs@[k]) by { assert(circ_d.has(ext_outputs@[k])); }
            }''')
    d.loop('for i in 0..coeffs.len()', invariants=[
        ('shape', 'self.state@.len() == WIDTH && start + coeffs@.len() <= WIDTH && self.initialized'),
        ('pinned', 'circuit.all_bound(self.state@) && circuit.all_bound(coeffs@)'),
        ('copying', 'coeffs@.len() == dim && start == limb * dim && (forall|k: int| 0 <= k < i ==> self.state@[start + k] == coeffs@[k]) && (forall|k: int| (0 <= k < start || start + dim <= k < WIDTH) ==> self.state@[k] == st_l0[k])'),
        ('frame', 'self.input_buffer == old(self).input_buffer && self.output_buffer == old(self).output_buffer && self.config == old(self).config && self.duplexed_once == old(self).duplexed_once'),
    ])
    # the store of one coefficient, whatever its index expression is (a changed index is judged by the invariants, not by a lost anchor)
    d.rewrite_re('R12', r'self\.state\[([^\]]*)\] = coeff;', r'''let ix_e_: usize = \1; let ghost st_b = self.state@; let ghost ix_b = ix_e_ as int; self.state[ix_e_] = coeff;
                proof {
                    assert forall|k: int| 0 <= k < self.state@.len() implies circuit.bound(#[trigger] self.state@[k]) by {
                        if k == ix_b { assert(circuit.bound(coeffs@[i as int])); } else { assert(circuit.bound(st_b[k])); }
                    }
                }''', min_count=1)
    return d


def duplex_base(u, F, IMPL, name, cfgname, cfgty):
    d = common(u.extract(F, IMPL, name, 'CircuitChallenger::' + name))
    d.set_sig('R11', f'fn {name}<EF: ExtX>(&mut self, circuit: &mut CircuitBuilder<EF>, {cfgname}: {cfgty}, absorb_len: usize)')
    # R6 (generic): `core::array::from_fn(|i| if COND { Some(EXPR) } else { None })` -> explicit loop over a [None; 16] array;
    # the loop invariant is generated from the captured COND / EXPR, whatever they are
    def _from_fn(m):
        cond, expr = m.group(1).strip(), m.group(2).strip()
        sp = lambda t: re.sub(r'\bi\b', 'j', t).replace('self.state[', 'self.state@[')
        return '''{ let mut a_: [Option<Target>; 16] = [None; 16];
              for i in 0..16usize
                  invariant self.state@.len() == WIDTH && WIDTH == 16,
                            forall|j: int| 0 <= j < i ==> (#[trigger] a_@[j]) == (if %s { Some(%s) } else { None::<Target> }),
                            forall|j: int| i <= j < 16 ==> (#[trigger] a_@[j]) is None,
              { if %s { a_[i] = Some(%s); } }
              a_ };''' % (sp(cond), sp(expr), cond, expr)
    d.rewrite_re('R6', r'core::array::from_fn\(\|i\|\s*\{?\s*if\s+([^{}]+?)\s*\{\s*Some\(([^{}]+?)\)\s*\}\s*else\s*\{\s*None\s*\}\s*\}?\s*\);', _from_fn, min_count=1)
    d.rewrite('R6', 'self.state = outputs.to_vec();', 'self.state = outputs.as_slice().to_vec();')
    # `flag |= E;` on a bool (the verifier has no bitwise OR on bools): E is evaluated, then OR-ed in (R6)
    d.rewrite_re('R6', r'(self\.\w+)\s*\|=\s*([^;]+);', r'{ let or_ = \2; \1 = \1 || or_; }', min_count=0)
    d.requires('inv', f'''old(self).initialized && old(self).state@.len() == WIDTH && perm_ops_enabled() && {cfgname}.dd == 1 && WIDTH == 16 && RATE == 8 && absorb_len <= RATE
            && (forall|i: int| 0 <= i < RATE ==> old(circuit).bound(#[trigger] old(self).state@[i])) && (old(self).duplexed_once ==> old(circuit).chain@)''')
    d.ensures('rate_pinned_capacity_chained', '(forall|i: int| 0 <= i < 8 ==> final(circuit).bound(#[trigger] final(self).state@[i])) && final(circuit).chain@ && final(self).duplexed_once')
    d.ensures('shape', 'final(self).state@.len() == WIDTH && final(self).initialized')
    d.ensures('frame', '''final(circuit).extends(old(circuit)) && final(self).input_buffer == old(self).input_buffer && final(self).output_buffer == old(self).output_buffer
            && final(self).config == old(self).config''')
    d.ensures('emits_one_row_with_the_chain_flag_the_rate_limbs_and_the_callers_length_tag',
              '''last_base_row(final(circuit)).0 == !old(self).duplexed_once && last_base_row(final(circuit)).2 == absorb_len
            && last_base_row(final(circuit)).1 =~= Seq::new(16, |i: int| if i < RATE { Some(old(self).state@[i]) } else { None::<Target> })''')
    d.ensures('adopts_the_rows_outputs_in_order', 'forall|i: int| 0 <= i < 16 ==> (#[trigger] last_base_row(final(circuit)).3[i]) == Some(final(self).state@[i])')
    d.before('let outputs = circuit', '''proof {
            assert(base_inputs_pinned(circuit, inputs@, new_start)) by {
                assert forall|j: int| 0 <= j < 16 implies ((#[trigger] inputs@[j]) matches Some(t) ==> circuit.bound(t)) by {
                    if j < RATE { assert(circuit.bound(self.state@[j])); }
                }
            }
        }''')
    return d


def build():
    u = Unit('bind', ['C06'])
    u.rlimit = 80
    u.assume('bus exposure of one permutation row (ext_perm_post / base_perm_post): transcribed from ops/poseidon_perm/builder.rs add_poseidon_perm_inner/_base_inner, '
             'executor.rs preprocess_outputs + num_exposed_outputs, poseidon2-circuit-air output interactions (0..RATE_EXT only) -- ASSUMED')
    u.assume('taint rules of builder primitives: constants and public inputs are pinned; add/sub/mul/mul_add of pinned operands are pinned; '
             'recompose of pinned coefficients is pinned; the base-coefficient decomposition of a pinned element is pinned (coefficients base-field constrained) -- ASSUMED')
    u.assume('D=1 path: no other sponge-table row is emitted between two permutations of one challenger (chain flag is preserved by every non-permutation builder op; '
             'call sites in recursion/src/verifier interleaving MMCS rows are outside this unit)')
    u.assume('geometry: the permutation configuration fits WIDTH/RATE (geom_ok); permutation tables enabled (otherwise the real code panics)')
    u.text(open(os.path.join(HERE, 'gadget_prelude.rs')).read())
    u.text(CHAL_STUBS)
    F = 'recursion/src/challenger/circuit.rs'
    st = extract_item(F, r'pub struct CircuitChallenger<')
    st = re.sub(r'(\n\s+)(\w+):', r'\1pub \2:', st)
    u.text('verus! {\n' + st + '\n}')
    u.text(PERM)

    CB = 'circuit/src/builder/circuit_builder.rs'
    CBIMPL = r'impl<F> CircuitBuilder<F>'
    w1 = ext_wrapper(u, CB, CBIMPL, 'add_poseidon2_perm_for_challenger', 'Poseidon2PermCall')
    w2 = ext_wrapper(u, CB, CBIMPL, 'add_poseidon1_perm_for_challenger', 'Poseidon1PermCall')
    w3 = base_wrapper(u, CB, CBIMPL, 'add_poseidon2_perm_for_challenger_base')
    w4 = base_wrapper(u, CB, CBIMPL, 'add_poseidon1_perm_for_challenger_base')
    u.text('verus! {\nimpl<F: Field> CircuitBuilder<F> {')
    for f in (w1, w2, w3, w4):
        u.emit(f)
    u.text('}\n}')

    IMPL = r'^impl<const WIDTH: usize, const RATE: usize, C: ChallengerPermConfig> CircuitChallenger<WIDTH, RATE, C>$'
    TIMPL = r'RecursiveChallenger<BF, EF> for CircuitChallenger<WIDTH, RATE, C>'
    d1 = duplex_ext(u, F, IMPL, 'duplexing_ext', 'poseidon2_config', 'Poseidon2Config', 'add_poseidon2_perm_for_challenger')
    d2 = duplex_ext(u, F, IMPL, 'duplexing_ext_p1', 'poseidon1_config', 'Poseidon1Config', 'add_poseidon1_perm_for_challenger')
    d3 = duplex_base(u, F, IMPL, 'duplexing_base', 'poseidon2_config', 'Poseidon2Config')
    d4 = duplex_base(u, F, IMPL, 'duplexing_base_p1', 'poseidon1_config', 'Poseidon1Config')

    # ---------------------------------------------------------------- the public operations keep the taint invariant
    FRAME = 'final(circuit).extends(old(circuit)) && final(self).config == old(self).config'
    i = common(u.extract(F, IMPL, 'init', 'CircuitChallenger::init'))
    i.set_sig('R11', 'fn init<EF: ExtX>(&mut self, circuit: &mut CircuitBuilder<EF>)')
    i.requires('inv', 'old(self).tinv(old(circuit), false)')
    i.ensures('inv', 'final(self).tinv(final(circuit), false) && final(self).initialized')
    i.ensures('frame', FRAME + ' && final(self).input_buffer == old(self).input_buffer && final(self).output_buffer == old(self).output_buffer')
    i.at_end('proof { lemma_bound_extends(old(circuit), circuit, self.input_buffer@); lemma_bound_extends(old(circuit), circuit, self.output_buffer@); }')

    c = common(u.extract(F, TIMPL, 'clear', 'CircuitChallenger::clear'))
    c.set_sig('R11', 'fn clear<EF: ExtX>(&mut self, circuit: &mut CircuitBuilder<EF>)')
    c.requires('geom', 'old(self).geom::<EF>() && perm_ops_enabled()')
    c.ensures('inv', 'final(self).tinv(final(circuit), false) && final(self).initialized')
    c.ensures('frame', FRAME)

    d = common(u.extract(F, IMPL, 'duplexing', 'CircuitChallenger::duplexing'))
    d.set_sig('R11', 'fn duplexing<EF: ExtX>(&mut self, circuit: &mut CircuitBuilder<EF>)')
    rw_duplexing(d)
    d.attr('#[verifier::loop_isolation(false)]')
    d.requires('inv', 'old(self).tinv(old(circuit), true)')
    d.ensures('every_buffered_output_is_pinned', 'final(self).tinv(final(circuit), false) && final(self).initialized && final(self).output_buffer@.len() == RATE')
    d.ensures('frame', FRAME)
    d.at_start('proof { self.config.some_perm(); }')
    KEEP = 'self.config == old(self).config && self.duplexed_once == old(self).duplexed_once && self.initialized && self.input_buffer == old(self).input_buffer && self.output_buffer == old(self).output_buffer'
    d.loop('for i in 0..self.input_buffer.len()', invariants=[
        ('shape', 'self.state@.len() == WIDTH && ' + KEEP),
        ('pinned', 'self.state_pinned(circuit)'),
    ])
    d.before('self.state[i] = val;', 'let ghost st_b = self.state@; proof { assert(circuit.bound(self.input_buffer@[i as int])); }', nth=0)
    d.after('self.state[i] = val;', """proof {
                assert forall|k: int| 0 <= k < self.state@.len() && st_b.len() == self.state@.len() && (k < RATE || !cfg_base(&self.config))
                    implies circuit.bound(#[trigger] self.state@[k]) by { if k != i { assert(circuit.bound(st_b[k])); } }
            }""", nth=0)
    d.before('let zero = circuit.define_const(EF::zero());', 'let ghost circ_z = *circuit;')
    d.after('let zero = circuit.define_const(EF::zero());', """proof {
                assert forall|k: int| 0 <= k < self.state@.len() && (k < RATE || !cfg_base(&self.config)) implies circuit.bound(#[trigger] self.state@[k]) by { assert(circ_z.bound(self.state@[k])); }
            }""")
    d.loop('for j_ in num_absorbed..RATE', invariants=[
        ('shape', 'self.state@.len() == WIDTH && self.input_buffer@.len() == 0 && self.config == old(self).config && self.duplexed_once == old(self).duplexed_once && self.initialized && self.output_buffer == old(self).output_buffer'),
        ('pinned', 'self.state_pinned(circuit)'),
    ])
    d.before('self.state[j_] = zero;', 'let ghost st_b = self.state@;')
    d.after('self.state[j_] = zero;', """proof {
                assert forall|k: int| 0 <= k < self.state@.len() && (k < RATE || !cfg_base(&self.config))
                    implies circuit.bound(#[trigger] self.state@[k]) by { if k != j_ { assert(circuit.bound(st_b[k])); } }
            }""")
    d.before('let length_tag = circuit.define_const', 'let ghost circ_t = *circuit;')
    d.after('self.state[RATE] = circuit.add(self.state[RATE], length_tag);', """proof {
                assert forall|k: int| 0 <= k < self.state@.len() implies circuit.bound(#[trigger] self.state@[k]) by {
                    if k != RATE { assert(circ_t.bound(self.state@[k])); }
                }
            }""")
    d.rewrite('SPEC-ghost-split', 'self.state[RATE] = circuit.add(self.state[RATE], length_tag);',
              'let ghost st_t = self.state@; proof { assert(circ_t.bound(st_t[RATE as int])); } let t_ = circuit.add(self.state[RATE], length_tag); self.state[RATE] = t_;')
    d.before('self.output_buffer.clear();', 'let ghost circ_e = *circuit;')
    d.at_end("""proof {
            assert forall|k: int| 0 <= k < self.output_buffer@.len() implies circuit.bound(#[trigger] self.output_buffer@[k]) by {
                assert(self.output_buffer@[k] == self.state@[k]);
            }
        }""")

    o = common(u.extract(F, TIMPL, 'observe', 'CircuitChallenger::observe'))
    o.set_sig('R11', 'fn observe<EF: ExtX>(&mut self, circuit: &mut CircuitBuilder<EF>, value: Target)')
    o.requires('inv', 'old(self).tinv(old(circuit), false) && old(circuit).bound(value)')
    o.ensures('inv', 'final(self).tinv(final(circuit), false)')
    o.ensures('frame', FRAME)
    o.after('self.input_buffer.push(value);', """proof {
            assert forall|k: int| 0 <= k < self.input_buffer@.len() implies circuit.bound(#[trigger] self.input_buffer@[k]) by {
                if k < self.input_buffer@.len() - 1 { assert(circuit.bound(self.input_buffer@.drop_last()[k])); }
            }
        }""")

    sm = common(u.extract(F, TIMPL, 'sample', 'CircuitChallenger::sample'))
    sm.set_sig('R11', 'fn sample<EF: ExtX>(&mut self, circuit: &mut CircuitBuilder<EF>) -> Target')
    sm.requires('inv', 'old(self).tinv(old(circuit), false)')
    sm.ensures('sampled_value_is_pinned', 'final(circuit).bound(ret)')
    sm.ensures('inv', 'final(self).tinv(final(circuit), false)')
    sm.ensures('frame', FRAME)
    sm.before('self.output_buffer .pop()', """let ghost ob = self.output_buffer@;
        proof { assert(ob.len() > 0); assert(circuit.bound(ob.last())); assert forall|k: int| 0 <= k < ob.len() - 1 implies circuit.bound(#[trigger] ob.drop_last()[k]) by { assert(circuit.bound(ob[k])); } }""")

    u.text('verus! {\nimpl<const WIDTH: usize, const RATE: usize, C: ChallengerPermConfig> CircuitChallenger<WIDTH, RATE, C> {')
    for f in (d1, d2, d3, d4, i, c, d, o, sm):
        u.emit(f)
    u.text('}\n}')
    return u
