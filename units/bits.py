"""Unit `bits` (C12): bit decompositions.  Real text: CircuitBuilder::{reconstruct_index_from_bits, decompose_to_bits}
(circuit/src/builder/circuit_builder.rs).  Gadget contract: if every asserted constraint holds (`sat`) then each bit target is
0/1 and the weighted sum equals the decomposed value.  Pure-arithmetic uniqueness lemma: such a decomposition is THE canonical
one provided 2^n_bits <= P; that proviso is the obligation each caller must discharge (see unit chal / sample_bits)."""
import os

from vf.unit import Unit

HERE = os.path.dirname(os.path.abspath(__file__))

SPEC = r'''
verus! {
global size_of usize == 8;
#[derive(Debug)]
pub struct CircuitBuilderError { pub _p: () }
impl CircuitBuilderError {
    #[verifier::external_body] pub fn too_many_bits(expected: usize, n_bits: usize) -> Self { unimplemented!() }
    #[verifier::external_body] pub fn missing_output() -> Self { unimplemented!() }
}
pub struct BinaryDecompositionHint { pub _p: () }
impl BinaryDecompositionHint { pub fn new() -> Self { BinaryDecompositionHint { _p: () } } }
#[derive(Clone, Copy)]
pub struct NonPrimitiveOpId(pub u32);

pub uninterp spec fn sp_ext_bits<F: Field>() -> nat;          // F::bits()  (extension field)
pub uninterp spec fn sp_bf_bits<BF>() -> nat;                 // BF::bits() (base field)
pub uninterp spec fn sp_dimension<F: Field>() -> nat;         // F::DIMENSION
/// the constant e_i * 2^j lifted to F (i-th canonical basis element times a base-field power of two)
pub uninterp spec fn basis_pow2<F: Field>(i: nat, j: nat) -> F;

pub trait BfX: Sized { fn bits() -> (r: usize) ensures r == sp_bf_bits::<Self>(), 1 <= r <= 64; }
pub trait ExtBits: FieldX {
    fn bits() -> (r: usize) ensures r == sp_ext_bits::<Self>(), r < 0x1_0000_0000;
    /// replaces the 4-line native construction `e_i = from_basis_coefficients_slice(unit vector i); e_i * BF::from_u64(1 << j)`
    fn basis_pow2_const<BF>(i: usize, j: usize) -> (r: Self)
        requires
            i < sp_dimension::<Self>(),
            j < sp_bf_bits::<BF>(),
        ensures r == basis_pow2::<Self>(i as nat, j as nat);
    /// F::bits() never exceeds DIMENSION * BF::bits()
    proof fn ext_bits_bound<BF>() ensures sp_ext_bits::<Self>() <= sp_dimension::<Self>() * sp_bf_bits::<BF>();
}

/// sum_k bit_k * (e_{k / W} * 2^{k mod W}),  W = BF::bits()
pub open spec fn weighted_sum<F: Field>(b: Seq<F>, w: nat) -> F decreases b.len() {
    if b.len() == 0 || w == 0 { F::fzero() }
    else { b.last().fmul(basis_pow2::<F>((b.len() - 1) as nat / w, (b.len() - 1) as nat % w)).fadd(weighted_sum(b.drop_last(), w)) }
}
pub open spec fn all_boolean<F: Field>(b: Seq<F>) -> bool {
    forall|k: int| 0 <= k < b.len() ==> (#[trigger] b[k]) == F::fzero() || b[k] == F::fone()
}

impl<F: Field> CircuitBuilder<F> {
    #[verifier::external_body] pub fn push_scope(&mut self, s: &str) ensures *final(self) == *old(self) {}
    #[verifier::external_body] pub fn pop_scope(&mut self) ensures *final(self) == *old(self) {}
    /// hint op: n fresh outputs whose values are NOT constrained by anything
    #[verifier::external_body]
    pub fn push_unconstrained_op(&mut self, input_exprs: Vec<Vec<ExprId>>, n_outputs: usize, hint: BinaryDecompositionHint, label: &'static str)
        -> (r: (NonPrimitiveOpId, ExprId, Vec<Option<ExprId>>))
        ensures final(self).extends_pure(old(self)), r.2@.len() == n_outputs,
                forall|k: int| 0 <= k < n_outputs ==> ((#[trigger] r.2@[k]) matches Some(e) && final(self).has(e))
    { unimplemented!() }
}

// ------------------------------------------------------------------------------------------------
// Uniqueness (pure arithmetic over the integers): a boolean vector of n bits whose value is congruent
// to x modulo P, with 2^n <= P and 0 <= x < P, is the binary expansion of x.
// ------------------------------------------------------------------------------------------------
pub open spec fn p2(n: nat) -> int decreases n { if n == 0 { 1 } else { 2 * p2((n - 1) as nat) } }
pub open spec fn bits_value(b: Seq<int>) -> int decreases b.len() {
    if b.len() == 0 { 0 } else { bits_value(b.drop_last()) + b.last() * p2((b.len() - 1) as nat) }
}
pub open spec fn int_boolean(b: Seq<int>) -> bool { forall|k: int| 0 <= k < b.len() ==> (#[trigger] b[k]) == 0 || b[k] == 1 }

pub proof fn lemma_bits_value_range(b: Seq<int>)
    requires int_boolean(b)
    ensures 0 <= bits_value(b) < p2(b.len())
    decreases b.len()
{
    if b.len() > 0 {
        assert(int_boolean(b.drop_last())) by {
            assert forall|k: int| 0 <= k < b.drop_last().len() implies (#[trigger] b.drop_last()[k]) == 0 || b.drop_last()[k] == 1 by { assert(b.drop_last()[k] == b[k]); }
        }
        lemma_bits_value_range(b.drop_last());
        assert(b.last() == 0 || b.last() == 1) by { assert(b[b.len() - 1] == 0 || b[b.len() - 1] == 1); }
        let n = (b.len() - 1) as nat;
        assert(p2(b.len()) == 2 * p2(n));
        assert(b.drop_last().len() == n);
        assert(bits_value(b) == bits_value(b.drop_last()) + b.last() * p2(n));
        assert(b.last() * p2(n) == 0 || b.last() * p2(n) == p2(n));
    }
}
/// C12 uniqueness: under 2^n <= P the only value a boolean n-bit vector congruent to x can have is x itself
pub proof fn lemma_canonical_unique(b: Seq<int>, x: int, p: int)
    requires int_boolean(b), 0 <= x < p, p2(b.len()) <= p, (bits_value(b) - x) % p == 0
    ensures bits_value(b) == x
{
    lemma_bits_value_range(b);
    let d = bits_value(b) - x;
    assert(-p < d < p);
    if d != 0 {
        if d > 0 { assert(d % p == d) by (nonlinear_arith) requires 0 < d < p; }
        else { assert(d % p == d + p) by (nonlinear_arith) requires -p < d < 0; }
    }
}
/// and two boolean vectors of the same length with the same value are equal (so the bits themselves are pinned)
pub proof fn lemma_bits_injective(a: Seq<int>, b: Seq<int>)
    requires int_boolean(a), int_boolean(b), a.len() == b.len(), bits_value(a) == bits_value(b)
    ensures a == b
    decreases a.len()
{
    if a.len() > 0 {
        let n = (a.len() - 1) as nat;
        assert(int_boolean(a.drop_last())) by { assert forall|k: int| 0 <= k < n implies (#[trigger] a.drop_last()[k]) == 0 || a.drop_last()[k] == 1 by { assert(a.drop_last()[k] == a[k]); } }
        assert(int_boolean(b.drop_last())) by { assert forall|k: int| 0 <= k < n implies (#[trigger] b.drop_last()[k]) == 0 || b.drop_last()[k] == 1 by { assert(b.drop_last()[k] == b[k]); } }
        lemma_bits_value_range(a.drop_last());
        lemma_bits_value_range(b.drop_last());
        assert(a.last() == 0 || a.last() == 1) by { assert(a[n as int] == 0 || a[n as int] == 1); }
        assert(b.last() == 0 || b.last() == 1) by { assert(b[n as int] == 0 || b[n as int] == 1); }
        assert(a.last() == b.last());
        lemma_bits_injective(a.drop_last(), b.drop_last());
        assert(a =~= a.drop_last().push(a.last()));
        assert(b =~= b.drop_last().push(b.last()));
    } else {
        assert(a =~= b);
    }
}
} // verus!
'''


def build():
    u = Unit('bits', ['C12'])
    u.rlimit = 80
    u.assume('builder arithmetic/assertion contracts as in unit gad (assumed); hint outputs are unconstrained fresh targets')
    u.assume('the constant e_i * 2^j is an uninterpreted field element basis_pow2(i, j) (native construction of 4 lines replaced by one stub call, R11)')
    u.assume('64-bit usize; BF::bits() in 1..=64; F::bits() <= DIMENSION * BF::bits()')
    u.text(open(os.path.join(HERE, 'gadget_prelude.rs')).read())
    u.text(SPEC)
    CB = 'circuit/src/builder/circuit_builder.rs'
    IMPL = r'impl<F> CircuitBuilder<F>'

    r = u.extract(CB, IMPL, 'reconstruct_index_from_bits', 'CircuitBuilder::reconstruct_index_from_bits')
    r.set_sig('R11', 'fn reconstruct_index_from_bits<BF: BfX>(&mut self, bits: &[ExprId]) -> Result<ExprId, CircuitBuilderError>')
    r.rewrite('R8', 'CircuitBuilderError::BinaryDecompositionTooManyBits { expected: F::bits(), n_bits: bits.len(), }', 'CircuitBuilderError::too_many_bits(F::bits(), bits.len())')
    r.rewrite_re('R11', r'\bF::ZERO\b', 'F::zero()')
    r.rewrite('R5', 'for (i, chunk) in bits.chunks(BF::bits()).enumerate() {',
              'let w_ = BF::bits(); let nch_ = (bits.len() + w_ - 1) / w_; for i in 0..nch_ { let lo_ = i * w_; let hi_ = if lo_ + w_ < bits.len() { lo_ + w_ } else { bits.len() }; let chunk = &bits[lo_..hi_];')
    r.rewrite('R11', 'let mut e_i = vec![BF::ZERO; F::DIMENSION]; e_i[i] = BF::ONE; let e_i = F::from_basis_coefficients_slice(&e_i).expect("`basis` is of size `F::DIMENSION`");', '')
    r.rewrite('R5', 'for (j, &b) in chunk.iter().enumerate() {', 'for j in 0..chunk.len() { let b = chunk[j];')
    r.rewrite('R11', 'self.define_const(e_i * BF::from_u64(1 << j))', 'self.define_const(F::basis_pow2_const::<BF>(i, j))')
    r.requires('allocated', 'old(self).has_all(bits@)')
    r.ensures('frame', 'final(self).extends(old(self))')
    r.ensures('too_many_bits_is_error', 'ret is Ok <==> bits@.len() <= sp_ext_bits::<F>()')
    r.ensures('sat_means_boolean_and_sum', '''ret matches Ok(t) ==> final(self).has(t) && (final(self).sat@ ==>
            all_boolean(old(self).vals_of(bits@)) && final(self).val(t) == weighted_sum(old(self).vals_of(bits@), sp_bf_bits::<BF>()))''')
    r.before('let w_ = BF::bits();', '''let ghost bv = old(self).vals_of(bits@); let ghost W = sp_bf_bits::<BF>();
        let ghost mut cnt: int = 0;
        proof { F::ext_bits_bound::<BF>(); assert(bv.take(0) =~= Seq::<F>::empty()); }''')
    r.after('let nch_ = (bits.len() + w_ - 1) / w_;', 'proof { assert(nch_ == 0 ==> bits@.len() == 0) by (nonlinear_arith) requires nch_ == (bits@.len() + w_ - 1) / (w_ as int), w_ >= 1; assert(0 * (w_ as int) == 0); assert(cnt == 0 && cnt <= bits@.len()); }')
    r.loop('for i in 0..nch_', invariants=[
        ('shape', 'W == sp_bf_bits::<BF>() && w_ == W && 1 <= w_ <= 64 && nch_ == (bits@.len() + w_ - 1) / (w_ as int) && bits@.len() <= sp_ext_bits::<F>() && sp_ext_bits::<F>() <= sp_dimension::<F>() * W && bits@.len() < 0x1_0000_0000 && bv.len() == bits@.len()'),
        ('frame', 'self.extends(old(self)) && self.has(acc) && old(self).has_all(bits@) && bv == old(self).vals_of(bits@)'),
        ('cnt', '0 <= cnt <= bits@.len() && (i < nch_ ==> cnt == i * w_) && (i >= nch_ ==> cnt == bits@.len())'),
        ('done', 'self.sat@ ==> old(self).sat@ && all_boolean(bv.take(cnt)) && self.val(acc) == weighted_sum(bv.take(cnt), W)'),
    ])
    r.loop('for j in 0..chunk.len()', invariants=[
        ('shape', 'W == sp_bf_bits::<BF>() && cnt == lo_ && bv.len() == bits@.len() && j <= hi_ - lo_ && chunk@.len() == hi_ - lo_ && (hi_ == lo_ + w_ || hi_ == bits@.len()) && w_ == W && 1 <= w_ <= 64 && i < nch_ && lo_ == i * w_ && lo_ < bits@.len() && hi_ <= bits@.len() && hi_ - lo_ <= w_ && chunk@ == bits@.subrange(lo_ as int, hi_ as int) && i < sp_dimension::<F>()'),
        ('frame', 'self.extends(old(self)) && self.has(acc) && old(self).has_all(bits@) && bv == old(self).vals_of(bits@)'),
        ('done', 'self.sat@ ==> old(self).sat@ && all_boolean(bv.take(lo_ + j)) && self.val(acc) == weighted_sum(bv.take(lo_ + j), W)'),
    ])
    r.rewrite('SPEC', '{ let lo_ = i * w_;', '''{ proof {
                assert(i * w_ < bits@.len()) by (nonlinear_arith) requires i < nch_, nch_ == (bits@.len() + w_ - 1) / (w_ as int), w_ >= 1;
            } let lo_ = i * w_;''')
    r.after('let chunk = &bits[lo_..hi_];', '''proof {
                assert(i < sp_dimension::<F>()) by (nonlinear_arith) requires lo_ == i * w_, lo_ < bits@.len(), bits@.len() <= sp_dimension::<F>() * W, w_ == W, w_ >= 1;
            }''')
    r.after('let b = chunk[j];', '''let ghost k = (lo_ + j) as int; let ghost pre_sat = self.sat@;
                proof {
                    assert(j < chunk@.len());
                    assert(chunk@.len() <= w_);
                    assert(b == bits@[k]);
                    assert(old(self).has(bits@[k]));
                    assert(k / (w_ as int) == i && k % (w_ as int) == j) by (nonlinear_arith) requires k == i * w_ + j, 0 <= j < w_, i >= 0;
                }''')
    r.after('acc = self.mul_add(b, pow2, acc);', '''proof {
                    assert(bv.take(k + 1).drop_last() =~= bv.take(k));
                    assert(bv.take(k + 1).last() == bv[k]);
                    assert(self.sat@ ==> all_boolean(bv.take(k + 1))) by {
                        if self.sat@ { assert forall|q: int| 0 <= q < k + 1 implies (#[trigger] bv.take(k + 1)[q]) == F::fzero() || bv.take(k + 1)[q] == F::fone() by {
                            if q < k { assert(bv.take(k)[q] == bv[q]); } } }
                    }
                }''')
    r.after_enclosing_block('acc = self.mul_add(b, pow2, acc);', '''proof {
                cnt = hi_ as int;
                assert(i * w_ + w_ == (i + 1) * w_) by (nonlinear_arith);
                assert(i + 1 < nch_ ==> (i + 1) * w_ < bits@.len()) by (nonlinear_arith) requires nch_ == (bits@.len() + w_ - 1) / (w_ as int), w_ >= 1, i >= 0;
                assert(i + 1 >= nch_ ==> (i + 1) * w_ >= bits@.len()) by (nonlinear_arith) requires nch_ == (bits@.len() + w_ - 1) / (w_ as int), w_ >= 1, i >= 0;
            }''')
    r.before('self.pop_scope(); Ok(acc)', '''proof {
            assert(nch_ * w_ >= bits@.len()) by (nonlinear_arith) requires nch_ == (bits@.len() + w_ - 1) / (w_ as int), w_ >= 1;
            assert(bv.take(bits@.len() as int) =~= bv);
        }''')

    d = u.extract(CB, IMPL, 'decompose_to_bits', 'CircuitBuilder::decompose_to_bits')
    d.set_sig('R11', 'fn decompose_to_bits<BF: BfX>(&mut self, x: ExprId, n_bits: usize) -> Result<Vec<ExprId>, CircuitBuilderError>')
    d.rewrite('R8', 'CircuitBuilderError::BinaryDecompositionTooManyBits { expected: BF::bits(), n_bits, }', 'CircuitBuilderError::too_many_bits(BF::bits(), n_bits)')
    d.rewrite('R6', '''let bits: Vec<ExprId> = self .push_unconstrained_op( vec![vec![x]], n_bits, binary_decomposition_hint, "decompose_to_bits", ) .2 .into_iter() .collect::<Option<Vec<_>>>() .ok_or(CircuitBuilderError::MissingOutput)?;''',
              '''let outs_ = self.push_unconstrained_op(vec![vec![x]], n_bits, binary_decomposition_hint, "decompose_to_bits").2;
        let mut bits: Vec<ExprId> = Vec::new();
        for q_ in 0..outs_.len() { match outs_[q_] { Some(e_) => { bits.push(e_); } None => { return Err(CircuitBuilderError::missing_output()); } } }''')
    d.rewrite('R11', 'self.reconstruct_index_from_bits(&bits)?', 'self.reconstruct_index_from_bits::<BF>(&bits)?')
    d.requires('allocated', 'old(self).has(x)')
    d.ensures('frame', 'final(self).extends(old(self))')
    d.ensures('sat_means_boolean_bits_summing_to_x', '''ret matches Ok(v) ==> v@.len() == n_bits && final(self).has_all(v@) && (final(self).sat@ ==>
            all_boolean(final(self).vals_of(v@)) && weighted_sum(final(self).vals_of(v@), sp_bf_bits::<BF>()) == old(self).val(x))''')
    d.loop('for q_ in 0..outs_.len()', invariants=[
        ('frame', 'self.extends_pure(old(self)) && outs_@.len() == n_bits'),
        ('outs', 'forall|k: int| 0 <= k < n_bits ==> ((#[trigger] outs_@[k]) matches Some(e) && self.has(e))'),
        ('bits', 'bits@.len() == q_ && self.has_all(bits@)'),
    ])
    d.before('let reconstructed = self.reconstruct_index_from_bits::<BF>(&bits)?;', 'let ghost pre = *self; proof { assert(self.has(x)); }')
    d.after('let reconstructed = self.reconstruct_index_from_bits::<BF>(&bits)?;', 'let ghost mid = *self;')
    d.before('self.pop_scope(); Ok(bits)', '''proof {
            lemma_vals_of_extends2(&pre, &mid, bits@);
            lemma_vals_of_extends2(&mid, self, bits@);
            assert(old(self).has(x));
            assert(mid.val(x) == old(self).val(x));
        }''')
    u.text('''verus! {
pub proof fn lemma_vals_of_extends2<F: Field>(a: &CircuitBuilder<F>, b: &CircuitBuilder<F>, s: Seq<ExprId>)
    requires b.extends(a), a.has_all(s)
    ensures b.has_all(s), b.vals_of(s) == a.vals_of(s)
{
    assert forall|i: int| 0 <= i < s.len() implies b.has(#[trigger] s[i]) && b.val(s[i]) == a.val(s[i]) by { assert(a.has(s[i])); }
    assert(b.vals_of(s) =~= a.vals_of(s));
}
impl<F: ExtBits> CircuitBuilder<F> {''')
    u.emit(r)
    u.emit(d)
    u.text('}\n}')
    return u
