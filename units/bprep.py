"""Unit `bprep` (C15): the preprocessed opening round of the batch-STARK recursive verifier -- recursion/src/verifier/batch_stark.rs verify_batch_circuit, body of the loop
`for (matrix_index, &inst_idx) in global.matrix_to_instance.iter().enumerate()` (R13 slice).  A proof whose claimed degree for an instance with preprocessed columns differs from the
degree in the verifier's common data (or whose matrix ordering differs) must be rejected with InvalidProofShape: the preprocessed columns are opened over the domain of the COMMITTED
degree, at zeta and zeta * g(trace domain); nothing is opened for a malformed instance."""
import re

from vf.extract import ExtractError
from vf.unit import Unit, unok_or_else_q
from units.openin import slice_loop_body

PRELUDE = r'''
#![allow(unused_imports, unused_variables, dead_code, unused_mut, unused_parens)]
use vstd::prelude::*;
verus! {
global size_of usize == 8;
#[derive(Clone, Copy, PartialEq, Eq, Structural)] pub struct ExprId(pub u32);
pub type Target = ExprId;
pub struct OpaqueString { pub _p: () }
#[verifier::external_body] pub fn errmsg() -> OpaqueString { unimplemented!() }
pub enum VerificationError { InvalidProofShape(OpaqueString), Other }
/// a two-adic coset domain as the verifier handles it (opaque; `natural_domain_for_degree(n)` is a function of n)
#[derive(Clone, Copy, PartialEq, Eq, Structural)] pub struct Dom(pub u64);
pub uninterp spec fn nat_dom(n: int) -> Dom;
pub uninterp spec fn dom_gen(d: Dom) -> Fv;
pub open spec fn pow2i(k: int) -> int decreases k { if k <= 0 { 1 } else { 2 * pow2i(k - 1) } }
pub struct PcsStub { pub _p: () }
impl PcsStub {
    #[verifier::external_body] pub fn natural_domain_for_degree(&self, n: usize) -> (r: Dom) ensures r == nat_dom(n as int) { unimplemented!() }
}
#[derive(Clone, Copy, PartialEq, Eq, Structural)] pub struct Fv(pub u64);
pub uninterp spec fn fv_mul(a: Fv, b: Fv) -> Fv;
/// `trace_domain_generator(dom)`: the generator of the trace domain, or an error for a degenerate domain
#[verifier::external_body]
pub fn trace_domain_generator(d: &Dom) -> (r: Result<Fv, VerificationError>) ensures r matches Ok(g) ==> g == dom_gen(*d) { unimplemented!() }
pub struct CircuitBuilder { pub vals: Ghost<Map<ExprId, Fv>> }
impl CircuitBuilder {
    pub open spec fn has(&self, e: ExprId) -> bool { self.vals@.dom().contains(e) }
    pub open spec fn val(&self, e: ExprId) -> Fv { self.vals@[e] }
    pub open spec fn extends(&self, o: &Self) -> bool { forall|e: ExprId| #[trigger] o.has(e) ==> self.has(e) && self.val(e) == o.val(e) }
    #[verifier::external_body] pub fn define_const(&mut self, v: Fv) -> (r: ExprId) ensures final(self).extends(old(self)), final(self).has(r), final(self).val(r) == v { unimplemented!() }
    #[verifier::external_body] pub fn mul(&mut self, a: ExprId, b: ExprId) -> (r: ExprId) requires old(self).has(a), old(self).has(b)
        ensures final(self).extends(old(self)), final(self).has(r), final(self).val(r) == fv_mul(old(self).val(a), old(self).val(b)) { unimplemented!() }
}
pub struct OpenedValuesTargets { pub preprocessed_local_targets: Option<Vec<Target>>, pub preprocessed_next_targets: Option<Vec<Target>> }
pub struct OpenedValuesTargetsWithLookups { pub opened_values_no_lookups: OpenedValuesTargets }
pub struct PreprocessedInstanceMeta { pub matrix_index: usize, pub width: usize, pub degree_bits: usize }
pub struct PreprocessedInstanceMetas { pub instances: Vec<Option<PreprocessedInstanceMeta>> }
pub struct GlobalPreprocessedTargets { pub instances: PreprocessedInstanceMetas, pub matrix_to_instance: Vec<usize> }
pub type Round = Vec<(Dom, Vec<(Target, Vec<Target>)>)>;
/// `vec![(p0, v0), (p1, v1)]`
#[verifier::external_body]
pub fn two_points(a: (Target, Vec<Target>), b: (Target, Vec<Target>)) -> (r: Vec<(Target, Vec<Target>)>) ensures r@ == seq![a, b] { unimplemented!() }
} // verus!
'''


def build():
    u = Unit('bprep', ['C15'])
    u.rlimit = 60
    u.assume('type erasure R11: domains are opaque values, natural_domain_for_degree(n) a function of n; trace_domain_generator / define_const / mul by value; error strings dropped (R8)')
    u.assume('the lengths and index ranges the slice indexes with are those the validation prefix establishes (unit bshape: batch_shape_ok), taken as preconditions; '
             'ext_trace_domains[i] / trace_domains[i] are the natural domains of the claimed (extended / base) degree of instance i, as built right before -- where every claimed degree was already used as a shift width (`1 << ext_db`), so it is < 64 here; the range check of that earlier site is not part of this slice')
    u.text(PRELUDE)
    B = 'recursion/src/verifier/batch_stark.rs'
    f = u.extract(B, '', 'verify_batch_circuit', 'verify_batch_circuit[preprocessed_round]')
    slice_loop_body(f, r'for \(matrix_index, &inst_idx\) in global\.matrix_to_instance\.iter\(\)\.enumerate\(\)\s*\{',
                    'one matrix of the preprocessed commitment: shape / metadata checks and the opening points pushed for it')
    f.body = f.body.rstrip()[:-1] + '\n Ok(()) }'
    f.set_sig('R11', 'fn verify_batch_circuit_pre_round(circuit: &mut CircuitBuilder, pcs: &PcsStub, matrix_index: usize, inst_idx: usize, preprocessed_widths: &Vec<usize>, instances: &Vec<OpenedValuesTargetsWithLookups>, '
                     'degree_bits: &Vec<usize>, global: &GlobalPreprocessedTargets, trace_domains: &Vec<Dom>, ext_trace_domains: &Vec<Dom>, zeta: Target, pre_round: &mut Round) -> Result<(), VerificationError>', sliced=True)
    f.erase_error_messages('VerificationError::InvalidProofShape')
    # R6: `X.as_ref().ok_or_else(|| E)?` -> match with early return
    f.rewrite_re('R6', r'\.as_ref\(\)\s*\.ok_or_else\(', '.as_ref().ok_or_else(', min_count=0)
    unok_or_else_q(f)
    f.rewrite_re('R6', r'match (.+?)\s*\.as_ref\(\) \{ Some\(v_\) => v_,', r'match &\1 { Some(v_) => v_,', min_count=0, flags_dotall=True)
    f.rewrite_re('R7', r'vec!\[\((\w+), (\w+)\.clone\(\)\), \((\w+), (\w+)\.clone\(\)\)\]', r'two_points((\1, \2.clone()), (\3, \4.clone()))', min_count=0)
    f.rewrite_re('R11', r'1 << ', '1usize << ', min_count=0)
    f.requires('shape_established_by_the_validation_prefix', '''inst_idx < preprocessed_widths@.len() && inst_idx < instances@.len() && inst_idx < degree_bits@.len() && inst_idx < global.instances.instances@.len()
        && inst_idx < trace_domains@.len() && inst_idx < ext_trace_domains@.len() && old(circuit).has(zeta)
        && ext_trace_domains@[inst_idx as int] == nat_dom(pow2i(degree_bits@[inst_idx as int] as int))
        && degree_bits@[inst_idx as int] < 64''')
    f.ensures('a_claimed_degree_or_matrix_order_other_than_the_committed_one_is_rejected', '''ret is Ok ==> (global.instances.instances@[inst_idx as int] matches Some(m)
            && m.matrix_index == matrix_index && m.degree_bits == degree_bits@[inst_idx as int])''')
    f.ensures('missing_preprocessed_openings_or_zero_width_are_rejected', '''ret is Ok ==> preprocessed_widths@[inst_idx as int] != 0
            && instances@[inst_idx as int].opened_values_no_lookups.preprocessed_local_targets is Some && instances@[inst_idx as int].opened_values_no_lookups.preprocessed_next_targets is Some''')
    f.ensures('opened_over_the_committed_domain_at_zeta_and_zeta_next', '''ret is Ok ==> final(pre_round)@.len() == old(pre_round)@.len() + 1 && final(pre_round)@.take(old(pre_round)@.len() as int) == old(pre_round)@ && ({
            let e = final(pre_round)@.last(); let m = global.instances.instances@[inst_idx as int]->Some_0; let ov = instances@[inst_idx as int].opened_values_no_lookups;
            &&& e.0 == nat_dom(pow2i(m.degree_bits as int))
            &&& e.1@.len() == 2 && e.1@[0].0 == zeta && e.1@[0].1@ == ov.preprocessed_local_targets->Some_0@ && e.1@[1].1@ == ov.preprocessed_next_targets->Some_0@
            &&& final(circuit).has(e.1@[1].0) && final(circuit).val(e.1@[1].0) == fv_mul(old(circuit).val(zeta), dom_gen(trace_domains@[inst_idx as int]))
        })''')
    f.ensures('nothing_is_opened_for_a_rejected_matrix', 'ret is Err ==> final(pre_round)@ == old(pre_round)@')
    f.ensures('frame', 'final(circuit).extends(old(circuit))')
    if re.search(r'1usize << meta\.degree_bits', f.body):
        f.rewrite_re('SPEC', r'(let pre_domain = )', r'proof { lemma_shl_is_pow2(meta.degree_bits); } \1')
    f.bind_tail('r_', 'proof { assert(pre_round@.take(old(pre_round)@.len() as int) =~= old(pre_round)@); }') if False else None
    u.text('''verus! {
pub proof fn lemma_shl_is_pow2(k: usize) requires k < 64 ensures (1usize << k) == pow2i(k as int) decreases k
{
    if k == 0 { assert((1usize << 0usize) == 1) by (bit_vector); }
    else { lemma_shl_is_pow2((k - 1) as usize); let j = (k - 1) as usize; assert(j < 63 ==> (1usize << ((j + 1) as usize)) == 2 * (1usize << j)) by (bit_vector); }
}
}''')
    u.text('verus! {')
    u.emit(f)
    u.text('}')
    return u
