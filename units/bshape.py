"""Unit `bshape` (C15): the shape-validation prefix of the batch-STARK recursive verifier.

Real text: recursion/src/verifier/batch_stark.rs verify_batch_circuit, truncated (R13) after the per-instance shape loop (before the
challenger is created).  Everything after indexes with the lengths established here.
Contract: the prefix returns Ok exactly for the well-formed shape (instance / public-value / degree / terminal counts equal the AIR count,
common data sized and in range, randomisation present exactly when the PCS is ZK, per instance: preprocessed and trace widths, lookup
terminal presence as the AIR declares, quotient chunk count 2^(log_qd + zk) with chunks of DIMENSION values, random opening of DIMENSION
values) and otherwise an InvalidProofShape / RandomizationError -- never a panic (Verus' own index / arithmetic obligations)."""
import re

from vf.extract import extract_item, match_brace, ExtractError
from vf.unit import Unit, unmap_or, normalize_let_chains
from units.shape import types_from_repo

PRELUDE = r'''
#![allow(unused_imports, unused_variables, dead_code, unused_mut, unused_parens)]
use vstd::prelude::*;
verus! {
global size_of usize == 8;   // standing assumption: 64-bit target
#[derive(Clone, Copy, PartialEq, Eq, Structural)]
pub struct ExprId(pub u32);
pub type Target = ExprId;
pub struct OpaqueString { pub _p: () }
#[verifier::external_body]
pub fn errmsg() -> OpaqueString { unimplemented!() }
pub enum VerificationError { InvalidProofShape(OpaqueString), RandomizationError, Other }
pub uninterp spec fn sp_dim() -> nat;                     // SC::Challenge::DIMENSION
#[verifier::external_body]
pub fn challenge_dimension() -> (r: usize) ensures r == sp_dim() { unimplemented!() }
pub uninterp spec fn sp_pcs_zk() -> bool;                 // SC::Pcs::ZK
#[verifier::external_body]
pub fn pcs_zk() -> (r: bool) ensures r == sp_pcs_zk() { unimplemented!() }
pub struct Lookups { pub _p: () }
pub struct LG { pub _p: () }
/// the configuration: only `is_zk()` (0 or 1) is read by the prefix
pub struct CfgStub { pub zk: usize }
impl CfgStub { pub fn is_zk(&self) -> (r: usize) ensures r == self.zk { self.zk } }
/// RecursiveAir as the prefix sees it
pub trait BAirStub: Sized {
    spec fn sp_width(&self) -> nat;
    spec fn sp_prep_width(&self) -> nat;
    spec fn sp_opens_next(&self) -> bool;
    spec fn sp_declares(&self, pre_w: nat) -> bool;
    spec fn sp_log_qc(&self, pre_w: nat, l: &Lookups, zk: nat) -> nat;
    fn width(air: &Self) -> (r: usize) ensures r == air.sp_width();
    fn opens_trace_next(&self) -> (r: bool) ensures r == self.sp_opens_next();
    fn declares_interactions(&self, pre_w: usize) -> (r: bool) ensures r == self.sp_declares(pre_w as nat);
    /// ASSUMED bound: the number of quotient chunks of an AIR is a small verifier-side constant
    fn get_log_num_quotient_chunks(air: &Self, pre_w: usize, l: &Lookups, zk: usize, g: &LG) -> (r: usize) ensures r == air.sp_log_qc(pre_w as nat, l, zk as nat), r < 32;
}
@@TYPES@@
pub struct OpenedValuesTargetsWithLookups { pub opened_values_no_lookups: OpenedValuesTargets, pub permutation_local_targets: Vec<Target>, pub permutation_next_targets: Vec<Target> }
pub struct BatchOpenedValuesTargets { pub instances: Vec<OpenedValuesTargetsWithLookups> }
pub struct CommitmentTargets { pub random_commit: Option<Opaque> }
pub struct Opaque { pub _p: () }
pub struct BatchProofTargets { pub commitments_targets: CommitmentTargets, pub flattened_opened_values_targets: Opaque, pub opened_values_targets: BatchOpenedValuesTargets,
    pub opening_proof: Opaque, pub lookup_terminals: Vec<Option<Target>>, pub degree_bits: Vec<usize> }
pub struct PreprocessedInstanceMeta { pub matrix_index: usize, pub width: usize, pub degree_bits: usize }
pub struct PreprocessedInstanceMetas { pub instances: Vec<Option<PreprocessedInstanceMeta>> }
pub struct GlobalPreprocessedTargets { pub commitment: Opaque, pub instances: PreprocessedInstanceMetas, pub matrix_to_instance: Vec<usize> }
pub struct CommonDataTargets { pub preprocessed: Option<GlobalPreprocessedTargets>, pub lookups: Vec<Lookups> }

pub open spec fn olen(o: Option<Vec<Target>>) -> nat { match o { Some(v) => v@.len(), None => 0 } }
pub open spec fn pow2i(k: int) -> int decreases k { if k <= 0 { 1 } else { 2 * pow2i(k - 1) } }
pub proof fn lemma_shl_is_pow2(k: usize)
    requires k < 64
    ensures (1usize << k) == pow2i(k as int)
    decreases k
{
    if k == 0 { assert((1usize << 0usize) == 1) by (bit_vector); }
    else { lemma_shl_is_pow2((k - 1) as usize); let j = (k - 1) as usize; assert(j < 63 ==> (1usize << ((j + 1) as usize)) == 2 * (1usize << j)) by (bit_vector); }
}
/// the lookup contexts are those the AIRs declare and every AIR with preprocessed columns is listed in matrix_to_instance (native verify_all_tables rebuilds both from the AIRs)
pub uninterp spec fn common_data_is_the_one_the_airs_give<A>(airs: Seq<A>, c: &CommonDataTargets) -> bool;
pub open spec fn pre_w_of(c: &CommonDataTargets, i: int) -> nat {
    match c.preprocessed { Some(g) => match g.instances.instances@[i] { Some(m) => m.width as nat, None => 0 }, None => 0 }
}
/// the well-formed shape of instance i
pub open spec fn inst_ok<A: BAirStub>(air: &A, ov: &OpenedValuesTargets, pre_w: nat, term: Option<Target>, l: &Lookups, zk: nat) -> bool {
    &&& olen(ov.preprocessed_local_targets) == pre_w && olen(ov.preprocessed_next_targets) == pre_w
    &&& ov.trace_local_targets@.len() == air.sp_width() && ov.trace_next_targets@.len() == (if air.sp_opens_next() { air.sp_width() } else { 0 })
    &&& term.is_some() == air.sp_declares(pre_w)
    &&& ov.quotient_chunks_targets@.len() == pow2i((air.sp_log_qc(pre_w, l, zk) + zk) as int)
    &&& forall|k: int| 0 <= k < ov.quotient_chunks_targets@.len() ==> (#[trigger] ov.quotient_chunks_targets@[k])@.len() == sp_dim()
    &&& (ov.random_targets matches Some(r) ==> r@.len() == sp_dim())
}
/// the well-formed batch shape (what the rest of verify_batch_circuit indexes with)
pub open spec fn batch_shape_ok<A: BAirStub>(airs: Seq<A>, p: &BatchProofTargets, pv: Seq<Vec<Target>>, c: &CommonDataTargets, zk: nat) -> bool {
    let n = airs.len(); let inst = p.opened_values_targets.instances@;
    &&& n > 0 && inst.len() == n && pv.len() == n && p.degree_bits@.len() == n && p.lookup_terminals@.len() == n
    &&& c.lookups@.len() == n
    &&& (c.preprocessed matches Some(g) ==> g.instances.instances@.len() == n && forall|k: int| 0 <= k < g.matrix_to_instance@.len() ==> #[trigger] g.matrix_to_instance@[k] < n)
    &&& (forall|i: int| 0 <= i < n ==> (#[trigger] inst[i]).opened_values_no_lookups.random_targets.is_some() == sp_pcs_zk())
    &&& p.commitments_targets.random_commit.is_some() == sp_pcs_zk()
    &&& forall|i: int| 0 <= i < n ==> inst_ok(&#[trigger] airs[i], &inst[i].opened_values_no_lookups, pre_w_of(c, i), p.lookup_terminals@[i], &c.lookups@[i], zk)
}
} // verus!
'''


def unany(f):
    """R6: `VEC.iter().any(|PAT| COND)` -> `({ let mut anyK_ = false; for aK_ in 0..VEC.len() { let PAT = &VEC[aK_]; if !anyK_ { anyK_ = COND; } } anyK_ })`"""
    k = 0
    while True:
        m = re.search(r'([\w.]+)\s*\.iter\(\)\s*\.any(\()\s*\|([^|]+)\|\s*', f.body)
        if not m:
            break
        close = match_brace(f.body, m.start(2))
        cond = f.body[m.end():close].strip()
        vec, pat = m.group(1), m.group(3).strip()
        new = f'({{ let mut any{k}_ = false; for a{k}_ in 0..{vec}.len() {{ let {pat} = &{vec}[a{k}_]; if !any{k}_ {{ any{k}_ = {cond}; }} }} any{k}_ }})'
        f.body = f.body[:m.start()] + new + f.body[close + 1:]
        k += 1
    if k:
        f.rewrites.append(('R6', f'{k}x `VEC.iter().any(|PAT| COND)` -> flag loop (COND verbatim, evaluated until the flag is set)', ''))
    return f


def build():
    u = Unit('bshape', ['C15'])
    u.rlimit = 100
    u.assume('type erasure R11: SC / Comm / proof generics erased; the AIR seen through width / opens_trace_next / declares_interactions / get_log_num_quotient_chunks only; config through is_zk(); SC::Pcs::ZK an uninterpreted constant')
    u.assume('error message strings dropped (R8); only the error variant is specified')
    u.text(PRELUDE.replace('@@TYPES@@', types_from_repo()))
    B = 'recursion/src/verifier/batch_stark.rs'
    v = u.extract(B, '', 'verify_batch_circuit', 'verify_batch_circuit[validation prefix]')
    # R13: cut after the shape loop (the statement before the challenger is created)
    i = v.body.find('let mut challenger')
    if i < 0:
        raise ExtractError('lost anchor in verify_batch_circuit: `let mut challenger` (end of the validation prefix)')
    dropped = len(v.body) - i
    v.body = v.body[:i] + '\n Ok(quotient_degrees) }'
    v.rewrites.append(('R13', f'validation prefix: body cut before `let mut challenger` ({dropped} chars dropped: transcript, constraint folding, PCS verification); the prefix returns the quotient degrees it computed', ''))
    v.set_sig('R11', 'fn verify_batch_circuit<A: BAirStub>(config: &CfgStub, airs: &[A], proof_targets: &BatchProofTargets, public_values: &[Vec<Target>], common: &CommonDataTargets, lookup_gadget: &LG) -> Result<Vec<usize>, VerificationError>', sliced=True)
    v.erase_error_messages('VerificationError::InvalidProofShape')
    v.rewrite_re('R11', r'SC::Challenge::DIMENSION', 'challenge_dimension()', min_count=0)
    v.rewrite_re('R11', r'SC::Pcs::ZK', 'pcs_zk()', min_count=0)
    v.rewrite_re('R13', r'let pcs = config\.pcs\(\);', '', min_count=0)
    # R1: destructuring of borrowed structs -> one borrow per field (renames kept)
    def undestructure(ty, src_re):
        m = re.search(r'let ' + ty + r' \{([^}]*)\} = ' + src_re + r';', v.body)
        if not m:
            return
        src = re.search(r'= (' + src_re + r');', m.group(0)).group(1).lstrip('&')
        lets = []
        for part in [x.strip() for x in m.group(1).split(',') if x.strip() and x.strip() != '..']:
            if ':' in part:
                fld, nm = [t.strip() for t in part.split(':')]
            else:
                fld = nm = part
            lets.append(f'let {nm} = &{src}.{fld};')
        v.body = v.body[:m.start()] + ' '.join(lets) + v.body[m.end():]
        v.rewrites.append(('R1', f'destructuring `let {ty} {{..}} = {src}` -> one borrow per field', ''))
    undestructure('BatchProofTargets', r'proof_targets')
    undestructure('OpenedValuesTargets', r'&instance\.opened_values_no_lookups')
    v.rewrite_re('R5', r'for \((\w+), \((\w+), (\w+)\)\) in (\w+)\.iter\(\)\.zip\((\w+)\.iter\(\)\)\.enumerate\(\) \{',
                 r'let n_z_ = if \4.len() <= \5.len() { \4.len() } else { \5.len() }; for \1 in 0..n_z_ { let \2 = &\4[\1]; let \3 = &\5[\1];', min_count=0)
    # R6: `if let Some(&bad) = VEC.iter().find(|&&x| COND) { return Err(E); }` -> flag loop
    v.rewrite_re('R6', r'if let Some\(&(\w+)\) = ([\w.\s]+?)\s*\.iter\(\)\s*\.find\(\|&&(\w+)\| ([^)]*\))\)\s*\{',
                 lambda m: f'if ({{ let mut found_ = false; for f_ in 0..{"".join(m.group(2).split())}.len() {{ let {m.group(3)} = {"".join(m.group(2).split())}[f_]; if {m.group(4)} {{ found_ = true; }} }} found_ }}) {{', min_count=0)
    # R6: Option combinators
    v.rewrite_re('R6', r'common\s*\.preprocessed\s*\.as_ref\(\)\s*\.and_then\(\|g\| g\.instances\.instances\[i\]\.as_ref\(\)\.map\(\|m\| m\.width\)\)\s*\.unwrap_or\(0\)',
                 '(match &common.preprocessed { Some(g) => match &g.instances.instances[i] { Some(m) => m.width, None => 0 }, None => 0 })', min_count=0)
    unmap_or(v)
    while True:     # R6: `X.as_ref().is_some_and(|v| COND)` -> `(match X { Some(v) => COND, None => false })`
        m = re.search(r'(\w+)\s*\.as_ref\(\)\s*\.is_some_and(\()\s*\|(\w+)\|\s*', v.body)
        if not m:
            break
        c_ = match_brace(v.body, m.start(2))
        v.body = v.body[:m.start()] + f'(match {m.group(1)} {{ Some({m.group(3)}) => {v.body[m.end():c_].strip()}, None => false }})' + v.body[c_ + 1:]
        v.rewrites.append(('R6', '`X.as_ref().is_some_and(|v| COND)` -> match (COND verbatim)', ''))
    unany(v)
    normalize_let_chains(v)
    v.rewrite_re('R11', r'let quotient_degree = 1 << \(', 'let quotient_degree = 1usize << (', min_count=0)
    v.attr('#[verifier::loop_isolation(false)]')
    ZK = 'config.zk as nat'
    v.requires('zk_flag', 'config.zk <= 1')
    v.ensures('ok_iff_well_formed', f'ret is Ok <==> batch_shape_ok(airs@, proof_targets, public_values@, common, {ZK})')
    v.ensures('H_the_common_datas_preprocessed_widths_are_the_airs_own', 'ret is Ok ==> forall|i: int| 0 <= i < airs@.len() ==> pre_w_of(common, i) == (#[trigger] airs@[i]).sp_prep_width()')
    # open finding (round 17): the lookup contexts (constraints, aux width, challenge layout) and the list of instances opened against the preprocessed commitment come from the companion common data,
    # which on the recursion path is the PROOF's own stark_common: emptied lookup contexts / a shortened matrix_to_instance (with the openings adjusted) build a circuit that never evaluates that table's
    # lookup argument / never opens that instance's preprocessed columns
    v.ensures('H_the_lookup_contexts_and_the_preprocessed_instance_list_are_the_rebuilt_airs_own', 'ret is Ok ==> common_data_is_the_one_the_airs_give(airs@, common)')
    v.ensures('malformed_is_invalid_proof_shape_or_randomization_error', 'ret matches Err(e) ==> (e is InvalidProofShape || e is RandomizationError)')
    FND = 'for f_ in 0..global.matrix_to_instance.len()'
    A0 = 'for a0_ in 0..instances.len()'
    MAIN = 'for i in 0..n_z_'
    A1 = 'for a1_ in 0..quotient_chunks_targets.len()'
    from units.openin import loop_if_present
    loop_if_present(v, FND, invariants=[('found', 'found_ == exists|k: int| 0 <= k < f_ && #[trigger] global.matrix_to_instance@[k] >= airs@.len()')])
    loop_if_present(v, A0, invariants=[('any', 'any0_ == exists|j: int| 0 <= j < a0_ && (#[trigger] instances@[j]).opened_values_no_lookups.random_targets.is_some() != sp_pcs_zk()')])
    loop_if_present(v, A1, invariants=[('any', 'any1_ == exists|j: int| 0 <= j < a1_ && (#[trigger] quotient_chunks_targets@[j])@.len() != sp_dim()')])
    if MAIN in v.body:
        v.after('let quotient_degree = 1usize << (log_qd + config.is_zk());', 'proof { lemma_shl_is_pow2((log_qd + config.zk) as usize); }')
        v.at_loop_end(MAIN, '''proof { assert(inst_ok(&airs@[i as int], &instances@[i as int].opened_values_no_lookups, pre_w_of(common, i as int), lookup_terminals@[i as int], &common.lookups@[i as int], config.zk as nat)); }''')
        loop_if_present(v, MAIN, invariants=[
            ('instances_checked_so_far', f'''n_z_ == airs@.len() && forall|j: int| 0 <= j < i ==> inst_ok(&#[trigger] airs@[j], &instances@[j].opened_values_no_lookups, pre_w_of(common, j), lookup_terminals@[j], &common.lookups@[j], {ZK})'''),
            ('one_degree_per_instance', 'quotient_degrees@.len() == i && log_quotient_degrees@.len() == i && preprocessed_widths@.len() == i'),
        ])
    u.text('verus! {')
    u.emit(v)
    u.text('}')
    return u
