"""Unit `c15guard` (C15): proof-supplied list lengths and degrees that later code indexes / shifts / subtracts with are checked where they enter, so that a malformed proof is
an error and not a panic or a silently shorter transcript.  Real text:
  recursion/src/pcs/fri/targets.rs  get_challenges_circuit (both RecursivePcs impls, whole): one PoW witness per commit phase, 1 + #commit-phases challenges returned
  recursion/src/pcs/fri/verifier.rs open_input[evaluation_points_guard] (R13 slice): the tallest matrix fits the FRI domain before precompute_evaluation_points subtracts
  recursion/src/verifier/batch_stark.rs verify_p3_batch_proof_circuit[allocation_guard] (R13 slice): one public count per opened instance before allocate() asserts it
  recursion/src/pcs/mmcs.rs verify_batch_circuit[cap_split] / verify_batch_circuit_from_extension_opened[cap_split] (R13 slices, NO precondition): the cap length is a proof-supplied list length
  recursion/src/verifier/batch_stark.rs verify_batch_circuit[domains] (R13 slice, NO precondition): the claimed degrees are used as shift widths"""
import re

from vf.extract import ExtractError, match_brace
from vf.unit import Unit, unfor_zip_pairs, normalize_let_chains, unfirst_last_let_else

PRELUDE = r'''
#![allow(unused_imports, unused_variables, dead_code, unused_mut, unused_parens)]
use vstd::prelude::*;
verus! {
global size_of usize == 8;
#[derive(Clone, Copy, PartialEq, Eq, Structural)] pub struct ExprId(pub u32);
pub type Target = ExprId;
pub struct OpaqueString { pub _p: () }
#[verifier::external_body] pub fn errmsg() -> OpaqueString { unimplemented!() }
pub enum VerificationError { InvalidProofShape(OpaqueString), Circuit(CircuitBuilderError), Other }
pub enum CircuitBuilderError { WrongBatchSize { expected: usize, got: usize }, Other }
pub struct CircuitBuilder { pub _p: () }
impl CircuitBuilder {
    #[verifier::external_body] pub fn alloc_const(&mut self, v: Fv, label: &'static str) -> ExprId { unimplemented!() }
}
#[derive(Clone, Copy)] pub struct Fv(pub u64);
#[verifier::external_body] pub fn fv_from_usize(n: usize) -> Fv { unimplemented!() }
/// the in-circuit challenger: every operation may fail only where the real one returns a Result
/// pow_log: the grinding checks made so far, as (required bits, witness) in order (ghost; only check_pow_witness extends it)
pub struct CircuitChallenger { pub pow_log: Ghost<Seq<(usize, Target)>> }
impl CircuitChallenger {
    #[verifier::external_body] pub fn sample_ext(&mut self, c: &mut CircuitBuilder) -> ExprId ensures final(self).pow_log@ == old(self).pow_log@ { unimplemented!() }
    #[verifier::external_body] pub fn observe_slice(&mut self, c: &mut CircuitBuilder, v: &Vec<Target>) ensures final(self).pow_log@ == old(self).pow_log@ { unimplemented!() }
    #[verifier::external_body] pub fn observe_ext_slice(&mut self, c: &mut CircuitBuilder, v: &Vec<Target>) ensures final(self).pow_log@ == old(self).pow_log@ { unimplemented!() }
    #[verifier::external_body] pub fn observe(&mut self, c: &mut CircuitBuilder, v: Target) ensures final(self).pow_log@ == old(self).pow_log@ { unimplemented!() }
    #[verifier::external_body] pub fn check_pow_witness(&mut self, c: &mut CircuitBuilder, bits: usize, w: Target) -> Result<(), CircuitBuilderError>
        ensures final(self).pow_log@ == old(self).pow_log@.push((bits, w)) { unimplemented!() }
}
pub struct Commit { pub _p: () }
impl Commit { #[verifier::external_body] pub fn to_observation_targets(&self) -> Vec<Target> { unimplemented!() } }
pub struct PowWitness { pub witness: Target }
pub struct FriProofTargets { pub commit_phase_commits: Vec<Commit>, pub commit_pow_witnesses: Vec<PowWitness>, pub final_poly: Vec<Target>, pub log_arities: Vec<usize>, pub pow_witness: PowWitness }
pub struct HidingFriProofTargets { pub inner_proof: FriProofTargets }
pub struct FriVerifierParams { pub commit_pow_bits: usize, pub query_pow_bits: usize }
/// the grinding checks the native verifier makes: every commit-phase witness against commit_proof_of_work_bits (in phase order), then the query witness against query_proof_of_work_bits
pub open spec fn commit_pows(fp: &FriProofTargets, bits: usize, n: int) -> Seq<(usize, Target)> { Seq::new(n as nat, |i: int| (bits, fp.commit_pow_witnesses@[i].witness)) }
pub open spec fn native_pows(fp: &FriProofTargets, params: &FriVerifierParams) -> Seq<(usize, Target)> {
    commit_pows(fp, params.commit_pow_bits, fp.commit_pow_witnesses@.len() as int).push((params.query_pow_bits, fp.pow_witness.witness))
}
pub struct OpenedStub { pub _p: () }
pub struct EvalPoints { pub _p: () }
impl EvalPoints { #[verifier::external_body] pub fn new() -> Self { unimplemented!() } }
/// precompute_evaluation_points: precondition = what it subtracts / indexes with (its contract in unit evpts)
#[verifier::external_body]
pub fn precompute_evaluation_points(builder: &mut CircuitBuilder, unique_heights_desc: &Vec<usize>, index_bits: &[Target], log_global_max_height: usize) -> (r: EvalPoints)
    requires unique_heights_desc@.len() >= 1 && unique_heights_desc@[0] <= log_global_max_height
{ unimplemented!() }
pub struct Inst { pub _p: () }
pub struct BatchOpened { pub instances: Vec<Inst> }
pub struct BatchProofStub { pub opened_values: BatchOpened }
pub struct NpEntry { pub public_values: Vec<Fv> }
pub struct ProofStub { pub proof: BatchProofStub, pub non_primitives: Vec<NpEntry>, pub ext_degree: usize }
pub struct CommonStub { pub _p: () }
/// BatchStarkProof::validate (rows, table packing, lane counts: proved in unit meta to be Ok exactly on well-formed metadata)
pub uninterp spec fn proof_metadata_valid(p: &ProofStub) -> bool;
/// every declared row count is small enough for the AIR constructors' size arithmetic and the declared ALU reduction is the one the field supports
pub uninterp spec fn declared_shape_fits_the_air_constructors(p: &ProofStub) -> bool;
pub struct MetaErr { pub _p: () }
impl ProofStub { #[verifier::external_body] pub fn validate(&self) -> (r: Result<(), MetaErr>) ensures r is Ok <==> proof_metadata_valid(self) { unimplemented!() } }

pub struct InputsBuilder { pub _p: () }
impl InputsBuilder {
    /// BatchStarkVerifierInputsBuilder::allocate: "# Panics if air_public_counts.len() does not match the number of instances in the batch proof"
    #[verifier::external_body]
    pub fn allocate(circuit: &mut CircuitBuilder, proof: &BatchProofStub, common: &CommonStub, air_public_counts: &Vec<usize>) -> (r: Self)
        requires air_public_counts@.len() == proof.opened_values.instances@.len()
    { unimplemented!() }
}
pub const NUM_PRIMITIVE_TABLES: usize = 3;
#[verifier::external_body] pub fn zeros_usize(n: usize) -> (r: Vec<usize>) ensures r@.len() == n { unimplemented!() }
pub open spec fn pow2i(k: int) -> int decreases k { if k <= 0 { 1 } else { 2 * pow2i(k - 1) } }
pub open spec fn is_pow2i(n: int) -> bool { exists|k: int| 0 <= k < 64 && #[trigger] pow2i(k) == n }
/// p3_util::log2_strict_usize: panics unless n is a power of two
#[verifier::external_body]
pub fn log2_strict_usize(n: usize) -> (r: usize) requires is_pow2i(n as int) ensures pow2i(r as int) == n, r < 64 { unimplemented!() }
pub struct Dom { pub _p: () }
pub struct PcsStub { pub _p: () }
impl PcsStub { #[verifier::external_body] pub fn natural_domain_for_degree(&self, n: usize) -> Dom { unimplemented!() } }
pub open spec fn pow2z(k: int) -> int decreases k { if k <= 0 { 1 } else { 2 * pow2z(k - 1) } }
pub proof fn lemma_pow2z_pos(k: int) ensures pow2z(k) >= 1 decreases k { if k > 0 { lemma_pow2z_pos(k - 1); } }
impl PcsStub {
    /// natural_domain_for_degree builds TwoAdicMultiplicativeCoset::new(.., log2_strict_usize(n)): it panics ("Not a power of two") on n == 0
    #[verifier::external_body] pub fn natural_domain_for_degree_nz(&self, n: usize) -> Dom requires n != 0 { unimplemented!() }
}
#[verifier::external_body] pub fn shl1_(k: usize) -> (r: usize) requires k < 64 ensures r == pow2z(k as int) { unimplemented!() }
#[verifier::external_body] pub fn shr_(n: usize, k: usize) -> (r: usize) requires k < 64 ensures r == n / (pow2z(k as int) as usize) { unimplemented!() }
pub struct CfgStub { pub zk: usize }
impl CfgStub { pub fn is_zk(&self) -> (r: usize) ensures r == self.zk { self.zk } }
/// the Merkle cap height the verifier was configured with (FriVerifierParams / the MMCS carry none: the circuit takes it from the proof)
pub uninterp spec fn configured_cap_len() -> int;
} // verus!
'''


def challenges_fn(u, container, qual, hiding):
    T = 'recursion/src/pcs/fri/targets.rs'
    f = u.extract(T, container, 'get_challenges_circuit', qual)
    pt = 'HidingFriProofTargets' if hiding else 'FriProofTargets'
    nm = 'proof_targets' if hiding else 'fri_proof'
    f.set_sig('R11', f'fn get_challenges_circuit(circuit: &mut CircuitBuilder, challenger: &mut CircuitChallenger, {nm}: &{pt}, _opened_values: &OpenedStub, params: &FriVerifierParams) -> Result<Vec<Target>, CircuitBuilderError>')
    f.rewrite_re('R11', r'SC::Challenge::from_usize\(', 'fv_from_usize(', min_count=0)
    f.rewrite_re('R5', r'for &(\w+) in &fri_proof\.log_arities \{', r'for la_ in 0..fri_proof.log_arities.len() { let \1 = fri_proof.log_arities[la_];', min_count=0)
    f.rewrite_re('R7', r'let mut betas = Vec::with_capacity\([^;]*\);', 'let mut betas: Vec<Target> = Vec::new();', min_count=0)
    f.rewrite_re('R7', r'let mut challenges = Vec::with_capacity\([^;]*\);', 'let mut challenges: Vec<Target> = Vec::new();', min_count=0)
    f.rewrite_re('R6', r'challenges\.extend\(betas\);', 'let mut betas_ = betas; challenges.append(&mut betas_);', min_count=0)
    f.rewrite_re('R5', r'(\w+)\s*\.\s*(\w+)\s*\.\s*iter\(\)', r'\1.\2.iter()', min_count=0)
    f.rewrite_re('R5', r'\.iter\(\)\s*\.zip\(', '.iter().zip(', min_count=0)
    unfor_zip_pairs(f)
    f.attr('#[verifier::loop_isolation(false)]')
    fp = 'proof_targets.inner_proof' if hiding else 'fri_proof'
    f.ensures('one_pow_witness_per_commit_phase', f'ret is Ok ==> {fp}.commit_pow_witnesses@.len() == {fp}.commit_phase_commits@.len()')
    f.ensures('alpha_and_one_beta_per_commit_phase', f'ret matches Ok(c) ==> c@.len() == 1 + {fp}.commit_phase_commits@.len()')
    # C07 (round 17): WHICH parameter each grinding witness is checked against -- the commit-phase witnesses against commit_pow_bits, the query witness against query_pow_bits, in the native order
    f.ensures('each_grinding_witness_is_checked_against_its_own_parameter', f'ret is Ok ==> final(challenger).pow_log@ =~= old(challenger).pow_log@ + native_pows(&{fp}, params)')
    zl = re.search(r'for (z\d+_) in 0\.\.(n_z\d+_)', f.body)
    if zl:
        f.loop(zl.group(0), invariants=[('one_beta_per_phase_so_far', f'betas@.len() == {zl.group(1)} && {zl.group(2)} == fri_proof.commit_phase_commits@.len()'),
                                        ('grinding_checks_so_far', f'challenger.pow_log@ =~= old(challenger).pow_log@ + commit_pows(fri_proof, params.commit_pow_bits, {zl.group(1)} as int)')])
    if 'for la_ in 0..fri_proof.log_arities.len()' in f.body:
        f.loop('for la_ in 0..fri_proof.log_arities.len()', invariants=[
            ('observing_the_schedule_grinds_nothing', 'challenger.pow_log@ =~= old(challenger).pow_log@ + commit_pows(fri_proof, params.commit_pow_bits, fri_proof.commit_pow_witnesses@.len() as int)')])
    return f


def build():
    u = Unit('c15guard', ['C15'])
    u.rlimit = 40
    u.assume('type erasure R11: challenger / builder / PCS operations are opaque calls that fail only where the real ones return a Result; error strings dropped (R8)')
    u.assume('the slices labelled `NO precondition` take the proof-supplied quantity (cap length, claimed degree) as an arbitrary value: the range of an honest value is not assumed')
    u.text(PRELUDE)
    fns = []
    fns.append(challenges_fn(u, r'impl<SC, Dft, Comm, InputMmcs, RecursiveInputMmcs, RecursiveFriMmcs, FriMmcs> RecursivePcs<', 'TwoAdicFriPcs::get_challenges_circuit', False))
    fns.append(challenges_fn(u, r'impl<SC, Dft, Comm, InputMmcs, RecursiveInputMmcs, RecursiveFriMmcs, FriMmcs, R> RecursivePcs<', 'HidingFriPcs::get_challenges_circuit', True))
    T_ = 'recursion/src/pcs/fri/targets.rs'
    # ---------------------------------------------------------------- verify_circuit[query_index_width] x2: how many index bits a query gets
    # C15: the width of the query index is what ties the proof's folding schedule to the verifier's OWN log_final_poly_len: verify_fri_circuit derives the expected
    # final-polynomial length from (index bits - sum of log_arities - log_blowup), so the bits must be sum(log_arities) + params.log_final_poly_len + log_blowup
    u.text('''verus! {
pub open spec fn seq_sum_(s: Seq<usize>) -> int decreases s.len() { if s.len() == 0 { 0 } else { seq_sum_(s.drop_last()) + s.last() } }
/// `xs.iter().sum::<usize>()` (overflow of the sum is a panic in debug, a wrap in release: the slice requires the sum to fit)
#[verifier::external_body] pub fn iter_sum_(xs: &Vec<usize>) -> (r: usize) requires seq_sum_(xs@) <= usize::MAX ensures r == seq_sum_(xs@) { unimplemented!() }
}''')
    for cont, qual, prf in ((r'impl<SC, Dft, Comm, InputMmcs, RecursiveInputMmcs, RecursiveFriMmcs, FriMmcs> RecursivePcs<', 'TwoAdicFriPcs::verify_circuit[query_index_width]', 'opening_proof'),
                            (r'impl<SC, Dft, Comm, InputMmcs, RecursiveInputMmcs, RecursiveFriMmcs, FriMmcs, R> RecursivePcs<', 'HidingFriPcs::verify_circuit[query_index_width]', 'fri_proof')):
        q = u.extract(T_, cont, 'verify_circuit', qual)
        m1 = re.search(r'let betas = &challenges\[[^;]*;', q.body)
        m2 = re.search(r'let max_query_index_bits\b', q.body)
        if not m1 or not m2 or m2.start() < m1.end():
            raise ExtractError(f'lost anchor in {qual}: `let betas = &challenges[..];` .. `let max_query_index_bits`')
        q.rewrites.append(('R13', f'function body := the statements between `let betas = ..;` and `let max_query_index_bits` ({m1.end()} chars of prefix, {len(q.body) - m2.start()} chars of suffix dropped), then the local log_max_height',
                           'prefix: destructuring of the parameters, challenges; suffix: bit-width check, index sampling, verify_fri_circuit'))
        q.body = '{\n' + q.body[m1.end():m2.start()] + '\nlog_max_height\n}'
        nm_ = 'fn_' + ('hiding' if prf == 'fri_proof' else 'plain')
        q.set_sig('R11', f'fn verify_circuit_{nm_}({prf}: &FriProofTargets, log_final_poly_len: usize, log_blowup: usize) -> usize', sliced=True)
        q.rewrite_re('R6', r'let (\w+): usize = (\w+)\.log_arities\.iter\(\)\.sum\(\);', r'let \1: usize = iter_sum_(&\2.log_arities);', min_count=0)
        q.requires('the_widths_fit', f'seq_sum_({prf}.log_arities@) + log_final_poly_len + log_blowup <= usize::MAX')
        q.ensures('the_query_index_has_the_width_the_verifiers_own_final_polynomial_length_implies', f'ret == seq_sum_({prf}.log_arities@) + log_final_poly_len + log_blowup')
        fns.append(q)

    # ---- open_input[evaluation_points_guard]
    V = 'recursion/src/pcs/fri/verifier.rs'
    oi = u.extract(V, '', 'open_input', 'open_input[evaluation_points_guard]')
    m1 = re.search(r'let unique_heights_desc: Vec<usize> = (\{)', oi.body)
    m2 = re.search(r'let eval_points = ', oi.body)
    if not m1 or not m2:
        raise ExtractError('lost anchor in open_input[evaluation_points_guard]: `let unique_heights_desc` / `let eval_points`')
    c1 = match_brace(oi.body, m1.start(1))
    e1 = oi.body.index(';', c1) + 1
    e2 = oi.body.index(';', match_brace(oi.body, oi.body.index('{', oi.body.index('else', m2.end())))) + 1 if 'else' in oi.body[m2.end():m2.end() + 400] else oi.body.index(';', m2.end()) + 1
    oi.body = '{\n' + oi.body[e1:e2] + '\n Ok(()) }'
    oi.rewrites.append(('R13', 'function body := the statements between the computation of `unique_heights_desc` (sorted, deduplicated heights of the committed matrices: a parameter here) and `let eval_points = ..;` inclusive', ''))
    oi.set_sig('R11', 'fn open_input_eval_points(builder: &mut CircuitBuilder, unique_heights_desc: &Vec<usize>, index_bits: &[Target], log_global_max_height: usize) -> Result<(), VerificationError>', sliced=True)
    oi.erase_error_messages('VerificationError::InvalidProofShape')
    oi.rewrite_re('R11', r'precompute_evaluation_points::<F, EF>\(', 'precompute_evaluation_points(', min_count=0)
    oi.rewrite_re('R11', r'BTreeMap::new\(\)', 'EvalPoints::new()', min_count=0)
    oi.rewrite_re('R1', r'if let Some\(&(\w+)\) = (\w+)\.first\(\)\s*&& ([^{]+?)\s*\{', r'if \2.len() > 0 && ({ let \1 = \2[0]; \3 }) {', min_count=0)
    oi.rewrite_re('R6', r'(\w+)\.is_empty\(\)', r'(\1.len() == 0)', min_count=0)
    fns.append(oi)

    # ---- verify_p3_batch_proof_circuit[allocation_guard]
    B = 'recursion/src/verifier/batch_stark.rs'
    al = u.extract(B, '', 'verify_p3_batch_proof_circuit', 'verify_p3_batch_proof_circuit[allocation_guard]')
    m1 = re.search(r'let mut air_public_counts = ', al.body)
    m2 = re.search(r'let verifier_inputs = BatchStarkVerifierInputsBuilder::<[^>]*>::allocate\(', al.body)
    if not m1 or not m2:
        raise ExtractError('lost anchor in verify_p3_batch_proof_circuit[allocation_guard]')
    e2 = al.body.index(';', match_brace(al.body, m2.end() - 1)) + 1
    al.body = '{\n' + al.body[m1.start():e2] + '\n Ok(()) }'
    al.rewrites.append(('R13', 'function body := from `let mut air_public_counts` through the `allocate(..)` call', 'prefix: metadata checks and AIR reconstruction; suffix: verify_batch_circuit'))
    al.set_sig('R11', 'fn verify_p3_batch_proof_circuit_allocate(circuit: &mut CircuitBuilder, proof: &ProofStub, common_data: &CommonStub) -> Result<(), VerificationError>', sliced=True)
    al.erase_error_messages('VerificationError::InvalidProofShape')
    al.rewrite_re('R7', r'vec!\[0usize; NUM_PRIMITIVE_TABLES\]', 'zeros_usize(NUM_PRIMITIVE_TABLES)', min_count=0)
    al.rewrite_re('R5', r'for entry in &proof\.non_primitives \{', 'for e_ in 0..proof.non_primitives.len() { let entry = &proof.non_primitives[e_];', min_count=0)
    al.rewrite_re('R11', r'BatchStarkVerifierInputsBuilder::<[^>]*>::allocate\(', 'InputsBuilder::allocate(', min_count=0)
    if 'for e_ in 0..proof.non_primitives.len()' in al.body:
        al.loop('for e_ in 0..proof.non_primitives.len()', invariants=[('one_count_per_table_so_far', 'air_public_counts@.len() == NUM_PRIMITIVE_TABLES + e_')])
    fns.append(al)

    # ---- verify_p3_batch_proof_circuit[metadata_guard]: the PUBLIC entry validates the proof's self-declared metadata before any AIR is rebuilt from it (the AIR constructors assert on it)
    mg = u.extract(B, '', 'verify_p3_batch_proof_circuit', 'verify_p3_batch_proof_circuit[metadata_guard]')
    mm_ = re.search(r'let rows: RowCounts = proof\.rows;', mg.body)
    if not mm_:
        raise ExtractError('lost anchor in verify_p3_batch_proof_circuit[metadata_guard]: `let rows: RowCounts = proof.rows;`')
    mg.body = mg.body[:mm_.start()] + '\n Ok(()) }'
    mg.rewrites.append(('R13', 'function body truncated before `let rows: RowCounts = proof.rows;` (the statements that guard the metadata), then Ok(())', 'suffix: AIR reconstruction, allocation, verify_batch_circuit'))
    mg.set_sig('R11', 'fn verify_p3_batch_proof_circuit_metadata<const TRACE_D: usize>(proof: &ProofStub) -> Result<(), VerificationError>', sliced=True)
    mg.erase_error_messages('VerificationError::InvalidProofShape')
    mg.rewrite_re('R6', r'proof\s*\.validate\(\)\s*\.map_err\(\|e\| VerificationError::InvalidProofShape\([^;]*\)\)\?;',
                  'match proof.validate() { Ok(_) => {}, Err(_) => { return Err(VerificationError::InvalidProofShape(errmsg())); } };', min_count=0, flags_dotall=True)
    mg.ensures('malformed_metadata_is_rejected_before_any_air_is_rebuilt_from_it', 'ret is Ok ==> proof_metadata_valid(proof)')
    # open finding: validate() bounds the declared numbers from below only and the reduction flag is never compared with the field's: rows[Alu] = usize::MAX overflows the AIR's allocation size, a flipped alu_quintic_trinomial panics in create_alu_air
    mg.ensures('H_the_declared_row_counts_and_the_reduction_flag_are_checked_before_the_airs_are_built', 'ret is Ok ==> declared_shape_fits_the_air_constructors(proof)')
    fns.append(mg)
    # ---- verify_fri_circuit[top_height_guard]: the fold chain of a query starts from a reduced opening AT the height of the FRI domain (a schedule taller than every committed matrix is a shape error)
    V_ = 'recursion/src/pcs/fri/verifier.rs'
    tg = u.extract(V_, '', 'verify_fri_circuit', 'verify_fri_circuit[top_height_guard]')
    m1 = re.search(r'if reduced_by_height\.is_empty\(\) \{', tg.body)
    m2 = re.search(r'let initial_folded_eval = [^;]*;', tg.body)
    if not m1 or not m2 or m2.start() < m1.start():
        raise ExtractError('lost anchor in verify_fri_circuit[top_height_guard]: `if reduced_by_height.is_empty() {` .. `let initial_folded_eval = ..;`')
    tg.body = '{\n' + tg.body[m1.start():m2.end()] + '\n Ok(initial_folded_eval) }'
    tg.rewrites.append(('R13', 'function body := from `if reduced_by_height.is_empty()` through `let initial_folded_eval = ..;`, then Ok(initial_folded_eval)', 'everything else of the per-query loop'))
    tg.set_sig('R11', 'fn verify_fri_circuit_top_guard(reduced_by_height: &Vec<(usize, Target)>, log_max_height: usize) -> Result<Target, VerificationError>', sliced=True)
    tg.erase_error_messages('VerificationError::InvalidProofShape')
    tg.rewrite_re('R9', r'debug_assert!\(([^;]*)\);', r'assert(\1);', min_count=0)
    tg.rewrite_re('R11', r'reduced_by_height\.is_empty\(\)', 'reduced_by_height.len() == 0', min_count=0)
    tg.ensures('the_fold_chain_starts_from_a_reduced_opening_at_the_height_of_the_fri_domain',
               'ret matches Ok(t) ==> reduced_by_height@.len() > 0 && reduced_by_height@[0].0 == log_max_height && t == reduced_by_height@[0].1')
    fns.append(tg)
    # ---- cap split (NO precondition): verify_batch_circuit / verify_batch_circuit_from_extension_opened
    M = 'recursion/src/pcs/mmcs.rs'
    for fn in ('verify_batch_circuit', 'verify_batch_circuit_from_extension_opened'):
        cs = u.extract(M, '', fn, f'{fn}[cap_split]')
        m1 = re.search(r'let cap_height = ', cs.body)
        m2 = re.search(r'let cap_index_bits = [^;]*;', cs.body)
        if not m1 or not m2:
            raise ExtractError(f'lost anchor in {fn}[cap_split]')
        # keep the emptiness assertion in front of it if there is one
        pre = cs.body[:m1.start()]
        am = list(re.finditer(r'assert!\(\s*!commitment_cap\.is_empty\(\),[^;]*;', pre, flags=re.S))
        start = am[-1].start() if am else m1.start()
        cs.body = '{\n' + cs.body[start:m2.end()] + '\n }'
        cs.rewrites.append(('R13', 'function body := the cap-height derivation and the split of index_bits into path bits and cap-selector bits', 'prefix: batch-size check; suffix: cap selection, leaf hashing, path'))
        cs.set_sig('R11', f'fn {fn}_cap_split(commitment_cap: &[Vec<Target>], index_bits: &[Target])', sliced=True)
        cs.rewrite_re('R9', r'assert!\(\s*!commitment_cap\.is_empty\(\),[^;]*;', 'assert(commitment_cap@.len() > 0); // @@A:H_the_cap_is_not_empty', min_count=0, flags_dotall=True)
        cs.at_end('proof { assert(commitment_cap@.len() == configured_cap_len()); } // @@A:H_the_cap_has_the_configured_length')
        fns.append(cs)

    # ---- verify_batch_circuit[domains] (NO precondition)
    dm = u.extract(B, '', 'verify_batch_circuit', 'verify_batch_circuit[domains]')
    m1 = re.search(r'let mut trace_domains = ', dm.body)
    m2 = re.search(r'for &ext_db in degree_bits (\{)', dm.body)
    if not m1 or not m2:
        raise ExtractError('lost anchor in verify_batch_circuit[domains]')
    e2 = match_brace(dm.body, m2.start(1)) + 1
    dm.body = '{\n' + dm.body[m1.start():e2] + '\n Ok(()) }'
    dm.rewrites.append(('R13', 'function body := the construction of the per-instance trace domains from the claimed degree bits', ''))
    dm.set_sig('R11', 'fn verify_batch_circuit_domains(pcs: &PcsStub, config: &CfgStub, degree_bits: &Vec<usize>, n_instances: usize) -> Result<(), VerificationError>', sliced=True)
    dm.erase_error_messages('VerificationError::InvalidProofShape')
    dm.rewrite_re('R7', r'let mut (\w+) = Vec::with_capacity\(n_instances\);', r'let mut \1: Vec<Dom> = Vec::new();', min_count=0)
    dm.rewrite_re('R5', r'for &ext_db in degree_bits \{', 'for db_ in 0..degree_bits.len() { let ext_db = degree_bits[db_];', min_count=0)
    dm.rewrite_re('R6', r'let base_db = ext_db\.checked_sub\(config\.is_zk\(\)\)\.ok_or_else\(\|\| \{\s*(VerificationError::InvalidProofShape\(errmsg\(\)\))\s*\}\)\?;',
                  r'let base_db = match ext_db.checked_sub(config.is_zk()) { Some(b_) => b_, None => { return Err(\1); } };', min_count=0, flags_dotall=True)
    dm.rewrite_re('R11', r'\(1 << ', '(1usize << ', min_count=0)
    fns.append(dm)
    # ---- uni-STARK verify_circuit[zk_degree_guard] (NO precondition on the claimed degree bits beyond the shift width): the initial trace domain of a hiding configuration
    S_ = 'recursion/src/verifier/stark.rs'
    zg = u.extract(S_, '', 'verify_p3_uni_proof_circuit', 'verify_p3_uni_proof_circuit[zk_degree_guard]')
    m1 = re.search(r'let trace_domain = pcs\.natural_domain_for_degree\(degree\);', zg.body)
    m2 = re.search(r'let init_trace_domain = [^;]*;', zg.body)
    if not m1 or not m2 or m2.end() < m1.start():
        raise ExtractError('lost anchor in verify_p3_uni_proof_circuit[zk_degree_guard]: `let trace_domain = ..;` .. `let init_trace_domain = ..;`')
    zg.body = '{\n' + zg.body[m1.start():m2.end()] + '\n Ok(()) }'
    zg.rewrites.append(('R13', 'function body := from `let trace_domain = pcs.natural_domain_for_degree(degree);` through `let init_trace_domain = ..;`, then Ok(())', 'everything else of the uni-STARK verifier'))
    zg.set_sig('R11', 'fn verify_circuit_zk_guard(pcs: &PcsStub, config: &CfgStub, degree_bits: usize, degree: usize) -> Result<(), VerificationError>', sliced=True)
    zg.erase_error_messages('VerificationError::InvalidProofShape')
    zg.rewrite_re('R6', r'let (\w+) = degree_bits\.checked_sub\(config\.is_zk\(\)\)\.ok_or_else\(\|\| \{\s*(VerificationError::InvalidProofShape\(errmsg\(\)\))\s*\}\)\?;',
                  r'let \1 = match degree_bits.checked_sub(config.is_zk()) { Some(b_) => b_, None => { return Err(\2); } };', min_count=0, flags_dotall=True)
    zg.rewrite_re('R11', r'pcs\.natural_domain_for_degree\(', 'pcs.natural_domain_for_degree_nz(', min_count=1)
    zg.rewrite_re('R11', r'\(1 << (\w+)\)', r'(shl1_(\1))', min_count=0)
    zg.rewrite_re('R11', r'\(degree >> \(config\.is_zk\(\)\)\)', '(shr_(degree, config.is_zk()))', min_count=0)
    zg.requires('claimed_degree', 'degree_bits < 64 && degree == pow2z(degree_bits as int) && config.zk <= 1')
    zg.ensures('a_claimed_degree_below_the_zk_adjustment_is_an_error_not_a_panic', 'ret is Ok ==> degree_bits >= config.zk')
    zg.at_start('proof { lemma_pow2z_pos(degree_bits as int); }')
    fns.append(zg)
    u.text('verus! {')
    u.text('pub mod two_adic { use super::*;')
    u.emit(fns[0])
    u.text('}\npub mod hiding { use super::*;')
    u.emit(fns[1])
    u.text('}')
    for f in fns[2:]:
        u.emit(f)
    u.text('}')
    return u
