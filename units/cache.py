"""Unit `cache` (C17, cache half): a layer proof produced from cached preparation data is a proof over the preprocessed data of
THE circuit being proved, under THE configuration passed to the call.

Real text (recursion/src/recursion.rs):
  aggregation_circuit_fingerprint                      whole
  prove_aggregation_layer[cache_hit_prefix]            body through the guarded `if` (R13), remainder = assumed callee `uncached_tail`
  prove_aggregation_layer[cache_fill_suffix]           body from the second `if let Some(ref mut cache_slot)` on (R13)
  prove_next_layer[cache_hit_prefix]                   body through the `if let Some(cached) = prep` block (R13)
Everything the blocks call (running the circuit, proving, preparing) is an assumed callee that only says WHICH circuit /
configuration its result belongs to (ghost tags)."""
import re

from vf.extract import match_brace
from vf.unit import Unit

PRELUDE = r'''
#![allow(unused_imports, unused_variables, dead_code, unused_mut, unused_parens)]
use vstd::prelude::*;
verus! {
global size_of usize == 8;
pub struct Op { pub tag: u64 }
/// the compiled verification circuit (the fields the fingerprint reads + the op list; `body` stands for everything else)
pub struct Circuit { pub witness_count: u32, pub public_flat_len: usize, pub private_flat_len: usize, pub ops: Vec<Op>, pub body: Ghost<int> }
/// abstract identity of a circuit / a configuration
pub struct Cid { pub witness_count: u32, pub public_flat_len: usize, pub private_flat_len: usize, pub ops: Seq<Op>, pub body: int }
pub open spec fn cid(c: &Circuit) -> Cid { Cid { witness_count: c.witness_count, public_flat_len: c.public_flat_len, private_flat_len: c.private_flat_len, ops: c.ops@, body: c.body@ } }
pub struct Cfg { pub id: Ghost<int>, pub zk: usize }
impl Cfg { pub fn is_zk(&self) -> (r: usize) ensures r == self.zk { self.zk } }
pub struct Backend { pub _p: () }
pub struct RecInput { pub _p: () }
pub struct VResult { pub _p: () }
pub struct ProveNextLayerParams { pub id: Ghost<int> }
#[derive(Debug)]
pub struct VerificationError { pub _p: () }
#[derive(Debug)]
pub struct ProveError { pub _p: () }

/// execution traces of one run: tagged with the circuit that was run
pub struct Traces { pub of: Ghost<Cid> }
/// committed preprocessed data + AIRs: tagged with the circuit they were derived from
pub struct CircuitProverData { pub for_circuit: Ghost<Cid>, pub cfg: Ghost<int>, pub ext_degrees: Ghost<Seq<usize>>, /** the params (packing, profile) the AIRs and preprocessed columns were laid out with */ pub prep_packing: Ghost<int>, pub common: CommonData }
impl CircuitProverData { pub fn common_data(&self) -> (r: &CommonData) ensures *r == self.common { &self.common } }
/// Rc<CircuitProverData> (the reference count is erased)
pub type RcData = CircuitProverData;
#[verifier::external_body]
pub fn rc_clone(d: &RcData) -> (r: RcData) ensures r.for_circuit@ == d.for_circuit@, r.common == d.common, r.cfg@ == d.cfg@, r.ext_degrees@ == d.ext_degrees@, r.prep_packing@ == d.prep_packing@ { unimplemented!() }
pub fn rc_new(d: CircuitProverData) -> (r: RcData) ensures r == d { d }
/// a batch proof: tagged with the circuit whose traces it proves, the circuit whose preprocessed commitment it carries, and the prover's config
pub struct BatchStarkProof { pub traces_of: Ghost<Cid>, pub prep_of: Ghost<Cid>, pub cfg: Ghost<int>, pub packing: Ghost<int>, pub proof: BatchProofStub, pub stark_common: CommonData }
/// p3_batch_stark::CommonData (preprocessed binding + lookup contexts), opaque: `id` identifies the committed preprocessed data it binds
pub struct CommonData { pub id: Ghost<int> }
pub struct OpenedInstance { pub _p: () }
pub struct BatchOpened { pub instances: Vec<OpenedInstance> }
pub struct BatchProofStub { pub opened_values: BatchOpened }
#[derive(Clone, Copy)] pub struct Fv(pub u64);
/// `vec![vec![]; n]`
#[verifier::external_body]
pub fn empty_rows(n: usize) -> (r: Vec<Vec<Fv>>) ensures r@.len() == n, forall|i: int| 0 <= i < n ==> (#[trigger] r@[i])@.len() == 0 { unimplemented!() }
pub enum RecursionInput<'a> { BatchStark { proof: &'a BatchStarkProof, common_data: &'a CommonData, table_public_inputs: Vec<Vec<Fv>> }, Other }
/// a layer prover: built for one configuration and one table packing / constraint profile
pub struct BatchStarkProver { pub cfg: Ghost<int>, pub packing: Ghost<int> }
impl BatchStarkProver {
    #[verifier::external_body]
    pub fn prove_all_tables(&self, traces: &Traces, data: &RcData) -> (r: Result<BatchStarkProof, ProveError>)
        ensures r matches Ok(p) ==> p.traces_of@ == traces.of@ && p.prep_of@ == data.for_circuit@ && p.cfg@ == self.cfg@ && p.packing@ == self.packing@
    { unimplemented!() }
}
/// the backend's non_primitive_provers(ext_degree) list, which build_verifier_circuit hands to verify_p3_batch_proof_circuit, is entry for entry the proof's non_primitives list
pub uninterp spec fn next_layer_expects_the_tables_of(p: &BatchStarkProof) -> bool;
pub struct RecursionOutput(pub BatchStarkProof, pub RcData);
/// a layer output is coherent when proof, preprocessed data and configuration all belong to the call: only then does it verify like an uncached one
pub open spec fn coherent(out: &RecursionOutput, c: &Circuit, config: &Cfg) -> bool {
    out.0.traces_of@ == cid(c) && out.0.prep_of@ == cid(c) && out.1.for_circuit@ == cid(c) && out.0.cfg@ == config.id@
    // the prover that made the proof lays the tables out as the committed preprocessed data was laid out
    && out.0.packing@ == out.1.prep_packing@
}
/// on the uncached path the prover is also the one built for the params of THIS call
pub open spec fn fresh(out: &RecursionOutput, params: &ProveNextLayerParams) -> bool { out.0.packing@ == params.id@ }

#[derive(Clone, Copy, PartialEq, Eq, Debug, Structural)]
pub struct AggregationCircuitFingerprint { pub witness_count: u32, pub public_flat_len: usize, pub private_flat_len: usize, pub ops_len: usize }
/// `n.next_power_of_two()` (uninterpreted: only used to let a rounded counter be read for what it is -- not the counter)
pub uninterp spec fn npow2_u32(n: u32) -> u32;
pub uninterp spec fn npow2_usize(n: usize) -> usize;
pub trait Npow2: Sized { spec fn sp_npow2(self) -> Self; fn npow2_(self) -> (r: Self) ensures r == self.sp_npow2(); }
impl Npow2 for u32 { open spec fn sp_npow2(self) -> u32 { npow2_u32(self) } #[verifier::external_body] fn npow2_(self) -> (r: u32) { unimplemented!() } }
impl Npow2 for usize { open spec fn sp_npow2(self) -> usize { npow2_usize(self) } #[verifier::external_body] fn npow2_(self) -> (r: usize) { unimplemented!() } }
pub open spec fn fp_of(c: Cid) -> AggregationCircuitFingerprint {
    AggregationCircuitFingerprint { witness_count: c.witness_count, public_flat_len: c.public_flat_len, private_flat_len: c.private_flat_len, ops_len: c.ops.len() as usize }
}
pub struct AggregationPrepCache { pub circuit_fingerprint: AggregationCircuitFingerprint, pub circuit_prover_data: RcData, pub prover: BatchStarkProver }
pub struct NextLayerPrepCache { pub circuit_prover_data: RcData, pub prover: BatchStarkProver }
/// representation invariant of a filled aggregation cache slot: the stored fingerprint is the fingerprint of the circuit the data was prepared for
pub open spec fn slot_inv(s: Option<AggregationPrepCache>) -> bool { s matches Some(c) ==> c.circuit_fingerprint == fp_of(c.circuit_prover_data.for_circuit@) && c.prover.packing@ == c.circuit_prover_data.prep_packing@ }

// ---------------------------------------------------------------- assumed callees (each only says whose data it returns)
#[verifier::external_body]
pub fn run_aggregation_verification_circuit(left: &RecInput, right: &RecInput, left_result: &VResult, right_result: &VResult, verification_circuit: &Circuit, config: &Cfg, backend: &Backend)
    -> (r: Result<Traces, VerificationError>) ensures r matches Ok(t) ==> t.of@ == cid(verification_circuit)
{ unimplemented!() }
#[verifier::external_body]
pub fn run_layer_circuit(prev: &RecInput, verification_circuit: &Circuit, verifier_result: &VResult, config: &Cfg, backend: &Backend)
    -> (r: Result<Traces, VerificationError>) ensures r matches Ok(t) ==> t.of@ == cid(verification_circuit)
{ unimplemented!() }
#[verifier::external_body]
pub fn shape_err<T>(r: Result<T, ProveError>) -> (o: Result<T, VerificationError>) ensures r is Ok == o is Ok, r matches Ok(v) ==> o == Ok::<T, VerificationError>(v)
{ unimplemented!() }
pub struct AirsDegrees { pub of: Ghost<Cid>, pub packing: Ghost<int>, pub degrees: Ghost<Seq<usize>> }
/// the (base) trace degree of every table of a circuit under given params
pub uninterp spec fn table_degrees(c: Cid, params: int) -> Seq<usize>;
/// the degrees the tables are committed with: one more bit under a hiding (ZK) configuration
pub open spec fn ext_of(d: Seq<usize>, zk: usize) -> Seq<usize> { Seq::new(d.len(), |i: int| (d[i] + zk) as usize) }
/// preparation data as the uncached path builds it for this circuit, configuration and params
pub open spec fn prepared_like_uncached(d: &RcData, c: &Circuit, config: &Cfg, params: &ProveNextLayerParams) -> bool {
    d.for_circuit@ == cid(c) && d.cfg@ == config.id@ && d.ext_degrees@ == ext_of(table_degrees(cid(c), params.id@), config.zk)
}
pub struct Columns { pub of: Ghost<Cid> }
pub struct Airs { pub of: Ghost<Cid>, pub packing: Ghost<int> }
pub struct ProverData { pub of: Ghost<Cid>, pub cfg: Ghost<int>, pub degrees: Ghost<Seq<usize>>, pub packing: Ghost<int> }
pub struct TablePacking { pub _p: () }
#[derive(Clone, Copy)]
pub struct ConstraintProfile { pub _p: () }
pub struct Plugins { pub _p: () }
impl ProveNextLayerParams {
    // the two fields the layer provers read; their joint identity is `id`
    #[verifier::external_body] pub fn table_packing(&self) -> (r: &TablePacking) { unimplemented!() }
    #[verifier::external_body] pub fn constraint_profile(&self) -> (r: ConstraintProfile) { unimplemented!() }
}
impl Backend {
    #[verifier::external_body] pub fn non_primitive_preprocessors(&self) -> Plugins { unimplemented!() }
    #[verifier::external_body] pub fn non_primitive_air_builders(&self) -> Plugins { unimplemented!() }
    #[verifier::external_body] pub fn non_primitive_provers(&self) -> Plugins { unimplemented!() }
}
/// get_airs_and_degrees_with_prep(circuit, &params.table_packing, .., params.constraint_profile): AIRs and preprocessed columns OF THIS CIRCUIT under THESE params
#[verifier::external_body]
pub fn get_airs_and_degrees_with_prep(c: &Circuit, params: &ProveNextLayerParams, pre: &Plugins, airb: &Plugins) -> (r: Result<(AirsDegrees, Columns, Columns), VerificationError>)
    ensures r matches Ok(t) ==> t.0.of@ == cid(c) && t.0.packing@ == params.id@ && t.1.of@ == cid(c) && t.2.of@ == cid(c) && t.0.degrees@ == table_degrees(cid(c), params.id@)
{ unimplemented!() }
#[verifier::external_body]
pub fn unzip_(a: AirsDegrees) -> (r: (Airs, Vec<usize>)) ensures r.0.of@ == a.of@ && r.0.packing@ == a.packing@ && r.1@ == a.degrees@ { unimplemented!() }
#[verifier::external_body]
pub fn ext_degrees_(d: &Vec<usize>, config: &Cfg) -> (r: Vec<usize>) ensures r@ == ext_of(d@, config.zk) { unimplemented!() }
impl ProverData {
    #[verifier::external_body]
    pub fn from_airs_and_degrees(config: &Cfg, airs: &Airs, ext: &Vec<usize>) -> (r: ProverData) ensures r.of@ == airs.of@ && r.cfg@ == config.id@ && r.degrees@ == ext@ && r.packing@ == airs.packing@ { unimplemented!() }
}
impl CircuitProverData {
    #[verifier::external_body]
    pub fn new(pd: ProverData, prim: Columns, nonprim: Columns) -> (r: CircuitProverData) ensures r.for_circuit@ == pd.of@ && r.cfg@ == pd.cfg@ && r.ext_degrees@ == pd.degrees@ && r.prep_packing@ == pd.packing@ { unimplemented!() }
}
/// build_layer_prover(config, &params.table_packing, params.constraint_profile, provers): a prover for THIS config and THESE params
#[verifier::external_body]
pub fn build_layer_prover(config: &Cfg, params: &ProveNextLayerParams, provers: Plugins) -> (r: BatchStarkProver) ensures r.cfg@ == config.id@ && r.packing@ == params.id@ { unimplemented!() }
/// the remainder of the function after the cache-hit block (callee contract here; PROVED as the slice prove_aggregation_layer[miss_path])
#[verifier::external_body]
pub fn uncached_tail(left: &RecInput, right: &RecInput, verification_circuit: &Circuit, config: &Cfg, backend: &Backend, params: &ProveNextLayerParams, prep_cache_present: bool,
                     prep_cache: &mut Option<AggregationPrepCache>, current_fp: AggregationCircuitFingerprint) -> (r: Result<RecursionOutput, VerificationError>)
    requires slot_inv(*old(prep_cache)), current_fp == fp_of(cid(verification_circuit))
    ensures slot_inv(*final(prep_cache)), r matches Ok(out) ==> coherent(&out, verification_circuit, config) && fresh(&out, params)
{ unimplemented!() }
#[verifier::external_body]
pub fn uncached_tail_next(prev: &RecInput, verification_circuit: &Circuit, verifier_result: &VResult, config: &Cfg, backend: &Backend, params: &ProveNextLayerParams)
    -> (r: Result<RecursionOutput, VerificationError>) ensures r matches Ok(out) ==> coherent(&out, verification_circuit, config)
{ unimplemented!() }
} // verus!
'''


def unchain_guard(f):
    """R4 + R11: `if let Some(ref mut cache_slot) = prep_cache && let Some(cached) = cache_slot.as_ref() && COND { B }`
    -> `if prep_cache_present { if let Some(cached) = prep_cache.as_ref() { if COND { B } } }`   (COND and B are kept verbatim)"""
    m = re.search(r'if let Some\(ref mut cache_slot\) = prep_cache\s*&& let Some\(cached\) = cache_slot\.as_ref\(\)\s*(?:&&\s*([^{]+?))?\s*\{', f.body)
    if not m:
        return f
    open_ = m.end() - 1
    close = match_brace(f.body, open_)
    cond = (m.group(1) or 'true').strip()
    f.body = f.body[:m.start()] + f'if prep_cache_present {{ if let Some(cached) = prep_cache.as_ref() {{ if {cond} {{' + f.body[open_ + 1:close] + '} } }' + f.body[close + 1:]
    f.rewrites.append(('R4', 'let-chain guard unfolded into nested ifs; Option<&mut Option<_>> encoded as (present, slot)', f'condition kept verbatim: {cond}'))
    return f


def prep_rewrites(f):
    """the preparation idiom shared by the four layer provers and build_next_layer_prep (R6/R11, each applies where the idiom occurs)"""
    f.rewrite_re('R11', r'get_airs_and_degrees_with_prep\(\s*verification_circuit,\s*&params\.table_packing,\s*&preprocessors,\s*&air_builders,\s*params\.constraint_profile,?\s*\)\s*\.map_err\(VerificationError::Circuit\)\?',
                 'get_airs_and_degrees_with_prep(verification_circuit, params, &preprocessors, &air_builders)?', min_count=0, flags_dotall=True)
    f.rewrite_re('R6', r'let \(airs, degrees\): \(Vec<_>, Vec<\w+>\) = airs_degrees\.into_iter\(\)\.unzip\(\);', 'let (airs, degrees) = unzip_(airs_degrees);', min_count=0)
    f.rewrite_re('R6', r'let (\w+): Vec<usize> = degrees\.iter\(\)\.map\(\|&d\| d \+ config\.is_zk\(\)\)\.collect\(\);', r'let \1: Vec<usize> = ext_degrees_(&degrees, config);', min_count=0)
    f.rewrite_re('R11', r'build_layer_prover\(\s*config,\s*&params\.table_packing,\s*params\.constraint_profile,\s*', 'build_layer_prover(config, params, ', min_count=0, flags_dotall=True)
    f.rewrite_re('R11', r'backend\.non_primitive_provers\(D\)', 'backend.non_primitive_provers()', min_count=0)
    return f


def build():
    u = Unit('cache', ['C17'])
    u.rlimit = 60
    u.assume('every callee of the cache blocks is an ASSUMED stub that only records whose data it returns: run_*_circuit returns traces of the circuit passed, prove_all_tables returns a proof over '
             'those traces carrying the preprocessed commitment of the data passed and the prover\'s own configuration, the uncached remainder prepares for the circuit and configuration passed')
    u.assume('R11: SC/A/B generics erased; Option<&mut Option<AggregationPrepCache>> encoded as (present: bool, slot: &mut Option<..>); Rc<CircuitProverData> erased to a tagged value; '
             '`.map_err(|e| proof_shape_err(..))` erased to shape_err(..)')
    u.assume('a layer output verifies like an uncached one exactly when it is `coherent` (proof, preprocessed data and configuration belong to the call): meaning of the ghost tags, not proved')
    u.text(PRELUDE)
    R = 'recursion/src/recursion.rs'

    fp = u.extract(R, '', 'aggregation_circuit_fingerprint', 'aggregation_circuit_fingerprint')
    fp.set_sig('R11', 'fn aggregation_circuit_fingerprint(circuit: &Circuit) -> AggregationCircuitFingerprint')
    fp.rewrite_re('R11', r'\.next_power_of_two\(\)', '.npow2_()', min_count=0)
    fp.ensures('reads_all_four_counters', 'ret == fp_of(cid(circuit))')

    def common(f):
        f.rewrite_re('R11', r'::<[A-Za-z0-9_, :]+>\(', '(', min_count=0)
        f.rewrite_re('R8', r'\.map_err\(\|e\| proof_shape_err\(&e\.to_string\(\)\)\)', '.shape_()', min_count=0)
        f.rewrite_re('R8', r'(\w+(?:\s*\.\s*\w+)*\s*\.\s*prove_all_tables\([^;]*?\))\s*\.shape_\(\)', r'shape_err(\1)', flags_dotall=True)
        f.rewrite_re('R11', r'Rc::clone\(&([\w.]+)\)', r'rc_clone(&\1)', min_count=0)
        f.rewrite_re('R11', r'Rc::new\(', 'rc_new(', min_count=0)
        return f

    # ---------------------------------------------------------------- aggregation: the guarded hit block
    hit = u.extract(R, '', 'prove_aggregation_layer', 'prove_aggregation_layer[cache_hit_prefix]')
    hit.truncate_after_next_stmt('let current_fp = aggregation_circuit_fingerprint(verification_circuit);',
                                 'uncached_tail(left, right, verification_circuit, config, backend, params, prep_cache_present, prep_cache, current_fp)',
                                 'after the guarded cache-hit block: preparation, proving and the cache fill (assumed callee uncached_tail; the fill is the suffix slice)')
    hit.set_sig('R11', 'fn prove_aggregation_layer(left: &RecInput, right: &RecInput, left_result: &VResult, right_result: &VResult, verification_circuit: &Circuit, config: &Cfg, '
                       'backend: &Backend, params: &ProveNextLayerParams, prep_cache_present: bool, prep_cache: &mut Option<AggregationPrepCache>) -> Result<RecursionOutput, VerificationError>', sliced=True)
    common(hit)
    unchain_guard(hit)
    hit.requires('slot_invariant', 'slot_inv(*old(prep_cache))')
    hit.ensures('slot_invariant', 'slot_inv(*final(prep_cache))')
    hit.ensures('result_belongs_to_this_call', 'ret matches Ok(out) ==> coherent(&out, verification_circuit, config)')
    hit.before('let traces = run_aggregation_verification_circuit', '''proof {
            // what the guard establishes (holds): the cached data was prepared for a circuit with the SAME FINGERPRINT
            assert(fp_of(cached.circuit_prover_data.for_circuit@) == fp_of(cid(verification_circuit))); // @@A:guard_compares_the_stored_fingerprint_with_this_circuit
            // what the property needs (does NOT follow: the fingerprint is four counters): the SAME CIRCUIT, and the SAME CONFIGURATION
            assert(cached.circuit_prover_data.for_circuit@ == cid(verification_circuit)); // @@A:H_cache_hit_same_circuit
            assert(cached.prover.cfg@ == config.id@); // @@A:H_cache_hit_same_config
        }''')

    # ---------------------------------------------------------------- aggregation: the whole miss path (preparation, proving, cache fill)
    fill = u.extract(R, '', 'prove_aggregation_layer', 'prove_aggregation_layer[miss_path]')
    fill.drop_prefix_before('let (airs_degrees, primitive_columns, non_primitive_columns) =',
                            'prefix: the fingerprint and the guarded hit block (prefix slice); current_fp is a parameter here')
    fill.set_sig('R11', 'fn prove_aggregation_layer_miss(left: &RecInput, right: &RecInput, left_result: &VResult, right_result: &VResult, verification_circuit: &Circuit, config: &Cfg, backend: &Backend, '
                        'params: &ProveNextLayerParams, prep_cache_present: bool, prep_cache: &mut Option<AggregationPrepCache>, current_fp: AggregationCircuitFingerprint) -> Result<RecursionOutput, VerificationError>', sliced=True)
    fill.rewrite_re('R11', r'<B as PcsRecursionBackend<SC, A\d, D>>::(\w+)\(backend(?:, D)?\)', r'backend.\1()', min_count=3)
    common(fill)
    prep_rewrites(fill)
    fill.rewrite_re('R11', r'if let Some\(ref mut cache_slot\) = prep_cache \{', 'if prep_cache_present { let cache_slot = &mut *prep_cache;', min_count=1)
    fill.rewrite_re('R11', r'\*\*cache_slot = ', '*cache_slot = ', min_count=1)
    # R6 (general): `OPT_REF_MUT.as_mut().and_then(|s| s.take())` on the encoded slot
    fill.rewrite_re('R6', r'prep_cache\.as_mut\(\)\.and_then\(\|(\w+)\| \1\.take\(\)\)', '(if prep_cache_present { prep_cache.take() } else { None })', min_count=0)
    fill.requires('slot_invariant', 'current_fp == fp_of(cid(verification_circuit)) && slot_inv(*old(prep_cache))')
    fill.ensures('slot_invariant', 'slot_inv(*final(prep_cache))')
    fill.ensures('slot_filled_for_this_circuit', 'ret is Ok && prep_cache_present ==> (*final(prep_cache) matches Some(c) && c.circuit_prover_data.for_circuit@ == cid(verification_circuit) && c.prover.cfg@ == config.id@ && c.prover.packing@ == params.id@)')
    fill.ensures('slot_untouched_without_cache', '!prep_cache_present ==> *final(prep_cache) == *old(prep_cache)')
    fill.ensures('a_miss_is_a_full_recompute_for_this_call', 'ret matches Ok(out) ==> coherent(&out, verification_circuit, config) && fresh(&out, params) && prepared_like_uncached(&out.1, verification_circuit, config, params)')

    # ---------------------------------------------------------------- next layer: the unguarded hit block
    nx = u.extract(R, '', 'prove_next_layer', 'prove_next_layer[cache_hit_prefix]')
    # the traces block (pack inputs, run the circuit) is one assumed callee
    nx.rewrite_re('R13', r'let traces = \{.*?runner\.run\(\)\.map_err\(VerificationError::Circuit\)\?\s*\};', 'let traces = run_layer_circuit(prev, verification_circuit, verifier_result, config, backend)?;', min_count=2, flags_dotall=True)
    m = re.search(r'if let Some\(cached\) = prep \{', nx.body)
    if m:
        close = match_brace(nx.body, m.end() - 1)
        dropped = len(nx.body) - close - 1
        nx.body = nx.body[:close + 1] + '\nuncached_tail_next(prev, verification_circuit, verifier_result, config, backend, params)\n}'
        nx.rewrites.append(('R13', f'function body truncated after the `if let Some(cached) = prep` block ({dropped} chars dropped)', 'remainder = uncached preparation and proving (assumed callee uncached_tail_next)'))
    nx.set_sig('R11', 'fn prove_next_layer(prev: &RecInput, verification_circuit: &Circuit, verifier_result: &VResult, config: &Cfg, backend: &Backend, params: &ProveNextLayerParams, '
                      'prep: Option<&NextLayerPrepCache>) -> Result<RecursionOutput, VerificationError>')
    common(nx)
    prep_rewrites(nx)
    # a cache is only ever built by build_next_layer_prep, which pairs the prover with the data it prepared (its postcondition below)
    nx.requires('the_cache_pairs_a_prover_with_the_data_it_prepared', 'prep matches Some(c) ==> c.prover.packing@ == c.circuit_prover_data.prep_packing@')
    nx.ensures('result_belongs_to_this_call', 'ret matches Ok(out) ==> coherent(&out, verification_circuit, config)')
    nx.before('let traces = run_layer_circuit', '''proof {
            // nothing guards this block: the property needs the cached data to be for THIS circuit and THIS configuration
            assert(cached.circuit_prover_data.for_circuit@ == cid(verification_circuit)); // @@A:H_next_layer_cache_same_circuit
            assert(cached.prover.cfg@ == config.id@); // @@A:H_next_layer_cache_same_config
        }''', nth=0)

    # ---------------------------------------------------------------- build_next_layer_prep (whole) and the uncached path of prove_next_layer: the SAME preparation
    bp = u.extract(R, '', 'build_next_layer_prep', 'build_next_layer_prep')
    bp.set_sig('R11', 'fn build_next_layer_prep(verification_circuit: &Circuit, config: &Cfg, backend: &Backend, params: &ProveNextLayerParams) -> Result<NextLayerPrepCache, VerificationError>')
    common(bp)
    prep_rewrites(bp)
    bp.ensures('cached_preparation_is_the_uncached_preparation', 'ret matches Ok(c) ==> prepared_like_uncached(&c.circuit_prover_data, verification_circuit, config, params) && c.prover.cfg@ == config.id@ && c.prover.packing@ == params.id@ && c.prover.packing@ == c.circuit_prover_data.prep_packing@')
    nm = u.extract(R, '', 'prove_next_layer', 'prove_next_layer[miss_path]')
    nm.drop_prefix_before('let (airs_degrees, primitive_columns, non_primitive_columns) =', 'prefix: the unguarded cache-hit block (prefix slice)')
    nm.rewrite_re('R13', r'let traces = \{.*?runner\.run\(\)\.map_err\(VerificationError::Circuit\)\?\s*\};', 'let traces = run_layer_circuit(prev, verification_circuit, verifier_result, config, backend)?;', min_count=0, flags_dotall=True)
    nm.set_sig('R11', 'fn prove_next_layer_miss(prev: &RecInput, verification_circuit: &Circuit, verifier_result: &VResult, config: &Cfg, backend: &Backend, params: &ProveNextLayerParams) -> Result<RecursionOutput, VerificationError>', sliced=True)
    common(nm)
    prep_rewrites(nm)
    nm.ensures('uncached_layer_is_prepared_for_this_call', 'ret matches Ok(out) ==> coherent(&out, verification_circuit, config) && fresh(&out, params) && prepared_like_uncached(&out.1, verification_circuit, config, params)')

    # ---------------------------------------------------------------- RecursionOutput::into_recursion_input (output of one layer -> input of the next)
    ir = u.extract(R, r'impl<SC> RecursionOutput<SC>', 'into_recursion_input', 'RecursionOutput::into_recursion_input')
    ir.set_sig('R11', "fn into_recursion_input(&self) -> RecursionInput<'_>")
    ir.rewrite_re('R6', r'vec!\[vec!\[\]; num_tables\]', 'empty_rows(num_tables)', min_count=1)
    # C17 (open finding): nothing in the recursion input says which non-primitive tables the child proof really has; the next layer's verifier matches the proof's entries BY COUNT AND POSITION against
    # the backend's full prover list, so a layer that leaves one of the backend's tables empty (recompose disabled, an unused extra Poseidon2 table) cannot be chained
    ir.ensures('H_the_next_layer_expects_exactly_the_tables_this_proof_carries', 'next_layer_expects_the_tables_of(&self.0)')
    ir.ensures('the_next_layer_verifies_this_proof_against_the_common_data_bound_inside_it_with_no_table_public_inputs',
               '''ret matches RecursionInput::BatchStark { proof, common_data, table_public_inputs } && *proof == self.0 && *common_data == self.0.stark_common
                && table_public_inputs@.len() == self.0.proof.opened_values.instances@.len() && forall|i: int| 0 <= i < table_public_inputs@.len() ==> (#[trigger] table_public_inputs@[i])@.len() == 0''')
    u.text('verus! {')
    for f in (fp, hit, fill, nx, bp, nm):
        u.emit(f)
    u.text('impl RecursionOutput {')
    u.emit(ir)
    u.text('}')
    u.text('}')
    return u
