"""Unit `cbconn` (C03 / C12): CircuitBuilder::connect hands EVERY equality between two different targets to the expression builder (whose `connect` is proved to record
the pair, unit expr; the lowering turns recorded pairs into shared witness slots, unit dsu / lower).  The provenance caches it maintains on the way
(ext_recompose_coeffs, ext_select_sources) must never stand in for the equality itself: a target hinted as "the recomposition of c" (hint_ext_recompose_coeffs records
provenance WITHOUT a constraint) is tied to its coefficients only by the connect the caller adds.
Real text: circuit/src/builder/circuit_builder.rs  CircuitBuilder::connect (whole function); merge_provenance and the two caches are opaque."""
import re

from vf.unit import Unit, normalize_let_chains

PRELUDE = r'''
#![allow(unused_imports, unused_variables, dead_code, unused_mut, unused_parens)]
use vstd::prelude::*;
verus! {
global size_of usize == 8;
#[derive(Clone, Copy, PartialEq, Eq, Structural)] pub struct ExprId(pub u32);
impl ExprId { pub const ZERO: ExprId = ExprId(0); }
/// a provenance value (a coefficient list / a select triple), opaque; comparable
#[derive(Clone, Copy, PartialEq, Eq, Structural)] pub struct Prov(pub u64);
/// HashMap<ExprId, V> provenance cache: contents not modelled
pub struct ProvMap { pub _p: () }
impl ProvMap {
    #[verifier::external_body] pub fn remove(&mut self, k: &ExprId) -> (r: Option<Prov>) { unimplemented!() }
    #[verifier::external_body] pub fn get(&self, k: &ExprId) -> (r: Option<&Prov>) { unimplemented!() }
    #[verifier::external_body] pub fn contains_key(&self, k: &ExprId) -> (r: bool) { unimplemented!() }
}
/// the expression builder, by the list of equalities handed to it (ExpressionBuilder::connect: proved in unit expr to record the pair unless a == b)
pub struct ExprBuilder { pub pending: Ghost<Seq<(ExprId, ExprId)>> }
impl ExprBuilder {
    #[verifier::external_body]
    pub fn connect(&mut self, a: ExprId, b: ExprId) ensures final(self).pending@ == (if a != b { old(self).pending@.push((a, b)) } else { old(self).pending@ }) {}
}
pub struct CircuitBuilder { pub expr_builder: ExprBuilder, pub ext_recompose_coeffs: ProvMap, pub ext_select_sources: ProvMap }
impl CircuitBuilder {
    #[verifier::external_body]
    pub fn merge_provenance(map: &mut ProvMap, a: ExprId, b: ExprId, what: &str) {}
}
} // verus!
'''


def build():
    u = Unit('cbconn', ['C03', 'C12'])
    u.assume('ExpressionBuilder::connect records the pair (proved in unit expr); the provenance caches and merge_provenance are opaque (their contents never decide whether the equality is emitted -- that is the contract)')
    u.text(PRELUDE)
    c = u.extract('circuit/src/builder/circuit_builder.rs', r'impl<F> CircuitBuilder<F>', 'connect', 'CircuitBuilder::connect')
    c.rewrite_re('R11', r'\bSelf::merge_provenance\(', 'CircuitBuilder::merge_provenance(', min_count=0)
    normalize_let_chains(c)
    c.ensures('every_equality_between_two_different_targets_reaches_the_expression_builder',
              'final(self).expr_builder.pending@ == (if a != b { old(self).expr_builder.pending@.push((a, b)) } else { old(self).expr_builder.pending@ })')
    u.text('verus! {\nimpl CircuitBuilder {')
    u.emit(c)
    u.text('}\n}')
    return u
