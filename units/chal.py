"""Unit `chal` (C05, layer 1): every method of CircuitChallenger refines the native DuplexChallenger
(p3-challenger 0.6.3), for every history, through an abstraction function + representation invariant.
Real text: recursion/src/challenger/circuit.rs {new, init, duplexing, observe, sample, observe_ext, sample_ext,
sample_bits, check_pow_witness, clear}.  The four permutation back ends (duplexing_base/ext/_p1) are callee
contracts at this layer (`state := perm(state)`), examined separately."""
import os
import re

from vf.extract import extract_item
from vf.unit import Unit

HERE = os.path.dirname(os.path.abspath(__file__))

STUBS = r'''
verus! {
// ------------------------------------------------------------------ opaque configuration objects
#[derive(Clone, Copy)]
pub struct Poseidon2Config { pub dd: usize, pub wext: usize, pub rext: usize }
#[derive(Clone, Copy)]
pub struct Poseidon1Config { pub dd: usize, pub wext: usize, pub rext: usize }
impl Poseidon2Config {
    pub fn d(&self) -> (r: usize) ensures r == self.dd { self.dd }
    pub fn width_ext(&self) -> (r: usize) ensures r == self.wext { self.wext }
    pub fn rate_ext(&self) -> (r: usize) ensures r == self.rext { self.rext }
}
impl Poseidon1Config {
    pub fn d(&self) -> (r: usize) ensures r == self.dd { self.dd }
    pub fn width_ext(&self) -> (r: usize) ensures r == self.wext { self.wext }
    pub fn rate_ext(&self) -> (r: usize) ensures r == self.rext { self.rext }
}
pub trait ChallengerPermConfig {
    spec fn sp_p2(&self) -> Option<Poseidon2Config>;
    spec fn sp_p1(&self) -> Option<Poseidon1Config>;
    /// at least one permutation family is configured (the real impls return Some for exactly one)
    proof fn some_perm(&self) ensures self.sp_p2().is_some() || self.sp_p1().is_some();
    fn as_poseidon2(&self) -> (r: Option<&Poseidon2Config>)
        ensures r.is_some() == self.sp_p2().is_some(), r.is_some() ==> *r.unwrap() == self.sp_p2().unwrap();
    fn as_poseidon1(&self) -> (r: Option<&Poseidon1Config>)
        ensures r.is_some() == self.sp_p1().is_some(), r.is_some() ==> *r.unwrap() == self.sp_p1().unwrap();
}
#[derive(Debug)]
pub struct CircuitBuilderError { pub _p: () }
impl CircuitBuilderError {
    #[verifier::external_body]
    pub fn too_many_bits(expected: usize, n_bits: usize) -> Self { unimplemented!() }
}

// ------------------------------------------------------------------ base-field / extension vocabulary (uninterpreted)
pub uninterp spec fn sp_dim<F: Field>() -> nat;                           // EF::DIMENSION
pub uninterp spec fn sp_bf_bits<BF>() -> nat;                             // BF::bits()
pub uninterp spec fn coeffs_raw<F: Field>(x: F) -> Seq<F>;
pub uninterp spec fn ext_of<F: Field>(c: Seq<F>) -> F;                    // from_basis_coefficients
pub uninterp spec fn bits_raw<F: Field>(x: F, n: nat) -> Seq<F>;
pub uninterp spec fn from_u8<F: Field>(n: int) -> F;                      // F::from_u8
pub uninterp spec fn perm_raw<F: Field>(s: Seq<F>) -> Seq<F>;
/// basis coefficients of x embedded in EF (always sp_dim of them — length by construction, no axiom)
pub open spec fn coeffs_of<F: Field>(x: F) -> Seq<F> {
    if coeffs_raw(x).len() == sp_dim::<F>() { coeffs_raw(x) } else { Seq::new(sp_dim::<F>(), |i: int| x) }
}
/// a little-endian 0/1 decomposition of a base element into n bits
pub open spec fn bits_of<F: Field>(x: F, n: nat) -> Seq<F> {
    if bits_raw(x, n).len() == n { bits_raw(x, n) } else { Seq::new(n, |i: int| x) }
}
/// the sponge permutation (length preserving by construction)
pub open spec fn perm<F: Field>(s: Seq<F>) -> Seq<F> {
    if perm_raw(s).len() == s.len() { perm_raw(s) } else { s }
}

pub uninterp spec fn sp_order<BF>() -> nat;                               // the base-field modulus P
pub open spec fn pw2(n: nat) -> nat decreases n { if n == 0 { 1 } else { 2 * pw2((n - 1) as nat) } }
pub open spec fn canonical_width<BF>(n: nat) -> bool { pw2(n) <= sp_order::<BF>() }
/// BF::bits() is the bit length of the (odd prime) modulus: 2^(bits-1) < P < 2^bits
pub trait BfX: Sized { fn bits() -> (r: usize) ensures r == sp_bf_bits::<Self>(), r >= 1, pw2((r - 1) as nat) < sp_order::<Self>() < pw2(r as nat); }
pub trait ExtX: FieldX {
    fn dimension() -> (r: usize) ensures r == sp_dim::<Self>(), r >= 1;
    fn from_u8(n: u8) -> (r: Self) ensures r == from_u8::<Self>(n as int);
}

// ------------------------------------------------------------------ builder operations used by the challenger (assumed contracts)
impl<F: Field> CircuitBuilder<F> {
    #[verifier::external_body]
    pub fn decompose_ext_to_base_coeffs<BF>(&mut self, x: ExprId) -> (r: Result<Vec<ExprId>, CircuitBuilderError>)
        ensures final(self).extends(old(self)), r is Ok, final(self).chain@ == old(self).chain@, final(self).row@ == old(self).row@,
                r matches Ok(v) ==> final(self).has_all(v@) && final(self).vals_of(v@) == coeffs_of(old(self).val(x)),
                // taint: the coefficients are the unique base-field decomposition of a pinned element
                r matches Ok(v) ==> (old(self).bound(x) ==> final(self).all_bound(v@))
    { unimplemented!() }
    #[verifier::external_body]
    pub fn recompose_base_coeffs_to_ext<BF>(&mut self, coeffs: &[ExprId]) -> (r: Result<ExprId, CircuitBuilderError>)
        ensures final(self).extends(old(self)), final(self).chain@ == old(self).chain@, final(self).row@ == old(self).row@,
                r is Ok <==> coeffs@.len() == sp_dim::<F>(),
                r matches Ok(t) ==> final(self).has(t) && final(self).val(t) == ext_of(old(self).vals_of(coeffs@)),
                r matches Ok(t) ==> (old(self).all_bound(coeffs@) ==> final(self).bound(t))
    { unimplemented!() }
    /// `canonical_width`: C12's proviso — the decomposition is the canonical one only if 2^n_bits <= P.
    /// It is a requirement for canonicity, not for safety; every call site must discharge it.
    #[verifier::external_body]
    pub fn decompose_to_bits<BF>(&mut self, x: ExprId, n_bits: usize) -> (r: Result<Vec<ExprId>, CircuitBuilderError>)
        requires
            canonical_width::<BF>(n_bits as nat),
        ensures final(self).extends(old(self)), r is Ok <==> n_bits <= sp_bf_bits::<BF>(), final(self).chain@ == old(self).chain@,
                r matches Ok(v) ==> (old(self).bound(x) ==> final(self).all_bound(v@)),
                r matches Ok(v) ==> v@.len() == n_bits && final(self).has_all(v@) && final(self).vals_of(v@) == bits_of(old(self).val(x), n_bits as nat)
    { unimplemented!() }
}
} // verus!
'''

MODEL = r'''
verus! {

// =====================================================================================================
// NATIVE MODEL — transcribed from p3-challenger 0.6.3 src/duplex_challenger.rs (duplexing: lines 86-112,
// observe: CanObserve<F>, sample: CanSample, clear/new).  WIDTH/RATE are spec parameters.
// =====================================================================================================
pub struct NState<F> { pub sponge: Seq<F>, pub inbuf: Seq<F>, pub outbuf: Seq<F> }

pub open spec fn zeros<F: Field>(n: nat) -> Seq<F> { Seq::new(n, |i: int| F::fzero()) }
pub open spec fn n_new<F: Field>(width: nat) -> NState<F> { NState { sponge: zeros(width), inbuf: Seq::empty(), outbuf: Seq::empty() } }

/// sponge after the absorb step of `duplexing` (before the permutation)
pub open spec fn n_absorbed<F: Field>(s: NState<F>, rate: nat) -> Seq<F> {
    let n = s.inbuf.len();
    Seq::new(s.sponge.len(), |i: int|
        if i < n { s.inbuf[i] }
        else if n > 0 && i < rate { F::fzero() }
        else if n > 0 && i == rate { s.sponge[i].fadd(from_u8::<F>(n as int)) }
        else { s.sponge[i] })
}
pub open spec fn n_duplex<F: Field>(s: NState<F>, rate: nat) -> NState<F> {
    let st = perm(n_absorbed(s, rate));
    NState { sponge: st, inbuf: Seq::empty(), outbuf: st.subrange(0, rate as int) }
}
pub open spec fn n_observe<F: Field>(s: NState<F>, v: F, rate: nat) -> NState<F> {
    let s1 = NState { sponge: s.sponge, inbuf: s.inbuf.push(v), outbuf: Seq::empty() };
    if s1.inbuf.len() == rate { n_duplex(s1, rate) } else { s1 }
}
pub open spec fn n_pre_sample<F: Field>(s: NState<F>, rate: nat) -> NState<F> {
    if s.inbuf.len() > 0 || s.outbuf.len() == 0 { n_duplex(s, rate) } else { s }
}
pub open spec fn n_sample_state<F: Field>(s: NState<F>, rate: nat) -> NState<F> {
    let s1 = n_pre_sample(s, rate);
    NState { sponge: s1.sponge, inbuf: s1.inbuf, outbuf: s1.outbuf.drop_last() }
}
pub open spec fn n_sample_value<F: Field>(s: NState<F>, rate: nat) -> F { n_pre_sample(s, rate).outbuf.last() }

/// observe a sequence of base elements one after the other (observe_algebra_element / observe_slice)
pub open spec fn n_observe_seq<F: Field>(s: NState<F>, vs: Seq<F>, rate: nat) -> NState<F> decreases vs.len() {
    if vs.len() == 0 { s } else { n_observe(n_observe_seq(s, vs.drop_last(), rate), vs.last(), rate) }
}
/// sample k base elements: resulting state and the values in sampling order (sample_algebra_element)
/// native `observe_algebra_slice`: each element's basis coefficients, in order
pub open spec fn n_observe_ext_seq<F: Field>(s: NState<F>, vs: Seq<F>, rate: nat) -> NState<F> decreases vs.len() {
    if vs.len() == 0 { s } else { n_observe_seq(n_observe_ext_seq(s, vs.drop_last(), rate), coeffs_of(vs.last()), rate) }
}
/// native `sample_algebra_element` k times
pub open spec fn n_sample_ext_many_state<F: Field>(s: NState<F>, k: nat, d: nat, rate: nat) -> NState<F> decreases k {
    if k == 0 { s } else { n_sample_many_state(n_sample_ext_many_state(s, (k - 1) as nat, d, rate), d, rate) }
}
pub open spec fn n_sample_ext_many_vals<F: Field>(s: NState<F>, k: nat, d: nat, rate: nat) -> Seq<F> decreases k {
    if k == 0 { Seq::empty() } else { n_sample_ext_many_vals(s, (k - 1) as nat, d, rate).push(ext_of(n_sample_many_vals(n_sample_ext_many_state(s, (k - 1) as nat, d, rate), d, rate))) }
}
pub open spec fn n_sample_many_state<F: Field>(s: NState<F>, k: nat, rate: nat) -> NState<F> decreases k {
    if k == 0 { s } else { n_sample_state(n_sample_many_state(s, (k - 1) as nat, rate), rate) }
}
pub open spec fn n_sample_many_vals<F: Field>(s: NState<F>, k: nat, rate: nat) -> Seq<F> decreases k {
    if k == 0 { Seq::empty() } else { n_sample_many_vals(s, (k - 1) as nat, rate).push(n_sample_value(n_sample_many_state(s, (k - 1) as nat, rate), rate)) }
}

// =====================================================================================================
// ABSTRACTION of the circuit challenger
// =====================================================================================================
impl<const WIDTH: usize, const RATE: usize, C: ChallengerPermConfig> CircuitChallenger<WIDTH, RATE, C> {
    /// representation invariant
    pub open spec fn inv<F: Field>(&self, cb: &CircuitBuilder<F>) -> bool {
        &&& RATE < WIDTH && RATE > 0 && RATE <= 255
        &&& (self.initialized ==> self.state@.len() == WIDTH)
        &&& (!self.initialized ==> self.input_buffer@.len() == 0 && self.output_buffer@.len() == 0)
        &&& self.input_buffer@.len() < RATE
        &&& self.output_buffer@.len() <= RATE
        &&& cb.has_all(self.state@) && cb.has_all(self.input_buffer@) && cb.has_all(self.output_buffer@)
    }
    /// the same, inside `observe` right before duplexing (buffer may be full)
    pub open spec fn inv_full<F: Field>(&self, cb: &CircuitBuilder<F>) -> bool {
        &&& RATE < WIDTH && RATE > 0 && RATE <= 255
        &&& self.initialized && self.state@.len() == WIDTH
        &&& self.input_buffer@.len() <= RATE
        &&& self.output_buffer@.len() <= RATE
        &&& cb.has_all(self.state@) && cb.has_all(self.input_buffer@) && cb.has_all(self.output_buffer@)
    }
    /// abstraction function: the native challenger state this circuit challenger stands for
    pub open spec fn abs<F: Field>(&self, cb: &CircuitBuilder<F>) -> NState<F> {
        NState {
            sponge: if self.initialized { cb.vals_of(self.state@) } else { zeros(WIDTH as nat) },
            inbuf: cb.vals_of(self.input_buffer@),
            outbuf: cb.vals_of(self.output_buffer@),
        }
    }
}

pub open spec fn low_zero<F: Field>(s: Seq<F>, k: int) -> bool { forall|i: int| 0 <= i < k && i < s.len() ==> #[trigger] s[i] == F::fzero() }

pub proof fn lemma_vals_of_extends<F: Field>(a: &CircuitBuilder<F>, b: &CircuitBuilder<F>, s: Seq<ExprId>)
    requires b.extends(a), a.has_all(s)
    ensures b.has_all(s), b.vals_of(s) == a.vals_of(s)
{
    assert forall|i: int| 0 <= i < s.len() implies b.has(#[trigger] s[i]) && b.val(s[i]) == a.val(s[i]) by { assert(a.has(s[i])); }
    assert(b.vals_of(s) =~= a.vals_of(s));
}
} // verus!
'''


def common(f, gen='<EF: ExtX>'):
    f.rewrite_re('R11', r'::<BF, EF>', '', min_count=0)
    f.rewrite_re('R11', r'\bEF::ZERO\b', 'EF::zero()')
    f.rewrite_re('R11', r'\bEF::DIMENSION\b', 'EF::dimension()')
    return f


def rw_duplexing(d):
    """logged rewrites that bring CircuitChallenger::duplexing into the Verus dialect (shared with unit `bind`)"""
    d.rewrite('R9', 'debug_assert!(self.initialized, "Challenger must be initialized");', 'assert(self.initialized);')
    d.rewrite('R9', 'debug_assert!(num_absorbed <= RATE, "Input buffer exceeds RATE");', 'assert(num_absorbed <= RATE);')
    d.rewrite('R6', 'self.config.as_poseidon2().copied()', '(match self.config.as_poseidon2() { Some(c_) => Some(*c_), None => None })')
    d.rewrite('R6', 'self.config.as_poseidon1().copied()', '(match self.config.as_poseidon1() { Some(c_) => Some(*c_), None => None })')
    d.rewrite('R5', 'for (i, val) in self.input_buffer.drain(..).enumerate() { self.state[i] = val; }',
              'for i in 0..self.input_buffer.len() { let val = self.input_buffer[i]; self.state[i] = val; } self.input_buffer.clear();')
    d.rewrite('R6', 'p2_config.map_or_else(|| p1_config.is_some_and(|c| c.d() == 1), |c| c.d() == 1)',
              '(match p2_config { Some(c) => c.d() == 1, None => match p1_config { Some(c) => c.d() == 1, None => false } })')
    d.rewrite('R5', 'for slot in self.state.iter_mut().take(RATE).skip(num_absorbed) { *slot = zero; }',
              'for j_ in num_absorbed..RATE { if j_ < self.state.len() { self.state[j_] = zero; } }')
    d.rewrite('R11', 'EF::from_u8(num_absorbed as u8)', 'EF::from_u8(num_absorbed as u8)')
    d.rewrite('R9', 'panic!("unsupported challenger permutation");', 'assert(false); // panic!: unreachable because a permutation family is configured')


def build():
    u = Unit('chal', ['C05'])
    u.rlimit = 80
    u.assume('native DuplexChallenger model (n_duplex / n_observe / n_sample*) transcribed from p3-challenger 0.6.3 src/duplex_challenger.rs')
    u.assume('permutation back ends duplexing_base / duplexing_ext / duplexing_base_p1 / duplexing_ext_p1: callee contract `tracked state := perm(tracked state)` (base path: with the length tag applied inside the table via absorb_len, capacity carried by in-table chaining) — ASSUMED at this layer')
    u.assume('builder contracts decompose_ext_to_base_coeffs / recompose_base_coeffs_to_ext / decompose_to_bits return the honest coefficient / bit vectors (their canonicity is property C12)')
    u.assume('builder arithmetic contracts as in unit gad; field laws')
    u.text(open(os.path.join(HERE, 'gadget_prelude.rs')).read())
    u.text(STUBS)
    F = 'recursion/src/challenger/circuit.rs'
    st = extract_item(F, r'pub struct CircuitChallenger<')
    st = re.sub(r'(\n\s+)(\w+):', r'\1pub \2:', st)
    u.text('verus! {\n' + st + '\n}')
    u.text(MODEL)

    IMPL = r'^impl<const WIDTH: usize, const RATE: usize, C: ChallengerPermConfig> CircuitChallenger<WIDTH, RATE, C>$'
    TIMPL = r'RecursiveChallenger<BF, EF> for CircuitChallenger<WIDTH, RATE, C>'


    # ---------------------------------------------------------------- new / init / clear
    n = u.extract(F, IMPL, 'new', 'CircuitChallenger::new')
    n.sig_rewrite('R12', '-> Self', '-> CircuitChallenger<WIDTH, RATE, C>')
    n.rewrite_re('R12', r'\bSelf\s*\{', 'CircuitChallenger {')
    n.ensures('fresh', '!ret.initialized && !ret.duplexed_once && ret.state@.len() == 0 && ret.input_buffer@.len() == 0 && ret.output_buffer@.len() == 0')

    i = common(u.extract(F, IMPL, 'init', 'CircuitChallenger::init'))
    i.set_sig('R11', 'fn init<EF: ExtX>(&mut self, circuit: &mut CircuitBuilder<EF>)')
    i.requires('inv', 'old(self).inv(old(circuit))')
    i.ensures('inv', 'final(self).inv(final(circuit)) && final(self).initialized')
    i.ensures('frame', 'final(circuit).extends_pure(old(circuit))')
    i.ensures('abs_unchanged', 'final(self).abs(final(circuit)) == old(self).abs(old(circuit))')
    i.ensures('flags', 'final(self).duplexed_once == old(self).duplexed_once && final(self).config == old(self).config')
    i.before('return;', 'proof { lemma_vals_of_extends(old(circuit), circuit, self.state@); }')
    i.at_end('''proof {
            assert(circuit.vals_of(self.state@) =~= zeros::<EF>(WIDTH as nat));
            assert(circuit.vals_of(self.input_buffer@) =~= old(circuit).vals_of(old(self).input_buffer@));
            assert(circuit.vals_of(self.output_buffer@) =~= old(circuit).vals_of(old(self).output_buffer@));
        }''')

    # ---------------------------------------------------------------- permutation back ends: callee contracts only
    PERM_CONTRACT = '''
        requires old(self).initialized, old(self).state@.len() == WIDTH, RATE < WIDTH, old(circuit).has_all(old(self).state@)
        ensures final(circuit).extends(old(circuit)), final(self).state@.len() == WIDTH, final(circuit).has_all(final(self).state@),
                final(self).initialized, final(self).input_buffer == old(self).input_buffer, final(self).output_buffer == old(self).output_buffer,
                final(self).config == old(self).config,'''
    # base path: the capacity is carried ONLY by row adjacency in the permutation table; the callee contract therefore has a precondition on the caller's HISTORY:
    # no other sponge row of that table was emitted since this challenger's previous duplexing.  Nothing in the API establishes it (finding C05-d1-capacity-chained-by-row-adjacency).
    PERM_CONTRACT_BASE = PERM_CONTRACT.replace('requires old(self).initialized,', 'requires latest_sponge_row_of_the_table_is_this_challengers_previous_duplexing(old(circuit), *old(self)), old(self).initialized,')
    u.text('verus! {\n/// the compact D=1 permutation tables add the absorb-length tag to a fixed state slot (8 for the W16 tables), whatever RATE the challenger type was instantiated with\npub uninterp spec fn challenger_rate_is_the_base_tables_rate(rate: int) -> bool;\n}')
    u.text('verus! {\n/// HISTORY precondition of the D=1 (base-field) duplexing: see PERM_CONTRACT_BASE\npub uninterp spec fn latest_sponge_row_of_the_table_is_this_challengers_previous_duplexing<EF: Field, const WIDTH: usize, const RATE: usize, C: ChallengerPermConfig>(cb: &CircuitBuilder<EF>, ch: CircuitChallenger<WIDTH, RATE, C>) -> bool;\n}')
    u.text('verus! {\nimpl<const WIDTH: usize, const RATE: usize, C: ChallengerPermConfig> CircuitChallenger<WIDTH, RATE, C> {\n'
           '    /// ASSUMED callee contract (extension path): the caller has already applied the length tag\n'
           '    #[verifier::external_body]\n'
           '    fn duplexing_ext<EF: ExtX>(&mut self, circuit: &mut CircuitBuilder<EF>, poseidon2_config: Poseidon2Config)' + PERM_CONTRACT +
           '\n                final(circuit).vals_of(final(self).state@) == perm(old(circuit).vals_of(old(self).state@)),\n    { unimplemented!() }\n'
           '    #[verifier::external_body]\n'
           '    fn duplexing_ext_p1<EF: ExtX>(&mut self, circuit: &mut CircuitBuilder<EF>, poseidon1_config: Poseidon1Config)' + PERM_CONTRACT +
           '\n                final(circuit).vals_of(final(self).state@) == perm(old(circuit).vals_of(old(self).state@)),\n    { unimplemented!() }\n'
           '    /// ASSUMED callee contract (base path): the table adds `absorb_len` to the first capacity limb itself\n'
           '    #[verifier::external_body]\n'
           '    fn duplexing_base<EF: ExtX>(&mut self, circuit: &mut CircuitBuilder<EF>, poseidon2_config: Poseidon2Config, absorb_len: usize)' + PERM_CONTRACT_BASE +
           '\n                final(circuit).vals_of(final(self).state@) == perm(with_tag(old(circuit).vals_of(old(self).state@), RATE as nat, absorb_len as nat)),\n    { unimplemented!() }\n'
           '    #[verifier::external_body]\n'
           '    fn duplexing_base_p1<EF: ExtX>(&mut self, circuit: &mut CircuitBuilder<EF>, poseidon1_config: Poseidon1Config, absorb_len: usize)' + PERM_CONTRACT_BASE +
           '\n                final(circuit).vals_of(final(self).state@) == perm(with_tag(old(circuit).vals_of(old(self).state@), RATE as nat, absorb_len as nat)),\n    { unimplemented!() }\n'
           '}\n'
           'pub open spec fn with_tag<F: Field>(s: Seq<F>, rate: nat, n: nat) -> Seq<F> {\n'
           '    Seq::new(s.len(), |i: int| if n > 0 && i == rate { s[i].fadd(from_u8::<F>(n as int)) } else { s[i] })\n'
           '}\n}')

    # ---------------------------------------------------------------- duplexing
    d = common(u.extract(F, IMPL, 'duplexing', 'CircuitChallenger::duplexing'))
    d.set_sig('R11', 'fn duplexing<EF: ExtX>(&mut self, circuit: &mut CircuitBuilder<EF>)')
    rw_duplexing(d)
    # the D=1 tables put the absorb-length tag into state slot 8 (their own rate); the challenger type is generic in RATE and nothing ties the two
    d.rewrite_re('SPEC', r'(self\.duplexing_base(?:_p1)?\(circuit, )', r'proof { assert(challenger_rate_is_the_base_tables_rate(RATE as int)); } // @@A:H_the_challengers_rate_is_the_rate_the_base_table_tags\n            \1', min_count=0)
    d.requires('inv', 'old(self).inv_full(old(circuit))')
    d.ensures('refines_native_duplexing', 'final(self).abs(final(circuit)) == n_duplex(old(self).abs(old(circuit)), RATE as nat)')
    d.ensures('inv', 'final(self).inv(final(circuit)) && final(self).initialized && final(self).output_buffer@.len() == RATE')
    d.ensures('frame', 'final(circuit).extends(old(circuit)) && final(self).config == old(self).config')
    d.at_start('''let ghost n0 = self.abs(circuit); let ghost in0 = self.input_buffer@; let ghost st0 = self.state@;
        proof { self.config.some_perm(); }''')
    d.loop('for i in 0..self.input_buffer.len()', invariants=[
        ('shape', 'self.state@.len() == WIDTH && self.input_buffer@ == in0 && in0.len() <= RATE && RATE < WIDTH && self.initialized'),
        ('alloc', 'circuit.has_all(self.state@) && circuit.has_all(in0)'),
        ('copied', 'forall|k: int| 0 <= k < i ==> self.state@[k] == in0[k]'),
        ('rest', 'forall|k: int| i <= k < WIDTH ==> self.state@[k] == st0[k]'),
        ('cfg', 'self.config == old(self).config && self.output_buffer == old(self).output_buffer && *circuit == *old(circuit)'),
    ])
    d.loop('for j_ in num_absorbed..RATE', invariants=[
        ('shape', 'self.state@.len() == WIDTH && self.input_buffer@.len() == 0 && num_absorbed == in0.len() && in0.len() <= RATE && RATE < WIDTH && self.initialized'),
        ('alloc', 'circuit.has_all(self.state@) && circuit.has(zero) && circuit.val(zero) == EF::fzero()'),
        ('copied', 'forall|k: int| 0 <= k < num_absorbed ==> self.state@[k] == in0[k]'),
        ('zeroed', 'forall|k: int| num_absorbed <= k < j_ ==> self.state@[k] == zero'),
        ('rest', 'forall|k: int| j_ <= k < WIDTH && k >= num_absorbed ==> self.state@[k] == st0[k]'),
        ('cfg', 'self.config == old(self).config && self.output_buffer == old(self).output_buffer && circuit.extends_pure(old(circuit))'),
    ])
    d.before('if let Some(cfg) = p2_config {', '''let ghost pre = circuit.vals_of(self.state@); let ghost circ1 = *circuit;
        proof {
            // tracked state before the permutation, with the base path's deferred tag, is the native absorbed sponge
            assert(circuit.has_all(in0)) by { lemma_vals_of_extends(old(circuit), circuit, in0); }
            lemma_vals_of_extends(old(circuit), circuit, in0);
            lemma_vals_of_extends(old(circuit), circuit, st0);
            let tagged = if is_base { with_tag(pre, RATE as nat, num_absorbed as nat) } else { pre };
            let want = n_absorbed(n0, RATE as nat);
            assert(n0.inbuf.len() == num_absorbed && n0.sponge.len() == WIDTH);
            assert forall|k: int| 0 <= k < WIDTH implies tagged[k] == want[k] by {
                assert(old(circuit).has(st0[k]));
                if k < num_absorbed { assert(old(circuit).has(in0[k])); }
            }
            assert(tagged =~= want);
        }''')
    d.before('self.output_buffer.clear();', 'let ghost post = circuit.vals_of(self.state@);')
    d.at_end('''proof {
            assert(circuit.vals_of(self.output_buffer@) =~= post.subrange(0, RATE as int));
            assert(circuit.vals_of(self.input_buffer@) =~= Seq::<EF>::empty());
            assert(circuit.has_all(self.output_buffer@));
        }''')

    # ---------------------------------------------------------------- observe / sample
    o = common(u.extract(F, TIMPL, 'observe', 'CircuitChallenger::observe'))
    o.set_sig('R11', 'fn observe<EF: ExtX>(&mut self, circuit: &mut CircuitBuilder<EF>, value: Target)')
    o.requires('inv', 'old(self).inv(old(circuit)) && old(circuit).has(value)')
    o.ensures('refines_native_observe', 'final(self).abs(final(circuit)) == n_observe(old(self).abs(old(circuit)), old(circuit).val(value), RATE as nat)')
    o.ensures('inv', 'final(self).inv(final(circuit)) && final(self).config == old(self).config')
    o.ensures('frame', 'final(circuit).extends(old(circuit))')
    o.after('self.input_buffer.push(value);', '''proof {
            lemma_vals_of_extends(old(circuit), circuit, old(self).input_buffer@);
            assert(circuit.vals_of(self.input_buffer@) =~= old(circuit).vals_of(old(self).input_buffer@).push(old(circuit).val(value)));
            assert(circuit.vals_of(self.output_buffer@) =~= Seq::<EF>::empty());
        }''')

    s = common(u.extract(F, TIMPL, 'sample', 'CircuitChallenger::sample'))
    s.set_sig('R11', 'fn sample<EF: ExtX>(&mut self, circuit: &mut CircuitBuilder<EF>) -> Target')
    s.requires('inv', 'old(self).inv(old(circuit))')
    s.ensures('refines_native_sample_state', 'final(self).abs(final(circuit)) == n_sample_state(old(self).abs(old(circuit)), RATE as nat)')
    s.ensures('returns_native_sample', 'final(circuit).has(ret) && final(circuit).val(ret) == n_sample_value(old(self).abs(old(circuit)), RATE as nat)')
    s.ensures('inv', 'final(self).inv(final(circuit)) && final(self).config == old(self).config')
    s.ensures('frame', 'final(circuit).extends(old(circuit))')
    s.before('self.output_buffer .pop()', '''let ghost ob = self.output_buffer@;
        proof {
            assert(ob.len() > 0);
            assert(circuit.vals_of(ob.drop_last()) =~= circuit.vals_of(ob).drop_last());
            assert(circuit.has(ob.last()));
        }''')

    c = common(u.extract(F, TIMPL, 'clear', 'CircuitChallenger::clear'))
    c.set_sig('R11', 'fn clear<EF: ExtX>(&mut self, circuit: &mut CircuitBuilder<EF>)')
    c.requires('shape', 'RATE < WIDTH && RATE > 0 && RATE <= 255')
    c.ensures('native_fresh_state', 'final(self).abs(final(circuit)) == n_new::<EF>(WIDTH as nat)')
    c.ensures('inv', 'final(self).inv(final(circuit)) && final(self).initialized && !final(self).duplexed_once && final(self).config == old(self).config')
    c.ensures('frame', 'final(circuit).extends_pure(old(circuit))')
    c.at_end('''proof {
            assert(circuit.vals_of(self.state@) =~= zeros::<EF>(WIDTH as nat));
            assert(circuit.vals_of(self.input_buffer@) =~= Seq::<EF>::empty());
            assert(circuit.vals_of(self.output_buffer@) =~= Seq::<EF>::empty());
        }''')

    # ---------------------------------------------------------------- extension-field and bit operations
    oe = common(u.extract(F, TIMPL, 'observe_ext', 'CircuitChallenger::observe_ext'))
    oe.set_sig('R11', 'fn observe_ext<BF, EF: ExtX>(&mut self, circuit: &mut CircuitBuilder<EF>, value: Target)')
    oe.rewrite('SPEC-iter-name', 'for coeff in coeffs {', 'for coeff in it: coeffs {')
    oe.requires('inv', 'old(self).inv(old(circuit)) && old(circuit).has(value)')
    oe.ensures('refines_native_observe_algebra_element',
               'final(self).abs(final(circuit)) == n_observe_seq(old(self).abs(old(circuit)), coeffs_of(old(circuit).val(value)), RATE as nat)')
    oe.ensures('inv', 'final(self).inv(final(circuit)) && final(self).config == old(self).config')
    oe.ensures('frame', 'final(circuit).extends(old(circuit))')
    oe.before('for coeff in it: coeffs', '''let ghost n0 = old(self).abs(old(circuit)); let ghost cv = coeffs_of(old(circuit).val(value)); let ghost cs = coeffs@;
        proof {
            lemma_vals_of_extends(old(circuit), circuit, self.state@);
            lemma_vals_of_extends(old(circuit), circuit, self.input_buffer@);
            lemma_vals_of_extends(old(circuit), circuit, self.output_buffer@);
            assert(cv.take(0) =~= Seq::<EF>::empty());
        }''')
    oe.loop('for coeff in it: coeffs', invariants=[
        ('seq', 'it.seq() == cs && cs.len() == cv.len()'),
        ('inv', 'self.inv(circuit) && self.config == old(self).config && circuit.extends(old(circuit))'),
        ('coeffs', 'circuit.has_all(cs) && circuit.vals_of(cs) == cv'),
        ('abs', 'self.abs(circuit) == n_observe_seq(n0, cv.take(it.index@ as int), RATE as nat)'),
    ])
    oe.before('self.observe(circuit, coeff);', 'let ghost circ_b = *circuit; let ghost k = it.index@ as int; proof { assert(circuit.has(cs[k])); assert(circuit.val(cs[k]) == cv[k]); }')
    oe.after('self.observe(circuit, coeff);', '''proof {
                lemma_vals_of_extends(&circ_b, circuit, cs);
                assert(cv.take(k + 1).drop_last() =~= cv.take(k));
                assert(cv.take(k + 1).last() == cv[k]);
            }''')
    oe.at_end('proof { assert(cv.take(cv.len() as int) =~= cv); }')

    se = common(u.extract(F, TIMPL, 'sample_ext', 'CircuitChallenger::sample_ext'))
    se.set_sig('R11', 'fn sample_ext<BF, EF: ExtX>(&mut self, circuit: &mut CircuitBuilder<EF>) -> Target')
    # R6 (general forms): `(0..N).map(|_| self.sample(circuit)).collect()` -> block expression with a push loop;  `V.drain(A..).rev().collect()` -> reverse copy + truncate
    se.rewrite_re('R6', r'\(0\.\.([\w:()]+)\)\s*\.map\(\|_\| self\.sample\(circuit\)\)\s*\.collect\(\)',
                  r'({ let mut coeffs_: Vec<Target> = Vec::new(); for k_ in 0..\1 { let t_ = self.sample(circuit); coeffs_.push(t_); } coeffs_ })', min_count=1)
    se.rewrite_re('R6', r'([\w.]+)\.drain\((\w+)\.\.\)\s*\.rev\(\)\s*\.collect\(\)',
                  r'({ let mut dr_: Vec<Target> = Vec::new(); let n_dr_ = \1.len(); for r_dr_ in 0..(n_dr_ - \2) { dr_.push(\1[n_dr_ - 1 - r_dr_]); } \1.truncate(\2); dr_ })', min_count=0)
    se.rewrite_re('R11', r'let (\w+): Vec<_> =', r'let \1: Vec<Target> =', min_count=0)
    se.requires('inv', 'old(self).inv(old(circuit))')
    se.ensures('refines_native_sample_algebra_element_state',
               'final(self).abs(final(circuit)) == n_sample_many_state(old(self).abs(old(circuit)), sp_dim::<EF>(), RATE as nat)')
    se.ensures('returns_native_sample_algebra_element',
               'final(circuit).has(ret) && final(circuit).val(ret) == ext_of(n_sample_many_vals(old(self).abs(old(circuit)), sp_dim::<EF>(), RATE as nat))')
    se.ensures('inv', 'final(self).inv(final(circuit)) && final(self).config == old(self).config')
    se.ensures('frame', 'final(circuit).extends(old(circuit))')
    se.at_start('let ghost n0 = self.abs(circuit);')
    se.loop('for k_ in 0..', invariants=[
        ('inv', 'self.inv(circuit) && self.config == old(self).config && circuit.extends(old(circuit))'),
        ('len', 'coeffs_@.len() == k_ && circuit.has_all(coeffs_@)'),
        ('abs', 'self.abs(circuit) == n_sample_many_state(n0, k_ as nat, RATE as nat)'),
        ('vals', 'circuit.vals_of(coeffs_@) == n_sample_many_vals(n0, k_ as nat, RATE as nat)'),
    ])
    se.rewrite('SPEC-bind-tail', 'circuit .recompose_base_coeffs_to_ext::<BF>(&coeffs) .expect("recomposition should succeed")',
               '''let ghost circ_r = *circuit;
        let r_ = circuit .recompose_base_coeffs_to_ext::<BF>(&coeffs) .expect("recomposition should succeed");
        proof {
            lemma_vals_of_extends(&circ_r, circuit, self.state@);
            lemma_vals_of_extends(&circ_r, circuit, self.input_buffer@);
            lemma_vals_of_extends(&circ_r, circuit, self.output_buffer@);
        }
        r_''')
    se.before('let t_ = self.sample(circuit);', 'let ghost circ_b = *circuit; let ghost cs0 = coeffs_@;')
    se.after('coeffs_.push(t_);', '''proof {
                lemma_vals_of_extends(&circ_b, circuit, cs0);
                assert(circuit.vals_of(coeffs_@) =~= circ_b.vals_of(cs0).push(circuit.val(t_)));
            }''')

    sb = common(u.extract(F, TIMPL, 'sample_bits', 'CircuitChallenger::sample_bits'))
    sb.set_sig('R11', 'fn sample_bits<BF: BfX, EF: ExtX>(&mut self, circuit: &mut CircuitBuilder<EF>, num_bits: usize) -> Result<Vec<Target>, CircuitBuilderError>')
    sb.rewrite('R8', 'CircuitBuilderError::BinaryDecompositionTooManyBits { expected: bf_bits, n_bits: num_bits, }', 'CircuitBuilderError::too_many_bits(bf_bits, num_bits)')
    sb.requires('inv', 'old(self).inv(old(circuit))')
    sb.ensures('guard', 'num_bits > sp_bf_bits::<BF>() ==> ret is Err && final(self).abs(final(circuit)) == old(self).abs(old(circuit))')
    sb.ensures('refines_native_sample', 'num_bits <= sp_bf_bits::<BF>() ==> final(self).abs(final(circuit)) == n_sample_state(old(self).abs(old(circuit)), RATE as nat)')
    sb.ensures('low_bits_of_the_native_sample', '''ret matches Ok(v) ==> final(circuit).has_all(v@) && final(circuit).vals_of(v@) ==
            bits_of(n_sample_value(old(self).abs(old(circuit)), RATE as nat), sp_bf_bits::<BF>()).take(num_bits as int)''')
    sb.ensures('inv', 'final(self).inv(final(circuit)) && final(self).config == old(self).config')
    sb.ensures('frame', 'final(circuit).extends(old(circuit))')
    sb.before('let base_sample = self.sample(circuit);', 'proof { lemma_vals_of_extends(old(circuit), circuit, self.state@); }')
    sb.after('let base_sample = self.sample(circuit);', 'let ghost circ_s = *circuit;')
    sb.before('Ok(bits[..num_bits].to_vec())', '''proof {
            lemma_vals_of_extends(&circ_s, circuit, self.state@);
            lemma_vals_of_extends(&circ_s, circuit, self.input_buffer@);
            lemma_vals_of_extends(&circ_s, circuit, self.output_buffer@);
            assert(bits@.len() == bf_bits && num_bits <= bf_bits);
            assert(circuit.vals_of(bits@.subrange(0, num_bits as int)) =~= circuit.vals_of(bits@).take(num_bits as int));
            assert forall|i: int| 0 <= i < num_bits implies circuit.has(#[trigger] bits@.subrange(0, num_bits as int)[i]) by { assert(circuit.has(bits@[i])); }
        }''')

    pw = common(u.extract(F, TIMPL, 'check_pow_witness', 'CircuitChallenger::check_pow_witness'))
    pw.set_sig('R11', 'fn check_pow_witness<BF: BfX, EF: ExtX>(&mut self, circuit: &mut CircuitBuilder<EF>, witness_bits: usize, witness: Target) -> Result<(), CircuitBuilderError>')
    pw.rewrite('SPEC-iter-name', 'for bit in bits {', 'for bit in it: bits {')
    pw.rewrite('R11', 'self.sample_bits(circuit, witness_bits)', 'self.sample_bits::<BF, EF>(circuit, witness_bits)')
    pw.requires('inv', 'old(self).inv(old(circuit)) && old(circuit).has(witness)')
    pw.ensures('zero_bits_is_noop', 'witness_bits == 0 ==> ret is Ok && *final(self) == *old(self) && *final(circuit) == *old(circuit)')
    pw.ensures('refines_native_check_witness', '''ret is Ok && witness_bits > 0 ==> ({
            let n1 = n_observe(old(self).abs(old(circuit)), old(circuit).val(witness), RATE as nat);
            &&& final(self).abs(final(circuit)) == n_sample_state(n1, RATE as nat)
            &&& (final(circuit).sat@ ==> old(circuit).sat@ && low_zero(bits_of(n_sample_value(n1, RATE as nat), sp_bf_bits::<BF>()), witness_bits as int))
        })''')
    pw.ensures('inv', 'final(self).inv(final(circuit)) && final(self).config == old(self).config')
    pw.ensures('frame', 'final(circuit).extends(old(circuit))')
    pw.before('for bit in it: bits', '''let ghost bs = bits@; let ghost bv = circuit.vals_of(bits@); let ghost circ_a = *circuit; let ghost self_a = *self;
        let ghost n1 = n_observe(old(self).abs(old(circuit)), old(circuit).val(witness), RATE as nat);''')
    pw.loop('for bit in it: bits', invariants=[
        ('seq', 'it.seq() == bs && circuit.extends(&circ_a) && circ_a.has_all(bs) && bv == circ_a.vals_of(bs)'),
        ('self', '*self == self_a'),
        ('sat', 'circuit.sat@ ==> circ_a.sat@ && low_zero(bv, it.index@ as int)'),
    ])
    pw.before('circuit.assert_zero(bit);', 'let ghost k = it.index@ as int; proof { assert(circ_a.has(bs[k])); assert(circuit.val(bs[k]) == bv[k]); }')
    pw.before('Ok(()) }', '''proof {
            let full = bits_of(n_sample_value(n1, RATE as nat), sp_bf_bits::<BF>());
            assert(bv == full.take(witness_bits as int));
            assert(bs.len() == bv.len());
            if circuit.sat@ {
                assert forall|i: int| 0 <= i < witness_bits && i < full.len() implies #[trigger] full[i] == EF::fzero() by {
                    assert(bv[i] == full[i]);
                }
            }
            lemma_vals_of_extends(&circ_a, circuit, self.state@);
            lemma_vals_of_extends(&circ_a, circuit, self.input_buffer@);
            lemma_vals_of_extends(&circ_a, circuit, self.output_buffer@);
        }''', nth=0)

    # ---------------------------------------------------------------- provided trait methods (override in the impl, else the trait default)
    TF, TR = 'recursion/src/traits/challenger.rs', r'pub trait RecursiveChallenger<'
    os_ = common(u.extract_impl_or_default(F, TIMPL, TF, TR, 'observe_slice', 'CircuitChallenger::observe_slice'))
    os_.set_sig('R11', 'fn observe_slice<EF: ExtX>(&mut self, circuit: &mut CircuitBuilder<EF>, values: &[Target])')
    os_.rewrite_re('R5', r'for &(\w+) in values \{', r'for sl_ in 0..values.len() { let \1 = values[sl_];', min_count=0)
    os_.rewrite_re('R11', r'self\.observe\(', 'self.observe::<EF>(', min_count=0)
    os_.requires('inv', 'old(self).inv(old(circuit)) && old(circuit).has_all(values@)')
    os_.ensures('refines_native_observe_slice', 'final(self).abs(final(circuit)) == n_observe_seq(old(self).abs(old(circuit)), old(circuit).vals_of(values@), RATE as nat)')
    os_.ensures('inv', 'final(self).inv(final(circuit)) && final(self).config == old(self).config')
    os_.ensures('frame', 'final(circuit).extends(old(circuit))')
    if 'for sl_ in 0..values.len()' in os_.body:
        os_.before('for sl_ in 0..values.len()', 'let ghost n0 = old(self).abs(old(circuit)); let ghost vv = old(circuit).vals_of(values@); proof { assert(vv.take(0) =~= Seq::<EF>::empty()); }')
        os_.loop('for sl_ in 0..values.len()', invariants=[
            ('inv', 'self.inv(circuit) && self.config == old(self).config && circuit.extends(old(circuit))'),
            ('vals', 'circuit.has_all(values@) && circuit.vals_of(values@) == vv && vv.len() == values@.len()'),
            ('abs', 'self.abs(circuit) == n_observe_seq(n0, vv.take(sl_ as int), RATE as nat)'),
        ])
        os_.rewrite_re('SPEC', r'(self\.observe::<EF>\(circuit, \w+\);)', r'''let ghost circ_b = *circuit; proof { assert(circuit.has(values@[sl_ as int])); assert(circuit.val(values@[sl_ as int]) == vv[sl_ as int]); }
            \1
            proof { lemma_vals_of_extends(&circ_b, circuit, values@); assert(vv.take(sl_ + 1).drop_last() =~= vv.take(sl_ as int)); assert(vv.take(sl_ + 1).last() == vv[sl_ as int]); }''')
        os_.at_end('proof { assert(vv.take(vv.len() as int) =~= vv); }')

    oes = common(u.extract_impl_or_default(F, TIMPL, TF, TR, 'observe_ext_slice', 'CircuitChallenger::observe_ext_slice'))
    oes.set_sig('R11', 'fn observe_ext_slice<BF, EF: ExtX>(&mut self, circuit: &mut CircuitBuilder<EF>, values: &[Target])')
    oes.rewrite_re('R5', r'for &(\w+) in values \{', r'for sl_ in 0..values.len() { let \1 = values[sl_];', min_count=0)
    oes.rewrite_re('R11', r'self\.observe_ext\(', 'self.observe_ext::<BF, EF>(', min_count=0)
    oes.requires('inv', 'old(self).inv(old(circuit)) && old(circuit).has_all(values@)')
    oes.ensures('refines_native_observe_algebra_slice', 'final(self).abs(final(circuit)) == n_observe_ext_seq(old(self).abs(old(circuit)), old(circuit).vals_of(values@), RATE as nat)')
    oes.ensures('inv', 'final(self).inv(final(circuit)) && final(self).config == old(self).config')
    oes.ensures('frame', 'final(circuit).extends(old(circuit))')
    if 'for sl_ in 0..values.len()' in oes.body:
        oes.before('for sl_ in 0..values.len()', 'let ghost n0 = old(self).abs(old(circuit)); let ghost vv = old(circuit).vals_of(values@); proof { assert(vv.take(0) =~= Seq::<EF>::empty()); }')
        oes.loop('for sl_ in 0..values.len()', invariants=[
            ('inv', 'self.inv(circuit) && self.config == old(self).config && circuit.extends(old(circuit))'),
            ('vals', 'circuit.has_all(values@) && circuit.vals_of(values@) == vv && vv.len() == values@.len()'),
            ('abs', 'self.abs(circuit) == n_observe_ext_seq(n0, vv.take(sl_ as int), RATE as nat)'),
        ])
        oes.rewrite_re('SPEC', r'(self\.observe_ext::<BF, EF>\(circuit, \w+\);)', r'''let ghost circ_b = *circuit; proof { assert(circuit.has(values@[sl_ as int])); assert(circuit.val(values@[sl_ as int]) == vv[sl_ as int]); }
            \1
            proof { lemma_vals_of_extends(&circ_b, circuit, values@); assert(vv.take(sl_ + 1).drop_last() =~= vv.take(sl_ as int)); assert(vv.take(sl_ + 1).last() == vv[sl_ as int]); }''')
        oes.at_end('proof { assert(vv.take(vv.len() as int) =~= vv); }')

    sev = common(u.extract_impl_or_default(F, TIMPL, TF, TR, 'sample_ext_vec', 'CircuitChallenger::sample_ext_vec'))
    sev.set_sig('R11', 'fn sample_ext_vec<BF, EF: ExtX>(&mut self, circuit: &mut CircuitBuilder<EF>, count: usize) -> Vec<Target>')
    sev.rewrite_re('R6', r'\(0\.\.count\)\s*\.map\(\|_\| self\.sample_ext\(circuit\)\)\s*\.collect\(\)',
                   '{ let mut out_: Vec<Target> = Vec::new(); for k_ in 0..count { let t_ = self.sample_ext::<BF, EF>(circuit); out_.push(t_); } out_ }', min_count=0)
    # `vec![e; n]` evaluates e ONCE and copies it: normalised to that meaning (R6), so a sampler written that way is judged by the contract
    sev.rewrite_re('R6', r'vec!\[\s*self\.sample_ext\(circuit\)\s*;\s*count\s*\]',
                   '{ let e_ = self.sample_ext::<BF, EF>(circuit); vec_repeat_(e_, count) }', min_count=0)
    sev.requires('inv', 'old(self).inv(old(circuit))')
    sev.ensures('refines_native_sample_algebra_elements_state', 'final(self).abs(final(circuit)) == n_sample_ext_many_state(old(self).abs(old(circuit)), count as nat, sp_dim::<EF>(), RATE as nat)')
    sev.ensures('returns_native_sample_algebra_elements', 'final(circuit).has_all(ret@) && final(circuit).vals_of(ret@) == n_sample_ext_many_vals(old(self).abs(old(circuit)), count as nat, sp_dim::<EF>(), RATE as nat)')
    sev.ensures('inv', 'final(self).inv(final(circuit)) && final(self).config == old(self).config')
    sev.ensures('frame', 'final(circuit).extends(old(circuit))')
    if 'for k_ in 0..count' in sev.body:
        sev.at_start('let ghost n0 = self.abs(circuit);')
        sev.loop('for k_ in 0..count', invariants=[
            ('inv', 'self.inv(circuit) && self.config == old(self).config && circuit.extends(old(circuit))'),
            ('len', 'out_@.len() == k_ && circuit.has_all(out_@)'),
            ('abs', 'self.abs(circuit) == n_sample_ext_many_state(n0, k_ as nat, sp_dim::<EF>(), RATE as nat)'),
            ('vals', 'circuit.vals_of(out_@) == n_sample_ext_many_vals(n0, k_ as nat, sp_dim::<EF>(), RATE as nat)'),
        ])
        sev.before('let t_ = self.sample_ext::<BF, EF>(circuit);', 'let ghost circ_b = *circuit; let ghost cs0 = out_@;')
        sev.after('out_.push(t_);', '''proof {
                lemma_vals_of_extends(&circ_b, circuit, cs0);
                assert(circuit.vals_of(out_@) =~= circ_b.vals_of(cs0).push(circuit.val(t_)));
            }''')

    u.text("""verus! {
/// `vec![e; n]` (R6): n copies of the once-evaluated element
#[verifier::external_body]
pub fn vec_repeat_(e: Target, n: usize) -> (ret: Vec<Target>)
    ensures ret@.len() == n, forall|i: int| 0 <= i < n ==> ret@[i] == e,
{ unimplemented!() }
}""")
    u.text('verus! {\nimpl<const WIDTH: usize, const RATE: usize, C: ChallengerPermConfig> CircuitChallenger<WIDTH, RATE, C> {')
    for f in (n, i, d, o, s, c, oe, se, sb, pw, os_, oes, sev):
        u.emit(f)
    u.text('}\n}')
    return u
