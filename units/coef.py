"""Unit `coef` (C12 coefficient decomposition, C05 coefficient plumbing of the transcript): real text of circuit/src/builder/circuit_builder.rs
  recompose_base_coeffs_to_ext_impl[dispatch]  -- from the choice "recompose table or ALU chain" to the end,
  recompose_via_npo (whole),
  decompose_ext_to_base_coeffs[hint_path]     -- hint outputs + recomposition + connect(x, reconstructed),
(which tuples the recompose table puts on the bus is proved from its AIR in unit rcair).

The builder-level contracts state what C12 needs of a coefficient decomposition: the coefficients recompose to x AND are base-field
elements.  What the recompose table gives is taken from its AIR (proved here): in the narrow variant only (output_idx, row) is on the bus,
so nothing relates the packed output to the coefficient slots.  The two hypotheses that do not hold on the unchanged tree are asserted
at the one place each is needed and are recorded findings (forged proofs: findings/C12_recompose_unbound_test.rs)."""
import os
import re

from vf.extract import extract_item, match_brace, ExtractError
from vf.unit import Unit, _find_all, uniter_collect, drop_capacity_hints, unoption_pred, unthen_some, unoption_and_then, uncollect_option_vec
from units.openin import slice_loop_body, loop_if_present
from units.fchain import unfor_zip

HERE = os.path.dirname(os.path.abspath(__file__))

SPEC = r'''
verus! {
global size_of usize == 8;
pub uninterp spec fn sp_dimension<F: Field>() -> nat;
pub uninterp spec fn sp_basis<F: Field>(i: nat) -> F;
/// v lies in the base field (embedded): all higher basis coefficients are zero
pub uninterp spec fn is_base<F: Field>(v: F) -> bool;
pub trait ExtX: FieldX {
    fn dimension() -> (r: usize) ensures r == sp_dimension::<Self>(), r < 0x1_0000;
    /// replaces the 3-line native construction `basis_coeffs = [0; D]; basis_coeffs[i] = 1; F::from_basis_coefficients_slice(&basis_coeffs).expect(..)`
    fn basis_element(i: usize) -> (r: Self) requires i < sp_dimension::<Self>() ensures r == sp_basis::<Self>(i as nat);
    /// `==` of two field elements
    fn feq(&self, o: &Self) -> (r: bool) ensures r == (*self == *o);
}
/// sum_{k < n} c_k * e_k in the order the ALU chain accumulates it:  acc_{k+1} = c_k * e_k + acc_k
pub open spec fn packv<F: Field>(c: Seq<F>, n: int) -> F decreases n {
    if n <= 0 { F::fzero() } else { c[n - 1].fmul(sp_basis::<F>((n - 1) as nat)).fadd(packv(c, n - 1)) }
}
pub open spec fn all_base<F: Field>(c: Seq<F>) -> bool { forall|i: int| 0 <= i < c.len() ==> is_base(#[trigger] c[i]) }

#[derive(Debug)]
pub struct CircuitBuilderError { pub _p: () }
impl CircuitBuilderError { #[verifier::external_body] pub fn missing_output() -> Self { unimplemented!() } }
#[derive(Clone, Copy)] pub struct NonPrimitiveOpId(pub u32);
#[derive(PartialEq, Eq, Structural, Clone, Copy)] pub struct NpoTypeId { pub wide: bool }
impl NpoTypeId {
    pub fn recompose() -> (r: Self) ensures r.wide == false { NpoTypeId { wide: false } }
    pub fn recompose_with_coeff_lookups() -> (r: Self) ensures r.wide == true { NpoTypeId { wide: true } }
}
pub enum NonPrimitiveOpParams { Recompose, Other }
pub struct ExtDecompositionHint { pub _p: () }
impl ExtDecompositionHint { pub fn new() -> Self { ExtDecompositionHint { _p: () } } }

/// `self.expr_builder.get_const_value(c)`: Some(v) only for a constant node, whose value is v (proved for the real ExpressionBuilder in unit expr)
#[verifier::external_body]
pub fn get_const_value<F: Field>(cb: &CircuitBuilder<F>, c: ExprId) -> (r: Option<F>) ensures r matches Some(v) ==> cb.val(c) == v { unimplemented!() }
/// `<F as BasedVectorSpace<BF>>::as_basis_coefficients_slice(&v)[0]` as an embedded element: a base-field element, and v itself when v is one
#[verifier::external_body]
pub fn coeff0<F: Field>(v: &F) -> (r: F) ensures is_base(r), is_base(*v) ==> r == *v { unimplemented!() }
/// `F::from_basis_coefficients_slice(&cs).expect(..)` on embedded base-field elements: their basis combination
#[verifier::external_body]
pub fn from_base_coeffs<F: Field>(cs: &Vec<F>) -> (r: F) ensures r == packv(cs@, cs@.len() as int) { unimplemented!() }
impl<F: Field> CircuitBuilder<F> {
    #[verifier::external_body] pub fn push_scope(&mut self, s: &str) ensures *final(self) == *old(self) {}
    #[verifier::external_body] pub fn pop_scope(&mut self) ensures *final(self) == *old(self) {}
    /// a recompose-table row.  WHAT THE TABLE ENFORCES (RecomposeAir::eval, under contract in unit rcair):
    ///   narrow (`recompose`):            the bus carries (output_idx, row) only: the output is a fresh value, related to NOTHING;
    ///   wide (`recompose/coeff`):        additionally (coeff_idx_i, row_i, 0, .., 0) per coefficient: output = sum row_i e_i with row_i = coefficient slot i, a base element
    ///                                    (optimistic: holds when the coefficient multiplicities are non-zero; see the finding text for the patterns where they are 0)
    #[verifier::external_body]
    pub fn push_non_primitive_op_with_outputs(&mut self, op_type: NpoTypeId, inputs: Vec<Vec<ExprId>>, labels: Vec<Option<&'static str>>, params: Option<NonPrimitiveOpParams>, label: &'static str)
        -> (r: (NonPrimitiveOpId, ExprId, Vec<Option<ExprId>>))
        requires inputs@.len() == 1, old(self).has_all(inputs@[0]@)
        ensures final(self).extends_pure(old(self)), r.2@.len() == 1,
                r.2@[0] matches Some(o) ==> final(self).has(o) && !old(self).has(o)
                    && (op_type.wide ==> final(self).val(o) == packv(old(self).vals_of(inputs@[0]@), inputs@[0]@.len() as int) && all_base(old(self).vals_of(inputs@[0]@)))
    { unimplemented!() }
    /// hint op: n fresh outputs whose values are NOT constrained by anything
    #[verifier::external_body]
    pub fn push_unconstrained_op(&mut self, input_exprs: Vec<Vec<ExprId>>, n_outputs: usize, hint: ExtDecompositionHint, label: &'static str)
        -> (r: (NonPrimitiveOpId, ExprId, Vec<Option<ExprId>>))
        ensures final(self).extends_pure(old(self)), r.2@.len() == n_outputs,
                forall|k: int| 0 <= k < n_outputs ==> ((#[trigger] r.2@[k]) matches Some(e) && final(self).has(e))
    { unimplemented!() }
}
} // verus!
'''

def slice_from(f, start_anchor, why):
    ms = _find_all(start_anchor, f.body)
    if len(ms) != 1:
        raise ExtractError(f"lost anchor in {f.qual}: slice start `{start_anchor[:50]}` matched {len(ms)}x")
    dropped = ms[0].start()
    f.body = '{\n' + f.body[ms[0].start():]
    f.rewrites.append(('R13', f'function body starts at `{" ".join(start_anchor.split())}` ({dropped} chars of prefix dropped)', why))
    return f


def build():
    u = Unit('coef', ['C12', 'C05'])
    u.rlimit = 80
    u.assume('builder arithmetic contracts (assumed; unit expr proves the expression level); hint outputs are unconstrained fresh targets')
    u.assume('the recompose table relates a row to witness slots exactly through the bus tuples RecomposeAir::eval pushes (proved in unit rcair); wide variant modelled optimistically (coefficient multiplicities non-zero)')
    u.assume('F::DIMENSION / the i-th basis element / base-field membership are an uninterpreted dimension, basis and predicate of the challenge field; the 3-line native construction of a unit basis vector is replaced by basis_element(i) (R11)')
    u.text(open(os.path.join(HERE, 'gadget_prelude.rs')).read())
    u.text(SPEC)
    CB = 'circuit/src/builder/circuit_builder.rs'
    IMPL = r'impl<F> CircuitBuilder<F>'
    mode = extract_item(CB, r'enum RecomposeMode\b')
    u.text('verus! {\n#[derive(PartialEq, Eq, Structural, Clone, Copy)]\n' + re.sub(r'^(\s*)(pub(\(crate\))?\s+)?enum', r'\1pub enum', mode, flags=re.M) + '\n}')

    # ------------------------------------------------------------------ recompose_via_npo
    rv = u.extract(CB, IMPL, 'recompose_via_npo', 'CircuitBuilder::recompose_via_npo')
    rv.rewrite_re('R8', r'self\.push_scope\("[^"]*"\);', '')
    rv.rewrite_re('R8', r'self\.pop_scope\(\);', '')
    rv.rewrite_re('R11', r'outputs\[0\]\.ok_or\(CircuitBuilderError::MissingOutput\)\?', '(match outputs[0] { Some(o_) => o_, None => { return Err(CircuitBuilderError::missing_output()); } })')
    rv.requires('allocated', 'old(self).has_all(coeffs@)')
    rv.ensures('frame', 'final(self).extends_pure(old(self)) && (ret matches Ok(r) ==> final(self).has(r))')
    rv.ensures('wide_table_binds_the_output_to_base_field_coefficients',
               'ret matches Ok(r) ==> (coeff_lookups ==> final(self).val(r) == packv(old(self).vals_of(coeffs@), coeffs@.len() as int) && all_base(old(self).vals_of(coeffs@)))')

    # ------------------------------------------------------------------ recompose_base_coeffs_to_ext_impl [dispatch]
    ri = u.extract(CB, IMPL, 'recompose_base_coeffs_to_ext_impl', 'CircuitBuilder::recompose_base_coeffs_to_ext_impl[dispatch]')
    slice_from(ri, 'let result = if self.recompose_npo_enabled', 'prefix: dimension check and the all-constant fold (with its provenance insert)')
    ri.set_sig('R11', 'fn recompose_base_coeffs_to_ext_impl<BF>(&mut self, coeffs: &[ExprId], mode: RecomposeMode) -> Result<ExprId, CircuitBuilderError>')
    ri.rewrite_re('R8', r'self\.push_scope\("[^"]*"\);', '')
    ri.rewrite_re('R8', r'self\.pop_scope\(\);', '')
    ri.rewrite_re('R11', r'\bF::ZERO\b', 'F::zero()')
    ri.rewrite_re('R11', r'self\.expr_builder\.is_const_zero\(', 'is_const_zero(self, ', min_count=0)
    uniter_collect(ri)
    ri.rewrite_re('R5', r'for \((\w+), &?(\w+)\) in (\w+)\.(?:iter|into_iter)\(\)\.enumerate\(\) \{', r'for \1 in 0..\3.len() { let \2 = \3[\1];', min_count=1)
    ri.rewrite_re('R11', r'let mut basis_coeffs = vec!\[BF::ZERO; F::DIMENSION\];\s*basis_coeffs\[i\] = BF::ONE;\s*let basis_elem = F::from_basis_coefficients_slice\(&basis_coeffs\)\s*\.expect\("[^"]*"\);',
                  'let basis_elem = F::basis_element(i);', min_count=1)
    ri.requires('allocated_one_coefficient_per_basis_element', 'old(self).has_all(coeffs@) && coeffs@.len() == sp_dimension::<F>()')
    PK = 'packv(old(self).vals_of(coeffs@), coeffs@.len() as int)'
    ri.ensures('frame', 'final(self).extends_pure(old(self)) && (ret matches Ok(r) ==> final(self).has(r))')
    ri.ensures('output_is_the_basis_combination_of_the_coefficients', f'ret matches Ok(r) ==> final(self).val(r) == {PK}')
    ri.ensures('coefficient_table_variant_also_forces_base_field_coefficients',
               'ret matches Ok(r) ==> (old(self).recompose_npo_enabled && mode == RecomposeMode::NpoWithCoeffLookups ==> all_base(old(self).vals_of(coeffs@)))')
    ri.at_start('let ghost cv = self.vals_of(coeffs@); let ghost n = coeffs@.len() as int;')
    # H: the narrow recompose table does not bind its output to the coefficient slots (finding C12-recompose-table-output-unbound)
    ri.before('self.ext_recompose_coeffs.insert(result, coeffs.to_vec());', '''proof {
            if old(self).recompose_npo_enabled && mode == RecomposeMode::Npo {
                assert(self.val(result) == packv(cv, n)); // @@A:H_narrow_recompose_table_binds_its_output_to_the_coefficient_slots
            }
        }''')
    if 'for i in 0..coeffs.len()' in ri.body:
        ri.at_loop_end('for i in 0..coeffs.len()', '''proof { assert(old(self).has(coeffs@[i as int])); assert(cv[i as int] == old(self).val(coeffs@[i as int])); }''')
    loop_if_present(ri, 'for i in 0..coeffs.len()', invariants=[
        ('frame', 'self.extends_pure(old(self)) && self.has(acc) && old(self).has_all(coeffs@) && cv == old(self).vals_of(coeffs@) && n == coeffs@.len() && n == sp_dimension::<F>()'),
        ('accumulated_prefix', 'self.val(acc) == packv(cv, i as int)'),
    ])

    # ------------------------------------------------------------------ recompose_base_coeffs_to_ext_impl [const_fold]
    # the all-constant fold that precedes the dispatch: its result must be the value the ALU chain (proved below) computes for the same coefficients
    cf = u.extract(CB, IMPL, 'recompose_base_coeffs_to_ext_impl', 'CircuitBuilder::recompose_base_coeffs_to_ext_impl[const_fold]')
    if not re.search(r'let bf_consts\b', cf.body) or not re.search(r'let result = if self\.recompose_npo_enabled', cf.body):
        raise ExtractError('lost anchor in recompose_base_coeffs_to_ext_impl[const_fold]: `let bf_consts` .. `let result = if self.recompose_npo_enabled`')
    st_, en_ = re.search(r'let bf_consts\b', cf.body).start(), re.search(r'let result = if self\.recompose_npo_enabled', cf.body).start()
    cf.rewrites.append(('R13', f'function body := from `let bf_consts` up to `let result = if self.recompose_npo_enabled` ({st_} chars of prefix, {len(cf.body) - en_} chars of suffix dropped), then `Ok(None)` for "not folded"; the fold\'s `return Ok(result)` becomes `return Ok(Some(result))`',
                        'prefix: dimension check; suffix: the dispatch (slice [dispatch])'))
    cf.body = '{\n' + cf.body[st_:en_] + '\nOk(None)\n}'
    cf.set_sig('R11', 'fn recompose_base_coeffs_to_ext_impl_const_fold<BF>(&mut self, coeffs: &[ExprId]) -> Result<Option<ExprId>, CircuitBuilderError>', sliced=True)
    cf.rewrite_re('R13', r'return Ok\(result\);', 'return Ok(Some(result));', min_count=1)
    # base-field values are represented by their embeddings (R11): BF -> F, F::from(x) -> x, as_basis_coefficients_slice(&v)[0] -> coeff0(&v), from_basis_coefficients_slice(&cs).expect(..) -> from_base_coeffs(&cs)
    cf.rewrite_re('R11', r'Option<Vec<BF>>', 'Option<Vec<F>>', min_count=1)
    cf.rewrite_re('R11', r'self\s*\.expr_builder\s*\.get_const_value\(c\)', 'get_const_value(self, c)', min_count=1)
    cf.rewrite_re('R11', r'<F as BasedVectorSpace<BF>>::as_basis_coefficients_slice\(&(\w+)\)\[0\]', r'coeff0(&\1)', min_count=1)
    cf.rewrite_re('R11', r'\(F::from\((\w+)\) == (\w+)\)', r'(\1.feq(&\2))', min_count=0)
    cf.rewrite_re('R11', r'\bF::from\((\w+)\)', r'\1', min_count=0)
    cf.rewrite_re('R11', r'F::from_basis_coefficients_slice\(&(\w+)\)\s*\.expect\("[^"]*"\)', r'from_base_coeffs(&\1)', min_count=1)
    unthen_some(cf)
    unoption_and_then(cf)
    # `get_const_value(self, c).map(|ef| E)` (the form without the base-field test)
    mm_ = re.search(r'get_const_value\(self, c\)\s*\.\s*map(\()', cf.body)
    if mm_:
        cl_ = match_brace(cf.body, mm_.start(1))
        mi_ = re.match(r'\s*\|\s*(\w+)\s*\|\s*(.*)$', cf.body[mm_.start(1) + 1:cl_], flags=re.S)
        if not mi_:
            raise ExtractError('recompose_base_coeffs_to_ext_impl[const_fold]: Option::map closure outside the normaliser')
        cf.body = cf.body[:mm_.start()] + f'(match get_const_value(self, c) {{ Some({mi_.group(1)}) => Some({mi_.group(2).strip().rstrip(",").strip()}), None => None }})' + cf.body[cl_ + 1:]
        cf.rewrites.append(('R6', '`opt.map(|x| E)` -> match (E verbatim)', ''))
    uncollect_option_vec(cf)
    cf.requires('allocated_one_coefficient_per_basis_element', 'old(self).has_all(coeffs@) && coeffs@.len() == sp_dimension::<F>()')
    cf.ensures('frame', 'final(self).extends_pure(old(self)) && (ret matches Ok(Some(r)) ==> final(self).has(r))')
    cf.ensures('a_folded_recomposition_is_the_basis_combination_of_the_coefficients_the_chain_computes',
               'ret matches Ok(Some(r)) ==> final(self).val(r) == packv(old(self).vals_of(coeffs@), coeffs@.len() as int)')
    LCF = 'for bf_consts_k_ in 0..coeffs.len()'
    if LCF in cf.body:
        cf.loop(LCF, invariant_except_break=[
            ('values_so_far_are_the_constants_themselves', 'bf_consts_ok_ && bf_consts_v_@.len() == bf_consts_k_ && forall|j: int| 0 <= j < bf_consts_k_ ==> #[trigger] bf_consts_v_@[j] == self.val(coeffs@[j])'),
        ], ensures=[
            ('all_values_are_the_constants_themselves', 'bf_consts_ok_ ==> bf_consts_v_@.len() == coeffs@.len() && forall|j: int| 0 <= j < coeffs@.len() ==> #[trigger] bf_consts_v_@[j] == self.val(coeffs@[j])'),
        ], invariants=[('ctx', '*self == *old(self) && old(self).has_all(coeffs@)')])
        cf.rewrite_re('SPEC', r'(let folded\s*=\s*from_base_coeffs\(&bf_values\);)', r'''\1 proof {
            assert(bf_values@ =~= old(self).vals_of(coeffs@));
        }''')

    # ------------------------------------------------------------------ decompose_ext_to_base_coeffs [hint path]
    de = u.extract(CB, IMPL, 'decompose_ext_to_base_coeffs', 'CircuitBuilder::decompose_ext_to_base_coeffs[hint_path]')
    slice_from(de, 'self.push_scope("decompose_ext_to_base_coeffs");', 'prefix: provenance-cache hit, constant fold, select-provenance shortcut (none of them emits the hint)')
    de.set_sig('R11', 'fn decompose_ext_to_base_coeffs<BF>(&mut self, x: ExprId) -> Result<Vec<ExprId>, CircuitBuilderError>')
    de.rewrite_re('R8', r'self\.push_scope\("[^"]*"\);', '')
    de.rewrite_re('R8', r'self\.pop_scope\(\);', '')
    de.rewrite_re('R11', r'ExtDecompositionHint::<BF>::new\(\)', 'ExtDecompositionHint::new()')
    de.rewrite_re('R11', r'\bF::DIMENSION\b', 'F::dimension()')
    de.rewrite_re('R6', r'let coeffs: Vec<ExprId> = self\s*\.push_unconstrained_op\((.*?)\)\s*\.2\s*\.into_iter\(\)\s*\.collect::<Option<Vec<_>>>\(\)\s*\.ok_or\(CircuitBuilderError::MissingOutput\)\?;',
                  r'''let outs_ = self.push_unconstrained_op(\1).2;
        let mut coeffs: Vec<ExprId> = Vec::new();
        for k_ in 0..outs_.len() { match outs_[k_] { Some(e_) => { coeffs.push(e_); } None => { return Err(CircuitBuilderError::missing_output()); } } }''', min_count=1, flags_dotall=True)
    de.rewrite_re('R11', r'self\.recompose_base_coeffs_to_ext_with_coeff_lookups::<BF>\(&coeffs\)', 'self.recompose_base_coeffs_to_ext_impl::<BF>(coeffs.as_slice(), RecomposeMode::NpoWithCoeffLookups)', min_count=1)
    de.rewrite_re('R11', r'self\.recompose_base_coeffs_to_ext::<BF>\(&coeffs\)', 'self.recompose_base_coeffs_to_ext_impl::<BF>(coeffs.as_slice(), RecomposeMode::Npo)', min_count=1)
    # R11: `matches!(self.expr_builder.graph().get_expr(x), crate::expr::Expr::PrivateInput(_))` -> opaque query of the expression kind
    de.rewrite_re('R11', r'matches!\(\s*self\.expr_builder\.graph\(\)\.get_expr\((\w+)\),\s*(?:crate::expr::)?Expr::(\w+)\(_\)\s*,?\s*\)', r'expr_kind_is(self, \1, ExprKind::\2)', min_count=0)
    de.rewrite_re('R11', r'self\.recompose_base_coeffs_to_ext_via_alu::<BF>\(&coeffs\)', 'self.recompose_base_coeffs_to_ext_impl::<BF>(coeffs.as_slice(), RecomposeMode::ForceAlu)', min_count=0)
    de.requires('allocated', 'old(self).has(x)')
    de.ensures('frame', 'final(self).extends(old(self)) && (ret matches Ok(c) ==> c@.len() == sp_dimension::<F>() && final(self).has_all(c@))')
    de.ensures('in_every_accepted_proof_the_coefficients_recompose_to_x_and_are_base_field_elements',
               '''ret matches Ok(c) ==> (final(self).sat@ ==> packv(final(self).vals_of(c@), c@.len() as int) == old(self).val(x) && all_base(final(self).vals_of(c@)))''')
    de.before('self.connect(x, reconstructed);', '''let ghost b_r = *self;
        proof {
            assert(b_r.vals_of(coeffs@) =~= b_h.vals_of(coeffs@)) by { assert forall|k: int| 0 <= k < coeffs@.len() implies b_r.val(#[trigger] coeffs@[k]) == b_h.val(coeffs@[k]) by { assert(b_h.has(coeffs@[k])); } }
            if !(b_h.recompose_npo_enabled && b_h.recompose_coeff_ctl_for_decompose_links) {
                assert(all_base(b_h.vals_of(coeffs@))); // @@A:H_recomposition_without_the_coefficient_table_forces_base_field_coefficients
            }
        }''')
    de.before('let reconstructed =', '''let ghost b_h = *self;
        proof { assert(self.has_all(coeffs@)); assert(self.recompose_npo_enabled == old(self).recompose_npo_enabled); }''')
    de.bind_tail('r_', '', before_text='''proof {
            assert(self.vals_of(coeffs@) =~= b_h.vals_of(coeffs@)) by { assert forall|k: int| 0 <= k < coeffs@.len() implies self.val(#[trigger] coeffs@[k]) == b_h.val(coeffs@[k]) by { assert(b_h.has(coeffs@[k])); assert(b_r.has(coeffs@[k])); } }
            assert(self.has_all(coeffs@)) by { assert forall|k: int| 0 <= k < coeffs@.len() implies self.has(#[trigger] coeffs@[k]) by { assert(b_h.has(coeffs@[k])); assert(b_r.has(coeffs@[k])); } }
            assert(b_r.val(x) == old(self).val(x));
        }''')
    de.loop('for k_ in 0..outs_.len()', invariants=[
        ('hint_outputs', 'self.extends_pure(old(self)) && outs_@.len() == sp_dimension::<F>() && coeffs@.len() == k_ && self.has_all(coeffs@) && (forall|k: int| 0 <= k < outs_@.len() ==> ((#[trigger] outs_@[k]) matches Some(e) && self.has(e)))'),
    ])

    # ---------------------------------------------------------------- decompose_ext_to_base_coeffs: the select-provenance shortcut (C05: what `observe_ext` absorbs)
    ds = u.extract(CB, IMPL, 'decompose_ext_to_base_coeffs', 'CircuitBuilder::decompose_ext_to_base_coeffs[select_path]')
    m1 = re.search(r'let t_coeffs_opt\b', ds.body)
    m2 = re.search(r'if t_coeffs_opt\.is_some\(\) \|\| s_coeffs_opt\.is_some\(\) \{', ds.body)
    if not m1 or not m2 or m2.start() < m1.start():
        raise ExtractError('lost anchor in decompose_ext_to_base_coeffs[select_path]: the provenance lookups / the guarded block')
    o_ = ds.body.index('{', m2.end() - 1)
    c_ = match_brace(ds.body, o_)
    ds.body = '{\n' + ds.body[m1.start():m2.start()] + ds.body[o_ + 1:c_] + '\n}'
    ds.rewrites.append(('R13', 'function body := the two provenance lookups + the body of `if t_coeffs_opt.is_some() || s_coeffs_opt.is_some() { .. }` (its condition is a precondition); (b, t, s) = the select source of x are parameters',
                        'prefix: cache hit, constant fold, the lookup of the select source; suffix: the hint path (slice [hint_path])'))
    ds.set_sig('R11', 'fn decompose_select_path<BF>(&mut self, x: ExprId, b: ExprId, t: ExprId, s: ExprId) -> Result<Vec<ExprId>, CircuitBuilderError>', sliced=True)
    ds.rewrite_re('R11', r'self\.ext_recompose_coeffs\.get\(&(\w+)\)\.cloned\(\)', r'self.prov_coeffs(\1)', min_count=0)
    ds.rewrite_re('R11', r'self\.decompose_ext_to_base_coeffs::<BF>\((\w+)\)', r'self.decompose_full::<BF>(\1)', min_count=0)
    ds.rewrite_re('R9', r'debug_assert_eq!\(([^,;]+), F::DIMENSION\);', r'assert(\1 == sp_dimension::<F>());', min_count=0)
    ds.rewrite_re('R11', r'\bF::DIMENSION\b', 'F::dimension()')
    ds.rewrite_re('R11', r'self\.recompose_base_coeffs_to_ext_with_coeff_lookups::<BF>\(&coeffs\)', 'self.recompose_base_coeffs_to_ext_impl::<BF>(coeffs.as_slice(), RecomposeMode::NpoWithCoeffLookups)', min_count=0)
    drop_capacity_hints(ds)
    ds.rewrite_re('R7', r'let mut coeffs = Vec::new\(\);', 'let mut coeffs: Vec<ExprId> = Vec::new();', min_count=0)
    unfor_zip(ds)
    unoption_pred(ds)
    VB = 'old(self).val(b)'
    ds.requires('allocated', 'old(self).has(x) && old(self).has(b) && old(self).has(t) && old(self).has(s)')
    ds.requires('x_is_the_select_of_its_recorded_source', f'({VB} == F::fone() ==> old(self).val(x) == old(self).val(t)) && ({VB} == F::fzero() ==> old(self).val(x) == old(self).val(s))')
    # termination of the recursion through the branches: `connect` merges select provenance, so the record of x can lead back to x; the record must be out while a branch is decomposed (fix F35)
    ds.requires('x_has_the_recorded_select_source', 'old(self).ext_select_sources.keys@.contains(x)')
    ds.rewrite_re('SPEC', r'(let t_coeffs = )', r'proof { assert(!self.ext_select_sources.keys@.contains(x)); } // @@A:the_select_record_of_x_is_out_while_its_branches_are_decomposed\n                \1', min_count=0)
    ds.requires('one_branch_has_provenance', 'old(self).prov_of(t) is Some || old(self).prov_of(s) is Some')
    ds.ensures('frame', 'ret matches Ok(c) ==> final(self).extends(old(self)) && c@.len() == sp_dimension::<F>() && final(self).has_all(c@)')
    # the coefficient-wise shortcut x_i = select(b, t_i, s_i) is the decomposition of x = s + b(t - s) only for a BASE-FIELD selector; `select` accepts any selector and nothing at this site checks it
    ds.ensures('H_the_selector_of_a_recorded_select_is_a_base_field_element', f'ret is Ok ==> all_base(seq![{VB}])')
    ds.ensures('for_a_boolean_selector_the_coefficients_recompose_to_x_and_are_base_field_elements',
               f'ret matches Ok(c) ==> (final(self).sat@ && ({VB} == F::fone() || {VB} == F::fzero()) ==> packv(final(self).vals_of(c@), c@.len() as int) == old(self).val(x) && all_base(final(self).vals_of(c@)))')
    ZL = 'for fz_ in 0..n_fz_'
    if ZL in ds.body and 'let saved_ctl' in ds.body:
        A1, A2, A3 = r'(self\.recompose_coeff_ctl_for_decompose_links = false;)', r'(let t_coeffs = )', r'(let s_coeffs = )'
        if all(re.search(a_, ds.body) for a_ in (A1, A2, A3)):
            # the snapshot b_c is the state the first recursive call starts from: after the select record of x was taken out, where the code does that (F35)
            RM_ = r'(self\.ext_select_sources\.remove\(&x\);)'
            if re.search(RM_, ds.body):
                ds.rewrite_re('SPEC', A1, r'let ghost tco = t_coeffs_opt; let ghost sco = s_coeffs_opt; \1')
                ds.rewrite_re('SPEC', RM_, r'\1 let ghost b_c = *self;')
            else:
                ds.rewrite_re('SPEC', A1, r'let ghost tco = t_coeffs_opt; let ghost sco = s_coeffs_opt; \1 let ghost b_c = *self;')
            ds.rewrite_re('SPEC', A3, r'let ghost b_t = *self; \1')
            CHAIN = '''
            // old -> b_c (flag cleared: same values, constraints, taint) -> b_t (true branch decomposed or cached) -> b_s (false branch) -> self (flag restored)
            assert(b_c.extends_pure(old(self)) || (b_c.vals == old(self).vals && b_c.sat == old(self).sat && b_c.bnd == old(self).bnd));
            assert(b_t.extends(&b_c)); assert(b_s.extends(&b_t));
            assert forall|e: ExprId| #[trigger] old(self).has(e) implies self.has(e) && self.val(e) == old(self).val(e) by { assert(b_c.has(e)); assert(b_t.has(e)); assert(b_s.has(e)); }
            assert forall|e: ExprId| #[trigger] old(self).bound(e) implies self.bound(e) by { assert(b_c.bound(e)); assert(b_t.bound(e)); assert(b_s.bound(e)); }
            assert(tcs.len() == sp_dimension::<F>() && b_t.has_all(tcs) && (b_t.sat@ ==> packv(b_t.vals_of(tcs), tcs.len() as int) == old(self).val(t) && all_base(b_t.vals_of(tcs)))) by {
                if tco is Some { assert(b_t.vals_of(tcs) =~= old(self).vals_of(tcs)) by { assert forall|k: int| 0 <= k < tcs.len() implies b_t.val(#[trigger] tcs[k]) == old(self).val(tcs[k]) by { assert(old(self).has(tcs[k])); assert(b_c.has(tcs[k])); } }
                                   assert forall|k: int| 0 <= k < tcs.len() implies b_t.has(#[trigger] tcs[k]) by { assert(old(self).has(tcs[k])); assert(b_c.has(tcs[k])); } }
            }
            assert(scs.len() == sp_dimension::<F>() && b_s.has_all(scs) && (b_s.sat@ ==> packv(b_s.vals_of(scs), scs.len() as int) == old(self).val(s) && all_base(b_s.vals_of(scs)))) by {
                if sco is Some { assert(b_s.vals_of(scs) =~= old(self).vals_of(scs)) by { assert forall|k: int| 0 <= k < scs.len() implies b_s.val(#[trigger] scs[k]) == old(self).val(scs[k]) by { assert(old(self).has(scs[k])); assert(b_c.has(scs[k])); assert(b_t.has(scs[k])); } }
                                   assert forall|k: int| 0 <= k < scs.len() implies b_s.has(#[trigger] scs[k]) by { assert(old(self).has(scs[k])); assert(b_c.has(scs[k])); assert(b_t.has(scs[k])); } }
                else { assert(b_t.val(s) == old(self).val(s)) by { assert(b_c.has(s)); } }
            }
            assert(self.vals_of(tcs) =~= b_t.vals_of(tcs)) by { assert forall|k: int| 0 <= k < tcs.len() implies self.val(#[trigger] tcs[k]) == b_t.val(tcs[k]) by { assert(b_t.has(tcs[k])); } }
            assert(self.vals_of(scs) =~= b_s.vals_of(scs));
            assert(self.has_all(tcs)) by { assert forall|k: int| 0 <= k < tcs.len() implies self.has(#[trigger] tcs[k]) by { assert(b_t.has(tcs[k])); } }
'''
            IN_ = r'(self\.ext_select_sources\.insert\(x, \(b, t, s\)\);)'
            if re.search(IN_, ds.body):
                ds.rewrite_re('SPEC', IN_, r'let ghost b_s = *self; \1')   # the state the second recursive call returns (before the record is put back)
            else:
                ds.rewrite_re('SPEC', r'(self\.recompose_coeff_ctl_for_decompose_links = saved_ctl;)', r'let ghost b_s = *self; \1')
        else:
            CHAIN = ''
        ds.before('let n_fz_ =', '''let ghost b_l = *self; let ghost tcs = t_coeffs@; let ghost scs = s_coeffs@; let ghost vb = old(self).val(b);
        proof {''' + CHAIN + '''
            assert(self.extends(old(self)));
            assert(tcs.len() == sp_dimension::<F>() && scs.len() == sp_dimension::<F>() && self.has_all(tcs) && self.has_all(scs)); // @@A:both_branches_have_D_allocated_coefficients
            assert(self.sat@ ==> packv(self.vals_of(tcs), tcs.len() as int) == old(self).val(t) && all_base(self.vals_of(tcs))); // @@A:true_branch_coefficients_recompose_to_t
            assert(self.sat@ ==> packv(self.vals_of(scs), scs.len() as int) == old(self).val(s) && all_base(self.vals_of(scs))); // @@A:false_branch_coefficients_recompose_to_s
        }''')
        ds.at_loop_end(ZL, '''proof {
                let k = fz_ as int;
                assert(b_l.has(tcs[k]) && b_l.has(scs[k]));
                assert forall|q: int| 0 <= q < coeffs@.len() implies self.has(#[trigger] coeffs@[q]) && (vb == F::fone() ==> self.val(coeffs@[q]) == b_l.val(tcs[q])) && (vb == F::fzero() ==> self.val(coeffs@[q]) == b_l.val(scs[q])) by {
                    if q < k { assert(coeffs@[q] == cf0[q]); assert(bb_.has(cf0[q])); }
                }
            }''')
        lo = ds._loop_open(ZL)
        ds.body = ds.body[:lo + 1] + ' let ghost cf0 = coeffs@; let ghost bb_ = *self;' + ds.body[lo + 1:]
        ds.loop(ZL, invariants=[
            ('frame', 'self.extends_pure(&b_l) && b_l.extends(old(self)) && tcs == t_coeffs@ && scs == s_coeffs@ && n_fz_ == tcs.len() && tcs.len() == scs.len() && b_l.has_all(tcs) && b_l.has_all(scs) && b_l.has(b) && vb == b_l.val(b) && vb == old(self).val(b)'),
            ('coefficient_k_is_the_select_of_the_branch_coefficients', '''coeffs@.len() == fz_ && forall|q: int| 0 <= q < fz_ ==> self.has(#[trigger] coeffs@[q])
                    && (vb == F::fone() ==> self.val(coeffs@[q]) == b_l.val(tcs[q])) && (vb == F::fzero() ==> self.val(coeffs@[q]) == b_l.val(scs[q]))'''),
        ])
        ds.rewrite_re('SPEC', r'(return Ok\(coeffs\);)', r'''proof {
            let cs = coeffs@;
            assert(self.has_all(cs)) by { assert forall|q: int| 0 <= q < cs.len() implies self.has(#[trigger] cs[q]) by { assert(b_e.has(cs[q])); } }
            if self.sat@ && (vb == F::fone() || vb == F::fzero()) {
                let src = if vb == F::fone() { tcs } else { scs };
                F::zero_ne_one();
                assert(self.vals_of(cs) =~= b_l.vals_of(src)) by { assert forall|q: int| 0 <= q < cs.len() implies self.val(#[trigger] cs[q]) == b_l.val(src[q]) by { assert(b_e.has(cs[q])); assert(b_e.val(cs[q]) == b_l.val(src[q])); } }
                assert(b_l.sat@);
            }
        }
        \1''')
        ds.rewrite_re('SPEC', r'(if saved_ctl \{)', r'let ghost b_e = *self; \1')
    u.text('''verus! {
impl<F: Field> CircuitBuilder<F> {
    /// the provenance cache entry of e (contents of ext_recompose_coeffs are not modelled: an uninterpreted function of the builder and e)
    pub uninterp spec fn prov_of(&self, e: ExprId) -> Option<Seq<ExprId>>;
    /// ASSUMED invariant of the provenance cache (maintained by recompose / decompose / connect, not proved here): a cached entry of an allocated e
    /// holds D allocated coefficient targets that, in every accepted proof, recompose to e and are base-field elements
    #[verifier::external_body]
    pub fn prov_coeffs(&self, e: ExprId) -> (r: Option<Vec<ExprId>>)
        ensures (r matches Some(c) ==> self.prov_of(e) == Some(c@)) && (r is None ==> self.prov_of(e) is None),
                r matches Some(c) ==> c@.len() == sp_dimension::<F>() && self.has_all(c@) && (self.sat@ ==> packv(self.vals_of(c@), c@.len() as int) == self.val(e) && all_base(self.vals_of(c@)))
    { unimplemented!() }
    /// the whole function, recursively: its contract is the conjunction of what the slices [hint_path] and [select_path] prove (cache hit and constant fold return cached / constant coefficients)
    #[verifier::external_body]
    pub fn decompose_full<BF>(&mut self, x: ExprId) -> (ret: Result<Vec<ExprId>, CircuitBuilderError>)
        requires old(self).has(x)
        ensures final(self).recompose_coeff_ctl_for_decompose_links == old(self).recompose_coeff_ctl_for_decompose_links,
                ret matches Ok(c) ==> final(self).extends(old(self)) && c@.len() == sp_dimension::<F>() && final(self).has_all(c@)
                    && (final(self).sat@ ==> packv(final(self).vals_of(c@), c@.len() as int) == old(self).val(x) && all_base(final(self).vals_of(c@)))
    { unimplemented!() }
    /// contract PROVED in unit `gad` (same clauses); assumed here
    #[verifier::external_body]
    pub fn select(&mut self, b: ExprId, t: ExprId, s: ExprId) -> (ret: ExprId)
        requires old(self).has(b) && old(self).has(t) && old(self).has(s)
        ensures final(self).extends_pure(old(self)), final(self).has(ret),
                old(self).val(b) == F::fone() ==> final(self).val(ret) == old(self).val(t),
                old(self).val(b) == F::fzero() ==> final(self).val(ret) == old(self).val(s)
    { unimplemented!() }
}
}''')
    u.text('''verus! {
/// the kind of an expression node (only asked about, never computed here)
pub enum ExprKind { Const, Public, PrivateInput, Other }
pub uninterp spec fn sp_expr_kind_is<F: Field>(cb: &CircuitBuilder<F>, x: ExprId, k: ExprKind) -> bool;
#[verifier::external_body]
pub fn expr_kind_is<F: Field>(cb: &CircuitBuilder<F>, x: ExprId, k: ExprKind) -> (r: bool) ensures r == sp_expr_kind_is(cb, x, k) { unimplemented!() }
}''')
    u.text('verus! {\nimpl<F: ExtX> CircuitBuilder<F> {')
    u.emit(rv, vis='pub')
    u.emit(ri, vis='pub')
    u.emit(cf, vis='pub')
    u.emit(de, vis='pub')
    u.emit(ds, vis='pub')
    u.text('}\n}')
    return u
