"""Unit `degpad` (C10): the degree the key generation DECLARES for a primitive table is the log2 of the height the table's AIR pads its traces to, for every row count
(including the empty table) and every minimum trace height.
Real text: circuit-prover/src/common.rs  get_airs_and_degrees_with_prep[compute_degree] -- the closure `compute_degree`, lifted to a function (R14: its one captured
variable `min_height` becomes a parameter).
The AIR side is one call into the dependency: `mat.pad_to_min_power_of_two_height(min_height, F::ZERO)` (WitnessSendAir / ConstAir / AluAir preprocessed_trace and
trace_to_matrix), whose result height is transcribed from p3-matrix 0.6.3 dense.rs:750: max(height.next_power_of_two(), min_height.next_power_of_two())."""
import re

from vf.extract import match_brace, ExtractError
from vf.unit import Unit

PRELUDE = r'''
#![allow(unused_imports, unused_variables, dead_code, unused_mut, unused_parens)]
use vstd::prelude::*;
verus! {
global size_of usize == 8;
pub open spec fn pow2i(k: int) -> int decreases k { if k <= 0 { 1 } else { 2 * pow2i(k - 1) } }
/// usize::next_power_of_two (0 and 1 give 1)
pub uninterp spec fn np2(n: usize) -> usize;
#[verifier::external_body] pub fn next_pow2_(n: usize) -> (r: usize) ensures r == np2(n) { unimplemented!() }
pub fn max_(a: usize, b: usize) -> (r: usize) ensures r == (if a >= b { a } else { b }) { if a >= b { a } else { b } }
/// p3_util::log2_ceil_usize: exact on powers of two
#[verifier::external_body] pub fn log2_ceil_usize(n: usize) -> (r: usize) ensures forall|a: usize| n == np2(a) ==> pow2i(r as int) == n { unimplemented!() }
/// p3-matrix 0.6.3 RowMajorMatrix::pad_to_min_power_of_two_height(min_height, fill): the height of the padded matrix
pub open spec fn padded_height(height: usize, min_height: usize) -> int { if np2(height) >= np2(min_height) { np2(height) as int } else { np2(min_height) as int } }
} // verus!
'''


def build():
    u = Unit('degpad', ['C10'])
    u.assume('RowMajorMatrix::pad_to_min_power_of_two_height pads to max(height.next_power_of_two(), min_height.next_power_of_two()) rows (p3-matrix 0.6.3 dense.rs:750, transcribed as padded_height); '
             'usize::next_power_of_two is an uninterpreted function np2; log2_ceil_usize is exact on its values')
    u.assume('every primitive table AIR pads its traces with that call and its own min_height, which the key generation sets to packing.min_trace_height() (with_min_height at each construction site)')
    u.text(PRELUDE)
    g = u.extract('circuit-prover/src/common.rs', '', 'get_airs_and_degrees_with_prep', 'get_airs_and_degrees_with_prep[compute_degree]')
    m = re.search(r'let compute_degree = \|(\w+): usize\| -> usize (\{)', g.body)
    if not m:
        raise ExtractError('lost anchor in get_airs_and_degrees_with_prep: `let compute_degree = |n: usize| -> usize {`')
    close = match_brace(g.body, m.start(2))
    arg = m.group(1)
    g.rewrites.append(('R14', f'function body := the body of the closure `compute_degree` ({m.start()} chars before and {len(g.body) - close} chars after it dropped); its captured variable min_height becomes a parameter', 'everything else of get_airs_and_degrees_with_prep'))
    g.body = g.body[m.start(2):close + 1]
    g.set_sig('R14', f'fn compute_degree({arg}: usize, min_height: usize) -> usize', sliced=True)
    g.rewrite_re('R6', r'(\w+)\.next_power_of_two\(\)', r'next_pow2_(\1)', min_count=0)
    g.rewrite_re('R6', r'(\w+)\.max\((\w+)\)', r'max_(\1, \2)', min_count=0)
    g.ensures('the_declared_degree_is_the_log_of_the_height_the_air_pads_to', f'pow2i(ret as int) == padded_height({arg}, min_height)')
    u.text('verus! {')
    u.emit(g)
    u.text('}')
    return u
