"""Unit `dsu` (C18 kernel): the witness numbering produced through the connect union-find does not depend on the iteration
order of its hash containers.

Real text: circuit/src/builder/compiler/lowerer/connect_dsu.rs  ConnectDsu::{find, union, alloc_witness, class_witness}
           circuit/src/builder/compiler/lowerer/state.rs        backfill_connect_mappings
find/union/alloc_witness/class_witness only get/insert (no iteration): they are proved to be functions of the abstract state
(roots of the forest, slot table), path compression included.  backfill_connect_mappings is the one place that ITERATES a
hash set: it is proved, for EVERY enumeration order of the set, to produce the same map (a spec function of the views)."""
import os
import re

from vf.extract import extract_item
from vf.unit import Unit, normalize_let_chains, normalize_while_let_some_ref, arm_bounds

HERE = os.path.dirname(os.path.abspath(__file__))

PRELUDE = r'''
#![allow(unused_imports, unused_variables, dead_code, unused_mut, unused_parens)]
use vstd::prelude::*;
use std::collections::{HashMap, HashSet, BTreeMap, BTreeSet, VecDeque};
verus! {
global size_of usize == 8;
#[derive(Clone, Copy, PartialEq, Eq, Hash, Structural)]
pub struct ExprId(pub u32);
#[derive(Clone, Copy, PartialEq, Eq, Hash, Structural)]
pub struct WitnessId(pub u32);
// ASSUMPTION (listed in evidence): the derived Hash/Eq of the id newtypes obey vstd's key model.
pub mod ax {
    use super::*;
    pub broadcast axiom fn expr_id_key_model() ensures #[trigger] vstd::std_specs::hash::obeys_key_model::<ExprId>();
}
pub struct WitnessAllocator { pub next: u32 }
impl WitnessAllocator {
    /// verified in-crate by the Kani harness c02_allocator_monotone
    #[verifier::external_body]
    pub fn alloc(&mut self) -> (r: WitnessId) ensures r.0 == old(self).next, final(self).next == old(self).next + 1 { unimplemented!() }
}
} // verus!
'''

SPEC = r'''
verus! {
/// compressing one node onto its own root keeps the forest acyclic and every root unchanged
pub proof fn lemma_compress_aux(rw: RW, stamp: Map<ExprId, nat>, bound: nat, v: ExprId, r: ExprId, x: ExprId)
    requires stamped(rw, stamp, bound), rw.dom().contains(v), root_of(rw, v, r), v != r
    ensures root_of(rw.insert(v, r), x, rootf(rw, x))
    decreases (if rw.dom().contains(x) { bound - stamp[x] } else { 0 })
{
    let rw2 = rw.insert(v, r);
    assert(acyclic(rw));
    lemma_root_total(rw, x);
    if !rw.dom().contains(x) {
        lemma_root_outside(rw, x);
        assert(iter(rw2, x, 0) == x);
    } else if x == v {
        lemma_root(rw, v, r);
        reveal_with_fuel(iter, 3);
        assert(iter(rw2, v, 1) == r);
    } else {
        let y = rw[x];
        if rw.dom().contains(y) { assert(stamp[x] < stamp[rw[x]]); }
        lemma_compress_aux(rw, stamp, bound, v, r, y);
        // rootf(rw, x) == rootf(rw, y)
        lemma_root_total(rw, y);
        let ny = choose|n: nat| iter(rw, y, n) == rootf(rw, y);
        reveal_with_fuel(iter, 2);
        assert(iter(rw, x, ny + 1) == rootf(rw, y));
        lemma_root(rw, x, rootf(rw, y));
        let n2 = choose|n: nat| iter(rw2, y, n) == rootf(rw, y);
        assert(iter(rw2, x, n2 + 1) == rootf(rw, y));
    }
}
pub proof fn lemma_compress(rw: RW, v: ExprId, r: ExprId)
    requires acyclic(rw), rw.dom().contains(v), root_of(rw, v, r), v != r
    ensures acyclic(rw.insert(v, r)), forall|x: ExprId| #[trigger] rootf(rw.insert(v, r), x) == rootf(rw, x)
{
    let (stamp, bound) = choose|stamp: Map<ExprId, nat>, bound: nat| stamped(rw, stamp, bound);
    let rw2 = rw.insert(v, r);
    assert(stamped(rw2, stamp, bound)) by {
        assert forall|k: ExprId| #[trigger] rw2.dom().contains(k) implies stamp.dom().contains(k) && stamp[k] < bound by { assert(rw.dom().contains(k)); }
        assert forall|k: ExprId| #[trigger] rw2.dom().contains(k) && rw2.dom().contains(rw2[k]) implies stamp[k] < stamp[rw2[k]] by {
            assert(rw.dom().contains(k));
            if k == v { assert(!rw.dom().contains(r)); } else { assert(rw.dom().contains(rw[k])); }
        }
    }
    assert forall|x: ExprId| #[trigger] rootf(rw2, x) == rootf(rw, x) by {
        lemma_compress_aux(rw, stamp, bound, v, r, x);
        lemma_root(rw2, x, rootf(rw, x));
    }
}
pub proof fn lemma_union(rw: RW, d: ExprId, c: ExprId)
    requires acyclic(rw), !rw.dom().contains(d), !rw.dom().contains(c), d != c
    ensures acyclic(rw.insert(d, c)), forall|x: ExprId| #[trigger] rootf(rw.insert(d, c), x) == (if rootf(rw, x) == d { c } else { rootf(rw, x) })
{
    lemma_acyclic_insert(rw, d, c);
    assert forall|x: ExprId| #[trigger] rootf(rw.insert(d, c), x) == (if rootf(rw, x) == d { c } else { rootf(rw, x) }) by {
        lemma_root_total(rw, x);
        lemma_root_insert(rw, d, c, x, rootf(rw, x));
    }
}

pub struct ConnectDsu { pub parents: HashMap<ExprId, ExprId>, pub in_connect: HashSet<ExprId>, pub root_to_widx: HashMap<ExprId, WitnessId> }
impl ConnectDsu {
    pub open spec fn inv(&self) -> bool { acyclic(self.parents@) }
    /// abstract state: the class representative of every id, the slot table, the membership set
    pub open spec fn rep(&self, x: ExprId) -> ExprId { rootf(self.parents@, x) }
    pub open spec fn same_classes(&self, o: &ConnectDsu) -> bool { forall|x: ExprId| #[trigger] self.rep(x) == o.rep(x) }
    /// `self.in_connect.iter().copied().collect()`: every member exactly once, in an order the hash set chooses
    #[verifier::external_body]
    pub fn connected_vec(&self) -> (r: Vec<ExprId>)
        ensures r@.no_duplicates(), r@.to_set() == self.in_connect@
    { unimplemented!() }
}
pub struct LowererState { pub dsu: ConnectDsu, pub expr_to_widx: HashMap<ExprId, WitnessId> }
/// what backfill must produce, as a function of the VIEWS only: every member of a connect class that has a slot and no mapping yet gets the class slot
pub open spec fn backfilled(m0: Map<ExprId, WitnessId>, members: Set<ExprId>, rep: spec_fn(ExprId) -> ExprId, slots: Map<ExprId, WitnessId>) -> Map<ExprId, WitnessId> {
    Map::new(m0.dom().union(members.filter(|e: ExprId| slots.dom().contains(rep(e)))),
             |e: ExprId| if m0.dom().contains(e) { m0[e] } else { slots[rep(e)] })
}
} // verus!
'''


def build():
    u = Unit('dsu', ['C18'])
    u.rlimit = 80
    u.assume('derived Hash/Eq of ExprId obey vstd::std_specs::hash::obeys_key_model; hashbrown maps/sets treated as std (R7)')
    u.assume('iterating a hash set yields every member exactly once in an unspecified order (connected_vec: no_duplicates, to_set == view) -- the nondeterminism being quantified over')
    u.assume('WitnessAllocator::alloc returns the next id (Kani harness c02_allocator_monotone)')
    u.text(PRELUDE)
    rw = re.sub(r'\broot\(', 'rootf(', open(os.path.join(HERE, 'rw_spec.rs')).read().replace('WitnessId', 'ExprId'))
    u.text(rw)
    u.text('verus! { broadcast use {ax::expr_id_key_model, vstd::std_specs::hash::group_hash_axioms}; }')
    u.text(SPEC)
    D = 'circuit/src/builder/compiler/lowerer/connect_dsu.rs'
    IMPL = r'impl ConnectDsu'

    f = u.extract(D, IMPL, 'find', 'ConnectDsu::find')
    normalize_while_let_some_ref(f)
    f.requires('forest', 'old(self).inv()')
    f.ensures('returns_the_class_representative', 'ret == old(self).rep(x)')
    f.ensures('path_compression_keeps_the_abstract_state', 'final(self).inv() && final(self).same_classes(old(self)) && final(self).in_connect == old(self).in_connect && final(self).root_to_widx == old(self).root_to_widx')
    f.at_start("""let ghost rw0 = self.parents@;
        let ghost (stamp, bound) = choose|stamp: Map<ExprId, nat>, bound: nat| stamped(rw0, stamp, bound);
        let ghost mut steps: nat = 0;""")
    # ---- pass 2 first (later text first): structural anchors = arm start / arm end of the generated `Some(p) => { .. }`
    o2, c2 = arm_bounds(f, 'Some(p) => {', nth=1)
    f.body = (f.body[:o2 + 1] + """ let ghost cur_b = self.parents@; let ghost v_b = v;
                proof {
                    assert(rw0.dom().contains(v) && rw0[v] == p);
                    assert(stamp[v] < bound);
                    if rw0.dom().contains(p) { assert(stamp[v] < stamp[rw0[v]]); }
                } """ + f.body[o2 + 1:c2] + """ proof {
                    // the arm compressed v_b onto the root and moved on to its old parent
                    assert(self.parents@ == cur_b.insert(v_b, root)); // @@A:compression_redirects_the_node_to_its_own_root
                    assert(v == p); // @@A:walk_follows_the_old_parent
                    lemma_root_total(cur_b, v_b);
                    assert(rootf(cur_b, v_b) == root);
                    assert(v_b != root);
                    lemma_compress(cur_b, v_b, root);
                    lemma_iter_step(rw0, x, vsteps); vsteps = vsteps + 1;
                    lemma_root_total(rw0, p);
                    let np = choose|n: nat| iter(rw0, p, n) == rootf(rw0, p);
                    reveal_with_fuel(iter, 2);
                    assert(iter(rw0, v_b, np + 1) == rootf(rw0, p));
                    lemma_root(rw0, v_b, rootf(rw0, p));
                } """ + f.body[c2:])
    o1, c1 = arm_bounds(f, 'Some(p) => {', nth=0)
    f.body = (f.body[:o1 + 1] + """ let ghost root_b = root;
                proof {
                    assert(rw0.dom().contains(root) && rw0[root] == p);
                    assert(stamp[root] < bound);
                    if rw0.dom().contains(p) { assert(stamp[root] < stamp[rw0[root]]); }
                    assert(p != root);   // a self loop is impossible in an acyclic forest
                } """ + f.body[o1 + 1:c1] + """ proof {
                    assert(root == p); // @@A:walk_follows_the_parent_pointer
                    lemma_iter_step(rw0, x, steps); steps = steps + 1;
                } """ + f.body[c1:])
    f.loop('loop {', invariant_except_break=[
        ('on_chain', 'self.parents@ == rw0 && stamped(rw0, stamp, bound) && iter(rw0, x, steps) == root && *self == *old(self)'),
    ], ensures=[
        ('pass1', 'self.parents@ == rw0 && *self == *old(self) && root_of(rw0, x, root)'),
    ], decreases='if rw0.dom().contains(root) { bound - stamp[root] } else { 0 }', nth=0)
    f.before('let mut v = x;', 'proof { lemma_root(rw0, x, root); assert(acyclic(rw0)); } let ghost mut vsteps: nat = 0;')
    f.loop('loop {', invariant_except_break=[
        ('compressed', 'acyclic(self.parents@) && (forall|y: ExprId| #[trigger] rootf(self.parents@, y) == rootf(rw0, y)) && self.in_connect == old(self).in_connect && self.root_to_widx == old(self).root_to_widx'),
        ('walking_the_old_path', 'stamped(rw0, stamp, bound) && iter(rw0, x, vsteps) == v && rootf(rw0, v) == root && !rw0.dom().contains(root)'),
        ('untouched_ahead', 'forall|k: ExprId| rw0.dom().contains(k) && stamp[k] >= (if rw0.dom().contains(v) { stamp[v] } else { bound }) ==> #[trigger] self.parents@.dom().contains(k) && self.parents@[k] == rw0[k]'),
        ('same_keys', 'self.parents@.dom() == rw0.dom()'),
    ], ensures=[
        ('pass2', 'acyclic(self.parents@) && (forall|y: ExprId| #[trigger] rootf(self.parents@, y) == rootf(rw0, y)) && self.in_connect == old(self).in_connect && self.root_to_widx == old(self).root_to_widx'),
    ], decreases='if rw0.dom().contains(v) { bound - stamp[v] } else { 0 }', nth=1)
    f.bind_tail('r_', 'proof { assert(self.same_classes(old(self))); }')

    un = u.extract(D, IMPL, 'union', 'ConnectDsu::union')
    un.requires('forest', 'old(self).inv()')
    un.ensures('merges_exactly_the_two_classes', '''final(self).inv() && final(self).in_connect == old(self).in_connect && final(self).root_to_widx == old(self).root_to_widx
            && forall|x: ExprId| #[trigger] final(self).rep(x) == (if old(self).rep(x) == old(self).rep(b) { old(self).rep(a) } else { old(self).rep(x) })''')
    un.at_start('let ghost s0 = *self; let ghost p0 = self.parents@;')
    un.before('let rb = self.find(b);', 'let ghost s1 = *self; let ghost p1 = self.parents@;')
    un.before('if ra != rb {', """let ghost s2 = *self; let ghost p2 = self.parents@;
        proof {
            // a representative is a non-key of the forest it was computed in, and stays one under path compression
            lemma_root_total(p0, a); lemma_root_outside(p0, ra);
            lemma_root_total(p1, b); lemma_root_outside(p1, rb);
            assert(s1.rep(ra) == s0.rep(ra)); assert(s2.rep(ra) == s1.rep(ra)); assert(s2.rep(rb) == s1.rep(rb));
            lemma_root_total(p2, ra); lemma_root_total(p2, rb);
            assert(!p2.dom().contains(ra) && !p2.dom().contains(rb));
            assert(s1.rep(b) == s0.rep(b));
            assert forall|x: ExprId| #[trigger] s2.rep(x) == s0.rep(x) by { assert(s2.rep(x) == s1.rep(x)); assert(s1.rep(x) == s0.rep(x)); }
        }""")
    un.at_end("""proof {
            if ra != rb { assert(self.parents@ == p2.insert(rb, ra)); // @@A:second_root_attached_under_the_first
                lemma_union(p2, rb, ra); } else { assert(self.parents@ == p2); }
            assert forall|x: ExprId| #[trigger] self.rep(x) == (if s0.rep(x) == s0.rep(b) { s0.rep(a) } else { s0.rep(x) }) by {
                assert(s2.rep(x) == s0.rep(x));
                if ra != rb { assert(rootf(p2.insert(rb, ra), x) == (if rootf(p2, x) == rb { ra } else { rootf(p2, x) })); }
            }
        }""")

    cw = u.extract(D, IMPL, 'class_witness', 'ConnectDsu::class_witness')
    cw.rewrite('R6', 'self.root_to_widx.get(&root).copied()', '(match self.root_to_widx.get(&root) { Some(w_) => Some(*w_), None => None })')
    cw.requires('forest', 'old(self).inv()')
    cw.ensures('slot_of_the_class', 'ret == (if old(self).root_to_widx@.dom().contains(old(self).rep(expr_id)) { Some(old(self).root_to_widx@[old(self).rep(expr_id)]) } else { None::<WitnessId> })')
    cw.ensures('abstract_state_unchanged', 'final(self).inv() && final(self).same_classes(old(self)) && final(self).in_connect == old(self).in_connect && final(self).root_to_widx == old(self).root_to_widx')

    aw = u.extract(D, IMPL, 'alloc_witness', 'ConnectDsu::alloc_witness')
    aw.rewrite('R6', '*self .root_to_widx .entry(root) .or_insert_with(|| alloc.alloc())',
               '(match self.root_to_widx.get(&root) { Some(w_) => *w_, None => { let w_ = alloc.alloc(); self.root_to_widx.insert(root, w_); w_ } })')
    aw.requires('forest', 'old(self).inv()')
    aw.at_start('let ghost s0 = *self; let ghost mut s1 = *self;')
    aw.after('let root = self.find(expr_id);', 'proof { s1 = *self; }')
    aw.bind_tail('r_', 'proof { assert(self.parents@ == s1.parents@); assert forall|x: ExprId| #[trigger] self.rep(x) == s0.rep(x) by { assert(s1.rep(x) == s0.rep(x)); } }')
    MEM = 'old(self).in_connect@.contains(expr_id)'
    RR = 'old(self).rep(expr_id)'
    aw.ensures('abstract_state', 'final(self).inv() && final(self).same_classes(old(self)) && final(self).in_connect == old(self).in_connect')
    aw.ensures('class_slot_shared', f'{MEM} && old(self).root_to_widx@.dom().contains({RR}) ==> ret == old(self).root_to_widx@[{RR}] && final(self).root_to_widx@ == old(self).root_to_widx@ && final(alloc).next == old(alloc).next')
    aw.ensures('class_slot_fresh_on_first_access', f'{MEM} && !old(self).root_to_widx@.dom().contains({RR}) ==> ret.0 == old(alloc).next && final(self).root_to_widx@ == old(self).root_to_widx@.insert({RR}, ret) && final(alloc).next == old(alloc).next + 1')
    aw.ensures('non_member_gets_a_fresh_slot', f'!{MEM} ==> ret.0 == old(alloc).next && final(self).root_to_widx@ == old(self).root_to_widx@ && final(alloc).next == old(alloc).next + 1')

    S = 'circuit/src/builder/compiler/lowerer/state.rs'
    bf = u.extract(S, r"impl<'a, F: Field> LoweringState<'a, F>", 'backfill_connect_mappings', 'backfill_connect_mappings')
    bf.set_sig('R11', 'fn backfill_connect_mappings(&mut self)')
    bf.rewrite('R6', 'let connected: Vec<ExprId> = self.dsu.connected_exprs().collect();', 'let connected: Vec<ExprId> = self.dsu.connected_vec();')
    normalize_let_chains(bf)
    bf.rewrite('SPEC-iter-name', 'for expr_id in connected {', 'for expr_id in it: connected {')
    bf.requires('forest', 'old(self).dsu.inv()')
    bf.ensures('result_is_a_function_of_the_views_whatever_the_iteration_order',
               '''final(self).expr_to_widx@ == backfilled(old(self).expr_to_widx@, old(self).dsu.in_connect@, |e: ExprId| old(self).dsu.rep(e), old(self).dsu.root_to_widx@)''')
    bf.ensures('union_find_abstract_state_unchanged', 'final(self).dsu.inv() && final(self).dsu.same_classes(&old(self).dsu) && final(self).dsu.root_to_widx == old(self).dsu.root_to_widx && final(self).dsu.in_connect == old(self).dsu.in_connect')
    bf.at_start('''let ghost m0 = self.expr_to_widx@; let ghost mem = self.dsu.in_connect@; let ghost slots = self.dsu.root_to_widx@; let ghost d0 = self.dsu;''')
    bf.loop('for expr_id in it: connected', invariants=[
        ('order', 'it.seq() == connected@ && connected@.no_duplicates() && connected@.to_set() == mem'),
        ('dsu', 'self.dsu.inv() && self.dsu.same_classes(&d0) && self.dsu.root_to_widx@ == slots && self.dsu.root_to_widx == d0.root_to_widx && self.dsu.in_connect == d0.in_connect && d0 == old(self).dsu'),
        ('processed_prefix', '''self.expr_to_widx@ == backfilled(m0, connected@.take(it.index@ as int).to_set(), |e: ExprId| d0.rep(e), slots)'''),
    ])
    bf.before('for expr_id in it: connected', 'proof { assert(connected@.take(0).to_set() =~= Set::<ExprId>::empty()); assert(self.expr_to_widx@ =~= backfilled(m0, Set::<ExprId>::empty(), |e: ExprId| d0.rep(e), slots)); }')
    bf.at_loop_end('for expr_id in it: connected', '''proof {
                let k = it.index@ as int;
                let done0 = connected@.take(k).to_set(); let done1 = connected@.take(k + 1).to_set();
                assert(expr_id == connected@[k]);
                assert(connected@.take(k + 1) =~= connected@.take(k).push(expr_id));
                assert forall|e: ExprId| #[trigger] done1.contains(e) <==> (done0.contains(e) || e == expr_id) by {
                    if done1.contains(e) {
                        let t1 = connected@.take(k + 1); let j = choose|j: int| 0 <= j < t1.len() && #[trigger] t1[j] == e;
                        if j < k { assert(connected@.take(k)[j] == e); assert(connected@.take(k).contains(e)); }
                    }
                    if done0.contains(e) {
                        let t0 = connected@.take(k); let j = choose|j: int| 0 <= j < t0.len() && #[trigger] t0[j] == e;
                        assert(connected@.take(k + 1)[j] == e); assert(connected@.take(k + 1).contains(e));
                    }
                    if e == expr_id { assert(connected@.take(k + 1)[k] == e); assert(connected@.take(k + 1).contains(e)); }
                }
                assert(done1 =~= done0.insert(expr_id));
                assert(!done0.contains(expr_id)) by {
                    if done0.contains(expr_id) { let t0 = connected@.take(k); let j = choose|j: int| 0 <= j < t0.len() && #[trigger] t0[j] == expr_id; assert(connected@[j] == connected@[k]); }
                }
                assert(self.expr_to_widx@ =~= backfilled(m0, done1, |e: ExprId| d0.rep(e), slots)); // @@A:one_member_processed_like_the_view_function_says
            }''')
    bf.at_end('proof { assert(connected@.take(connected@.len() as int) =~= connected@); }')

    u.text('verus! {\nimpl ConnectDsu {')
    for g in (f, un, cw, aw):
        u.emit(g)
    u.text('}\nimpl LowererState {')
    u.emit(bf)
    u.text('}\n}')
    return u
