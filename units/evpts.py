"""Unit `evpts` (C07): the evaluation point of every matrix height for one query (precompute_evaluation_points).

Real text: recursion/src/pcs/fri/verifier.rs precompute_evaluation_points (whole).
Spec: for every height h of the (strictly descending) list the map holds GENERATOR * g_h^{rev(index >> (global_max - h))}, written in the form the
code computes it: the select-mul chain over the reversed top h_max index bits, cut after h bits and raised to 2^(h_max - h) (the chain of a
smaller height is a prefix of the tallest height's chain).  The map has exactly the listed heights as keys."""
import os
import re

from vf.extract import match_brace
from vf.unit import Unit
from units.fri import SPEC as FRI_SPEC
from units.fold import SPEC as FOLD_SPEC, erase_sig, common
from units.fchain import unsuccessors

HERE = os.path.dirname(os.path.abspath(__file__))

SPEC = r'''
verus! {
pub uninterp spec fn nsq(x: NF) -> NF;                          // x.square()
pub open spec fn nsqn(x: NF, j: nat) -> NF decreases j { if j == 0 { x } else { nsq(nsqn(x, (j - 1) as nat)) } }
pub uninterp spec fn ngenerator() -> NF;                        // F::GENERATOR (the coset shift)
impl NF {
    #[verifier::external_body] pub fn square(&self) -> (r: NF) ensures r == nsq(*self) { unimplemented!() }
    #[verifier::external_body] pub fn generator() -> (r: NF) ensures r == ngenerator() { unimplemented!() }
}
/// BTreeMap<usize, ()> used as a key set
pub struct KeySet { pub s: Ghost<Set<usize>> }
impl KeySet {
    /// `SLICE.iter().map(|&h| (h, ())).collect()`
    #[verifier::external_body] pub fn from_slice(sl: &[usize]) -> (r: Self) ensures r.s@ == sl@.to_set() { unimplemented!() }
    #[verifier::external_body] pub fn contains_key(&self, k: &usize) -> (r: bool) ensures r == self.s@.contains(*k) { unimplemented!() }
}
/// BTreeMap<usize, Target>
pub struct EvalPoints { pub m: Ghost<Map<usize, Target>> }
impl EvalPoints {
    #[verifier::external_body] pub fn new() -> (r: Self) ensures r.m@ == Map::<usize, Target>::empty() { unimplemented!() }
    #[verifier::external_body] pub fn insert(&mut self, k: usize, v: Target) ensures final(self).m@ == old(self).m@.insert(k, v) { unimplemented!() }
}
/// the select-mul chain over the reversed top h_max index bits after n bits: prod_{t<n} (bits[(glmh - hmax) + hmax - 1 - t] ? lift(g^(2^t)) : 1), g = two_adic_generator(hmax)
pub open spec fn echain<F: Field>(bits: Seq<F>, glmh: int, hmax: nat, n: int) -> F decreases n {
    if n <= 0 { F::fone() } else { echain(bits, glmh, hmax, n - 1).fmul(if bits[glmh - n] == F::fone() { lift::<F>(nsqn(gen(hmax), (n - 1) as nat)) } else { F::fone() }) }
}
/// evaluation point of height h
pub open spec fn eval_point<F: Field>(bits: Seq<F>, glmh: int, hmax: nat, h: int) -> F {
    lift::<F>(ngenerator()).fmul(if h == hmax { echain(bits, glmh, hmax, h) } else { fpow(echain(bits, glmh, hmax, h), pow2((hmax - h) as nat)) })
}
pub open spec fn strictly_desc(s: Seq<usize>) -> bool { forall|i: int, j: int| 0 <= i < j < s.len() ==> s[i] > s[j] }
} // verus!
'''


def unslice_rev_collect(f):
    """R6: `SLICE_EXPR.iter().rev().copied().collect()` (SLICE_EXPR = `v[a..b]`) -> `{ let sl_ = &SLICE_EXPR; let mut v_rc_ = Vec::new(); for rc_ in 0..sl_.len() { v_rc_.push(sl_[sl_.len() - 1 - rc_]); } v_rc_ }`"""
    m = re.search(r'(\w+\[[^\]]+\])\s*\.iter\(\)\s*\.rev\(\)\s*\.copied\(\)\s*\.collect\(\)', f.body)
    if not m:
        return f
    new = f'{{ let sl_ = &{m.group(1)}; let mut v_rc_: Vec<Target> = Vec::new(); for rc_ in 0..sl_.len() {{ v_rc_.push(sl_[sl_.len() - 1 - rc_]); }} v_rc_ }}'
    f.body = f.body[:m.start()] + new + f.body[m.end():]
    f.rewrites.append(('R6', '`v[a..b].iter().rev().copied().collect()` -> reverse push loop', ''))
    return f


def build():
    u = Unit('evpts', ['C07'])
    u.rlimit = 100
    u.assume('native constants (two_adic_generator, square, GENERATOR, EF::from) are uninterpreted functions of exactly the arguments the code passes')
    u.assume('builder primitives (define_const, alloc_const, select, mul, alloc_mul, exp_power_of_2) meet the contracts of the shared gadget prelude (select / exp_power_of_2 proved in unit gad)')
    u.assume('R7: BTreeMap<usize, ()> as a key set and BTreeMap<usize, Target> by their views; R9: the two debug_assert!s (non-empty, strictly descending heights) are the precondition')
    u.text(open(os.path.join(HERE, 'gadget_prelude.rs')).read())
    u.text(FRI_SPEC)
    u.text(open(os.path.join(HERE, 'fri_rec_spec.rs')).read().replace('pub fn one_hot_from_bits', 'pub fn one_hot_from_bits_unused').replace('/// generic one-hot builder', '/// (unused here) generic one-hot builder'))
    u.text(FOLD_SPEC)
    u.text(SPEC)
    V = 'recursion/src/pcs/fri/verifier.rs'
    e = common(erase_sig(u.extract(V, '', 'precompute_evaluation_points', 'precompute_evaluation_points')))
    e.sig = e.sig.replace('BTreeMap<usize, Target>', 'EvalPoints')
    e.erase_macro('debug_assert!')
    unslice_rev_collect(e)
    unsuccessors(e)
    e.rewrite_re('R7', r'let (\w+): BTreeMap<usize, \(\)> =\s*(\w+\[[^\]]+\])\s*\.iter\(\)\s*\.map\(\|&(\w+)\| \(\3, \(\)\)\)\s*\.collect\(\);', r'let \1: KeySet = KeySet::from_slice(&\2);', min_count=0)
    e.rewrite_re('R7', r'let mut (\w+) = BTreeMap::new\(\);', r'let mut \1: EvalPoints = EvalPoints::new();', min_count=0)
    e.rewrite_re('R11', r'\bF::GENERATOR\b', 'NF::generator()', min_count=0)
    e.rewrite_re('R11', r'\bVec<_>', 'Vec<Target>', min_count=0)
    e.attr('#[verifier::loop_isolation(false)]')
    e.requires('heights', '''unique_heights_desc@.len() >= 1 && strictly_desc(unique_heights_desc@) && unique_heights_desc@[0] <= log_global_max_height && log_global_max_height <= index_bits@.len()
            && log_global_max_height < 0x1_0000_0000 && forall|i: int| 0 <= i < unique_heights_desc@.len() ==> #[trigger] unique_heights_desc@[i] >= 1''')
    e.requires('allocated_boolean_index_bits', 'old(builder).has_all(index_bits@) && all_bool(old(builder).vals_of(index_bits@))')
    e.ensures('frame', 'final(builder).extends_pure(old(builder))')
    e.ensures('one_point_per_listed_height', 'ret.m@.dom() =~= unique_heights_desc@.to_set()')
    e.ensures('each_point_is_the_coset_point_of_its_height', '''forall|h: usize| ret.m@.dom().contains(h) ==> final(builder).has(#[trigger] ret.m@[h])
            && final(builder).val(ret.m@[h]) == eval_point::<EF>(old(builder).vals_of(index_bits@), log_global_max_height as int, unique_heights_desc@[0] as nat, h as int)''')
    CONSTS = 'builder.has(one) && builder.val(one) == EF::fone() && builder.has(generator) && builder.val(generator) == lift::<EF>(ngenerator())'
    e.at_start('''let ghost b0 = *old(builder); let ghost bv = old(builder).vals_of(index_bits@); let ghost glmh = log_global_max_height as int; let ghost hm = unique_heights_desc@[0] as nat; let ghost hs = unique_heights_desc@;''')
    heads = ['for rc_ in 0..sl_.len()', 'for s_ in 0..(', 'for i in 0..h_max']
    if all(h in e.body for h in heads):
        lo = e._loop_open('for rc_ in 0..sl_.len()')
        e.body = e.body[:lo + 1] + ' let ghost v_b = v_rc_@; ' + e.body[lo + 1:]
        e.at_loop_end('for rc_ in 0..sl_.len()', '''proof { assert forall|t: int| 0 <= t < v_rc_@.len() implies #[trigger] v_rc_@[t] == index_bits@[glmh - 1 - t] by { if t < v_b.len() { assert(v_rc_@[t] == v_b[t]); } else { assert(sl_@[sl_@.len() - 1 - rc_] == index_bits@[bits_reduced + (sl_@.len() - 1 - rc_)]); } } }''')
        lo = e._loop_open('for s_ in 0..(')
        e.body = e.body[:lo + 1] + ' let ghost v_b = v_s_@; let ghost b_b = *builder; ' + e.body[lo + 1:]
        e.at_loop_end('for s_ in 0..(', """proof { reveal_with_fuel(nsqn, 2); assert forall|q: int| 0 <= q < v_s_@.len() implies builder.has(#[trigger] v_s_@[q]) && (q < s_ + 1 ==> builder.val(v_s_@[q]) == lift::<EF>(nsqn(gen(hm), q as nat))) by { if q < s_ { assert(v_s_@[q] == v_b[q]); assert(b_b.has(v_b[q])); } } }""")
        e.before('for i in 0..h_max', '''let ghost b1 = *builder; proof {
            assert(capture_set.s@ =~= hs.subrange(1, hs.len() as int).to_set());
            assert forall|h: usize| capture_set.s@.contains(h) implies 1 <= h < hm by { let t = choose|t: int| 0 <= t < hs.subrange(1, hs.len() as int).len() && hs.subrange(1, hs.len() as int)[t] == h; assert(hs[t + 1] == h); }
        }''')
        lo = e._loop_open('for i in 0..h_max')
        e.body = e.body[:lo + 1] + ''' let ghost b_i0 = *builder; let ghost m_i0 = result.m@;
            proof { assert(rev_bits@[i as int] == index_bits@[glmh - 1 - i]); assert(is_bool(bv[glmh - 1 - i])); assert(b0.has(index_bits@[glmh - 1 - i])); assert(bv[glmh - 1 - i] == b0.val(index_bits@[glmh - 1 - i])); } ''' + e.body[lo + 1:]
        e.before('let bits_done = i + 1;', 'proof { reveal_with_fuel(echain, 2); assert(builder.val(g_pow) == echain(bv, glmh, hm, i + 1)); }')
        e.at_loop_end('for i in 0..h_max', '''proof {
                assert forall|h: usize| #![trigger result.m@.dom().contains(h)] #![trigger capture_set.s@.contains(h)] result.m@.dom().contains(h) <==> (capture_set.s@.contains(h) && h <= i + 1) by {
                    if capture_set.s@.contains(bits_done) { assert(result.m@.dom() =~= m_i0.dom().insert(bits_done)); } else { assert(result.m@ == m_i0); }
                    assert(m_i0.dom().contains(h) <==> (capture_set.s@.contains(h) && h <= i));
                }
                assert forall|h: usize| result.m@.dom().contains(h) implies builder.has(#[trigger] result.m@[h]) && builder.val(result.m@[h]) == eval_point::<EF>(bv, glmh, hm, h as int) by {
                    if h == bits_done && capture_set.s@.contains(bits_done) { } else { assert(m_i0.dom().contains(h)); assert(result.m@[h] == m_i0[h]); assert(b_i0.has(m_i0[h])); }
                }
            }''')
        e.after('result.insert(bits_done, x);', 'proof { assert(capture_set.s@.contains(bits_done)); assert(bits_done < hm); assert(builder.val(x) == eval_point::<EF>(bv, glmh, hm, bits_done as int)); assert(builder.has(x)); }')
        e.before('result\n}', '''proof {
            let tail = hs.subrange(1, hs.len() as int);
            assert forall|h: usize| result.m@.dom().contains(h) <==> hs.to_set().contains(h) by {
                if hs.to_set().contains(h) { assert(hs.contains(h)); let t = choose|t: int| 0 <= t < hs.len() && hs[t] == h; if t >= 1 { assert(tail[t - 1] == h); assert(tail.contains(h)); assert(tail.to_set().contains(h)); assert(capture_set.s@.contains(h)); } else { assert(h == h_max); } }
                if result.m@.dom().contains(h) { if h == h_max { assert(hs[0] == h); assert(hs.contains(h)); } else { assert(capture_set.s@.contains(h)); assert(tail.to_set().contains(h)); assert(tail.contains(h)); let t = choose|t: int| 0 <= t < tail.len() && tail[t] == h; assert(hs[t + 1] == h); assert(hs.contains(h)); } }
            }
        }''')
        e.loop('for rc_ in 0..sl_.len()', invariants=[('reversed', 'v_rc_@.len() == rc_ && sl_@ == index_bits@.subrange(bits_reduced as int, bits_reduced + h_max) && forall|t: int| 0 <= t < rc_ ==> #[trigger] v_rc_@[t] == index_bits@[glmh - 1 - t]')])
        e.loop('for s_ in 0..(', invariants=[
            ('powers', 'builder.extends_pure(&b0) && builder.has_all(v_s_@) && v_s_@.len() == s_ && cur_s_ == nsqn(gen(hm), s_ as nat) && forall|q: int| 0 <= q < s_ ==> builder.val(#[trigger] v_s_@[q]) == lift::<EF>(nsqn(gen(hm), q as nat))')])
        e.loop('for i in 0..h_max', invariants=[
            ('chain', f'builder.extends_pure(&b1) && {CONSTS} && builder.has(g_pow) && builder.val(g_pow) == echain(bv, glmh, hm, i as int)'),
            ('keys', 'forall|h: usize| #![trigger result.m@.dom().contains(h)] #![trigger capture_set.s@.contains(h)] result.m@.dom().contains(h) <==> (capture_set.s@.contains(h) && h <= i)'),
            ('values', 'forall|h: usize| result.m@.dom().contains(h) ==> builder.has(#[trigger] result.m@[h]) && builder.val(result.m@[h]) == eval_point::<EF>(bv, glmh, hm, h as int)'),
        ])
    u.text('verus! {')
    u.emit(e)
    u.text('}')
    return u
